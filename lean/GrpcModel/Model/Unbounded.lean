/-!
Model of `internal/buffer/unbounded.go` (`buffer.Unbounded[T]`), C31.

Every method of `Unbounded` holds `b.mu` for its whole body, so each method call is one atomic
step; the consumer's receive on the channel returned by `Get()` is a separate atomic step
(`recv`).  "All interleavings of Put/Load/Get/Close" is therefore "all op sequences".

The cap-1 channel `b.c` is modelled by `chan : Option α` (the buffered slot) and `chanClosed`.
Go semantics ported: a (select-)send on a closed channel panics, `close` of a closed channel
panics, a receive on a closed channel first drains the buffered value and only then reports
closed.  `Out.panic` exists so that "the code never does that" is a theorem, not an assumption.
-/
namespace GrpcModel.Unbounded

/-- `Unbounded[T]` fields: `c` (slot + closed flag), `backlog`, `closing`, `closed`. -/
structure St (α : Type) where
  chan       : Option α
  chanClosed : Bool
  backlog    : List α
  closing    : Bool
  closed     : Bool
deriving Repr, DecidableEq

/-- `NewUnbounded`. -/
def init {α : Type} : St α := ⟨none, false, [], false, false⟩

inductive Op (α : Type)
  | put (v : α)
  | load
  | close
  | recv
deriving Repr, DecidableEq

inductive Out (α : Type)
  | ok            -- Put returned nil
  | rejected      -- Put returned errBufferClosed
  | got (v : α)   -- receive delivered v
  | eos           -- receive reported "closed"
  | none          -- Load/Close returned; or receive would block
  | panic         -- send on / close of a closed channel (never reachable: theorem `no_panic`)
deriving Repr, DecidableEq

/-- The two places that send are `select { case b.c <- v: …; default: }`: on a closed channel that
    panics, on an empty slot it sends, on a full slot it takes `default`. -/
def step {α : Type} (s : St α) : Op α → St α × Out α
  /- func (b *Unbounded[T]) Put(t T) error -/
  | .put v =>
    if s.closing then (s, .rejected)
    else if s.backlog.isEmpty then
      if s.chanClosed then (s, .panic)
      else if s.chan.isNone then ({ s with chan := some v }, .ok)
      else ({ s with backlog := s.backlog ++ [v] }, .ok)
    else ({ s with backlog := s.backlog ++ [v] }, .ok)
  /- func (b *Unbounded[T]) Load() -/
  | .load =>
    match s.backlog with
    | x :: rest =>
      if s.chanClosed then (s, .panic)
      else if s.chan.isNone then ({ s with chan := some x, backlog := rest }, .none)
      else (s, .none)
    | [] =>
      if s.closing && !s.closed then
        if s.chanClosed then (s, .panic) else ({ s with closed := true, chanClosed := true }, .none)
      else (s, .none)
  /- func (b *Unbounded[T]) Close() -/
  | .close =>
    if s.closing then (s, .none)
    else if s.backlog.isEmpty then
      if s.chanClosed then (s, .panic)
      else ({ s with closing := true, closed := true, chanClosed := true }, .none)
    else ({ s with closing := true }, .none)
  /- `v, ok := <-b.Get()` (non-blocking view: `.none` = would block) -/
  | .recv =>
    match s.chan with
    | some v => ({ s with chan := none }, .got v)
    | none => if s.chanClosed then (s, .eos) else (s, .none)

/-- Abstract FIFO contents: the channel slot followed by the backlog. -/
def abs {α : Type} (s : St α) : List α := s.chan.toList ++ s.backlog

/-- Run an op list, recording (op, out). -/
def run {α : Type} (s : St α) : List (Op α) → St α × List (Op α × Out α)
  | [] => (s, [])
  | o :: os =>
    let r := step s o
    let q := run r.1 os
    (q.1, (o, r.2) :: q.2)

def accepted {α : Type} : List (Op α × Out α) → List α
  | [] => []
  | (.put v, .ok) :: t => v :: accepted t
  | _ :: t => accepted t

def received {α : Type} : List (Op α × Out α) → List α
  | [] => []
  | (_, .got v) :: t => v :: received t
  | _ :: t => received t

/-! ### The executable property predicate (monitor) for C31 / unbounded queue

It looks only at ops and *outputs* (of the implementation, in the driver; of the model, in the
theorem `GrpcProofs.C31.unbounded_monitor_ok`), never at the buffer's state. -/

structure Mon (α : Type) where
  acc       : List α   -- values whose Put was accepted and that were not yet received
  closeSeen : Bool     -- Close was called
  needLoad  : Bool     -- a value was received and Load was not called since
  proto     : Bool     -- the consumer has followed the "Load after every successful read" contract so far
deriving Repr, DecidableEq

def Mon.init {α : Type} : Mon α := ⟨[], false, false, true⟩

inductive Verdict
  | ok
  | na
  | viol (code : Nat)
deriving Repr, DecidableEq

def violText : Nat → String
  | 1 => "Put accepted after Close"
  | 2 => "Put rejected although Close was never called"
  | 3 => "value delivered out of order, twice, or never put"
  | 4 => "end-of-stream signalled before all accepted values were consumed (or without Close)"
  | 5 => "accepted value lost: channel empty for a consumer that follows the Load contract"
  | 6 => "end-of-stream never signalled: closed, everything consumed, Load called, channel still open"
  | 7 => "implementation panicked (send on / close of closed channel)"
  | 8 => "unexpected output for this op"
  | _ => "?"

def Mon.step {α : Type} [DecidableEq α] (m : Mon α) (o : Op α) (out : Out α) : Mon α × Verdict :=
  match o, out with
  | _, .panic => (m, .viol 7)
  | .put v, .ok => if m.closeSeen then (m, .viol 1) else ({ m with acc := m.acc ++ [v] }, .ok)
  | .put _, .rejected => if m.closeSeen then (m, .ok) else (m, .viol 2)
  | .load, .none => ({ m with needLoad := false }, .na)
  | .close, .none => ({ m with closeSeen := true }, .na)
  | .recv, .got v =>
    let p := m.proto && !m.needLoad
    match m.acc with
    | x :: rest => if x = v then ({ m with acc := rest, needLoad := true, proto := p }, .ok)
                   else ({ m with proto := p }, .viol 3)
    | [] => ({ m with proto := p }, .viol 3)
  | .recv, .eos =>
    let p := m.proto && !m.needLoad
    if m.closeSeen && m.acc.isEmpty then ({ m with proto := p }, .ok) else ({ m with proto := p }, .viol 4)
  | .recv, .none =>
    let p := m.proto && !m.needLoad
    if p && !m.acc.isEmpty then ({ m with proto := p }, .viol 5)
    else if p && m.closeSeen then ({ m with proto := p }, .viol 6)
    else ({ m with proto := p }, .ok)
  | _, _ => (m, .viol 8)

/-- Model and monitor run together over an op list: the list of verdicts. -/
def verdicts {α : Type} [DecidableEq α] (s : St α) (m : Mon α) : List (Op α) → List Verdict
  | [] => []
  | o :: os =>
    let r := step s o
    let q := Mon.step m o r.2
    q.2 :: verdicts r.1 q.1 os

end GrpcModel.Unbounded
