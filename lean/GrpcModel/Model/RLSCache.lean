/-
Model of balancer/rls/cache.go (`lru` + `dataCache`).  Not safe for concurrent access in Go: every
call happens under the balancer's cacheMu, so the methods are the atomic steps (tie T1/T2 at op level).

The Go structure keeps TWO containers — `entries map[cacheKey]*cacheEntry` and the `lru` list of keys
(front = least recently used) — and the model keeps both: `entries` as a total function
key → Option Entry (pointwise updates), `lru` as a list of keys.  `time.Now()` is the explicit
argument `now`; times are absolute (same unit everywhere); a `time.Time` that `IsZero` is 0.
Only the fields the cache itself reads are modelled: size, earliestEvictTime, expiryTime,
backoffExpiryTime, and whether a backoff timer exists and when it fires (`timerAt`; `Stop()`
returns true iff it has not fired yet).
-/
namespace GrpcModel.RLSCache

structure Entry where
  size          : Int
  earliestEvict : Nat
  expiry        : Nat
  backoffExpiry : Nat
  hasBackoff    : Bool          -- entry.backoffState != nil
  timerAt       : Option Nat    -- entry.backoffState.timer (none = nil)
deriving Repr, DecidableEq, Inhabited

structure DC where
  maxSize     : Int
  currentSize : Int
  lru         : List Nat
  entries     : Nat → Option Entry
  shutdown    : Bool

def newDataCache (size : Int) : DC :=
  { maxSize := size, currentSize := 0, lru := [], entries := fun _ => none, shutdown := false }

def setE (f : Nat → Option Entry) (k : Nat) (v : Option Entry) : Nat → Option Entry :=
  fun j => if j = k then v else f j

/-- deleteAndCleanup(key, entry) -/
def deleteAndCleanup (dc : DC) (key : Nat) (e : Entry) : DC :=
  { dc with entries := setE dc.entries key none, currentSize := dc.currentSize - e.size, lru := dc.lru.erase key }

/-- the `for dc.currentSize > size` loop of resize; `fuel` bounds the iterations (each one removes a
    list element; len+1 suffices).  Returns the cache and backoffCancelled. -/
def resizeLoop (now : Nat) (size : Int) : Nat → DC → Bool → DC × Bool
  | 0, dc, bc => (dc, bc)
  | fuel + 1, dc, bc =>
    if dc.currentSize > size then
      match dc.lru.head? with
      | none => (dc, bc)                         -- getLeastRecentlyUsed() = cacheKey{}: not in entries → break
      | some key =>
        match dc.entries key with
        | none => (dc, bc)                       -- "This should never happen": break
        | some e =>
          if e.earliestEvict > now then (dc, bc) -- too recent to be evicted: break
          else
            let stop := e.hasBackoff && (match e.timerAt with | some at_ => decide (now < at_) | none => false)
            resizeLoop now size fuel (deleteAndCleanup dc key e) (bc || stop)
    else (dc, bc)

def resize (dc : DC) (now : Nat) (size : Int) : DC × Bool :=
  if dc.shutdown then (dc, false)
  else
    let r := resizeLoop now size (dc.lru.length + 1) dc false
    ({ r.1 with maxSize := size }, r.2)

/-- an entry is expired when neither expiryTime nor backoffExpiryTime is in the future -/
def expired (now : Nat) (e : Entry) : Bool := !(decide (e.expiry > now) || decide (e.backoffExpiry > now))

/-- evictExpiredEntries: `for key, entry := range dc.entries` (the keys are exactly those of `lru`) -/
def evictExpired (dc : DC) (now : Nat) : DC × Bool :=
  if dc.shutdown then (dc, false)
  else
    dc.lru.foldl (fun (acc : DC × Bool) key =>
      match acc.1.entries key with
      | some e => if expired now e then (deleteAndCleanup acc.1 key e, true) else acc
      | none => acc) (dc, false)

/-- addEntry(key, entry): (cache, backoffCancelled, ok).  Caller contract: `key` is not in the cache. -/
def addEntry (dc : DC) (now : Nat) (key : Nat) (e : Entry) : DC × Bool × Bool :=
  if dc.shutdown then (dc, false, false)
  else if e.size > dc.maxSize then (dc, false, false)
  else
    let dc1 := { dc with entries := setE dc.entries key (some e), currentSize := dc.currentSize + e.size,
                         lru := dc.lru ++ [key] }
    if dc1.currentSize > dc1.maxSize then
      let r := resize dc1 now dc1.maxSize
      (r.1, r.2, true)
    else (dc1, false, true)

/-- updateEntrySize(entry, newSize) for the entry stored under `key` -/
def updateEntrySize (dc : DC) (key : Nat) (newSize : Int) : DC :=
  match dc.entries key with
  | none => dc
  | some e => { dc with currentSize := dc.currentSize - e.size + newSize,
                        entries := setE dc.entries key (some { e with size := newSize }) }

/-- getEntry(key): found? and the LRU order after makeRecent -/
def getEntry (dc : DC) (key : Nat) : DC × Option Entry :=
  if dc.shutdown then (dc, none)
  else match dc.entries key with
    | none => (dc, none)
    | some e => ({ dc with lru := dc.lru.erase key ++ [key] }, some e)

/-- removeEntryForTesting -/
def removeEntry (dc : DC) (key : Nat) : DC :=
  match dc.entries key with
  | none => dc
  | some e => deleteAndCleanup dc key e

/-- resetBackoffState -/
def resetBackoff (dc : DC) : DC × Bool :=
  if dc.shutdown then (dc, false)
  else
    ({ dc with entries := fun k => (dc.entries k).map fun e =>
         if e.hasBackoff then { e with timerAt := none, backoffExpiry := 0 } else e },
     dc.lru.any fun k => match dc.entries k with | some e => e.hasBackoff | none => false)

/-- stop -/
def stop (dc : DC) : DC :=
  let d := dc.lru.foldl (fun acc key => match acc.entries key with
    | some e => deleteAndCleanup acc key e
    | none => acc) dc
  { d with shutdown := true }

/-- Σ of the sizes of the entries (over the keys of the LRU list) -/
def sumSizes (dc : DC) : Int := (dc.lru.map fun k => ((dc.entries k).map (·.size)).getD 0).sum

end GrpcModel.RLSCache
