/-
Model of internal/resolver/dns/dns_resolver.go.

Part A (target parsing): `parseTarget`, `formatIP`, and Go's `net.SplitHostPort` (ported from
net/ipsock.go, Go 1.25) on byte lists. `netip.ParseAddr` is NOT modelled: whether the target
is an IP literal (and whether it is IPv4) is a parameter of the model (`isIP`, `is4`), supplied
by the real `netip.ParseAddr` in the correspondence run (trusted standard library).

Part B (pacing): the `watcher` loop as a state machine over an explicit virtual clock. A lookup
takes `dur` ns of virtual time (a parameter of the step that performs it; the watcher goroutine is
busy meanwhile, so the step is atomic for the model). The jittered backoff
`backoff.DefaultExponential.Backoff(k)` is random in the real code, so the delay actually used
is a parameter of the step that fires after a failure.
-/
namespace GrpcModel.Dns

/-! ### Part A -/

/-- split at the LAST occurrence of `c`: (before, after) -/
def lastSplit (c : UInt8) : List UInt8 → Option (List UInt8 × List UInt8)
  | [] => none
  | x :: xs => match lastSplit c xs with
    | some (a, b) => some (x :: a, b)
    | none => if x = c then some ([], xs) else none

/-- split at the FIRST occurrence of `c`: (before, after) -/
def firstSplit (c : UInt8) : List UInt8 → Option (List UInt8 × List UInt8)
  | [] => none
  | x :: xs => if x = c then some ([], xs) else
    match firstSplit c xs with
    | some (a, b) => some (x :: a, b)
    | none => none

inductive SErr | missingPort | tooManyColons | missingBracket | unexpectedLB | unexpectedRB
deriving DecidableEq, Repr

def colon : UInt8 := 58
def lbr : UInt8 := 91
def rbr : UInt8 := 93

/-- net.SplitHostPort -/
def splitHostPort (s : List UInt8) : Except SErr (List UInt8 × List UInt8) :=
  match lastSplit colon s with
  | none => .error .missingPort
  | some (pre, port) =>
    if s.head? = some lbr then
      match firstSplit rbr s with
      | none => .error .missingBracket
      | some (b, afterEnd) =>
        if afterEnd = [] then .error .missingPort
        else if b.length + 1 = pre.length then
          if (s.drop 1).contains lbr then .error .unexpectedLB
          else if afterEnd.contains rbr then .error .unexpectedRB
          else .ok (b.drop 1, port)
        else if afterEnd.head? = some colon then .error .tooManyColons
        else .error .missingPort
    else
      if pre.contains colon then .error .tooManyColons
      else if s.contains lbr then .error .unexpectedLB
      else if s.contains rbr then .error .unexpectedRB
      else .ok (pre, port)

inductive PErr | missingAddr | endsWithColon | invalid
deriving DecidableEq, Repr

def localhost : List UInt8 := [108, 111, 99, 97, 108, 104, 111, 115, 116]   -- "localhost"

/-- parseTarget(target, defaultPort); `isIP` = (netip.ParseAddr(target) succeeded). -/
def parseTarget (isIP : Bool) (t dflt : List UInt8) : Except PErr (List UInt8 × List UInt8) :=
  if t = [] then .error .missingAddr
  else if isIP then .ok (t, dflt)
  else match splitHostPort t with
    | .ok (h, p) =>
      if p = [] then .error .endsWithColon
      else .ok (if h = [] then localhost else h, p)
    | .error _ =>
      match splitHostPort (t ++ colon :: dflt) with
      | .ok (h, p) => .ok (h, p)
      | .error _ => .error .invalid

/-- formatIP(addr): `ip` = 0 not an IP, 4 IPv4, 6 IPv6 (from netip.ParseAddr / Is4). -/
def formatIP (ip : Nat) (a : List UInt8) : Option (List UInt8) :=
  if ip = 4 then some a else if ip = 6 then some (lbr :: a ++ [rbr]) else none

/-! ### Part B -/

inductive Mode
  | idle                 -- not built yet
  | waitRN (next : Nat)  -- last lookup succeeded; blocked on the ResolveNow channel
  | waitT (due : Nat)    -- blocked on the timer that fires at `due`
  | closed
deriving DecidableEq, Repr

structure W where
  now  : Nat
  mode : Mode
  rn   : Bool          -- a token sits in the 1-slot `rn` channel
  idx  : Nat           -- backoffIndex
  minI : Nat           -- MinResolutionInterval (ns)
  lastDone : Nat       -- instant at which the most recent lookup returned
  -- ghost history
  rnCalls  : Nat       -- ResolveNow calls so far
  consumed : Nat       -- tokens taken by the watcher
  lookups  : List (Nat × Bool)   -- (time, succeeded), newest first
deriving Repr

def W.init (minI : Nat) : W :=
  { now := 0, mode := .idle, rn := false, idx := 1, minI := minI, lastDone := 0, rnCalls := 0, consumed := 0, lookups := [] }

/-- one lookup STARTED at the current time, taking `dur`, with result `ok`; `delay` is the backoff the
    real code drew (used only after a failure). The clock is read AFTER the lookup returned:
    `nextResolutionTime = TimeNow().Add(MinResolutionInterval)` resp. `.Add(Backoff(idx))`. -/
def doLookup (w : W) (ok : Bool) (delay dur : Nat) : W :=
  let w := { w with lookups := (w.now, ok) :: w.lookups, now := w.now + dur, lastDone := w.now + dur }
  if ok then
    let next := w.now + w.minI
    if w.rn then { w with idx := 1, rn := false, consumed := w.consumed + 1, mode := .waitT next }
    else { w with idx := 1, mode := .waitRN next }
  else
    { w with idx := w.idx + 1, mode := .waitT (w.now + delay) }

inductive Ev
  | build (ok : Bool) (delay dur : Nat)  -- Build: the watcher starts and looks up at once
  | resolveNow
  | tick (to : Nat) (ok : Bool) (delay dur : Nat)  -- time advances to `to`; if the pending timer is due it fires and a lookup (taking `dur`) runs
  | close
deriving Repr

def step (w : W) : Ev → W
  | .build ok d dur => match w.mode with
    | .idle => doLookup w ok d dur
    | _ => w
  | .resolveNow =>
    let w := { w with rnCalls := w.rnCalls + 1 }
    match w.mode with
    | .waitRN next => { w with consumed := w.consumed + 1, mode := .waitT next }   -- token taken at once
    | .closed => w
    | _ => { w with rn := true }                                                      -- select … default: coalesced
  | .tick to ok d dur => match w.mode with
    | .waitT due =>
      if to < w.now then w
      else if to < due then { w with now := to }
      else doLookup { w with now := max w.now due } ok d dur    -- fires exactly at `due` (or now, if already due)
    | _ => if to < w.now then w else { w with now := to }
  | .close => { w with mode := .closed }

def run (w : W) : List Ev → W
  | [] => w
  | e :: es => run (step w e) es

/-- backoff.DefaultExponential band for retry count k (BaseDelay 1 s, ×1.6, MaxDelay 120 s,
    jitter 0.2), in integer nanoseconds: [0.8·b, 1.2·b] with b = min(10^9·1.6^k, 120·10^9). -/
def backoffBase (k : Nat) : Nat := min (1000000000 * 16 ^ k / 10 ^ k) 120000000000
def backoffLo (k : Nat) : Nat := backoffBase k * 8 / 10
def backoffHi (k : Nat) : Nat := backoffBase k * 12 / 10 + 1

end GrpcModel.Dns
