/-!
# Server-side graceful drain (C14, server half)

Ports the part of `internal/transport/http2_server.go` that decides which streams a draining server
accepts and when it closes the connection: `operateHeaders` (stream-id check, `maxStreamID`, the
`t.state != reachable` drop, `activeStreams`, `registerStream`), `Drain`, `handlePing` (the
`goAwayPing` ack), `outgoingGoAwayHandler` (heads-up GOAWAY(2^31-1)+PING and the goroutine waiting for
the ack or 5 s; final GOAWAY(maxStreamID), `state = draining`, "no active streams left"),
`writeStatus`/`finishStream`/`closeStream`/`deleteStream`, `handleRSTStream`, `Close`, the reader's
exit, and of `controlbuf.go`: `registerStreamHandler`, `serverHeaderHandler` (trailers),
`cleanupStreamHandler` (the `draining && len(estdStreams) == 0` exit), `goAwayHandler`, `run`'s tail.

One event = one critical section (reader iteration, loopy item, an API call).  Time in ms.
-/
namespace GrpcModel.ServerDrain

abbrev Bytes := List UInt8

/-- `goAwayPing.data` -/
def goAwayPing : Bytes := [1, 6, 1, 8, 0, 3, 3, 9]

inductive TState | reachable | draining | closing
deriving Repr, DecidableEq, Inhabited

/-- a stream for which `handle(s)` was called -/
structure SStrm where
  id : Nat
  active : Bool        -- in t.activeStreams
  done : Bool          -- state = streamDone
  cancelled : Bool     -- s.cancel() ran
deriving Repr, DecidableEq, Inhabited

inductive Item
  | register (id : Nat)
  | trailers (id : Nat) (rst : Bool)              -- serverHeaders{endStream} with its cleanupStream
  | cleanup (id : Nat) (rst : Bool) (code : Nat)
  | goAway (headsUp : Bool) (code : Nat) (closeConn : Bool)
  | pingAck (d : Bytes)
deriving Repr, DecidableEq, Inhabited

def Item.isGoAway : Item → Bool
  | .goAway _ _ _ => true
  | _ => false

inductive Wire
  | G (id code : Nat)
  | P (d : Bytes)
  | Pa (d : Bytes)
  | H (id : Nat)          -- trailers (END_STREAM)
  | R (id code : Nat)
deriving Repr, DecidableEq, Inhabited

structure State where
  now : Nat
  tstate : TState
  maxStreamID : Nat
  drainStarted : Bool           -- t.drainEvent != nil
  drainFired : Bool
  streams : List SStrm          -- in order of acceptance
  activeNil : Bool              -- Close set t.activeStreams = nil
  cbuf : List Item
  cbufClosed : Bool
  lDraining : Bool
  estd : List Nat
  lExited : Bool
  lBlocked : Bool
  lResume : Option (Option Bool)  -- blocked inside: none = end-of-batch flush; some r = the final-GOAWAY handler's Flush (r = its retErr / none = after exit flush)
  wbuf : List Wire
  held : Bool
  waiter : Option Nat           -- the goroutine of outgoingGoAwayHandler: deadline of its 5 s timer
  closeTimer : Option Nat       -- loopy exited with a non-I/O error: conn.Close() at readerDone or this time
  connClosed : Bool
  peerGone : Bool
  readerDone : Bool
  done : Bool                   -- close(t.done)
  finalGoAway : Option Nat      -- ghost: last-stream-id of the (first) final GOAWAY of a graceful drain, once written
  hdrPending : Option Nat       -- the reader is inside operateHeaders for this stream id, between `t.maxStreamID = streamID`
                                -- and the `t.state` check; it holds t.maxStreamMu (Lock(); defer Unlock() at the top)
  dropped : List Nat            -- ghost: HEADERS silently dropped (`t.state != reachable` → `s.cancel(); return nil`)
  errGoAway : Bool              -- ghost: a GOAWAY with closeConn (protocol violation / too many pings) was handled
deriving Repr, DecidableEq, Inhabited

def init : State :=
  { now := 0, tstate := .reachable, maxStreamID := 0, drainStarted := false, drainFired := false, streams := [],
    activeNil := false, cbuf := [], cbufClosed := false, lDraining := false, estd := [], lExited := false,
    lBlocked := false, lResume := none, wbuf := [], held := false, waiter := none, closeTimer := none,
    connClosed := false, peerGone := false, readerDone := false, done := false, finalGoAway := none,
    hdrPending := none, dropped := [], errGoAway := false }

def maxU31 : Nat := 2147483647

def State.put (s : State) (it : Item) : State :=
  if s.cbufClosed then s else { s with cbuf := s.cbuf ++ [it] }

def State.activeCount (s : State) : Nat := if s.activeNil then 0 else (s.streams.filter (·.active)).length

def State.updStream (s : State) (id : Nat) (f : SStrm → SStrm) : State :=
  { s with streams := s.streams.map fun x => if x.id = id then f x else x }

def State.find (s : State) (id : Nat) : Option SStrm := s.streams.find? (·.id = id)

/-- `controlBuffer.finish` (no clientHeaders on the server side) -/
def State.finish (s : State) : State := { s with cbuf := [], cbufClosed := true }

/-- `http2Server.Close` -/
def State.close (s : State) : State :=
  if s.tstate = .closing then s else
  let s := { s with tstate := TState.closing, activeNil := true }
  let s := s.finish
  { s with done := true, connClosed := true,
           streams := s.streams.map fun x => if x.active then { x with cancelled := true } else x }

/-- the reader loop ends: `t.Close(err)`, `close(t.readerDone)` -/
def State.readerExit (s : State) : State :=
  if s.readerDone || s.hdrPending.isSome then s else { s.close with readerDone := true }

/-- `operateHeaders` for a well-formed gRPC request (no END_STREAM), first half: `maxStreamMu.Lock()`, the
stream-id check and `t.maxStreamID = streamID`.  The reader then parses the header fields and builds the
stream's context while still holding `maxStreamMu`. -/
def State.hdrA (s : State) (sid : Nat) : State :=
  if s.readerDone || s.hdrPending.isSome then s else
  if sid % 2 ≠ 1 || sid ≤ s.maxStreamID then
    -- illegal stream id: GOAWAY(PROTOCOL_ERROR) and close (the deferred Unlock runs)
    s.put (.goAway false 1 true)
  else { s with maxStreamID := sid, hdrPending := some sid }

/-- second half: under `t.mu`, the `t.state != reachable` drop or the insertion into `activeStreams`,
`registerStream`, `handle(s)`; `maxStreamMu` is released on return. -/
def State.hdrB (s : State) : State :=
  match s.hdrPending with
  | none => s
  | some sid =>
    let s := { s with hdrPending := none }
    if s.tstate ≠ .reachable then { s with dropped := s.dropped ++ [sid] }      -- dropped silently
    else
      let x : SStrm := { id := sid, active := true, done := false, cancelled := false }
      let s := { s with streams := s.streams ++ [x] }
      s.put (.register sid)              -- … then handle(s)

/-- the whole of `operateHeaders` (nothing else can run in between unless the reader is descheduled) -/
def State.onHeaders (s : State) (sid : Nat) : State := (s.hdrA sid).hdrB

def State.drain (s : State) : State :=
  if s.drainStarted then s else ({ s with drainStarted := true }).put (.goAway true 0 false)

/-- `handlePing` for an ack -/
def State.onPingAck (s : State) (d : Bytes) : State :=
  if s.readerDone || s.hdrPending.isSome then s else
  if d = goAwayPing && s.drainStarted then { s with drainFired := true } else s

def State.onPing (s : State) (d : Bytes) : State :=
  if s.readerDone || s.hdrPending.isSome then s else s.put (.pingAck d)

/-- `handleRSTStream` → `closeStream(s, false, 0, false)` -/
def State.onRST (s : State) (sid : Nat) : State :=
  if s.readerDone || s.hdrPending.isSome then s else
  -- `getStream` fails (never accepted, already deleted, or `activeStreams == nil`): a bare cleanupStream item still goes to
  -- loopy, whose handler re-checks `draining && len(estdStreams) == 0`
  match s.find sid with
  | none => s.put (.cleanup sid false 0)
  | some x =>
    if !x.active || s.activeNil then s.put (.cleanup sid false 0) else
    (s.updStream sid fun x => { x with cancelled := true, done := true, active := false }).put (.cleanup sid false 0)

/-- the handler returns: `WriteStatus` (trailers-only; the client has not half-closed, so RST follows).
`true` = it returned an error. -/
def State.finishStream (s : State) (sid : Nat) : State × Bool :=
  match s.find sid with
  | none => (s, false)
  | some x =>
    if x.done then (s, false)
    else if s.cbufClosed then (s, true)         -- executeAndPut fails: ErrConnClosing
    else ((s.updStream sid fun x => { x with cancelled := true, done := true }).put (.trailers sid true), false)

def State.write (s : State) (w : Wire) : State := { s with wbuf := s.wbuf ++ [w] }

/-- tail of `loopy.run` + the goroutine around it -/
def State.loopyExit (s : State) (nonIO : Bool) : State × List Wire :=
  if nonIO && s.held && !s.wbuf.isEmpty && !s.connClosed then
    ({ s with lBlocked := true, lResume := some none }, [])
  else
    let out := if nonIO && !s.connClosed && !s.peerGone then s.wbuf else []
    let s := ({ s with wbuf := [], lBlocked := false, lResume := none }).finish
    let s := { s with lExited := true }
    if nonIO then
      -- wait for the reader (or 1 s), then conn.Close()
      (if s.readerDone then { s with connClosed := true } else { s with closeTimer := some (s.now + 1000) }, out)
    else (s, out)

/-- `cleanupStreamHandler`'s tail -/
def State.afterCleanup (s : State) (id : Nat) (rst : Bool) (code : Nat) : State × List Wire :=
  let s := { s with estd := s.estd.filter (· ≠ id) }
  if rst && (s.connClosed || s.peerGone) then s.loopyExit false else
  let s := if rst then s.write (.R id code) else s
  if s.lDraining && s.estd.isEmpty then s.loopyExit true else (s, [])

/-- continuation of the final-GOAWAY handler after its Flush -/
def State.afterFinalFlush (s : State) (retErr : Bool) : State × List Wire :=
  if retErr then s.loopyExit true else ({ s with lDraining := true }, [])

/-- the final-GOAWAY handler under `maxStreamMu`+`mu`: `t.state = draining`, `sid := t.maxStreamID`.  Ghosts: the id
chosen by the first GOAWAY of a graceful drain (`closeConn == nil`), or the fact that an error GOAWAY was handled. -/
def State.finalChosen (s : State) (closeConn : Bool) : State :=
  if closeConn then { s with tstate := TState.draining, errGoAway := true }
  else { s with tstate := TState.draining,
                finalGoAway := match s.finalGoAway with | some n => some n | none => some s.maxStreamID }

def State.loopyStep (s : State) : State × List Wire :=
  if s.lExited || s.lBlocked then (s, []) else
  match s.cbuf with
  | [] => (s, [])
  | it :: rest =>
    -- outgoingGoAwayHandler starts with maxStreamMu.Lock(): it waits while the reader is inside operateHeaders
    if it.isGoAway && s.hdrPending.isSome then (s, []) else
    let s := { s with cbuf := rest }
    let dead := s.connClosed || s.peerGone
    match it with
    | .register id => ({ s with estd := s.estd ++ [id] }, [])
    | .trailers id rst =>
      if !s.estd.contains id then (s, []) else
      if dead then s.loopyExit false else
      let s := s.write (.H id)
      -- cleanup.onWrite = deleteStream
      let s := if s.activeNil then s else s.updStream id fun x => { x with active := false }
      s.afterCleanup id rst 0
    | .cleanup id rst code => s.afterCleanup id rst code
    | .pingAck d => if dead then s.loopyExit false else (s.write (.Pa d), [])
    | .goAway headsUp code closeConn =>
      -- outgoingGoAwayHandler
      if s.tstate = .closing then s.loopyExit true else
      if headsUp then
        if dead then s.loopyExit false else
        (({ (s.write (.G maxU31 0)).write (.P goAwayPing) with waiter := some (s.now + 5000) }), [])
      else
        let s := s.finalChosen closeConn
        let sid := s.maxStreamID
        let retErr := closeConn || s.activeCount == 0
        if dead then s.loopyExit false else
        let s := s.write (.G sid code)
        -- t.framer.writer.Flush()
        if s.held then ({ s with lBlocked := true, lResume := some (some retErr) }, [])
        else
          let r := ({ s with wbuf := [] }).afterFinalFlush retErr
          (r.1, s.wbuf ++ r.2)

def State.loopyFlush (s : State) : State × List Wire :=
  if s.lExited || s.lBlocked || s.wbuf.isEmpty then (s, []) else
  if s.connClosed || s.peerGone then ({ s with wbuf := [] }, [])
  else if s.held then ({ s with lBlocked := true, lResume := none }, [])
  else ({ s with wbuf := [] }, s.wbuf)

def State.release (s : State) : State × List Wire :=
  let s := { s with held := false }
  if !s.lBlocked then (s, []) else
  let s := { s with lBlocked := false }
  match s.lResume with
  | none => ({ s with wbuf := [] }, if s.connClosed || s.peerGone then [] else s.wbuf)
  | some none => ({ s with lResume := none }).loopyExit true
  | some (some r) =>
    let res := ({ s with wbuf := [], lResume := none }).afterFinalFlush r
    (res.1, (if s.connClosed || s.peerGone then [] else s.wbuf) ++ res.2)

/-- loopy notices `t.done` / a failed blocked write -/
def State.loopyAbort (s : State) : State × List Wire :=
  if s.lExited then (s, []) else
  if s.done || (s.lBlocked && s.connClosed) then
    ({ s with lBlocked := false, lResume := none, wbuf := [] }).loopyExit false
  else (s, [])

/-- the goroutine started by the heads-up GOAWAY: ack, 5 s timer, or `t.done` -/
def State.waiterFire (s : State) : State :=
  match s.waiter with
  | none => s
  | some t =>
    if s.done then { s with waiter := none }
    else if s.drainFired || t ≤ s.now then ({ s with waiter := none }).put (.goAway false 0 false)
    else s

def State.closeTimerFire (s : State) : State :=
  match s.closeTimer with
  | none => s
  | some t => if s.readerDone || t ≤ s.now then { s with closeTimer := none, connClosed := true } else s

inductive Ev
  | hdr (sid : Nat)
  | hdrA (sid : Nat)
  | hdrB
  | drain
  | pingAck (d : Bytes)
  | ping (d : Bytes)
  | rst (sid : Nat)
  | finish (sid : Nat)
  | loopy
  | flush
  | loopyAbort
  | waiterFire
  | closeTimerFire
  | readerErr
  | close
  | hold
  | release
  | peerGone
  | tick (ms : Nat)
deriving Repr, DecidableEq, Inhabited

def step (s : State) : Ev → State × List Wire
  | .hdr sid => (s.onHeaders sid, [])
  | .hdrA sid => (s.hdrA sid, [])
  | .hdrB => (s.hdrB, [])
  | .drain => (s.drain, [])
  | .pingAck d => (s.onPingAck d, [])
  | .ping d => (s.onPing d, [])
  | .rst sid => (s.onRST sid, [])
  | .finish sid => ((s.finishStream sid).1, [])
  | .loopy => s.loopyStep
  | .flush => s.loopyFlush
  | .loopyAbort => s.loopyAbort
  | .waiterFire => (s.waiterFire, [])
  | .closeTimerFire => (s.closeTimerFire, [])
  | .readerErr => (s.readerExit, [])
  | .close => (s.close, [])
  | .hold => ({ s with held := true }, [])
  | .release => s.release
  | .peerGone => ({ s with peerGone := true }, [])
  | .tick ms => ({ s with now := s.now + ms }, [])

def run (s : State) : List Ev → State
  | [] => s
  | e :: es => run (step s e).1 es

end GrpcModel.ServerDrain
