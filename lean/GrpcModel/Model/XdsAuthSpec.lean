import GrpcModel.Model.XdsAuth
/-!
Executable property predicates of C43 / C44 — the SAME definitions are used by the theorems in
GrpcProofs/Properties/C43.lean, C44.lean (about the model, all histories) and by the monitor of the
driver (evaluated on the implementation's outputs).
-/
namespace GrpcModel.XdsAuth.Spec

/-! ### what one watcher has been told so far (C43, "never for an update identical to the one it already holds") -/

structure WG where
  holds : Option String := none   -- content of the last ResourceChanged, unless a ResourceError came after it
  nack : Option String := none    -- error of the last NACK reported since the last ResourceChanged
deriving DecidableEq, Repr, Inhabited

def WG.apply (g : WG) : CbKind → WG
  | .changed c => { holds := some c, nack := none }
  | .resErr (.nack t) => { holds := none, nack := some t }
  | .resErr _ => { g with holds := none }
  | .ambErr (.nack t) => { g with nack := some t }
  | .ambErr _ => g

/-- the callback the property forbids: ResourceChanged with the content the watcher already holds,
    without a NACK in between -/
def WG.dup (g : WG) : CbKind → Bool
  | .changed c => g.holds == some c && g.nack.isNone
  | _ => false

/-- no forbidden callback in a sequence delivered to one watcher -/
def okSeq (g : WG) : List CbKind → Bool
  | [] => true
  | k :: ks => !g.dup k && okSeq (g.apply k) ks

/-- the callbacks of one watcher, in order -/
def cbsFor (w : Nat) (cbs : List Cb) : List CbKind := (cbs.filter (·.w = w)).map (·.k)

/-- the ghost a callback sequence starts from: a watcher that registers now has been told nothing -/
def ghost0 (G : Nat → WG) (e : AEv) (w : Nat) : WG :=
  match e with
  | .watch _ w' => if w' = w then {} else G w
  | _ => G w

def ghostStep (G : Nat → WG) (e : AEv) (cbs : List Cb) : Nat → WG :=
  fun w => (cbsFor w cbs).foldl WG.apply (ghost0 G e w)

structure Mon where
  n : Nat := 0
deriving Repr

def Mon.start (n : Nat) (_ign : List Bool) (_which : String) : Mon := { n := n }

def observe (m : Mon) (_fs : List String) (_impl : String) : Mon × String := (m, "-")

end GrpcModel.XdsAuth.Spec
