import GrpcModel.Model.XdsAuth
namespace GrpcModel.XdsAuth.Spec

structure Mon where
  n : Nat := 0
deriving Repr

def Mon.start (n : Nat) (_ign : List Bool) (_which : String) : Mon := { n := n }

def observe (m : Mon) (_fs : List String) (_impl : String) : Mon × String := (m, "-")

end GrpcModel.XdsAuth.Spec
