import GrpcModel.Model.XdsAuth
/-!
Executable property predicates of C43 / C44 — the SAME definitions are used by the theorems in
GrpcProofs/Properties/C43.lean, C44.lean (about the model, all histories) and by the monitor of the
driver (evaluated on the implementation's outputs).
-/
namespace GrpcModel.XdsAuth.Spec

/-! ### what one watcher has been told so far (C43, "never for an update identical to the one it already holds") -/

structure WG where
  holds : Option String := none   -- content of the last ResourceChanged, unless a ResourceError came after it
  nack : Option String := none    -- error of the last NACK reported since the last ResourceChanged
deriving DecidableEq, Repr, Inhabited

def WG.apply (g : WG) : CbKind → WG
  | .changed c => { holds := some c, nack := none }
  | .resErr (.nack t) => { holds := none, nack := some t }
  | .resErr _ => { g with holds := none }
  | .ambErr (.nack t) => { g with nack := some t }
  | .ambErr _ => g

/-- the callback the property forbids: ResourceChanged with the content the watcher already holds,
    without a NACK in between -/
def WG.dup (g : WG) : CbKind → Bool
  | .changed c => g.holds == some c && g.nack.isNone
  | _ => false

/-- no forbidden callback in a sequence delivered to one watcher -/
def okSeq (g : WG) : List CbKind → Bool
  | [] => true
  | k :: ks => !g.dup k && okSeq (g.apply k) ks

/-- the callbacks of one watcher, in order -/
def cbsFor (w : Nat) (cbs : List Cb) : List CbKind := (cbs.filter (·.w = w)).map (·.k)

/-- the ghost a callback sequence starts from: a watcher that registers now has been told nothing -/
def ghost0 (G : Nat → WG) (e : AEv) (w : Nat) : WG :=
  match e with
  | .watch _ w' => if w' = w then {} else G w
  | _ => G w

def ghostStep (G : Nat → WG) (e : AEv) (cbs : List Cb) : Nat → WG :=
  fun w => (cbsFor w cbs).foldl WG.apply (ghost0 G e w)

/-! ### the monitor: C43 / C44 evaluated on the implementation's output lines

It is fed the op line and the implementation's answer only (its callback log and its own snapshot of the
authority: harness/synct/c_xdsauth_test.go), never the model state. -/

/-- one `resourceState` as printed by the implementation -/
structure PRes where
  key : Key
  watchers : List Nat
  cache : Option String
  status : String
  errTag : Option String
  chans : List Nat
deriving Repr

/-- one server as printed by the implementation -/
structure PSrv where
  builds : Nat
  streams : Nat
  state : String       -- closed | idle | dead | live
  flags : String       -- for live/dead: W|B then m|n then p|f ; for idle: p|f
  view : List String   -- "T.r1" … (live only)
  refs : List Nat := []  -- authorities that hold a reference to the client's channel to this server
deriving Repr

/-- what the implementation printed, as seen by ONE authority (`x` = 0 top-level, 1 = authority "b"): the
    callback log and the servers are shared, `act` / `opened` / `res` are that authority's -/
structure Snap where
  cbs : List (Nat × List CbKind)
  act : Option Nat
  opened : List Nat := []   -- servers this authority holds a channel reference to
  srv : List PSrv
  res : List PRes
  allRes : List PRes := []  -- the resource states of all authorities
deriving Repr

/-- the whole output line: both authorities -/
structure Snap2 where
  top : Snap
  b : Snap
deriving Repr

def Snap2.of (s : Snap2) (x : Nat) : Snap := if x = 0 then s.top else s.b

/-- which authority a resource name belongs to -/
def ownerOfName (name : String) : Nat := if name.startsWith "b_" then 1 else 0

def fieldOf (impl key : String) : Option String :=
  (impl.splitOn " ").findSome? fun w =>
    if w.startsWith (key ++ "=") then some (w.drop (key.length + 1)).toString else none

def parseNats (s : String) : List Nat := if s = "-" then [] else (s.splitOn "+").filterMap String.toNat?

def parseErr (s : String) : Err :=
  if s.startsWith "nack." then .nack (s.drop 5).toString
  else if s = "notfound" then .notFound
  else if s = "conn" then .conn
  else .other

def parseCb (s : String) : Option CbKind :=
  if s.startsWith "C." then some (.changed (s.drop 2).toString)
  else if s.startsWith "R." then some (.resErr (parseErr (s.drop 2).toString))
  else if s.startsWith "A." then some (.ambErr (parseErr (s.drop 2).toString))
  else none

def parseCbs (s : String) : List (Nat × List CbKind) :=
  if s = "-" then [] else
  (s.splitOn ";").filterMap fun e =>
    match e.splitOn ":" with
    | [w, seq] => ((w.drop 1).toString.toNat?).map fun id => (id, (seq.splitOn "+").filterMap parseCb)
    | _ => none

def kv (fields : List String) (k : String) : String :=
  (fields.findSome? fun f => if f.startsWith (k ++ "=") then some (f.drop (k.length + 1)).toString else none).getD "-"

def parseRes (s : String) : List PRes :=
  if s = "-" then [] else
  (s.splitOn ",").filterMap fun e =>
    match e.splitOn "[" with
    | [head, body] =>
      match head.splitOn "." with
      | [t, n] =>
        let fs := ((body.dropEnd 1).toString).splitOn ";"
        let c := kv fs "c"
        let er := kv fs "e"
        some { key := ⟨t, n⟩, watchers := parseNats (kv fs "w"), cache := if c = "-" then none else some c,
               status := kv fs "st", errTag := if er = "-" then none else (er.splitOn "@").head?,
               chans := parseNats (kv fs "ch") }
      | _ => none
    | _ => none

def parseSrv (s : String) : Option PSrv :=
  match s.splitOn "/" with
  | [b, st, "closed"] => some { builds := b.toNat?.getD 0, streams := st.toNat?.getD 0, state := "closed", flags := "", view := [] }
  | b :: st :: state :: _u :: xr :: view :: _ =>
    let (nm, fl) :=
      if state.startsWith "live" then ("live", (state.drop 4).toString)
      else if state.startsWith "dead" then ("dead", (state.drop 4).toString)
      else ("idle", (state.drop 4).toString)
    let v := (view.drop 5).toString   -- after "view="
    let names := if v = "-" then [] else
      (v.splitOn ",").flatMap fun tv =>
        match tv.splitOn ":" with
        | [t, ns] => if ns = "" then [] else (ns.splitOn "+").map fun n => t ++ "." ++ n
        | _ => []
    some { builds := b.toNat?.getD 0, streams := st.toNat?.getD 0, state := nm, flags := fl, view := names,
           refs := parseNats (xr.drop 1).toString }
  | _ => none

def parseSnap (n : Nat) (impl : String) : Option Snap2 := do
  let cb ← fieldOf impl "cb"
  let act ← fieldOf impl "act"
  let opn ← fieldOf impl "open"
  let res ← fieldOf impl "res"
  let bact ← fieldOf impl "bact"
  let bopn ← fieldOf impl "bopen"
  let bres ← fieldOf impl "bres"
  let srv ← (List.range n).mapM fun i => (fieldOf impl s!"s{i}") >>= parseSrv
  let r0 := parseRes res
  let r1 := parseRes bres
  pure { top := { cbs := parseCbs cb, act := act.toNat?, opened := parseNats opn, srv := srv, res := r0, allRes := r0 ++ r1 },
         b := { cbs := parseCbs cb, act := bact.toNat?, opened := parseNats bopn, srv := srv, res := r1, allRes := r0 ++ r1 } }

structure Mon where
  n : Nat := 0
  ign : List Bool := []
  which : String := ""
  prev : Option Snap2 := none
  nobuild : List Nat := []                -- servers whose transport cannot be created right now (op `nobuild`)
  boff : Nat := 0                         -- first server of authority "b"'s own list
  ghosts : List (Nat × WG) := []
  accepted : List (Key × String) := []   -- contents some delivered response carried as valid
  held : Bool := false
  heldQ : List (Nat × String × List (String × Upd)) := []   -- responses delivered while the serializer was busy
  heldPure : Bool := true                                    -- nothing but such responses happened meanwhile
deriving Repr

def Mon.start (n : Nat) (ign : List Bool) (which : String) (boff : Nat := 0) : Mon :=
  { n := n, ign := ign, which := which, boff := boff,
    prev :=
      let e : Snap := { cbs := [], act := none, srv := List.replicate n { builds := 0, streams := 0, state := "closed", flags := "", view := [] }, res := [] }
      some { top := e, b := e } }

def ghostOf (gs : List (Nat × WG)) (w : Nat) : WG := ((gs.find? (·.1 = w)).map (·.2)).getD {}
def setGhost (gs : List (Nat × WG)) (w : Nat) (g : WG) : List (Nat × WG) := (gs.filter (·.1 ≠ w)) ++ [(w, g)]

def resOfWatcher (s : Snap) (w : Nat) : Option PRes := s.res.find? fun r => r.watchers.contains w
def resOfKey (s : Snap) (k : Key) : Option PRes := s.res.find? fun r => r.key = k
def cbsOf (s : Snap) (w : Nat) : List CbKind := ((s.cbs.find? (·.1 = w)).map (·.2)).getD []

def parseEntries (e : String) : List (String × Upd) :=
  if e = "-" then [] else
  (e.splitOn ",").foldl (fun acc x =>
    match x.splitOn ":" with
    | [n, "ok", c] => (acc.filter (·.1 ≠ n)) ++ [(n, Upd.ok c)]
    | [n, "bad", t] => (acc.filter (·.1 ≠ n)) ++ [(n, Upd.bad t)]
    | _ => acc) []

/-- what a new watcher must be told, from the implementation's own previous snapshot (clause 5) -/
def expectInitial (r : PRes) : List CbKind :=
  (match r.cache with | some c => [CbKind.changed c] | none => []) ++
  (if r.status = "nacked" then
    match r.errTag with
    | some t => [if r.cache.isNone then .resErr (.nack t) else .ambErr (.nack t)]
    | none => []
   else []) ++
  (if r.status = "notexist" then [.resErr .notFound] else [])

def firstSome (l : List (Option String)) : Option String := l.findSome? id

/-- every live server is asked for exactly the resources whose channel set contains it -/
def checkSubs (post : Snap) : Option String :=
  (List.range post.srv.length).findSome? fun i =>
    match post.srv[i]? with
    | some s =>
      if s.state = "live" then
        let want := (post.allRes.filter fun r => r.chans.contains i).map fun r => r.key.typ ++ "." ++ r.key.name
        if (s.view.all want.contains) ∧ (want.all s.view.contains) then none
        else some s!"VIOL server {i} is asked for {s.view} but the resources subscribed there are {want}"
      else none
    | none => none

/-- C43 clauses evaluated on one step of the implementation -/
def checkC43 (m : Mon) (x : Nat) (fs : List String) (pre post : Snap) (accepted : List (Key × String)) : Option String :=
  let held : Bool := m.held && x == 0        -- only the top-level authority's serializer is ever busy
  let newW : Option Nat := match fs with | ["watch", _, _, w] => w.toNat? | _ => none
  -- clause 2 (no duplicate ResourceChanged) + clause 1 (only accepted content) + latest value / error kind
  let perWatcher := post.cbs.map fun (w, ks) =>
    let g0 : WG := if newW = some w then {} else ghostOf m.ghosts w
    if !okSeq g0 ks then some s!"VIOL watcher {w} got ResourceChanged with the content it already holds and no NACK in between"
    else match resOfWatcher post w with
      | none => none
      | some r =>
        let bad := ks.findSome? fun k => match k with
          | .changed c => if accepted.contains (r.key, c) then none
                          else some s!"VIOL watcher {w} got ResourceChanged({c}) but no response carried that as a valid {r.key.typ}.{r.key.name}"
          | _ => none
        match bad with
        | some v => some v
        | none =>
          match ks.getLast? with
          | some (.changed c) => if r.cache = some c then none else some s!"VIOL watcher {w} was last told ResourceChanged({c}) but the client caches something else"
          | some (.resErr _) => if r.cache.isNone then none else some s!"VIOL watcher {w} got ResourceError although a valid resource is cached"
          | some (.ambErr _) => if r.cache.isSome then none else some s!"VIOL watcher {w} got AmbientError although no resource is cached"
          | none => none
  -- clause 5 (new watcher)
  let c5 : Option String := match fs with
    | ["watch", t, name, w] =>
      if held ∨ (t ≠ "T" ∧ t ≠ "U") ∨ ownerOfName name ≠ x then none else
      match w.toNat? with
      | none => none
      | some w =>
        -- (no channel yet and the one to server 0 cannot be created: the watch fails with an error)
        let first := if x = 0 then 0 else m.boff      -- the first server of this authority's list
        let cannotStart : Bool := pre.act.isNone && m.nobuild.contains first &&
          ((pre.srv[first]?.map (·.state)).getD "closed" == "closed")
        let want := if cannotStart then [CbKind.resErr .other] else
          match resOfKey pre ⟨t, name⟩ with | some r => expectInitial r | none => []
        -- the first watch also creates the channel: its stream may fail within the same step, so more
        -- callbacks may follow the immediate ones, but only then
        let got := cbsOf post w
        let built : Bool := (pre.srv.map (·.builds)) != (post.srv.map (·.builds))
        if want.isPrefixOf got && (got.length == want.length || built) then
          (if cannotStart || (resOfWatcher post w).map (·.key) = some ⟨t, name⟩ then none else some s!"VIOL new watcher {w} is not registered")
        else some s!"VIOL new watcher {w} did not receive exactly the cached resource and the current error state"
    | _ => none
  -- clause 6 (subscriptions = watched resources)
  let c6a := post.res.findSome? fun r =>
    if r.watchers.isEmpty then some s!"VIOL {r.key.typ}.{r.key.name} keeps a state (and subscriptions) without any watcher" else none
  let c6b := checkSubs post
  -- clauses 3, 4: an update that is processed now
  let c34 : Option String := match fs with
    | ["respond", i, t, _, e] =>
      match i.toNat?, pre.act with
      | some i, some act =>
        let delivered : Bool := !held && pre.opened.contains i &&
          (match pre.srv[i]? with | some s => s.state == "live" && s.flags.startsWith "W" | none => false)
        if !delivered || decide (act < i) then none else
        let es := parseEntries e
        pre.res.findSome? fun r =>
          if r.key.typ ≠ t then none else
          let want : List CbKind := match entLookup es r.key.name with
            | some (.bad tag) => if r.errTag = some tag then [] else [if r.cache.isNone then .resErr (.nack tag) else .ambErr (.nack tag)]
            | some (.ok c) => if r.cache ≠ some c ∨ r.errTag.isSome then [.changed c] else []
            | none => if sotw t ∧ r.cache.isSome ∧ r.status ≠ "notexist" ∧ !(m.ign.getD i false) then [.resErr .notFound] else []
          r.watchers.findSome? fun (w : Nat) =>
            if cbsOf post w == want then none
            else some s!"VIOL watcher {w} of {r.key.typ}.{r.key.name}: callbacks for this response differ from what the statement requires"
      | _, _ => none
    | ["break", i] =>
      match i.toNat? with
      | some i =>
        let s := pre.srv[i]?
        let before : Bool := !held && pre.opened.contains i &&
          (match s with | some s => s.state == "live" && s.flags.startsWith "Wn" | none => false)
        -- (no fallback: the authority holds the same channels and has the same active server afterwards)
        let sameBuilds : Bool := pre.opened == post.opened && pre.act == post.act
        if before && sameBuilds then
          pre.res.findSome? fun r => r.watchers.findSome? fun (w : Nat) =>
            let want : List CbKind := [if r.cache.isNone then .resErr .conn else .ambErr .conn]
            if cbsOf post w == want then none else some s!"VIOL watcher {w}: stream failed before any response, expected a connection error callback"
        else none
      | none => none
    | _ => none
  firstSome (perWatcher ++ [c5, c6a, if x = 0 then c6b else none, c34])

/-- C44 clauses evaluated on one step of the implementation. (The sub-clause "the ACTIVE server's stream failed"
    was violated before /repo 98104fb: findings F40, F41, fixed.) -/
def checkC44 (m : Mon) (x : Nat) (fs : List String) (pre post : Snap) : Option String :=
  let held : Bool := m.held && x == 0
  let strictTrigger := true
  let stateOf (s : Snap) (i : Nat) : String := (s.srv[i]?.map (·.state)).getD "closed"
  -- the servers THIS authority holds a channel to (the transports themselves are shared between authorities)
  let openOf (s : Snap) : List Nat := s.opened
  let inv : Option String :=
    match post.opened.find? fun i => stateOf post i == "closed" with
    | some i => some s!"VIOL the authority holds a channel to server {i} whose transport is closed"
    | none =>
    -- released means released: the client's channel must not list the authority any more
    match (List.range post.srv.length).find? fun i =>
        ((post.srv[i]?.map (·.refs)).getD []).contains x && !post.opened.contains i with
    | some i => some s!"VIOL the authority gave up server {i} but did not release its reference to the channel"
    | none =>
    match post.act with
    | some a => if (openOf post).contains a then
        match (openOf post).find? (a < ·) with
        | some i => some s!"VIOL the authority still holds a channel to server {i} below its active server {a}"
        | none =>
        post.res.findSome? fun r => r.chans.findSome? fun i =>
          if (openOf post).contains i then none else some s!"VIOL {r.key.typ}.{r.key.name} is subscribed on server {i} which has no channel"
      else some s!"VIOL active server {a} has no channel"
    | none => if openOf post = [] then none else some "VIOL channels are held although there is no active server"
  -- switch to a lower-priority server
  let sw : Option String := match pre.act, post.act with
    | some a, some b =>
      if a < b then
        let uncached := (pre.res ++ post.res).any fun r => r.cache.isNone
        -- (a server whose transport cannot be created, and to which no other authority has a channel, is skipped)
        let skipped := (List.range b).find? fun y => decide (a < y) && !(openOf post).contains y &&
          !(m.nobuild.contains y && stateOf post y == "closed")
        if !uncached then some s!"VIOL fallback from server {a} to {b} although every watched resource is cached"
        else if skipped.isSome then some s!"VIOL fallback from server {a} to {b} skipped server {skipped.getD 0}"
        -- (events processed on `release` may be old: the active server's stream may have failed and been
        -- re-established while the serializer was busy, so its end state says nothing then)
        else if strictTrigger && !held && stateOf post a == "live" then
          some s!"VIOL fallback from server {a} to {b} although the stream of the active server {a} had not failed"
        else if strictTrigger then
          (List.range b).findSome? fun h =>
            -- (only servers of this authority's own list that it holds a channel to)
            if decide (h < (if x = 0 then 0 else m.boff)) || !(openOf post).contains h then none else
            match post.srv[h]? with
            | some s => if s.state = "live" ∧ (s.flags.drop 1).startsWith "m" then
                some s!"VIOL fallback to server {b} although higher-priority server {h} has a working stream that delivered a response"
              else none
            | none => none
        else none
      else none
    | _, _ => none
  -- an update that is processed now
  let upd : Option String := match fs with
    | ["respond", i, _, _, _] =>
      match i.toNat?, pre.act with
      | some i, some act =>
        let delivered : Bool := !held && pre.opened.contains i &&
          (match pre.srv[i]? with | some s => s.state == "live" && s.flags.startsWith "W" | none => false)
        if !delivered then none
        else if act < i then
          -- below the active server: ignored
          if (post.cbs.any fun c => (resOfWatcher post c.1).isSome) then some s!"VIOL update from server {i} below the active server {act} reached watchers"
          else if post.act ≠ pre.act then some s!"VIOL update from server {i} below the active server {act} changed the active server"
          else if (post.res.map fun r => (r.key, r.cache, r.status)) ≠ (pre.res.map fun r => (r.key, r.cache, r.status)) then
            some s!"VIOL update from server {i} below the active server {act} changed the cache"
          else none
        else if i < act then
          -- from a higher-priority server: revert, unsubscribe and release everything below
          if post.act ≠ some i then some s!"VIOL update from higher-priority server {i} did not make it the active server"
          else if (openOf post).any (i < ·) then some s!"VIOL reverted to server {i} but a lower-priority channel is still open"
          else if post.res.any fun r => r.chans.any (i < ·) then some s!"VIOL reverted to server {i} but resources are still subscribed below it"
          else none
        else
          if post.act ≠ pre.act then some s!"VIOL update from the active server {i} changed the active server" else none
      | _, _ => none
    | _ => none
  firstSome [inv, sw, upd, if x = 0 then checkSubs post else none]

/-- C44 "ignores updates from servers below the active one" when the updates were queued behind a busy
    serializer and are processed in order on `release`: follow the active server through the queue (an update
    from at or above the active server makes its server active; one from below must be ignored) and predict the
    cache of every resource touched only by valid entries. -/
def checkRelease (m : Mon) (pre post : Snap) : Option String :=
  if !m.heldPure || m.heldQ.isEmpty then none else
  match pre.act with
  | none => none
  | some act0 =>
    let (act, ignored) := m.heldQ.foldl (fun (st : Nat × List Nat) q =>
      if q.1 ≤ st.1 then (q.1, st.2) else (st.1, st.2 ++ [q.1])) (act0, [])
    if post.act ≠ some act then some s!"VIOL after the queued updates the active server should be {act}"
    else
      post.res.findSome? fun r =>
        -- expected cache: some (some c) known value, none = not predicted
        let start : Option (Option String) := (resOfKey pre r.key).map (·.cache)
        let (expect, _) := m.heldQ.foldl (fun (st : Option (Option String) × Nat) q =>
          let (cur, a) := st
          if q.1 ≤ a then
            let cur' := if q.2.1 ≠ r.key.typ then cur else
              match entLookup q.2.2 r.key.name with
              | some (.ok c) => some (some c)
              | some (.bad _) => cur
              | none => if sotw q.2.1 then none else cur
            (cur', q.1)
          else (cur, a)) (start, act0)
        match expect with
        | some (some c) =>
          if r.cache = some c then none
          else some s!"VIOL {r.key.typ}.{r.key.name}: an update from a server below the active one (servers {ignored}) was not ignored"
        | _ => none

def observe (m : Mon) (fs : List String) (impl : String) : Mon × String :=
  -- ops that change the monitor's own bookkeeping without a snapshot
  match fs, impl with
  | ["hold"], _ => if impl.startsWith "cb=" then ({ m with held := true, heldQ := [], heldPure := true, prev := (parseSnap m.n impl).orElse fun _ => m.prev }, "ok") else (m, "-")
  | _, _ =>
  match parseSnap m.n impl, m.prev with
  | some post, some pre =>
    let accepted := match fs with
      | ["respond", _, t, _, e] => m.accepted ++ ((parseEntries e).filterMap fun (n, u) => match u with | .ok c => some ((⟨t, n⟩ : Key), c) | _ => none)
      | _ => m.accepted
    let rel : Option String := match fs with | ["release"] => checkRelease m pre.top post.top | _ => none
    let verdict := if m.which = "c43" then firstSome [checkC43 m 0 fs pre.top post.top accepted, checkC43 m 1 fs pre.b post.b accepted]
                   else if m.which = "c44" then firstSome [checkC44 m 0 fs pre.top post.top, checkC44 m 1 fs pre.b post.b, rel] else none
    let newW : Option Nat := match fs with | ["watch", _, _, w] => w.toNat? | _ => none
    -- a watcher that registers now has been told nothing (watcher ids may be reused after unwatch)
    let gs0 := match newW with | some w => setGhost m.ghosts w {} | none => m.ghosts
    let ghosts := post.top.cbs.foldl (fun gs (w, ks) => setGhost gs w (ks.foldl WG.apply (ghostOf gs w))) gs0
    let held := match fs with | ["release"] => false | _ => m.held
    -- what queues up while the serializer is busy
    let (heldQ, heldPure) : List (Nat × String × List (String × Upd)) × Bool :=
      if !m.held then ([], true) else
      match fs with
      | ["respond", i, t, _, e] =>
        match i.toNat? with
        | some i =>
          let deliverable : Bool := pre.top.opened.contains i &&
            (match pre.top.srv[i]? with | some s => s.state == "live" && s.flags.startsWith "W" | none => false)
          if deliverable then (m.heldQ ++ [(i, t, parseEntries e)], m.heldPure) else (m.heldQ, false)
        | none => (m.heldQ, false)
      | ["release"] => ([], true)
      | _ => (m.heldQ, false)
    let nobuild := match fs with
      | ["nobuild", l] => if l = "-" then [] else (l.splitOn "+").filterMap String.toNat?
      | _ => m.nobuild
    ({ m with prev := some post, ghosts := ghosts, accepted := accepted, held := held, heldQ := heldQ, heldPure := heldPure,
              nobuild := nobuild },
     verdict.getD "ok")
  | _, _ => (m, "-")

end GrpcModel.XdsAuth.Spec
