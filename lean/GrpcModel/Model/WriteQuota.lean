/-!
Model of `writeQuota` in `internal/transport/flowcontrol.go` (C17, first half): `get`,
`realReplenish`, the one-slot wake-up channel `ch`, and `done`.

Atomic steps (the code is lock-free; each `sync/atomic` call and each channel operation is one step):

* getter (ONE per stream — `Write` is not called concurrently on a stream; caller contract):
  `get sz` enters the loop; `gstep` is its next atomic action:
    `check`  — `atomic.LoadInt32(&w.quota) > 0 ?`  → `sub` or `wait`
    `sub`    — `atomic.AddInt32(&w.quota, -sz)`; return nil
    `wait`   — the `select`: token in `w.ch` → take it, back to `check`; (`gdone`:) `w.done` closed →
               return errStreamDone; neither → blocked.
  `gstep` prefers the token, `gdone` takes the `done` branch, so both outcomes of a select with two
  ready cases are interleavings of the model.
* replenishers (any number, `repl n` then possibly `sig`):
    `repl n` — `newQuota := atomic.AddInt32(&w.quota, n)`; the decision `previous ≤ 0 ∧ new > 0` is
               taken on the values that Add returned, so it is fixed here; if true the replenisher
               still has to do its non-blocking send: `pend` counts such replenishers.
    `sig`    — one of them executes `select { case w.ch <- struct{}{}: default: }`.
* `closeDone` — the stream's `done` is closed.

Sizes are `Nat` (the Go code converts non-negative `int`s; int32 overflow of a single size is outside
the model — stated as an assumption of C17), the quota is an `Int` and may go negative.
-/
namespace GrpcModel.WriteQuota

inductive GPc
  | idle
  | check (sz : Nat)
  | sub (sz : Nat)
  | wait (sz : Nat)
deriving Repr, DecidableEq

structure St where
  quota : Int
  token : Bool     -- w.ch (capacity 1) holds a token
  done  : Bool
  gpc   : GPc
  pend  : Nat      -- replenishers between their Add (which crossed ≤0 → >0) and their send
deriving Repr, DecidableEq

def init (sz : Nat) : St := ⟨sz, false, false, .idle, 0⟩

inductive Op
  | get (sz : Nat)
  | gstep
  | gdone
  | repl (n : Nat)
  | sig
  | closeDone
deriving Repr, DecidableEq

inductive Out
  | none
  | granted (sz : Nat)   -- get returned nil
  | failed               -- get returned errStreamDone
  | parked               -- the getter reached the select
  | blocked              -- the select has no ready case
  | busy                 -- a second concurrent get (contract violation): ignored
deriving Repr, DecidableEq

def step (s : St) : Op → St × Out
  | .get sz => match s.gpc with
    | .idle => ({ s with gpc := .check sz }, .none)
    | _ => (s, .busy)
  | .gstep => match s.gpc with
    | .idle => (s, .none)
    | .check sz => if s.quota > 0 then ({ s with gpc := .sub sz }, .none) else ({ s with gpc := .wait sz }, .parked)
    | .sub sz => ({ s with quota := s.quota - sz, gpc := .idle }, .granted sz)
    | .wait sz =>
      if s.token then ({ s with token := false, gpc := .check sz }, .none)
      else if s.done then ({ s with gpc := .idle }, .failed)
      else (s, .blocked)
  | .gdone => match s.gpc with
    | .wait _ => if s.done then ({ s with gpc := .idle }, .failed) else (s, .none)
    | _ => (s, .none)
  | .repl n =>
    let newQuota := s.quota + n
    if s.quota ≤ 0 ∧ newQuota > 0 then ({ s with quota := newQuota, pend := s.pend + 1 }, .none)
    else ({ s with quota := newQuota }, .none)
  | .sig => if s.pend > 0 then ({ s with pend := s.pend - 1, token := true }, .none) else (s, .none)
  | .closeDone => ({ s with done := true }, .none)

def run (s : St) : List Op → St × List (Op × Out)
  | [] => (s, [])
  | o :: os =>
    let r := step s o
    let q := run r.1 os
    (q.1, (o, r.2) :: q.2)

/-- Bytes granted to the getter / given back by replenishers along a trace. -/
def grantedSum : List (Op × Out) → Int
  | [] => 0
  | (_, .granted sz) :: t => sz + grantedSum t
  | _ :: t => grantedSum t

def replSum : List (Op × Out) → Int
  | [] => 0
  | (.repl n, _) :: t => n + replSum t
  | _ :: t => replSum t

/-- The getter is stuck: in the select, nothing ready, and no replenisher owes a send. -/
def stuck (s : St) : Bool :=
  (match s.gpc with | .wait _ => true | _ => false) && !s.token && !s.done && s.pend == 0

/-! ### The executable property predicate (monitor) for the write-quota half of C17

It sees only: what `get` returned, what was replenished, whether `done` was closed, and — at a
quiescent point — whether the getter goroutine is still blocked. -/

structure Mon where
  quota    : Int       -- initial − granted + replenished
  doneSeen : Bool
deriving Repr, DecidableEq

def Mon.init (sz : Nat) : Mon := ⟨sz, false⟩

inductive Verdict
  | ok
  | na
  | viol (code : Nat)
deriving Repr, DecidableEq

def violText : Nat → String
  | 1 => "write quota granted although none was available (quota <= 0)"
  | 2 => "get failed with errStreamDone although the stream is not done"
  | 3 => "sender still blocked although write quota is available (lost wake-up)"
  | 4 => "sender still blocked although the stream is done"
  | 5 => "quota differs from initial - granted + replenished"
  | _ => "?"

def Mon.step (m : Mon) (o : Op) (out : Out) : Mon × Verdict :=
  match o, out with
  | _, .granted sz => if m.quota > 0 then ({ m with quota := m.quota - sz }, .ok) else ({ m with quota := m.quota - sz }, .viol 1)
  | _, .failed => if m.doneSeen then (m, .ok) else (m, .viol 2)
  | .repl n, _ => ({ m with quota := m.quota + n }, .na)
  | .closeDone, _ => ({ m with doneSeen := true }, .na)
  | _, _ => (m, .na)

/-- Check at a quiescent point: `blocked` = the getter goroutine is still inside `get`. -/
def Mon.quiescent (m : Mon) (blocked : Bool) : Verdict :=
  if !blocked then .ok
  else if m.doneSeen then .viol 4
  else if m.quota > 0 then .viol 3
  else .ok

/-- Observed quota must equal the ledger. -/
def Mon.ledger (m : Mon) (observed : Int) : Verdict := if observed = m.quota then .ok else .viol 5

def verdicts (s : St) (m : Mon) : List Op → List Verdict
  | [] => []
  | o :: os =>
    let r := step s o
    let q := Mon.step m o r.2
    q.2 :: q.1.quiescent (stuck r.1) :: q.1.ledger r.1.quota :: verdicts r.1 q.1 os


/-! ### The same protocol with TWO getters (outside the caller contract)

Only used to show that the single-getter hypothesis of the no-lost-wake-up theorem is necessary
(`GrpcProofs.C17.writequota_two_getters_counterexample`). -/

structure St2 where
  base : St          -- quota, token, done, pend; `base.gpc` is getter 0
  gpc1 : GPc         -- getter 1
deriving Repr, DecidableEq

inductive Op2
  | g0 (o : Op)      -- any op of the one-getter model, acting as getter 0 / replenisher / done
  | get1 (sz : Nat)
  | gstep1
deriving Repr, DecidableEq

def step2 (s : St2) : Op2 → St2
  | .g0 o => { s with base := (step s.base o).1 }
  | .get1 sz =>
    let r := step { s.base with gpc := s.gpc1 } (.get sz)
    { base := { r.1 with gpc := s.base.gpc }, gpc1 := r.1.gpc }
  | .gstep1 =>
    let r := step { s.base with gpc := s.gpc1 } .gstep
    { base := { r.1 with gpc := s.base.gpc }, gpc1 := r.1.gpc }

def run2 (s : St2) : List Op2 → St2
  | [] => s
  | o :: os => run2 (step2 s o) os

end GrpcModel.WriteQuota
