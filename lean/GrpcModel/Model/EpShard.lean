/-
Model of balancer/endpointsharding/endpointsharding.go:
  rotateEndpoints, endpointSharding.UpdateClientConnState / ResolverError / ExitIdle / Close,
  updateStateLocked (aggregation + picker construction), pickerWithChildStates.Pick,
  endpointState.UpdateState / close / exitIdle.
Children are stub balancers (the harness builds the same stubs): a child is identified by its
creation serial `id`; it reports a state only when an op makes it do so.
Two things the real code leaves to chance are inputs of the model:
  * `randIntN` (a package variable, pinned by the harness): the op carries `r`, every call made
    while the op runs returns `r % n`;
  * the iteration order of `es.endpoints` (a Go map): the order of the picker list of a pushed
    state is taken from the implementation's answer (`oracle`) when that is a permutation of the
    list the code must have built, and is the insertion order otherwise.
-/
import GrpcModel.Model.LbConnState
namespace GrpcModel.EpShard
open GrpcModel.LbConnState

/-- `endpointState` (+ the stub child behind it). -/
structure Child where
  id : Nat
  ep : Nat
  /-- `es.state.ConnectivityState`; the zero value of `balancer.State` until the child reports -/
  state : ConnState := ConnState.ofCode 0
  /-- `es.state.Picker != nil` -/
  hasPicker : Bool := false
  closed : Bool := false
deriving DecidableEq, Repr

/-- an element of `pickerWithChildStates.pickers` -/
inductive Del
  | child (id ep : Nat)   -- the picker last reported by that child
  | nilp                  -- the nil Picker of a child that never reported (Pick panics)
  | err                   -- `base.NewErrPicker("no children to pick from")`
deriving DecidableEq, Repr

/-- `ChildState` as seen through `ChildStatesFromPicker` -/
structure CState where
  id : Nat
  ep : Nat
  state : ConnState
  hasPicker : Bool
deriving DecidableEq, Repr

/-- what `es.cc.UpdateState` receives -/
structure Pushed where
  agg : ConnState
  pickers : List Del
  next : BitVec 32
  childStates : List CState
deriving DecidableEq, Repr

structure St where
  /-- `es.endpoints` (insertion order; the real map has none) -/
  endpoints : List Child := []
  /-- children removed from the map: closed, but their stub may still call UpdateState -/
  gone : List Child := []
  inhibit : Bool := false
  disableAuto : Bool := false
  serial : Nat := 0
  /-- the latest picker handed to the channel -/
  last : Option Pushed := none
  /-- delegates chosen by `last` since it was installed (kept for the fairness monitor) -/
  window : List Del := []
  /-- superseded pickers (most recently superseded first) with the delegates each has chosen so far: the
      channel may still be picking on them (RPCs that fetched the picker before the update) -/
  olds : List (Pushed × List Del) := []
deriving Repr

def Child.del (c : Child) : Del := if c.hasPicker then .child c.id c.ep else .nilp
def Child.cstate (c : Child) : CState := ⟨c.id, c.ep, c.state, c.hasPicker⟩
def CState.del (c : CState) : Del := if c.hasPicker then .child c.id c.ep else .nilp

/-- the four `…Pickers` slices of `updateStateLocked` -/
def pickersIn (cs : List Child) (s : ConnState) : List Del := (cs.filter (·.state = s)).map Child.del

/-- `updateStateLocked`: aggregate state and the picker list, in iteration order `cs`. -/
def build (cs : List Child) : ConnState × List Del :=
  let ready := pickersIn cs .ready
  let connecting := pickersIn cs .connecting
  let idle := pickersIn cs .idle
  let tf := pickersIn cs .tf
  if ready.length ≥ 1 then (.ready, ready)
  else if connecting.length ≥ 1 then (.connecting, connecting)
  else if idle.length ≥ 1 then (.idle, idle)
  else if tf.length ≥ 1 then (.tf, tf)
  else (.tf, [.err])

/-- map-iteration order: adopt the implementation's order when it is a permutation. -/
def adopt (oracle canon : List Del) : List Del := if oracle.isPerm canon then oracle else canon

/-- the state pushed by `updateStateLocked` (`next: uint32(randIntN(len(pickers)))`). -/
def pushOf (cs : List Child) (r : Nat) (oracle : List Del) : Pushed :=
  let b := build cs
  let ps := adopt oracle b.2
  { agg := b.1, pickers := ps, next := BitVec.ofNat 32 (r % ps.length), childStates := cs.map Child.cstate }

/-- calls observed on the stub children -/
inductive Call | build (id : Nat) | ucc (id : Nat) | close (id : Nat) | reserr (id : Nat) | exitIdle (id : Nat)
deriving DecidableEq, Repr

/-- one endpoint of a resolver update + what its stub child does inside UpdateClientConnState -/
structure Entry where
  ep : Nat
  report : Option ConnState   -- `cc.UpdateState(state)` synchronously, if any
  err : Bool                  -- return an error
deriving Repr

inductive UErr | none | child (id : Nat) | bad
deriving DecidableEq, Repr

inductive Op
  | update (r : Nat) (es : List Entry)
  | cs (id : Nat) (s : ConnState) (pk : Bool) (r : Nat)
  | reserr (r : Nat)
  | exitidle (r : Nat)
  | close
  | pick (k : Nat)
  | wrappick (start k : Nat)     -- shim: set `next` of the latest picker, then pick k times
  | pickold (g k : Nat)          -- pick k times on the g-th most recently superseded picker
deriving Repr

structure Out where
  calls : List Call := []
  async : List Call := []        -- from `go es.exitIdle()` goroutines, after the op returned
  err : UErr := .none
  push : Option Pushed := none
  picks : Option (List Del) := none
deriving Repr

/-- `rotateEndpoints` with `randIntN(n) = r % n`. -/
def rotate {α : Type} (l : List α) (r : Nat) : List α :=
  if l.length = 0 then l else l.drop (r % l.length) ++ l.take (r % l.length)

structure UAcc where
  newEps : List Child := []
  serial : Nat
  calls : List Call := []
  err : UErr := .none
  idle : List Nat := []     -- ids of children that reported IDLE (auto reconnect candidates)

/-- body of the `for _, endpoint := range rotateEndpoints(...)` loop -/
def updateOne (old : List Child) (disableAuto : Bool) (a : UAcc) (e : Entry) : UAcc :=
  if a.newEps.any (·.ep = e.ep) then a else   -- "Skip duplicate endpoints."
  let found : Option Child := old.find? (·.ep = e.ep)
  let c0 : Child := match found with
    | some c => c
    | none => { id := a.serial + 1, ep := e.ep }
  let a1 : UAcc := match found with
    | some _ => a
    | none => { a with serial := a.serial + 1, calls := a.calls ++ [Call.build (a.serial + 1)] }
  -- epState.updateClientConnState: the stub may report synchronously (inhibited: no push)
  let c1 : Child := match e.report with
    | some s => { c0 with state := s, hasPicker := true }
    | none => c0
  let idle : List Nat :=
    if e.report = some ConnState.idle ∧ ¬ disableAuto then a1.idle ++ [c0.id] else a1.idle
  let err : UErr := if e.err ∧ a1.err = UErr.none then UErr.child c0.id else a1.err
  { newEps := a1.newEps ++ [c1], serial := a1.serial, calls := a1.calls ++ [Call.ucc c0.id],
    err := err, idle := idle }

def closeAll (cs : List Child) : List Child × List Call :=
  (cs.map ({ · with closed := true }), (cs.filter (!·.closed)).map (Call.close ·.id))

/-- `go es.exitIdle()`: `if !es.closed { es.childLB.ExitIdle() }` -/
def asyncExit (all : List Child) (ids : List Nat) : List Call :=
  (ids.filter fun i => all.any fun c => c.id = i ∧ !c.closed).map Call.exitIdle

/-- `pickerWithChildStates.Pick`, k times: `nextIndex := atomic.AddUint32(&p.next, 1)`,
    `p.pickers[nextIndex % uint32(len(p.pickers))]`. Returns the new `next` and the delegates. -/
def pickSeq (pickers : List Del) (next : BitVec 32) : Nat → BitVec 32 × List Del
  | 0 => (next, [])
  | k + 1 =>
    let ni := next + 1
    let d := pickers.getD (ni.toNat % pickers.length) .err
    let (n', ds) := pickSeq pickers ni k
    (n', d :: ds)

def doPick (s : St) (start : Option Nat) (k : Nat) : St × Out :=
  match s.last with
  | none => (s, { picks := some [] })
  | some p =>
    let nx := match start with | some v => BitVec.ofNat 32 v | none => p.next
    let (n', ds) := pickSeq p.pickers nx k
    let w := match start with | some _ => ds | none => s.window ++ ds
    ({ s with last := some { p with next := n' }, window := w }, { picks := some ds })

/-- the picker list after a new picker is pushed: the current one becomes a superseded one -/
def retire (s : St) : List (Pushed × List Del) :=
  match s.last with
  | some p => (p, s.window) :: s.olds
  | none => s.olds

/-- `Pick` k times on the g-th most recently superseded picker (it has its own `next`) -/
def doPickOld (s : St) (g k : Nat) : St × Out :=
  match s.olds[g]? with
  | none => (s, { picks := some [] })
  | some (p, w) =>
    let r := pickSeq p.pickers p.next k
    ({ s with olds := s.olds.set g ({ p with next := r.1 }, w ++ r.2) }, { picks := some r.2 })

def setChild (cs : List Child) (id : Nat) (s : ConnState) (pk : Bool) : List Child :=
  cs.map fun c => if c.id = id then { c with state := s, hasPicker := pk } else c

def step (s : St) (op : Op) (oracle : List Del) : St × Out :=
  match op with
  | .update r es =>
    -- inhibitUpdatesFromChildren; loop; close removed; publish
    let a := (rotate es r).foldl (updateOne s.endpoints s.disableAuto) { serial := s.serial }
    let removed := s.endpoints.filter fun c => !(a.newEps.any (·.ep = c.ep))
    let (removedClosed, closeCalls) := closeAll removed
    let err := if a.newEps.length = 0 then UErr.bad else a.err
    let p := pushOf a.newEps r oracle
    let gone := s.gone ++ removedClosed
    ({ s with endpoints := a.newEps, gone := gone, inhibit := false, serial := a.serial,
              last := some p, window := [], olds := retire s },
     { calls := a.calls ++ closeCalls, async := asyncExit (a.newEps ++ gone) a.idle, err := err, push := some p })
  | .cs id st pk r =>
    let eps := setChild s.endpoints id st pk
    let gone := setChild s.gone id st pk
    let s1 := { s with endpoints := eps, gone := gone }
    let async := if st = .idle ∧ ¬ s.disableAuto then asyncExit (eps ++ gone) [id] else []
    if s.inhibit then (s1, { async := async })
    else
      let p := pushOf eps r oracle
      ({ s1 with last := some p, window := [], olds := retire s }, { async := async, push := some p })
  | .reserr r =>
    let p := pushOf s.endpoints r oracle
    ({ s with inhibit := false, last := some p, window := [], olds := retire s },
     { calls := s.endpoints.map (Call.reserr ·.id), push := some p })
  | .exitidle r =>
    let p := pushOf s.endpoints r oracle
    ({ s with inhibit := false, last := some p, window := [], olds := retire s },
     { calls := (s.endpoints.filter (!·.closed)).map (Call.exitIdle ·.id), push := some p })
  | .close =>
    let (cl, calls) := closeAll s.endpoints
    ({ s with endpoints := cl, inhibit := true }, { calls := calls })
  | .pick k => doPick s none k
  | .wrappick start k => doPick s (some start) k
  | .pickold g k => doPickOld s g k

/-- the balancer as built by `NewBalancer(cc, opts, childBuilder, Options{DisableAutoReconnect: b})` -/
def init (b : Bool) : St := { disableAuto := b }

/-- a history: ops with the map-iteration oracle of each -/
def run (s : St) : List (Op × List Del) → St
  | [] => s
  | (op, o) :: t => run (step s op o).1 t

/-! ### the property's predicates (evaluated by the monitor on the implementation's answers,
    and proved of the model in GrpcProofs/Properties/C35.lean) -/

/-- the picker list `updateStateLocked` must have built from these child states, in their order -/
def expectedPickers (cs : List CState) (agg : ConnState) : List Del :=
  let l := (cs.filter (·.state = agg)).map CState.del
  if l.isEmpty then [.err] else l

/-- a pushed state follows the precedence rule and its picker holds exactly the children that are
    in the aggregate state (the error picker when there is none) -/
def pickersOk (p : Pushed) : Bool :=
  p.agg == prec (p.childStates.map (·.state)) &&
  p.pickers.isPerm (expectedPickers p.childStates p.agg)

/-- … and the start index is in range (`uint32(randIntN(len(pickers)))`) -/
def pushOk (p : Pushed) : Bool := pickersOk p && decide (p.next.toNat < p.pickers.length)

/-- the delegate of one Pick is a child that is in the aggregate state -/
def delegateOk (p : Pushed) : Del → Bool
  | .child id ep => p.childStates.any fun c => c.id = id ∧ c.ep = ep ∧ c.state = p.agg ∧ c.hasPicker
  | .nilp => p.childStates.any fun c => c.state = p.agg ∧ !c.hasPicker
  | .err => !(p.childStates.any fun c => c.state = p.agg)

/-- `c` is ⌊k/n⌋ or ⌈k/n⌉ -/
def fair (n k c : Nat) : Bool := c == k / n || (c == k / n + 1 && k % n != 0)

/-- over the window `w` of consecutive picks every child of the picker got its fair share -/
def windowFair (p : Pushed) (w : List Del) : Bool :=
  p.pickers.all fun d => match d with
    | .child _ _ => fair p.pickers.length w.length (w.count d)
    | _ => true

end GrpcModel.EpShard
