/-
Model of internal/xds/xdsclient/xdsresource/unmarshal_eds.go on a Lean mirror of the
`envoy.config.endpoint.v3.ClusterLoadAssignment` proto: `unmarshalEndpointsResource` (after the
protobuf decoding), `parseEDSRespProto`, `parseEndpoints`, `parseDropPolicy`, `parseAddress`, ported
in source order (same order of checks, same early returns, same maps).

Mirror of the proto: only the fields the Go code reads.  Absent sub-messages read through the
generated `GetX()` accessors give zero values, so e.g. an LbEndpoint without endpoint/address/
socket_address is `addrs := []` here and parses to the address ":0" as in Go.  `google.protobuf.
UInt32Value` wrappers that the code tests for nil are `Option Nat`; those it reads with
`.GetValue()` only are `Nat` (nil ↦ 0).  All uint32 proto fields are `Nat` with the typing
predicate `ClusterLoadAssignment.typed` (< 2^32); the uint64 accumulators wrap explicitly (`u64add`).

Go maps: `priorities : map[uint32]map[string]bool` and `sumOfWeights : map[uint32]uint64` are
association lists with unique keys (`mapGet`/`mapSet`; `len` = length), `uniqueEndpointAddrs :
map[string]bool` is the list of keys set to true.

Metadata (`validateAndConstructMetadata`) is abstracted to its only effect on acceptance: `mdErr` =
"some typed_filter_metadata entry has a registered converter and its conversion fails".  The parsed
metadata values / hash key are not modelled.
-/
namespace GrpcModel.EDSParse

def maxUint32 : Nat := 4294967295
def u64add (a b : Nat) : Nat := (a + b) % 18446744073709551616

structure SocketAddress where
  address : String
  port : Nat
deriving Repr, DecidableEq

structure LbEndpoint where
  weight : Option Nat            -- load_balancing_weight (nil / value)
  addrs : List SocketAddress     -- endpoint.address.socket_address :: endpoint.additional_addresses[*]…; [] = no endpoint message
  health : Nat                   -- health_status enum value
  hostname : String              -- endpoint.hostname
  mdErr : Bool                   -- metadata conversion fails
deriving Repr, DecidableEq

structure LocalityLbEndpoints where
  hasLocality : Bool             -- locality != nil
  region : String
  zone : String
  subZone : String
  weight : Nat                   -- load_balancing_weight.GetValue()
  priority : Nat
  endpoints : List LbEndpoint
  mdErr : Bool
deriving Repr, DecidableEq

structure DropOverload where
  category : String
  numerator : Nat                -- drop_percentage.numerator
  denominator : Nat              -- drop_percentage.denominator enum value (0 HUNDRED, 1 TEN_THOUSAND, 2 MILLION)
deriving Repr, DecidableEq

structure ClusterLoadAssignment where
  clusterName : String
  drops : List DropOverload      -- policy.drop_overloads
  endpoints : List LocalityLbEndpoints
deriving Repr, DecidableEq

/-- envconfig switches read by the parser -/
structure Env where
  dualstack : Bool               -- XDSDualstackEndpointsEnabled
  httpConnect : Bool             -- XDSHTTPConnectEnabled
  hashKeyCompat : Bool           -- XDSEndpointHashKeyBackwardCompat
deriving Repr, DecidableEq

/-! ### output types (type_eds.go) -/

structure OverloadDropConfig where
  category : String
  numerator : Nat
  denominator : Nat
deriving Repr, DecidableEq

structure Endpoint where
  addresses : List String
  health : Nat
  weight : Nat
  hostname : String
deriving Repr, DecidableEq

structure Locality where
  region : String
  zone : String
  subZone : String
  endpoints : List Endpoint
  weight : Nat
  priority : Nat
deriving Repr, DecidableEq

structure EndpointsUpdate where
  drops : List OverloadDropConfig
  localities : List Locality
deriving Repr, DecidableEq

inductive Err
  | noname       -- empty resource name in endpoints resource
  | denom        -- drop policy with unsupported denominator
  | noloc        -- locality without ID
  | locsum       -- sum of weights of localities at the same priority exceeded maximal value
  | duploc       -- duplicate locality with the same priority
  | zeroweight   -- endpoint with zero weight
  | epsum        -- sum of weights of endpoints in the same locality exceeds maximum value
  | dupaddr      -- duplicate endpoint with the same address
  | md           -- metadata conversion failed
  | prio         -- priority missing
deriving Repr, DecidableEq

/-! ### Go maps -/

def mapGet [DecidableEq κ] (m : List (κ × ν)) (k : κ) : Option ν :=
  match m with
  | [] => none
  | (k', v) :: rest => if k' = k then some v else mapGet rest k

def mapSet [DecidableEq κ] (m : List (κ × ν)) (k : κ) (v : ν) : List (κ × ν) :=
  match m with
  | [] => [(k, v)]
  | (k', v') :: rest => if k' = k then (k, v) :: rest else (k', v') :: mapSet rest k v

/-! ### the parser -/

/-- net.JoinHostPort(address, strconv.Itoa(int(port))) -/
def parseAddress (sa : SocketAddress) : String :=
  if sa.address.contains ':' then "[" ++ sa.address ++ "]:" ++ toString sa.port
  else sa.address ++ ":" ++ toString sa.port

def parseDropPolicy (d : DropOverload) : Except Err OverloadDropConfig :=
  match d.denominator with
  | 0 => .ok { category := d.category, numerator := d.numerator, denominator := 100 }
  | 1 => .ok { category := d.category, numerator := d.numerator, denominator := 10000 }
  | 2 => .ok { category := d.category, numerator := d.numerator, denominator := 1000000 }
  | _ => .error .denom

/-- addresses of one LbEndpoint: the main address, and the additional ones when dualstack is on -/
def endpointAddrs (env : Env) (e : LbEndpoint) : List String :=
  let main : SocketAddress := e.addrs.head?.getD { address := "", port := 0 }
  parseAddress main :: (if env.dualstack then e.addrs.tail.map parseAddress else [])

/-- the `for _, a := range addrs` loop: fails on the first address already in the set -/
def addAddrs (uniq : List String) : List String → Except Err (List String)
  | [] => .ok uniq
  | a :: rest => if a ∈ uniq then .error .dupaddr else addAddrs (uniq ++ [a]) rest

/-- `weight := uint32(1); if w := lbEndpoint.GetLoadBalancingWeight(); w != nil { if w.GetValue() == 0 { error }; weight = w.GetValue() }` -/
def endpointWeight (e : LbEndpoint) : Except Err Nat :=
  match e.weight with
  | some w => if w = 0 then .error .zeroweight else .ok w
  | none => .ok 1

/-- parseEndpoints: loop state = (endpoints, totalWeight, uniqueEndpointAddrs) -/
def parseEndpointsAux (env : Env) : List LbEndpoint → List Endpoint → Nat → List String →
    Except Err (List Endpoint × List String)
  | [], acc, _, uniq => .ok (acc, uniq)
  | e :: rest, acc, total, uniq =>
    match endpointWeight e with
    | .error er => .error er
    | .ok weight =>
      let total := u64add total weight
      if total > maxUint32 then .error .epsum else
      let addrs := endpointAddrs env e
      match addAddrs uniq addrs with
      | .error er => .error er
      | .ok uniq =>
        if (env.httpConnect || !env.hashKeyCompat) && e.mdErr then .error .md else
        parseEndpointsAux env rest
          (acc ++ [{ addresses := addrs, health := e.health, weight := weight, hostname := e.hostname }]) total uniq

def parseEndpoints (env : Env) (es : List LbEndpoint) (uniq : List String) : Except Err (List Endpoint × List String) :=
  parseEndpointsAux env es [] 0 uniq

/-- xdsinternal.LocalityString: fmt.Sprintf("{region=%q, zone=%q, sub_zone=%q}") is injective on
    (region, zone, sub_zone); the model uses the triple itself as the key. -/
abbrev LidStr := String × String × String

structure Acc where
  priorities : List (Nat × List LidStr)
  sumOfWeights : List (Nat × Nat)
  uniq : List String
  localities : List Locality

/-- one iteration of `for _, locality := range m.Endpoints` -/
def localityStep (env : Env) (acc : Acc) (l : LocalityLbEndpoints) : Except Err Acc :=
  if !l.hasLocality then .error .noloc else
  if l.weight = 0 then .ok acc else            -- "Ignoring locality with weight 0": continue
  let sum := u64add ((mapGet acc.sumOfWeights l.priority).getD 0) l.weight
  let sums := mapSet acc.sumOfWeights l.priority sum
  if sum > maxUint32 then .error .locsum else
  let withPrio := (mapGet acc.priorities l.priority).getD []
  let lid : LidStr := (l.region, l.zone, l.subZone)
  if lid ∈ withPrio then .error .duploc else
  let prios := mapSet acc.priorities l.priority (withPrio ++ [lid])
  match parseEndpoints env l.endpoints acc.uniq with
  | .error er => .error er
  | .ok (eps, uniq) =>
    if env.httpConnect && l.mdErr then .error .md else
    .ok { priorities := prios, sumOfWeights := sums, uniq := uniq,
          localities := acc.localities ++ [{ region := l.region, zone := l.zone, subZone := l.subZone,
                                             endpoints := eps, weight := l.weight, priority := l.priority }] }

def localitiesLoop (env : Env) : Acc → List LocalityLbEndpoints → Except Err Acc
  | acc, [] => .ok acc
  | acc, l :: rest =>
    match localityStep env acc l with
    | .error er => .error er
    | .ok acc' => localitiesLoop env acc' rest

def dropsLoop : List DropOverload → Except Err (List OverloadDropConfig)
  | [] => .ok []
  | d :: rest =>
    match parseDropPolicy d with
    | .error er => .error er
    | .ok c => match dropsLoop rest with
      | .error er => .error er
      | .ok cs => .ok (c :: cs)

/-- `for i := 0; i < len(priorities); i++ { if _, ok := priorities[uint32(i)]; !ok { error } }` -/
def prioritiesContiguous (prios : List (Nat × List LidStr)) : Bool :=
  (List.range prios.length).all fun i => (mapGet prios i).isSome

def parseEDSRespProto (env : Env) (m : ClusterLoadAssignment) : Except Err EndpointsUpdate :=
  match dropsLoop m.drops with
  | .error er => .error er
  | .ok drops =>
    match localitiesLoop env { priorities := [], sumOfWeights := [], uniq := [], localities := [] } m.endpoints with
    | .error er => .error er
    | .ok acc =>
      if prioritiesContiguous acc.priorities then .ok { drops := drops, localities := acc.localities }
      else .error .prio

/-- unmarshalEndpointsResource after proto.Unmarshal succeeded -/
def unmarshal (env : Env) (m : ClusterLoadAssignment) : Except Err EndpointsUpdate :=
  if m.clusterName = "" then .error .noname else parseEDSRespProto env m

/-! ### typing of the proto and the acceptance invariant (C45, EDS clause) -/

def u32 (n : Nat) : Prop := n ≤ maxUint32

def LbEndpoint.typed (e : LbEndpoint) : Prop := ∀ w, e.weight = some w → w ≤ maxUint32
def LocalityLbEndpoints.typed (l : LocalityLbEndpoints) : Prop :=
  l.weight ≤ maxUint32 ∧ l.priority ≤ maxUint32 ∧ ∀ e ∈ l.endpoints, e.typed
def ClusterLoadAssignment.typed (m : ClusterLoadAssignment) : Prop := ∀ l ∈ m.endpoints, l.typed

def sumNat (l : List Nat) : Nat := l.sum

/-- the distinct elements of a list (last occurrences kept) -/
def distinct : List Nat → List Nat
  | [] => []
  | a :: l => if a ∈ l then distinct l else a :: distinct l

/-- the distinct priorities of the update -/
def prioritiesOf (u : EndpointsUpdate) : List Nat := distinct (u.localities.map (·.priority))

/-- The documented invariants of an accepted EndpointsUpdate (decidable; also the monitor). -/
def Inv (u : EndpointsUpdate) : Bool :=
  -- priorities are contiguous from 0
  (let ps := prioritiesOf u
   ps.all (· < ps.length) && (List.range ps.length).all (fun i => ps.contains i)) &&
  -- no address repeats across all endpoints of all localities
  (decide (u.localities.flatMap (fun l => l.endpoints.flatMap (·.addresses))).Nodup) &&
  -- no (locality, priority) pair repeats
  (decide (u.localities.map (fun l => (l.region, l.zone, l.subZone, l.priority))).Nodup) &&
  -- per-priority locality weight sums fit in uint32; locality weights are non-zero
  ((prioritiesOf u).all fun p =>
     decide (sumNat ((u.localities.filter (·.priority = p)).map (·.weight)) ≤ maxUint32)) &&
  (u.localities.all fun l => decide (l.weight ≠ 0)) &&
  -- per-locality endpoint weight sums fit in uint32; endpoint weights are non-zero
  (u.localities.all fun l =>
     decide (sumNat (l.endpoints.map (·.weight)) ≤ maxUint32) && l.endpoints.all fun e => decide (e.weight ≠ 0)) &&
  -- drop denominators are one of the three supported values
  (u.drops.all fun d => d.denominator = 100 || d.denominator = 10000 || d.denominator = 1000000)

end GrpcModel.EDSParse
