/-
Model of
  internal/xds/xdsclient/xdsresource/matcher.go : matchTypeForDomain, match, FindBestMatchingVirtualHost,
                                                  CompositeMatcher.Match, fractionMatcher.match
  internal/wrr/random.go                        : randomWRR.Add / Next (the WRR the xDS resolver uses)
  internal/xds/resolver/serviceconfig.go        : configSelector.SelectConfig (route choice, cluster choice),
                                                  generateHash
  internal/xds/resolver/xds_resolver.go         : newConfigSelector (how routes/weighted clusters become a WRR)
Path and header matchers are the ones of GrpcModel/Model/Matchers.lean (C47).
Randomness is an explicit argument: the draws `RandInt64n(1000000)` of the fraction matchers, in the order the
code makes them, and the single draw of `randomWRR.Next`. `rand.Uint64()` (no hash policy applied) is `none`.
The request hash function (xxhash64) is a parameter of `generateHash`; `xxh64` below is a reference implementation
used only by the correspondence run.
-/
import GrpcModel.Model.Matchers
import GrpcModel.Generated.Routing
namespace GrpcModel.Routing
open GrpcModel.Matchers

/-! ### virtual host selection -/

/-- `domainMatchType` (iota order regenerated from source: `Generated.domainMatchTypeNames`). -/
inductive DomainMatchType | invalid | universal | prefix | suffix | exact
deriving DecidableEq, Repr

def DomainMatchType.goName : DomainMatchType → String
  | .invalid => "domainMatchTypeInvalid"
  | .universal => "domainMatchTypeUniversal"
  | .prefix => "domainMatchTypePrefix"
  | .suffix => "domainMatchTypeSuffix"
  | .exact => "domainMatchTypeExact"

/-- the Go constant's value: its position in the const block. -/
def DomainMatchType.rank (t : DomainMatchType) : Nat := Generated.domainMatchTypeNames.idxOf t.goName

/-- `betterThan`: `t > b`. -/
def DomainMatchType.betterThan (t b : DomainMatchType) : Bool := t.rank > b.rank

/-- `matchTypeForDomain` ('*' is byte 42). -/
def matchTypeForDomain (d : Str) : DomainMatchType :=
  if d = [] then .invalid
  else if d = [42] then .universal
  else if [42].isPrefixOf d then .suffix
  else if [42].isSuffixOf d then .prefix
  else if hasInfix [42] d then .invalid
  else .exact

/-- `match(domain, host)`: second component. `strings.TrimSuffix(domain,"*")` = dropLast, `TrimPrefix` = tail. -/
def domainMatches (domain host : Str) : Bool :=
  match matchTypeForDomain domain with
  | .invalid => false
  | .universal => true
  | .prefix => domain.dropLast.isPrefixOf host
  | .suffix => domain.tail.isSuffixOf host
  | .exact => domain == host

/-- loop state of `FindBestMatchingVirtualHost`: (matchVh, matchType, matchLen). -/
structure Best where
  vh : Option Nat
  typ : DomainMatchType
  len : Nat
deriving Repr

def Best.init : Best := ⟨none, .invalid, 0⟩

/-- one iteration of the inner loop; `none` = `return nil` (invalid domain). -/
def stepDomain (host : Str) (st : Best) (vh : Nat) (domain : Str) : Option Best :=
  let typ := matchTypeForDomain domain
  if typ = .invalid then none
  else if st.typ.betterThan typ || (st.typ = typ && st.len ≥ domain.length) || !domainMatches domain host then some st
  else some ⟨some vh, typ, domain.length⟩

def loopDomains (host : Str) : Best → List (Nat × Str) → Option Best
  | st, [] => some st
  | st, (vh, d) :: rest =>
    match stepDomain host st vh d with
    | none => none
    | some st' => loopDomains host st' rest

/-- (virtual host index, domain) in iteration order. -/
def pairsFrom (i : Nat) : List (List Str) → List (Nat × Str)
  | [] => []
  | ds :: rest => ds.map (fun d => (i, d)) ++ pairsFrom (i + 1) rest

def domainPairs (vhs : List (List Str)) : List (Nat × Str) := pairsFrom 0 vhs

/-- `FindBestMatchingVirtualHost(host, vHosts)`: index of the chosen virtual host. -/
def findBestVHost (host : Str) (vhs : List (List Str)) : Option Nat :=
  match loopDomains host Best.init (domainPairs vhs) with
  | none => none
  | some st => st.vh

/-! ### runtime fraction -/

def million : Nat := 1000000

/-- `fractionMatcher.match` AS THE CODE IS: `t := RandInt64n(1000000); return t <= fm.fraction`. -/
def fractionMatchAsIs (fraction t : Nat) : Bool := t ≤ fraction

/-- the one-character fix: `t < fm.fraction`. -/
def fractionMatchFixed (fraction t : Nat) : Bool := t < fraction

/-- the variant in force (`strict` = the source has `<`; decided by the T4 extractor in the driver). -/
def fractionMatch (strict : Bool) (fraction t : Nat) : Bool :=
  if strict then fractionMatchFixed fraction t else fractionMatchAsIs fraction t

/-! ### routes -/

inductive HashPolicy where
  | header (name : Str) (terminal : Bool)
  | channelID (terminal : Bool)
deriving Repr

inductive Action | route | other
deriving DecidableEq, Repr

structure Route where
  path : PathMatcher
  headers : List HeaderMatcher
  fraction : Option Nat
  action : Action
  /-- weighted clusters (name, weight) in configuration order; a cluster-specifier plugin is one entry of weight 1. -/
  clusters : List (Str × Nat)
  hashPolicies : List HashPolicy
deriving Repr

/-- `CompositeMatcher.Match` up to (not including) the fraction matcher. -/
def Route.staticMatch (r : Route) (method : Str) (md : MD) : Bool :=
  r.path.match method && r.headers.all (·.match md)

/-- does evaluating this route consume a random draw? (`a.fm != nil` and everything before it matched) -/
def Route.needsDraw (r : Route) (method : Str) (md : MD) : Bool :=
  r.staticMatch method md && r.fraction.isSome

/-- `CompositeMatcher.Match` given the draw its fraction matcher would see. -/
def Route.matchWith (strict : Bool) (r : Route) (method : Str) (md : MD) (t : Nat) : Bool :=
  r.staticMatch method md &&
    match r.fraction with
    | none => true
    | some f => fractionMatch strict f t

/-- "Loop through routes in order and select first match": index of the route, and the unconsumed draws.
    `none` when no route matches or the scripted draws run out (the real source never does). -/
def firstMatch (strict : Bool) (method : Str) (md : MD) : List Route → List Nat → Option Nat
  | [], _ => none
  | r :: rs, ds =>
    if r.needsDraw method md then
      match ds with
      | [] => none
      | t :: ds' => if r.matchWith strict method md t then some 0 else (firstMatch strict method md rs ds').map (· + 1)
    else if r.staticMatch method md then some 0
    else (firstMatch strict method md rs ds).map (· + 1)

/-! ### weighted cluster choice: `randomWRR` -/

/-- `randomWRR` after `Add`ing the weights in order: accumulated weights and the equalWeights flag. -/
def accWeights : Nat → List Nat → List Nat
  | _, [] => []
  | s, w :: ws => (s + w) :: accWeights (s + w) ws

def equalWeights : List Nat → Bool
  | [] => true
  | w :: ws => ws.all (· == w)

/-- the bound passed to `randInt64n` by `Next`: len(items) when all weights are equal, else the sum. -/
def wrrBound (ws : List Nat) : Nat := if equalWeights ws then ws.length else ws.sum

/-- `sort.Search(n, acc[i] > r)` on a non-decreasing list = first index with acc > r. -/
def searchAcc (r : Nat) : List Nat → Nat
  | [] => 0
  | a :: as => if a > r then 0 else searchAcc r as + 1

/-- `randomWRR.Next` with the draw `r` (already reduced to `[0, wrrBound)`): index of the chosen item. -/
def wrrNext (ws : List Nat) (r : Nat) : Option Nat :=
  if ws = [] then none
  else if equalWeights ws then some r
  else some (searchAcc r (accWeights 0 ws))

/-! ### request hash -/

def hasSuffixBin (name : Str) : Bool := [45, 98, 105, 110].isSuffixOf name   -- "-bin"

/-- one RPC as `generateHash` sees it: `emd.Get(name)` else `md.Get(name)`; both lower-case the name. -/
def hashValues (md : MD) (emd : Option MD) (name : Str) : List Str :=
  let k := asciiLower name
  let ev := match emd with
    | none => []
    | some e => (lookupMD e k).getD []
  if ev.isEmpty then (lookupMD md k).getD [] else ev

def rotl1 (h : UInt64) : UInt64 := (h <<< 1) ||| (h >>> 63)

/-- loop of `generateHash`: state (hash, generatedHash). -/
def hashLoop (hashFn : Str → UInt64) (channelID : UInt64) (values : Str → List Str) :
    List HashPolicy → UInt64 → Bool → UInt64 × Bool
  | [], h, g => (h, g)
  | .header name terminal :: rest, h, g =>
    if hasSuffixBin name then hashLoop hashFn channelID values rest h g            -- continue
    else
      let vs := values name
      if vs.isEmpty then hashLoop hashFn channelID values rest h g                 -- continue
      else
        let h' := rotl1 h ^^^ hashFn (joinComma vs)
        if terminal then (h', true) else hashLoop hashFn channelID values rest h' true
  | .channelID terminal :: rest, h, _ =>
    let h' := rotl1 h ^^^ channelID
    if terminal then (h', true) else hashLoop hashFn channelID values rest h' true

/-- `generateHash`: `none` = no policy applied, the code returns `rand.Uint64()`. -/
def generateHash (hashFn : Str → UInt64) (channelID : UInt64) (values : Str → List Str)
    (ps : List HashPolicy) : Option UInt64 :=
  let (h, g) := hashLoop hashFn channelID values ps 0 false
  if g then some h else none

/-! ### `SelectConfig` -/

/-- the metadata the route matchers see: with extra metadata present, `metadata.Join(md, extraMD)` minus every
    key ending in "-bin"; without it, the outgoing metadata untouched. -/
def joinMD (a b : MD) : MD :=
  a.map (fun (k, vs) => (k, vs ++ (lookupMD b k).getD [])) ++ b.filter (fun (k, _) => (lookupMD a k).isNone)

def matchMD (md : MD) (emd : Option MD) : MD :=
  match emd with
  | none => md
  | some e => (joinMD md e).filter (fun (k, _) => !hasSuffixBin k)

inductive SelectResult where
  | noMatch                                         -- errNoMatchedRouteFound
  | unsupportedAction                               -- errUnsupportedClientRouteAction
  | noCluster                                       -- "error retrieving cluster for match" (empty WRR)
  | picked (route : Nat) (cluster : Nat) (hash : Option UInt64)
deriving Repr

/-- `configSelector.SelectConfig`: `fracDraws` are the successive results of `RandInt64n(1000000)`, `wrrDraw` the
    raw value reduced modulo the bound `randomWRR.Next` asks for. -/
def selectConfig (strict : Bool) (hashFn : Str → UInt64) (channelID : UInt64) (routes : List Route)
    (method : Str) (md : MD) (emd : Option MD) (fracDraws : List Nat) (wrrDraw : Nat) : SelectResult :=
  match firstMatch strict method (matchMD md emd) routes fracDraws with
  | none => .noMatch
  | some i =>
    match routes[i]? with
    | none => .noMatch
    | some rt =>
      if rt.action ≠ .route then .unsupportedAction
      else
        let ws := rt.clusters.map (·.2)
        match wrrNext ws (wrrDraw % wrrBound ws) with
        | none => .noCluster
        | some c => .picked i c (generateHash hashFn channelID (hashValues md emd) rt.hashPolicies)

/-! ### The property's executable specification (C46): what the monitor evaluates on the implementation's answers.
Theorems in GrpcProofs/Properties/C46.lean relate the model above to these. -/
namespace Spec

/-- rank of a domain pattern type, the property's literals: exact > suffix > prefix > wildcard. -/
def rank : DomainMatchType → Nat
  | .exact => 4 | .suffix => 3 | .prefix => 2 | .universal => 1 | .invalid => 0

/-- pattern `q` is a strictly better match than pattern `p`: better type, or same type and longer. -/
def better (q p : Str) : Bool :=
  rank (matchTypeForDomain q) > rank (matchTypeForDomain p) ||
    (rank (matchTypeForDomain q) == rank (matchTypeForDomain p) && q.length > p.length)

/-- best virtual host: none if a domain is malformed; otherwise the owner of the first matching domain that no
    other matching domain beats. -/
def bestVHost (host : Str) (vhs : List (List Str)) : Option Nat :=
  let ps := domainPairs vhs
  if ps.any (fun p => matchTypeForDomain p.2 == .invalid) then none
  else
    let ms := ps.filter (fun p => domainMatches p.2 host)
    (ms.find? (fun p => ms.all (fun q => !better q.2 p.2))).map (·.1)

/-- a runtime fraction of f per million matches exactly f of the 10^6 draws (all of them when f ≥ 10^6). -/
def fractionCount (f : Nat) : Nat := min f million

/-- is `k` (a lower-case metadata key) an input of the hash policies? -/
def isHashInput (pols : List HashPolicy) (k : Str) : Bool :=
  pols.any fun
    | .header n _ => asciiLower n == k && !hasSuffixBin n
    | .channelID _ => false

/-- the hash-policy inputs of an RPC and nothing else. -/
def projectMD (pols : List HashPolicy) (md : MD) : MD := md.filter fun (k, _) => isHashInput pols k

end Spec

/-! ### xxhash64 (seed 0), reference implementation for the correspondence run only -/

namespace XXH
def p1 : UInt64 := 11400714785074694791
def p2 : UInt64 := 14029467366897019727
def p3 : UInt64 := 1609587929392839161
def p4 : UInt64 := 9650029242287828579
def p5 : UInt64 := 2870177450012600261

def rotl (x : UInt64) (k : UInt64) : UInt64 := (x <<< k) ||| (x >>> (64 - k))
def round (acc input : UInt64) : UInt64 := rotl (acc + input * p2) 31 * p1
def mergeRound (acc v : UInt64) : UInt64 := (acc ^^^ round 0 v) * p1 + p4

def le (bs : List Nat) : UInt64 := bs.foldr (fun b a => a * 256 + UInt64.ofNat b) 0

/-- consume 32-byte stripes. -/
def stripes : Nat → List Nat → UInt64 × UInt64 × UInt64 × UInt64 → (UInt64 × UInt64 × UInt64 × UInt64) × List Nat
  | 0, bs, v => (v, bs)
  | fuel + 1, bs, (v1, v2, v3, v4) =>
    if bs.length < 32 then ((v1, v2, v3, v4), bs)
    else stripes fuel (bs.drop 32)
      (round v1 (le (bs.take 8)), round v2 (le ((bs.drop 8).take 8)),
       round v3 (le ((bs.drop 16).take 8)), round v4 (le ((bs.drop 24).take 8)))

def tail : Nat → List Nat → UInt64 → UInt64
  | 0, _, h => h
  | fuel + 1, bs, h =>
    if bs.length ≥ 8 then tail fuel (bs.drop 8) (rotl (h ^^^ round 0 (le (bs.take 8))) 27 * p1 + p4)
    else if bs.length ≥ 4 then tail fuel (bs.drop 4) (rotl (h ^^^ (le (bs.take 4) * p1)) 23 * p2 + p3)
    else match bs with
      | [] => h
      | b :: t => tail fuel t (rotl (h ^^^ (UInt64.ofNat b * p5)) 11 * p1)

def avalanche (h : UInt64) : UInt64 :=
  let h := (h ^^^ (h >>> 33)) * p2
  let h := (h ^^^ (h >>> 29)) * p3
  h ^^^ (h >>> 32)

def sum64 (bs : List Nat) : UInt64 :=
  let n := bs.length
  let (h, rest) :=
    if n ≥ 32 then
      let ((v1, v2, v3, v4), rest) := stripes (n + 1) bs (p1 + p2, p2, 0, 0 - p1)
      let h := rotl v1 1 + rotl v2 7 + rotl v3 12 + rotl v4 18
      (mergeRound (mergeRound (mergeRound (mergeRound h v1) v2) v3) v4, rest)
    else (p5, bs)
  avalanche (tail (n + 1) rest (h + UInt64.ofNat n))
end XXH

end GrpcModel.Routing
