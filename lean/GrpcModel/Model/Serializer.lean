import GrpcModel.Model.Unbounded
/-!
Model of `internal/grpcsync/callback_serializer.go` (`CallbackSerializer`), C31.

Small-step interleaving model. Threads and their atomic actions:

* any number of scheduler goroutines: `sched cb` = `TrySchedule/ScheduleOr` = one `callbacks.Put`
  (atomic under the buffer's mutex); `onFailure` runs inline, so `rejected cb` is "the submitter is
  told". Scheduling from inside a running callback is the same action taken while `pc = running`.
* whoever owns the context: `cancel`.
* the `context.AfterFunc(ctx, cs.callbacks.Close)` goroutine: `fire` (enabled once the run goroutine
  has registered it and the context is cancelled; runs `callbacks.Close` once).
* the `run` goroutine, program counter `Pc`:
  `start` —AfterFunc registered→ `recv` —`cb, ok := <-Get()`→ `load cb` —`Load()`→ `call cb`
  —`cb(ctx)` entered→ `running cb` —callback returns (`ret`)→ `recv` …; on closed channel `exited`
  and the deferred `close(cs.done)`.

`run` in state `recv` with an empty, open channel is the blocked receive (no change).
The theorems in `GrpcProofs/Properties/C31.lean` quantify over ALL action lists = all interleavings.
-/
namespace GrpcModel.Serializer
open GrpcModel

inductive Pc (α : Type)
  | start
  | recv
  | load (cb : α)
  | call (cb : α)
  | running (cb : α)
  | exited
deriving Repr, DecidableEq

structure St (α : Type) where
  buf        : Unbounded.St α
  cancelled  : Bool        -- ctx.Done() is closed
  registered : Bool        -- context.AfterFunc has been called by the run goroutine
  fired      : Bool        -- the AfterFunc goroutine has run callbacks.Close
  pc         : Pc α
  done       : Bool        -- cs.done is closed
deriving Repr, DecidableEq

def init {α : Type} : St α := ⟨Unbounded.init, false, false, false, .start, false⟩

inductive Act (α : Type)
  | sched (cb : α)
  | cancel
  | fire
  | run
  | ret
deriving Repr, DecidableEq

inductive Ev (α : Type)
  | accepted (cb : α)   -- Put returned nil
  | rejected (cb : α)   -- Put returned an error: onFailure ran / ErrSerializerClosed
  | cancelled           -- the context was cancelled
  | closed              -- callbacks.Close ran
  | started (cb : α)    -- the run goroutine entered cb
  | ended (cb : α)      -- cb returned
  | done                -- cs.done closed
  | none                -- internal step / disabled or blocked action
  | panic               -- a Go runtime panic in the buffer (unreachable: theorem)
deriving Repr, DecidableEq

def step {α : Type} (s : St α) : Act α → St α × Ev α
  | .sched cb =>
    let r := Unbounded.step s.buf (.put cb)
    match r.2 with
    | .ok => ({ s with buf := r.1 }, .accepted cb)
    | .rejected => ({ s with buf := r.1 }, .rejected cb)
    | _ => (s, .panic)
  | .cancel => ({ s with cancelled := true }, .cancelled)
  | .fire =>
    if s.cancelled && s.registered && !s.fired then
      let r := Unbounded.step s.buf .close
      match r.2 with
      | .panic => (s, .panic)
      | _ => ({ s with buf := r.1, fired := true }, .closed)
    else (s, .none)
  | .run =>
    match s.pc with
    | .start => ({ s with registered := true, pc := .recv }, .none)
    | .recv =>
      let r := Unbounded.step s.buf .recv
      match r.2 with
      | .got cb => ({ s with buf := r.1, pc := .load cb }, .none)
      | .eos => ({ s with pc := .exited, done := true }, .done)
      | _ => (s, .none)
    | .load cb =>
      let r := Unbounded.step s.buf .load
      match r.2 with
      | .panic => (s, .panic)
      | _ => ({ s with buf := r.1, pc := .call cb }, .none)
    | .call cb => ({ s with pc := .running cb }, .started cb)
    | .running _ => (s, .none)
    | .exited => (s, .none)
  | .ret =>
    match s.pc with
    | .running cb => ({ s with pc := .recv }, .ended cb)
    | _ => (s, .none)

/-- Fold an interleaving (action list), collecting the event trace. -/
def run {α : Type} (s : St α) : List (Act α) → St α × List (Ev α)
  | [] => (s, [])
  | a :: as =>
    let r := step s a
    let q := run r.1 as
    (q.1, r.2 :: q.2)

/-- Callbacks received from the channel but not yet entered. -/
def inflight {α : Type} : Pc α → List α
  | .load cb => [cb]
  | .call cb => [cb]
  | _ => []

/-- Everything accepted and not yet started, in queue order. -/
def pending {α : Type} (s : St α) : List α := inflight s.pc ++ Unbounded.abs s.buf

def acceptedOf {α : Type} : List (Ev α) → List α
  | [] => []
  | .accepted cb :: t => cb :: acceptedOf t
  | _ :: t => acceptedOf t

def startedOf {α : Type} : List (Ev α) → List α
  | [] => []
  | .started cb :: t => cb :: startedOf t
  | _ :: t => startedOf t

def endedOf {α : Type} : List (Ev α) → List α
  | [] => []
  | .ended cb :: t => cb :: endedOf t
  | _ :: t => endedOf t

/-- The next step of the run goroutine, with callbacks that return at once. -/
def tick {α : Type} (s : St α) : St α :=
  match s.pc with
  | .running _ => (step s .ret).1
  | _ => (step s .run).1

def ticks {α : Type} : Nat → St α → St α
  | 0, s => s
  | n + 1, s => ticks n (tick s)

/-- Work left for the run goroutine (termination measure). -/
def work {α : Type} (s : St α) : Nat :=
  5 * (Unbounded.abs s.buf).length +
  match s.pc with
  | .start => 2 | .recv => 1 | .load _ => 4 | .call _ => 3 | .running _ => 2 | .exited => 0

/-! ### The executable property predicate (trace monitor) for the serializer

Fed with events only (the implementation's, in `Driver/S_serializer.lean`; the model's, in theorem
`serializer_monitor_ok`). -/

structure Mon (α : Type) where
  acc        : List α     -- accepted, not yet started (submission order)
  cur        : Option α   -- the callback now running
  cancelSeen : Bool
  rejSeen    : Bool
  doneSeen   : Bool
deriving Repr, DecidableEq

def Mon.init {α : Type} : Mon α := ⟨[], none, false, false, false⟩

def violText : Nat → String
  | 1 => "callback accepted after shutdown was reported complete (done)"
  | 2 => "callback accepted after an earlier submission was already rejected"
  | 3 => "submission rejected although the context was never cancelled"
  | 4 => "callback started while another one is still running (not one at a time)"
  | 5 => "callback run out of submission order / twice / never accepted"
  | 6 => "callback started after done"
  | 7 => "callback end without matching start"
  | 8 => "done reported before every accepted callback ran (or without cancel)"
  | 9 => "panic in the buffer"
  | 10 => "accepted callbacks left un-run although the run goroutine is idle (stuck)"
  | 11 => "shutdown never reported: cancelled, closed, everything ran, done still open"
  | 12 => "done reported twice"
  | _ => "?"

def Mon.step {α : Type} [DecidableEq α] (m : Mon α) : Ev α → Mon α × Unbounded.Verdict
  | .accepted cb =>
    if m.doneSeen then (m, .viol 1)
    else if m.rejSeen then (m, .viol 2)
    else ({ m with acc := m.acc ++ [cb] }, .ok)
  | .rejected _ => if m.cancelSeen then ({ m with rejSeen := true }, .ok) else (m, .viol 3)
  | .cancelled => ({ m with cancelSeen := true }, .na)
  | .closed => (m, .na)
  | .started cb =>
    if m.doneSeen then (m, .viol 6)
    else if m.cur.isSome then (m, .viol 4)
    else match m.acc with
      | x :: rest => if x = cb then ({ m with acc := rest, cur := some cb }, .ok) else (m, .viol 5)
      | [] => (m, .viol 5)
  | .ended cb => if m.cur = some cb then ({ m with cur := none }, .ok) else (m, .viol 7)
  | .done =>
    if m.doneSeen then (m, .viol 12)
    else if m.cancelSeen && m.acc.isEmpty && m.cur.isNone then ({ m with doneSeen := true }, .ok)
    else (m, .viol 8)
  | .none => (m, .na)
  | .panic => (m, .viol 9)

def Mon.run {α : Type} [DecidableEq α] (m : Mon α) : List (Ev α) → Mon α × List Unbounded.Verdict
  | [] => (m, [])
  | e :: es =>
    let r := Mon.step m e
    let q := Mon.run r.1 es
    (q.1, r.2 :: q.2)

/-- Quiescence check used by the op-level driver once every goroutine is durably blocked:
    `closedNow` = a cancel was requested and has had time to take effect. -/
def Mon.quiescent {α : Type} (m : Mon α) (closedNow : Bool) : Unbounded.Verdict :=
  if m.cur.isNone && !m.acc.isEmpty then .viol 10
  else if closedNow && m.cur.isNone && m.acc.isEmpty && !m.doneSeen then .viol 11
  else .ok

end GrpcModel.Serializer
