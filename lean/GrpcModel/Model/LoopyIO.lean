import GrpcModel.Driver.Loop
import GrpcModel.Model.LoopySpec
/-!
Line protocol of the `loopy*` components (shared by the drivers of C01, C02, C03): parsing of op lines and of the
implementation's answer, printing of the model's answer in the same canonical form.
See `harness/cmd/impl/c_loopy.go` for the format.
-/
namespace GrpcModel.Loopy.IO
open GrpcModel.Driver GrpcModel.Loopy

/-! ### payload bytes: byte `p` of stream `id`'s application byte stream, and the FNV-1a hash of a range -/

def genByte (id p : Nat) : UInt32 :=
  ((UInt32.ofNat p + UInt32.ofNat id * 7919) * 2654435761) >>> 24

def hashRange (id off size : Nat) : UInt32 := Id.run do
  let mut h : UInt32 := 2166136261
  for j in [0:size] do
    h := (h ^^^ genByte id (off + j)) * 16777619
  return h

def hex8 (x : UInt32) : String :=
  let n := x.toNat
  String.ofList ((List.range 8).reverse.map fun i => hexChar ((n / 16 ^ i) % 16))

/-! ### the implementation's answer -/

/-- A frame as decoded from the wire by the harness' independent framer. -/
inductive WFrame
  | data (id len : Nat) (es : Bool) (hash : String)
  | headers (id : Nat) (es eh : Bool) (len : Nat)
  | cont (id : Nat) (eh : Bool) (len : Nat)
  | rst (id code : Nat)
  | other (s : String)
deriving Repr

structure ImplStream where
  id : Nat
  state : Nat
  bytesOut : Int
  nitems : Nat
  ntrailers : Nat
  headKind : Nat
  headH : Nat
  headD : Nat
  headES : Bool
  repl : Int
deriving Repr

structure Impl where
  ret : String := ""
  frames : List WFrame := []
  cbs : String := "-"
  q : Nat := 0
  w : Nat := 0
  draining : Bool := false
  active : List Nat := []
  streams : List ImplStream := []
  hb : Option Nat := none
  ok : Bool := false
deriving Repr

def b01 (s : String) : Bool := s == "1"

def parseFrame (s : String) : WFrame :=
  match s.splitOn ":" with
  | ["D", id, len, es, h] => .data id.toNat! len.toNat! (b01 es) h
  | ["H", id, es, eh, len] => .headers id.toNat! (b01 es) (b01 eh) len.toNat!
  | ["K", id, eh, len] => .cont id.toNat! (b01 eh) len.toNat!
  | ["R", id, code] => .rst id.toNat! code.toNat!
  | _ => .other s

def parseStream (s : String) : Option ImplStream :=
  match s.splitOn ":" with
  | [id, st, bo, ni, nt, hk, hh, hd, hes, wq] => do
    pure { id := ← id.toNat?, state := ← st.toNat?, bytesOut := ← bo.toInt?, nitems := ← ni.toNat?,
           ntrailers := ← nt.toNat?, headKind := ← hk.toNat?, headH := ← hh.toNat?, headD := ← hd.toNat?,
           headES := b01 hes, repl := ← wq.toInt? }
  | _ => none

def kv (s : String) : String × String :=
  match s.splitOn "=" with
  | [a] => (a, "")
  | a :: r => (a, "=".intercalate r)
  | [] => ("", "")

def listOf (s : String) : List String := if s = "-" ∨ s = "" then [] else s.splitOn ","

def parseImpl (line : String) : Impl := Id.run do
  match fields line with
  | [] => return {}
  | ret :: rest =>
    let mut r : Impl := { ret := ret }
    let mut sawQ := false
    for f in rest do
      let (k, v) := kv f
      if k = "F" then r := { r with frames := (listOf v).map parseFrame }
      else if k = "C" then r := { r with cbs := v }
      else if k = "Q" then
        r := { r with q := v.toNat! }
        sawQ := true
      else if k = "W" then r := { r with w := v.toNat! }
      else if k = "D" then r := { r with draining := b01 v }
      else if k = "A" then r := { r with active := (listOf v).map String.toNat! }
      else if k = "S" then r := { r with streams := (listOf v).filterMap parseStream }
      else if k = "HB" then r := { r with hb := v.toNat? }
    return { r with ok := sawQ }

/-- Group HEADERS + CONTINUATION frames into header blocks and give every DATA frame the offset the resolver `off` decides
(`none` = the payload is not what was expected there). The resolver threads its own state through the frames of the step. -/
def toOutsS {σ : Type} (off : σ → Nat → Nat → String → Option (Nat × σ)) (st : σ) : List WFrame → List Out × Option String
  | [] => ([], none)
  | .data id len es h :: t =>
    match off st id len h with
    | none => ([], some s!"DATA payload on stream {id} is not the next {len} bytes the application wrote")
    | some (o, st1) => let (r, e) := toOutsS off st1 t; (.data id o len es :: r, e)
  | .headers id es eh len :: t =>
    if eh then let (r, e) := toOutsS off st t; (.headers id es [len] :: r, e)
    else collect st id es [len] t
  | .cont id _ _ :: _ => ([], some s!"CONTINUATION on stream {id} without HEADERS")
  | .rst id code :: t => let (r, e) := toOutsS off st t; (.rst id code :: r, e)
  | .other _ :: t => toOutsS off st t
where
  collect (st : σ) (id : Nat) (es : Bool) (acc : List Nat) : List WFrame → List Out × Option String
    | .cont id' eh len :: t =>
      if id' ≠ id then ([], some s!"CONTINUATION for stream {id'} inside the header block of stream {id}")
      else if eh then let (r, e) := toOutsS off st t; (.headers id es (acc ++ [len]) :: r, e)
      else collect st id es (acc ++ [len]) t
    | _ => ([], some s!"header block of stream {id} is not terminated by END_HEADERS")

def toOuts (off : Nat → Nat → String → Option Nat) : List WFrame → List Out × Option String :=
  toOutsS (σ := Unit) (fun _ id len h => (off id len h).map fun o => (o, ())) ()

/-! ### ops -/

def pairs (s : String) : List (Nat × Nat) :=
  (listOf s).filterMap fun p => match p.splitOn "=" with
    | [a, b] => do pure (← a.toNat?, ← b.toNat?)
    | _ => none

/-- op fields + implementation answer (for the oracles `hb`, `order`) → `Op`. -/
def parseOp (s : St) (fs : List String) (impl : Impl) : Option Op :=
  let hb := impl.hb.getD 0
  match fs with
  | ["wu", id, inc] => do pure (.winUpdate (← id.toNat?) (← inc.toNat?))
  | ["owu", id, inc] => do pure (.outWinUpdate (← id.toNat?) (← inc.toNat?))
  | ["set", ss] => some (.settings (pairs ss) (impl.active.drop s.active.length))
  | ["oset", ss] => some (.outSettings (pairs ss))
  | ["reg", id] => do pure (.register (← id.toNat?))
  | ["ch", id, _, ie] => do pure (.clientHeaders (← id.toNat?) hb (b01 ie))
  | ["sh", id, es, _, rst, code] => do pure (.serverHeaders (← id.toNat?) (b01 es) hb (b01 rst) (← code.toNat?))
  | ["data", id, h, d, es, _] => do pure (.data (← id.toNat?) (← h.toNat?) (← d.toNat?) (b01 es))
  | ["cl", id, rst, code] => do pure (.cleanup (← id.toNat?) (b01 rst) (← code.toNat?))
  | ["ea", id, rst, _] => do pure (.earlyAbort (← id.toNat?) (b01 rst) hb)
  | ["iga"] => some .incomingGoAway
  | ["ga", hu, code, _, rd, re] => do pure (.goAway (b01 hu) (← code.toNat?) (b01 rd) (b01 re))
  | ["ping", ack, d] => some (.ping (b01 ack) d)
  | ["close"] => some .closeConn
  | ["ofc"] => some .outFlowReq
  | ["unk"] => some .unknown
  | ["tick"] => some (.tick hb)
  | _ => none

/-! ### printing the model's answer -/

def bi (b : Bool) : String := if b then "1" else "0"

def stateNum (x : SState) : Nat :=
  let names := Generated.outStreamStateNames
  match x with
  | .active => names.idxOf "active"
  | .empty => names.idxOf "empty"
  | .waiting => names.idxOf "waitingOnStreamQuota"

def showFrame : Out → List String
  | .data id off size es => [s!"D:{id}:{size}:{bi es}:{hex8 (hashRange id off size)}"]
  | .headers id es frags =>
    let n := frags.length
    (frags.zipIdx).map fun (len, i) =>
      if i = 0 then s!"H:{id}:{bi es}:{bi (n = 1)}:{len}" else s!"K:{id}:{bi (i + 1 = n)}:{len}"
  | .rst id code => [s!"R:{id}:{code}"]
  | .settingsAck => ["SA"]
  | .settings ss => ["S:" ++ ";".intercalate (ss.map fun (k, v) => s!"{k}={v}")]
  | .ping ack d => [s!"P:{bi ack}:{d}"]
  | .windowUpdate id inc => [s!"W:{id}:{inc}"]
  | .goAway last code => [s!"G:{last}:{code}"]
  | .panic => ["PANIC"]
  | .unmodelled => ["UNMODELLED"]
  | .cb .. => []

def showCb : Out → List String
  | .cb .initStream id => [s!"i{id}"]
  | .cb .onWrite id => [s!"w{id}"]
  | .cb .orphaned id => [s!"o{id}"]
  | .cb .cleanupOnWrite id => [s!"c{id}"]
  | .cb .onEachWrite id => [s!"e{id}"]
  | _ => []

def hasHeader : List Out → Bool
  | [] => false
  | .headers .. :: _ => true
  | _ :: t => hasHeader t

def joinOr (l : List String) : String := if l.isEmpty then "-" else ",".intercalate l

def insertSorted (a : Nat) : List Nat → List Nat
  | [] => [a]
  | b :: t => if a ≤ b then a :: b :: t else b :: insertSorted a t

def sortNat (l : List Nat) : List Nat := l.foldr insertSorted []

def showStream (s : St) (id : Nat) : String :=
  let x := s.str id
  let nt := (x.items.filter fun i => match i with | .trailers .. => true | _ => false).length
  let (hk, hh, hd, hes) := match x.items with
    | [] => (0, 0, 0, false)
    | .data _ h d es :: _ => (1, h, d, es)
    | .trailers .. :: _ => (2, 0, 0, false)
  s!"{id}:{stateNum x.state}:{x.bytesOut}:{x.items.length}:{nt}:{hk}:{hh}:{hd}:{bi hes}:{x.repl}"

def showRet : Ret → String
  | .ok => "ok"
  | .err .closing => "e:closing"
  | .err .drainDone => "e:draindone"
  | .err .goAwayIdle => "e:goaway-idle"
  | .err .eaClient => "e:ea-client"
  | .err .init => "e:init"
  | .err .ga => "e:ga"
  | .err .unknown => "e:unknown"
  | .tick e => s!"t:{bi e}"
  | .quota n => s!"q:{n}"
  | .closed => "closed"

def showState (s : St) : String :=
  s!"Q={s.sendQuota} W={s.oiws} D={bi s.draining} A={joinOr (s.active.map toString)} S={joinOr ((sortNat s.keys).map (showStream s))}"

def showRes (r : Res) (hbUsed : Nat) : String :=
  match r.ret with
  | .closed => "closed"
  | ret =>
    let hb := if hasHeader r.outs then toString hbUsed else "-"
    s!"{showRet ret} F={joinOr (r.outs.flatMap showFrame)} C={joinOr (r.outs.flatMap showCb)} {showState r.st} HB={hb}"

def opHb : Op → Nat
  | .clientHeaders _ hb _ => hb
  | .serverHeaders _ _ hb _ _ => hb
  | .earlyAbort _ _ hb => hb
  | .tick hb => hb
  | _ => 0

/-! ### driver state shared by the three components -/

structure DState (μ : Type) where
  st : St
  mon : μ

/-- Generic driver step: runs the model, prints its answer, and lets `monitor` judge the implementation's answer.
`monitor mon op implOuts? impl prevModelState` returns the new monitor state and the verdict. -/
def mkStep {μ : Type} (mon0 : μ)
    (monitor : μ → St → Op → Impl → μ × String) : Step (DState μ) :=
  fun ds fs implLine =>
    match fs with
    | ["side", sd] =>
      let side := if sd = "s" then Side.server else Side.client
      let s := init side
      ({ st := s, mon := mon0 }, s!"ok F=- C=- {showState s} HB=-", "-")
    | _ =>
      let impl := parseImpl implLine
      match parseOp ds.st fs impl with
      | none => (ds, "bad-op", "-")
      | some op =>
        let r := step ds.st op
        let out := showRes r (opHb op)
        if impl.ret = "closed" ∨ !impl.ok then ({ ds with st := r.st }, out, "-")
        else
          let (m, v) := monitor ds.mon ds.st op impl
          ({ st := r.st, mon := m }, out, v)

end GrpcModel.Loopy.IO
