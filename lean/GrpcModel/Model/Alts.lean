/-
Model of credentials/alts/internal/conn: record.go (conn.Write chunking + framing, ReadOnReady /
ParseFramedMsg reassembly), common.go (ParseFramedMsg, parseMessageLength), counter.go
(Counter.Inc).

AES-GCM is NOT modelled; it is idealised (the property's "tampering is always detected" is a
statement under this assumption):

  * the ciphertext+tag of record k with payload p is a block of |p| + 16 bytes whose VALUES the
    model does not know but whose IDENTITY it tracks: wire cell `ct k i` = byte i of that block;
  * `Decrypt` under the receiver's counter value c succeeds iff the presented block is, cell for
    cell, the block the sender produced for record c (`ct c 0 … ct c (n-1)`), and then returns
    that record's payload; any other block (a changed byte = `junk`, bytes of another record,
    a truncated or extended block) fails with ErrAuth.

Framing bytes (length and type fields) have known values (`known v`).
-/
import GrpcModel.Generated.Alts
namespace GrpcModel.Alts
open GrpcModel.Generated

inductive Cell
  | known (v : Nat)          -- framing byte with this value
  | ct (rec off : Nat)       -- byte `off` of the sealed block of record `rec`
  | junk (v : Nat)           -- a byte the network changed / injected (value v)
deriving DecidableEq, Repr, Inhabited

/-- tag size (GcmTagSize) -/
abbrev tagSize : Nat := gcmTagSize
/-- overhead = MsgLenFieldSize + msgTypeFieldSize + EncryptionOverhead() -/
abbrev overhead : Nat := msgLenFieldSize + msgTypeFieldSize + tagSize

/-- NewConnWithMaxFrameSize: payloadLengthLimit = max(altsRecordDefaultLength, negotiated) − overhead -/
def payloadLimit (negotiated : Nat) : Nat := max altsRecordDefaultLength negotiated - overhead

/-- little-endian 4-byte encoding -/
def le32 (n : Nat) : List Nat := [n % 256, n / 256 % 256, n / 65536 % 256, n / 16777216 % 256]

/-- conn.Write splits b into payloads of at most payloadLengthLimit bytes (the batching into
    Conn.Write calls of at most altsWriteBufferMaxSize does not change the byte stream). -/
def chunks (limit : Nat) (fuel : Nat) (b : List UInt8) : List (List UInt8) :=
  match fuel with
  | 0 => []
  | fuel + 1 => if b = [] then [] else b.take limit :: chunks limit fuel (b.drop limit)

/-- the wire cells of record number `k` with payload `p`: length, type, sealed block -/
def recordCells (k : Nat) (p : List UInt8) : List Cell :=
  (le32 (msgTypeFieldSize + p.length + tagSize)).map .known ++ (le32 altsRecordMsgType).map .known ++
  (List.range (p.length + tagSize)).map (.ct k)

def cellsFrom (k : Nat) : List (List UInt8) → List Cell
  | [] => []
  | p :: ps => recordCells k p ++ cellsFrom (k + 1) ps

/-- value of a framing-position cell, if the model knows it -/
def Cell.val? : Cell → Option Nat
  | .known v => some v
  | .junk v => some v
  | .ct _ _ => none

def le32val? (cs : List Cell) : Option Nat :=
  match cs with
  | [a, b, c, d] => do
    let a ← a.val?; let b ← b.val?; let c ← c.val?; let d ← d.val?
    pure (a + 256 * b + 65536 * c + 16777216 * d)
  | _ => none

inductive RErr | tooLong | shortType | badType | auth | counter | desync
deriving DecidableEq, Repr

/-- Receiver state. `sent` is what the peer wrote (payload of each record, in order): the ideal
    AEAD consults it to decide whether a block verifies. -/
structure R where
  pending : List Cell          -- nextFrame / protected: received, not yet decrypted
  buf     : List UInt8         -- decrypted, not yet returned by Read
  ctr     : Nat                -- inCounter (number of records opened so far)
  err     : Option RErr        -- sticky for the model: after an error nothing more is delivered
  sent    : List (List UInt8)
  ctrMax  : Nat                -- the counter becomes invalid after this many increments
deriving Repr

def R.init (sent : List (List UInt8)) (ctrMax : Nat) : R := ⟨[], [], 0, none, sent, ctrMax⟩

inductive Parse
  | incomplete
  | frame (msg : List Cell) (rest : List Cell)
  | err (e : RErr)
deriving Repr

/-- ParseFramedMsg(b, altsRecordLengthLimit) -/
def parseFramed (b : List Cell) : Parse :=
  if b.length < msgLenFieldSize then .incomplete
  else match le32val? (b.take 4) with
    | none => .err .desync
    | some len =>
      if len > altsRecordLengthLimit then .err .tooLong
      else if b.length < len + 4 then .incomplete
      else .frame ((b.drop 4).take len) (b.drop (4 + len))

/-- ideal AEAD: the block verifies under counter c iff it is exactly record c's sealed block -/
def aeadOpen (sent : List (List UInt8)) (c : Nat) (block : List Cell) : Option (List UInt8) :=
  match sent[c]? with
  | none => none
  | some p => if block = (List.range (p.length + tagSize)).map (.ct c) then some p else none

/-- the decrypt step of ReadOnReady for one complete frame `msg` (length field stripped) -/
def openFrame (r : R) (msg : List Cell) : Except RErr (List UInt8) :=
  if msg.length < msgTypeFieldSize then .error .shortType
  else match (msg.take 4).head? >>= Cell.val? with
    | none => .error .desync
    | some t0 =>
      if t0 ≠ altsRecordMsgType % 256 then .error .badType      -- msgType & 0xff
      else if r.ctr ≥ r.ctrMax then .error .counter              -- inCounter.Value() on an invalid counter
      else match aeadOpen r.sent r.ctr (msg.drop 4) with
        | none => .error .auth
        | some p => .ok p

inductive ROut
  | data (bs : List UInt8)
  | block                      -- needs more bytes from the network
  | fail (e : RErr)
deriving Repr

/-- feed: bytes arrive from the network (any segmentation) -/
def feed (r : R) (cs : List Cell) : R := { r with pending := r.pending ++ cs }

/-- conn.Read(b) with len(b) = n (n > 0) -/
def read (r : R) (n : Nat) : R × ROut :=
  match r.err with
  | some e => (r, .fail e)
  | none =>
    if r.buf ≠ [] then ({ r with buf := r.buf.drop n }, .data (r.buf.take n))
    else match parseFramed r.pending with
      | .incomplete => (r, .block)
      | .err e => ({ r with err := some e }, .fail e)
      | .frame msg rest =>
        match openFrame r msg with
        | .error e => ({ r with err := some e }, .fail e)
        | .ok p => ({ r with pending := rest, ctr := r.ctr + 1, buf := p.drop n }, .data (p.take n))

def ROut.bytes : ROut → List UInt8
  | .data bs => bs
  | _ => []

inductive Op
  | feed (cs : List Cell)
  | read (n : Nat)
deriving Repr

/-- run ops; returns the final state and everything `Read` returned, concatenated -/
def run (r : R) : List Op → R × List UInt8
  | [] => (r, [])
  | .feed cs :: ops => run (feed r cs) ops
  | .read n :: ops =>
    let (r', o) := read r n
    let (r'', d) := run r' ops
    (r'', o.bytes ++ d)

/-! ### Counter (counter.go): 12-byte little-endian, only the first `overflowLen` bytes carry -/

/-- Counter.Inc on the byte array; returns (bytes, invalid) -/
def incBytes : List Nat → Nat → List Nat × Bool
  | bs, 0 => (bs, true)                              -- i == overflowLen: every byte wrapped
  | [], _ + 1 => ([], true)
  | b :: bs, n + 1 =>
    if (b + 1) % 256 ≠ 0 then ((b + 1) % 256 :: bs, false)
    else let (r, inv) := incBytes bs n; (0 :: r, inv)

/-- value of the first n bytes, little-endian -/
def leVal : List Nat → Nat → Nat
  | _, 0 => 0
  | [], _ => 0
  | b :: bs, n + 1 => b + 256 * leVal bs n

end GrpcModel.Alts
