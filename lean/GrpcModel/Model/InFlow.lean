/-
Model of
  internal/transport/flowcontrol.go : inFlow.{newLimit, maybeAdjust, onData, onRead},
                                      trInFlow.{newLimit, onData, reset, updateEffectiveWindowSize}
and of the protocol their callers follow
  http2_client.go / http2_server.go : handleData (onData(size); padded → onRead(size - dataLen); write),
                                      adjustWindow / updateWindow, updateFlowControl (BDP)
  transport.go                      : Stream.read / ReadMessageHeader (requestRead(n), then reads that
                                      total n)

uint32 fields are `Nat`s below 2^32; `+`/`-` on them wrap exactly as in Go (`add32`, `sub32`), the
`int32(...)` casts of maybeAdjust are `i32`.
-/
import GrpcModel.Generated.InFlow
namespace GrpcModel.InFlow
open GrpcModel.Generated

/-- 2^32 -/
abbrev W : Nat := 4294967296

/-- uint32 addition -/
def add32 (a b : Nat) : Nat := (a + b) % W
/-- uint32 subtraction -/
def sub32 (a b : Nat) : Nat := (a + W - b % W) % W
/-- `int32(x)` of a uint32 -/
def i32 (x : Nat) : Int := if x < 2147483648 then (x : Int) else (x : Int) - (W : Int)

/-- `math.MaxInt32` as used by `maybeAdjust`'s clamp `uint32(math.MaxInt32)` -/
abbrev maxInt32 : Nat := 2147483647

/-- `inFlow` (per-stream receive window bookkeeping) -/
structure InFlow where
  limit : Nat
  pd : Nat := 0        -- pendingData
  pu : Nat := 0        -- pendingUpdate
  delta : Nat := 0
deriving Repr, DecidableEq

/-- `inFlow.newLimit(n)` -/
def InFlow.newLimit (f : InFlow) (n : Nat) : InFlow := { f with limit := n }

/-- `inFlow.maybeAdjust(n)`: new state and the returned window-update increment -/
def InFlow.maybeAdjust (f : InFlow) (n : Nat) : InFlow × Nat :=
  let n := if n > maxInt32 then maxInt32 else n
  let estSenderQuota := i32 (sub32 f.limit (add32 f.pd f.pu))
  let estUntransmittedData := i32 (sub32 n f.pd)
  if estUntransmittedData > estSenderQuota then
    let delta := if add32 f.limit n > fcMaxWindowSize then sub32 fcMaxWindowSize f.limit else n
    ({ f with delta := delta }, delta)
  else (f, 0)

/-- `inFlow.onData(n)`: new state and whether an error (flow-control violation) is returned -/
def InFlow.onData (f : InFlow) (n : Nat) : InFlow × Bool :=
  let pd := add32 f.pd n
  ({ f with pd := pd }, decide (add32 pd f.pu > add32 f.limit f.delta))

/-- `inFlow.onRead(n)`: new state and the returned window-update increment -/
def InFlow.onRead (f : InFlow) (n : Nat) : InFlow × Nat :=
  if f.pd = 0 then (f, 0) else
  let pd := sub32 f.pd n
  let n' := if n > f.delta then sub32 n f.delta else 0
  let delta := if n > f.delta then 0 else sub32 f.delta n
  let pu := add32 f.pu n'
  if pu ≥ f.limit / 4 then ({ f with pd := pd, delta := delta, pu := 0 }, pu)
  else ({ f with pd := pd, delta := delta, pu := pu }, 0)

/-- `trInFlow` (connection receive window bookkeeping) -/
structure TrInFlow where
  limit : Nat
  unacked : Nat := 0
  ews : Nat := 0       -- effectiveWindowSize
deriving Repr, DecidableEq

def TrInFlow.updateEws (f : TrInFlow) : TrInFlow := { f with ews := sub32 f.limit f.unacked }

/-- `trInFlow.newLimit(n)`: returns the increment `n - limit` -/
def TrInFlow.newLimit (f : TrInFlow) (n : Nat) : TrInFlow × Nat :=
  (({ f with limit := n } : TrInFlow).updateEws, sub32 n f.limit)

/-- `trInFlow.reset()` -/
def TrInFlow.reset (f : TrInFlow) : TrInFlow × Nat :=
  (({ f with unacked := 0 } : TrInFlow).updateEws, f.unacked)

/-- `trInFlow.onData(n)` -/
def TrInFlow.onData (f : TrInFlow) (n : Nat) : TrInFlow × Nat :=
  let f1 : TrInFlow := { f with unacked := add32 f.unacked n }
  if f1.unacked < f1.limit / 4 then (f1.updateEws, 0) else f1.reset

/-! ### the callers' protocol, with the peer's view of the window as ghost state -/

/-- One atomic step of a stream's receive side. -/
inductive Op
  | data (size : Nat) (pad : Option Nat)
      -- handleData: `s.fc.onData(size)` for a DATA frame of flow-controlled length `size`;
      -- `pad = some p`: the PADDED flag is set and `p = size - dataLen` will be given back
  | pad (p : Nat)       -- handleData, padded frame: `s.fc.onRead(size - dataLen)`, then the payload is queued
  | req (n : Nat)       -- Stream.read / ReadMessageHeader: `requestRead(n)` → `maybeAdjust(uint32(n))`
  | read (k : Nat)      -- the reader got k bytes: `updateWindow(k)` → `onRead(k)`
  | bdp (n : Nat)       -- updateFlowControl(n): `newLimit(n)` (+ SETTINGS_INITIAL_WINDOW_SIZE = n)
deriving Repr, DecidableEq

inductive Out
  | accepted            -- onData returned nil
  | rejected            -- onData returned an error (the callers reset the stream with FLOW_CONTROL_ERROR)
  | wu (w : Nat)        -- increment of the WINDOW_UPDATE sent (0 = none)
  | done
deriving Repr, DecidableEq

/-- What the PEER can observe / what the property talks about, derived only from ops and answers. -/
structure Ghost where
  adv : Int                       -- stream window the peer currently holds (credits granted − data sent)
  cfg : Nat                       -- configured window (initial window, raised by BDP updates)
  want : Nat := 0                 -- bytes of the current read request not yet read
  avail : Nat := 0                -- payload bytes queued for the application, not yet read
  inflight : Option (Nat × Nat) := none   -- padded frame accounted by onData, padding not yet returned
  failed : Bool := false          -- a frame was rejected: the stream is gone
deriving Repr, DecidableEq

def Ghost.init (limit : Nat) : Ghost := { adv := limit, cfg := limit }

/-- bytes received and not yet read or given back (what `pendingData` should be) -/
def Ghost.outstanding (g : Ghost) : Nat :=
  g.avail + (match g.inflight with | some (s, _) => s | none => 0)

/-- Callers' protocol: which op can happen next.  `strict` additionally excludes a BDP update that
    would lift `limit + delta` above 2^31-1 (it needs a ≥ 2 GiB - 16 MiB read in flight). -/
def Ghost.legal (strict : Bool) (g : Ghost) (delta : Nat) : Op → Bool
  | .data size pad =>
    !g.failed && g.inflight.isNone && decide (0 < size) && decide (size < 16777216)
      && (match pad with | some p => decide (p ≤ size) | none => true)
  | .pad p => !g.failed && (match g.inflight with | some (_, p') => decide (p = p') | none => false)
  | .req n => !g.failed && decide (g.want = 0) && decide (n < W)
  | .read k => !g.failed && decide (k ≤ g.want) && decide (k ≤ g.avail)
  | .bdp n => !g.failed && decide (g.cfg ≤ n) && decide (n ≤ fcBdpLimit)
      && (!strict || decide (n + delta ≤ fcMaxWindowSize))

/-- ghost update from the op and the answer that was OBSERVED for it -/
def Ghost.next (g : Ghost) : Op → Out → Ghost
  | .data size pad, .accepted =>
    match pad with
    | some p => { g with adv := g.adv - size, inflight := some (size, p) }
    | none => { g with adv := g.adv - size, avail := g.avail + size }
  | .data size _, .rejected => { g with adv := g.adv - size, failed := true }
  | .pad _, .wu w =>
    match g.inflight with
    | some (s, p) => { g with adv := g.adv + w, avail := g.avail + (s - p), inflight := none }
    | none => g
  | .req n, .wu w => { g with adv := g.adv + w, want := n }
  | .read k, .wu w => { g with adv := g.adv + w, want := g.want - k, avail := g.avail - k }
  | .bdp n, .done => { g with adv := g.adv + ((n : Int) - g.cfg), cfg := n }
  | _, _ => g

/-- "the window is restored": the peer holds the configured window except for a batched credit that is
    zero or strictly below a quarter of it (`adv ≥ cfg ∨ adv + cfg/4 > cfg`), and it can send. -/
def Ghost.restored (g : Ghost) : Bool :=
  (decide (g.adv ≥ (g.cfg : Int)) || decide (g.adv + ((g.cfg / 4 : Nat) : Int) > (g.cfg : Int)))
    && (decide (g.cfg = 0) || decide (g.adv > 0))

/-- window clauses of C04 on a ghost state -/
def Ghost.windowErr (g : Ghost) : Option String :=
  if g.adv > (maxInt32 : Int) then some "advertised stream window exceeds 2^31-1"
  else if g.adv < 0 then some "advertised stream window negative"
  else if decide (g.outstanding = 0) && !g.restored then
    some "all delivered data read but the window is not restored to within a quarter of the configured window"
  else none

/-- a read larger than the window is granted: after `requestRead(n)` the peer may send the rest of
    the message (or the window is at the protocol maximum) -/
def Ghost.readGranted (g g' : Ghost) (n w : Nat) : Bool :=
  decide (g'.adv ≥ ((if n > maxInt32 then maxInt32 else n : Nat) : Int) - (g.outstanding : Int))
    || decide (g.cfg + w = maxInt32)

/-- C04 on one observed step (`g` before, `g.next op out` after): the executable property predicate. -/
def Ghost.verdict (g : Ghost) (op : Op) (out : Out) : Except String Unit :=
  match op, out with
  | .data size _, .rejected =>
    if (size : Int) ≤ g.adv then .error "DATA within the advertised window was rejected" else .ok ()
  | .data size _, .accepted =>
    if (size : Int) > g.adv then .error "DATA exceeding the advertised window was accepted" else .ok ()
  | .pad p, .wu w =>
    match (g.next (.pad p) (.wu w)).windowErr with | some e => .error e | none => .ok ()
  | .read k, .wu w =>
    match (g.next (.read k) (.wu w)).windowErr with | some e => .error e | none => .ok ()
  | .bdp n, .done =>
    match (g.next (.bdp n) .done).windowErr with | some e => .error e | none => .ok ()
  | .req n, .wu w =>
    match (g.next (.req n) (.wu w)).windowErr with
    | some e => .error e
    | none =>
      if g.readGranted (g.next (.req n) (.wu w)) n w then .ok ()
      else .error "requested read is larger than the window and was not granted"
  | _, _ => .error "unexpected answer"

/-- Model state: the real bookkeeping plus the ghost. -/
structure State where
  f : InFlow
  g : Ghost
deriving Repr

def State.init (limit : Nat) : State := { f := { limit := limit }, g := Ghost.init limit }

/-- the ported code's answer to an op -/
def implStep (f : InFlow) : Op → InFlow × Out
  | .data size _ => ((f.onData size).1, if (f.onData size).2 then .rejected else .accepted)
  | .pad p => ((f.onRead p).1, .wu (f.onRead p).2)
  | .req n => ((f.maybeAdjust (n % W)).1, .wu (f.maybeAdjust (n % W)).2)
  | .read k => ((f.onRead k).1, .wu (f.onRead k).2)
  | .bdp n => (f.newLimit n, .done)

def step (s : State) (op : Op) : State × Out :=
  ({ f := (implStep s.f op).1, g := s.g.next op (implStep s.f op).2 }, (implStep s.f op).2)

def run (s : State) : List Op → State × List Out
  | [] => (s, [])
  | o :: os => let (s', x) := step s o; let (s'', xs) := run s' os; (s'', x :: xs)

/-- a history all of whose ops are legal when they happen -/
def legalRun (strict : Bool) (s : State) : List Op → Bool
  | [] => true
  | o :: os => s.g.legal strict s.f.delta o && legalRun strict (step s o).1 os

/-! ### connection level -/

inductive TOp
  | data (n : Nat)      -- handleData: `t.fc.onData(size)`
  | reset               -- before a BDP ping: `t.fc.reset()`
  | bdp (n : Nat)       -- updateFlowControl: `t.fc.newLimit(n)`
deriving Repr, DecidableEq

structure TState where
  f : TrInFlow
  adv : Int             -- connection window the peer holds
deriving Repr

def TState.init (limit : Nat) : TState := { f := { limit := limit, ews := 0 }, adv := limit }

def tstep (s : TState) : TOp → TState × Nat
  | .data n => ({ f := (s.f.onData n).1, adv := s.adv - n + (s.f.onData n).2 }, (s.f.onData n).2)
  | .reset => ({ f := s.f.reset.1, adv := s.adv + s.f.reset.2 }, s.f.reset.2)
  | .bdp n => ({ f := (s.f.newLimit n).1, adv := s.adv + (s.f.newLimit n).2 }, (s.f.newLimit n).2)

def TState.legal (s : TState) : TOp → Bool
  | .data n => decide ((n : Int) ≤ s.adv) && decide (n < 16777216)   -- a conforming peer
  | .reset => true
  | .bdp n => decide (s.f.limit ≤ n) && decide (n ≤ fcBdpLimit)

/-- the connection window is replenished on reception: `unacked` is zero or strictly below a quarter -/
def connRestored (adv : Int) (limit : Nat) : Bool :=
  (decide (adv ≥ (limit : Int)) || decide (adv + ((limit / 4 : Nat) : Int) > (limit : Int)))
    && (decide (limit = 0) || decide (adv > 0))

def trun (s : TState) : List TOp → TState
  | [] => s
  | o :: os => trun (tstep s o).1 os

def tlegalRun (s : TState) : List TOp → Bool
  | [] => true
  | o :: os => s.legal o && tlegalRun (tstep s o).1 os

end GrpcModel.InFlow
