/-
Model of
  internal/grpcutil/encode_duration.go : div, EncodeDuration
  internal/transport/http_util.go      : timeoutUnitToDuration, decodeTimeout
Durations are Int nanoseconds (time.Duration = int64); header strings are byte lists.
-/
import GrpcModel.Generated.Timeout
namespace GrpcModel.Timeout
open GrpcModel.Generated

/-- Go: `func div(d, r time.Duration) int64 { if d%r > 0 { return d/r + 1 }; return d/r }` (d > 0, r > 0). -/
def cdiv (d r : Nat) : Nat := if d % r > 0 then d / r + 1 else d / r

inductive TUnit | n | u | m | S | M | H
deriving DecidableEq, Repr

/-- `timeoutUnitToDuration`, in nanoseconds. -/
def TUnit.ns : TUnit → Nat
  | .n => 1 | .u => 1000 | .m => 1000000 | .S => 1000000000
  | .M => 60000000000 | .H => 3600000000000

def TUnit.byte : TUnit → UInt8
  | .n => 110 | .u => 117 | .m => 109 | .S => 83 | .M => 77 | .H => 72

def unitOfByte (b : UInt8) : Option TUnit :=
  if b = 110 then some .n else if b = 117 then some .u else if b = 109 then some .m
  else if b = 83 then some .S else if b = 77 then some .M else if b = 72 then some .H else none

abbrev maxInt64 : Nat := 9223372036854775807

/-- `EncodeDuration` for t > 0, as (value, unit). -/
def encode (t : Nat) : Nat × TUnit :=
  if cdiv t 1 ≤ maxTimeoutValue then (cdiv t 1, .n)
  else if cdiv t 1000 ≤ maxTimeoutValue then (cdiv t 1000, .u)
  else if cdiv t 1000000 ≤ maxTimeoutValue then (cdiv t 1000000, .m)
  else if cdiv t 1000000000 ≤ maxTimeoutValue then (cdiv t 1000000000, .S)
  else if cdiv t 60000000000 ≤ maxTimeoutValue then (cdiv t 60000000000, .M)
  else (cdiv t 3600000000000, .H)

/-- `decodeTimeout` after parsing: the hour clamp, else the product. -/
def decode (v : Nat) (un : TUnit) : Nat :=
  if un = .H ∧ v > maxInt64 / 3600000000000 then maxInt64 else un.ns * v

/-- decimal digits of a natural number, most significant first (`strconv.FormatInt` for n ≥ 0). -/
def digitsRev (fuel n : Nat) : List UInt8 :=
  match fuel with
  | 0 => []
  | fuel + 1 => if n < 10 then [UInt8.ofNat (48 + n)] else UInt8.ofNat (48 + n % 10) :: digitsRev fuel (n / 10)

def fmtNat (n : Nat) : List UInt8 := (digitsRev (n + 1) n).reverse

/-- `EncodeDuration` as bytes. -/
def encodeBytes (t : Int) : List UInt8 :=
  if t ≤ 0 then [48, 110] else
    let (v, un) := encode t.toNat
    fmtNat v ++ [un.byte]

def isDigit (b : UInt8) : Bool := 48 ≤ b && b ≤ 57

/-- `strconv.ParseUint(s, 10, 64)` restricted to what can reach it here (≤ 8 bytes, so no range
    error): non-empty, all ASCII digits. -/
def parseDigits : List UInt8 → Option Nat
  | [] => none
  | bs => if bs.all isDigit then some (bs.foldl (fun a b => a * 10 + (b.toNat - 48)) 0) else none

/-- `decodeTimeout` on the raw header bytes. -/
def decodeBytes (bs : List UInt8) : Option Nat :=
  let size := bs.length
  if size < 2 then none
  else if size > 9 then none
  else match bs.getLast? with
    | none => none
    | some l => match unitOfByte l with
      | none => none
      | some un => match parseDigits bs.dropLast with
        | none => none
        | some v => some (decode v un)

/-- The property's acceptance language: 1–8 ASCII digits followed by one of H M S m u n. -/
def wellFormed (bs : List UInt8) : Bool :=
  match bs.getLast? with
  | none => false
  | some l => (unitOfByte l).isSome && 1 ≤ bs.dropLast.length && bs.dropLast.length ≤ 8
              && bs.dropLast.all isDigit

end GrpcModel.Timeout
