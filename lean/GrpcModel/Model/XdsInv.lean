import GrpcModel.Model.EDSParse
/-
C45, RDS / CDS / LDS part.

* `weightedClusters`: port of the `RouteAction_WeightedClusters` branch of `routesProtoToSlice`
  (internal/xds/xdsclient/xdsresource/unmarshal_rds.go): zero-weight clusters are skipped, the
  uint64 running total must not exceed MaxUint32, and the total must be positive.
* Acceptance invariants of RouteConfigUpdate / ClusterUpdate / ListenerUpdate as decidable
  predicates on the canonical dump the harness prints for every accepted update.  The CDS / LDS
  validators themselves are NOT ported (C45 is `partial`): their invariants are only monitored.

Dump grammars (space separated tokens; strings as hex, `-` = empty):

  rds:  <ncsp> <nunref> <nvh> { <ndomains> <retry> <nroutes> { <pk> <act> <csp> <retry> <nwc> {<w>} } }
        ncsp = plugins in the update, nunref = plugins no route refers to,
        pk = how many of Prefix / Path / Regex are set, act = ActionType (0 unsupported, 1 route,
        2 non-forwarding), csp = 0 none | 1 names a plugin present in the update with a config | 2 dangling,
        retry = `-` | <nRetryOn>:<numRetries>:<baseNs>:<maxNs>
  cds:  <namehex> <type> <edsnamehex> <dnshex> <nprio> <lbok> <odok> <maxreq|-> <ringMin:ringMax|->
        (ring sizes of a ring_hash LB policy; lbok = 1 when the LB registry parses the policy JSON)
  lds:  api <rcnamehex> <inline> [rds dump if inline = 1] <msdNs> <nfilters> { <namehex> <terminal> }
        tcp <addrhex> <porthex>
-/
namespace GrpcModel.XdsInv
open GrpcModel.EDSParse

/-! ### RDS weighted clusters -/

inductive WcErr | sum | empty
deriving Repr, DecidableEq

def wcLoop : List Nat → Nat → List Nat → Except WcErr (Nat × List Nat)
  | [], total, acc => .ok (total, acc)
  | w :: rest, total, acc =>
    if w = 0 then wcLoop rest total acc else
    let total := u64add total w
    if total > maxUint32 then .error .sum else wcLoop rest total (acc ++ [w])

/-- weights of `wcs.Clusters` ↦ weights of `route.WeightedClusters` -/
def weightedClusters (ws : List Nat) : Except WcErr (List Nat) :=
  match wcLoop ws 0 [] with
  | .error e => .error e
  | .ok (total, acc) => if total = 0 then .error .empty else .ok acc

def showWc : Except WcErr (List Nat) → String
  | .ok l => "ok " ++ ",".intercalate (l.map toString)
  | .error .sum => "err wcsum"
  | .error .empty => "err wcempty"

/-- invariant of an accepted weighted-cluster action -/
def wcInv (kept : List Nat) : Bool :=
  !kept.isEmpty && kept.all (· > 0) && decide (sumNat kept ≤ maxUint32) && decide (sumNat kept > 0)

def natListOf (s : String) : Option (List Nat) := if s = "-" ∨ s = "" then some [] else (s.splitOn ",").mapM String.toNat?

def wcMonitor (_ws : List Nat) (impl : String) : String :=
  match (impl.splitOn " ").filter (· ≠ "") with
  | ["ok", l] => match natListOf l with
    | some kept => if wcInv kept then "ok" else "VIOL accepted weighted clusters without positive total weight / with a zero weight / above uint32"
    | none => "VIOL unparsable"
  | ["ok"] => "VIOL accepted a weighted-cluster action with no cluster"
  | ["err", _] => "ok"
  | _ => "VIOL implementation answered neither ok nor err: " ++ impl

/-! ### token parsing -/

abbrev P := StateT (List String) Option

def tok : P String := do
  match (← get) with
  | [] => failure
  | t :: rest => set rest; pure t

def num : P Nat := do
  match (← tok).toNat? with
  | some n => pure n
  | none => failure

def rep (n : Nat) (p : P α) : P (List α) :=
  match n with
  | 0 => pure []
  | n + 1 => do
    let a ← p
    let rest ← rep n p
    pure (a :: rest)

/-! ### RDS -/

structure Retry where
  nRetryOn : Nat
  numRetries : Nat
  base : Nat
  max : Nat
deriving Repr

structure RouteD where
  pk : Nat
  act : Nat
  csp : Nat
  retry : Option Retry
  wcs : List Nat
deriving Repr

structure VHostD where
  ndomains : Nat
  retry : Option Retry
  routes : List RouteD
deriving Repr

structure RdsD where
  ncsp : Nat
  nunref : Nat
  vhosts : List VHostD
deriving Repr

def pRetry : P (Option Retry) := do
  let t ← tok
  if t = "-" then pure none else
  match (t.splitOn ":").mapM String.toNat? with
  | some [a, b, c, d] => pure (some { nRetryOn := a, numRetries := b, base := c, max := d })
  | _ => failure

def pRoute : P RouteD := do
  let pk ← num
  let act ← num
  let csp ← num
  let retry ← pRetry
  let nwc ← num
  let wcs ← rep nwc num
  pure { pk := pk, act := act, csp := csp, retry := retry, wcs := wcs }

def pVHost : P VHostD := do
  let nd ← num
  let retry ← pRetry
  let nr ← num
  let routes ← rep nr pRoute
  pure { ndomains := nd, retry := retry, routes := routes }

def pRds : P RdsD := do
  let ncsp ← num
  let nunref ← num
  let nvh ← num
  let vhs ← rep nvh pVHost
  pure { ncsp := ncsp, nunref := nunref, vhosts := vhs }

/-- a non-empty RetryOn set comes with num_retries ≥ 1 and positive intervals; the empty
    RetryConfig{} (no supported retry_on code) is all zeros -/
def retryInv : Option Retry → Bool
  | none => true
  | some r => if r.nRetryOn = 0 then r.numRetries = 0 && r.base = 0 && r.max = 0
              else decide (r.numRetries ≥ 1) && decide (r.base > 0) && decide (r.max > 0)

/-- every accepted route has exactly one path matcher; its action is one of the three known kinds;
    a forwarding action names either an existing cluster-specifier plugin or a non-empty list of
    clusters of positive weight whose total fits uint32 -/
def routeInv (r : RouteD) : Option String :=
  if r.pk ≠ 1 then some s!"a route has {r.pk} path matchers"
  else if r.act > 2 then some s!"a route has action type {r.act}"
  else if r.act = 1 ∧ r.csp = 2 then some "a route names a cluster specifier plugin that is not in the update"
  else if r.act = 1 ∧ r.csp = 1 ∧ !r.wcs.isEmpty then some "a route has both a cluster specifier plugin and clusters"
  else if r.act = 1 ∧ r.csp = 0 ∧ !wcInv r.wcs then some "a forwarding route without clusters of positive total weight (≤ uint32)"
  else if r.act ≠ 1 ∧ (!r.wcs.isEmpty ∨ r.csp ≠ 0) then some "a non-forwarding route carries clusters"
  else if !retryInv r.retry then some "a route retry policy with retry_on codes but num_retries < 1 or a non-positive interval"
  else none

def rdsInv (d : RdsD) : Option String :=
  if d.nunref ≠ 0 then some "the update keeps a cluster specifier plugin no route refers to" else
  d.vhosts.findSome? fun vh =>
    if !retryInv vh.retry then some "a virtual host retry policy with retry_on codes but num_retries < 1 or a non-positive interval"
    else vh.routes.findSome? routeInv

def verdict (what : String) (r : Option String) : String :=
  match r with
  | none => "ok"
  | some s => "VIOL accepted " ++ what ++ " breaks an invariant: " ++ s

def rdsMonitor (ts : List String) : String :=
  match pRds.run ts with
  | some (d, []) => verdict "RouteConfigUpdate" (rdsInv d)
  | _ => "VIOL unparsable dump"

/-! ### CDS -/

/-- ringHashSizeUpperBound of unmarshal_cds.go (8M) -/
def ringHashSizeUpperBound : Nat := 8388608

/-- ring sizes of an accepted ring_hash policy: neither above 8M, and min ≤ max — both as written
    (the check added to unmarshal_cds.go by e491411) and as the ring_hash config parser reads them
    (balancer/ringhash/config.go: a size of 0 means "unset": min defaults to 1024, max to 4096) -/
def ringInv (rh : String) : Option String :=
  if rh = "-" then none else
  match (rh.splitOn ":").mapM String.toNat? with
  | some [mn, mx] =>
    let effMin := if mn = 0 then 1024 else mn
    let effMax := if mx = 0 then 4096 else mx
    if mn > ringHashSizeUpperBound then some s!"ring_hash LB policy with minRingSize {mn} above {ringHashSizeUpperBound}"
    else if mx > ringHashSizeUpperBound then some s!"ring_hash LB policy with maxRingSize {mx} above {ringHashSizeUpperBound}"
    else if mn > mx then some s!"ring_hash LB policy with minRingSize {mn} > maxRingSize {mx}"
    else if effMin > effMax then
      some s!"ring_hash LB policy whose effective minRingSize {effMin} (0 means default) exceeds its effective maxRingSize {effMax}"
    else none
  | _ => some "unparsable ring sizes"

def cdsMonitor (ts : List String) : String :=
  match ts with
  | [name, typ, _eds, dns, nprio, lbok, odok, maxreq, rh] =>
    match typ.toNat?, nprio.toNat? with
    | some t, some np =>
      verdict "ClusterUpdate" <|
        if name = "-" then some "empty cluster name"
        else if t > 2 then some s!"cluster type {t}"
        else if t = 1 ∧ dns = "-" then some "LOGICAL_DNS cluster without a DNS host name"
        else if t ≠ 1 ∧ dns ≠ "-" then some "a DNS host name on a non-LOGICAL_DNS cluster"
        else if t = 2 ∧ np = 0 then some "aggregate cluster without child clusters"
        else if t ≠ 2 ∧ np ≠ 0 then some "child clusters on a non-aggregate cluster"
        else if (ringInv rh).isSome then ringInv rh
        else if lbok = "ringsize" then some "LB policy JSON is rejected by the ring_hash config parser (ring size bounds)"
        else if lbok ≠ "1" then some "LB policy JSON is not a valid LB config"
        else if odok ≠ "1" then some "outlier detection JSON is invalid"
        else if maxreq ≠ "-" ∧ maxreq.toNat?.isNone then some "max requests unparsable"
        else none
    | _, _ => "VIOL unparsable dump"
  | _ => "VIOL unparsable dump"

/-! ### LDS -/

def pFilters : P (List (String × Nat)) := do
  let n ← num
  rep n (do
    let name ← tok
    let term ← num
    pure (name, term))

def filtersInv (fs : List (String × Nat)) : Option String :=
  if fs.isEmpty then some "no HTTP filter"
  else if fs.any (·.1 = "-") then some "an HTTP filter without a name"
  else if !(decide (fs.map (·.1)).Nodup) then some "a repeated HTTP filter name"
  else if (fs.getLast?.map (·.2)) ≠ some 1 then some "the last HTTP filter is not terminal"
  else if fs.dropLast.any (·.2 = 1) then some "a terminal HTTP filter that is not last"
  else none

def ldsMonitor (ts : List String) : String :=
  match ts with
  | "api" :: rc :: inl :: rest =>
    let p : P (Option String) := do
      let rdsV ← if inl = "1" then (do let d ← pRds; pure (rdsInv d)) else pure none
      let _msd ← num
      let fs ← pFilters
      pure <|
        if rc ≠ "-" ∧ inl = "1" then some "both a route config name and an inline route config"
        else if rc = "-" ∧ inl ≠ "1" then some "neither a route config name nor an inline route config"
        else match rdsV with
          | some v => some v
          | none => filtersInv fs
    match p.run rest with
    | some (v, []) => verdict "ListenerUpdate" v
    | _ => "VIOL unparsable dump"
  | ["tcp", addr, port] =>
    -- the address string is copied from the proto as it is (it may be empty: whether it matches the socket the server
    -- listens on is checked by xds/server, not by the unmarshaller); the port is always rendered
    let _ := addr
    verdict "ListenerUpdate" (if port = "-" then some "server listener without a port" else none)
  | _ => "VIOL unparsable dump"

end GrpcModel.XdsInv
