/-
Model of
  service_config.go : minPointers, getMaxSize, the maxRequest/ResponseMessageBytes clamp of parseServiceConfig
  stream.go         : newClientStreamWithParams (call options then getMaxSize), clientStream.SendMsg /
                      serverStream.SendMsg payload-length check
  rpc_util.go       : MaxCallRecvMsgSize / MaxCallSendMsgSize `before`, compress (empty message is never
                      compressed), parser.recvMsg length check, decompress size check
  server.go         : MaxRecvMsgSize / MaxSendMsgSize server options and their defaults
Sizes and limits are Int (Go `int`, 64-bit; limits may be negative).
-/
import GrpcModel.Generated.MsgSize
namespace GrpcModel.MsgSize
open GrpcModel.Generated

/-- `const maxInt = int(^uint(0) >> 1)` on a 64-bit platform. -/
abbrev maxInt : Int := 9223372036854775807

/-- `func minPointers(a, b *int) *int { if *a < *b { return a }; return b }` -/
def minPointers (a b : Int) : Int := if a < b then a else b

/-- `getMaxSize(mcMax, doptMax *int, defaultVal int) *int` (nil = `none`), source order of the checks. -/
def getMaxSize (mcMax doptMax : Option Int) (defaultVal : Int) : Int :=
  match mcMax, doptMax with
  | none, none => defaultVal
  | some a, some b => minPointers a b
  | some a, none => a
  | none, some b => b

/-- Service config: `if *m.MaxRequestMessageBytes > int64(maxInt) { maxInt } else { int(x) }` (x is an int64). -/
def scClamp (x : Int) : Int := if x > maxInt then maxInt else x

/-- Call options are applied in order `dial defaults ++ per-call`; each MaxCall…MsgSize overwrites the
    pointer, so the per-call option wins over the dial option. -/
def optLimit (dialOpt callOpt : Option Int) : Option Int :=
  match callOpt with
  | some c => some c
  | none => dialOpt

structure ClientCfg where
  scReq : Option Int := none     -- service config maxRequestMessageBytes
  scResp : Option Int := none    -- service config maxResponseMessageBytes
  dialSend : Option Int := none  -- WithDefaultCallOptions(MaxCallSendMsgSize)
  dialRecv : Option Int := none  -- WithDefaultCallOptions(MaxCallRecvMsgSize)
  callSend : Option Int := none  -- per-call MaxCallSendMsgSize
  callRecv : Option Int := none  -- per-call MaxCallRecvMsgSize
deriving Repr

structure ServerCfg where
  recv : Option Int := none      -- grpc.MaxRecvMsgSize
  send : Option Int := none      -- grpc.MaxSendMsgSize
deriving Repr

def clientSendLimit (c : ClientCfg) : Int :=
  getMaxSize (c.scReq.map scClamp) (optLimit c.dialSend c.callSend) msDefaultClientMaxSend
def clientRecvLimit (c : ClientCfg) : Int :=
  getMaxSize (c.scResp.map scClamp) (optLimit c.dialRecv c.callRecv) msDefaultClientMaxRecv
def serverRecvLimit (s : ServerCfg) : Int := s.recv.getD msDefaultServerMaxRecv
def serverSendLimit (s : ServerCfg) : Int := s.send.getD msDefaultServerMaxSend

/-- A compressor as far as sizes are concerned: the wire size of a message of `n > 0` bytes
    (`decompress (compress x) = x` is assumed). -/
structure Comp where
  wire : Nat → Nat

/-- `compress`: nothing to do without a compressor or for an empty message. -/
def wireLen (comp : Option Comp) (n : Nat) : Nat :=
  match comp with
  | none => n
  | some c => if n = 0 then 0 else c.wire n

/-- Is the compressed flag set on the wire? -/
def isCompressed (comp : Option Comp) (n : Nat) : Bool := comp.isSome && n != 0

inductive Code | ok | resourceExhausted
deriving DecidableEq, Repr

/-- SendMsg: `if payloadLen > limit { RESOURCE_EXHAUSTED }` before anything is handed to the transport. -/
def sendOk (payloadLen : Nat) (limit : Int) : Bool := !((payloadLen : Int) > limit)

/-- What the application hands to SendMsg: an ordinary message of `n` encoded bytes, or a
    `*grpc.PreparedMsg` (preloader.go) that `Encode` filled on this stream beforehand. -/
structure Prepared where
  payload : Nat        -- len(p.payload): the post-compression bytes stored by Encode
  plain : Nat          -- len(p.encodedData)
deriving DecidableEq, Repr

inductive Msg
  | plain (n : Nat)
  | prepared (p : Prepared)
deriving DecidableEq, Repr

/-- `PreparedMsg.Encode(stream, m)`: encode with the stream's codec, compress with the stream's compressor. -/
def encodePrepared (comp : Option Comp) (n : Nat) : Prepared := ⟨wireLen comp n, n⟩

/-- `prepareMsg`: a PreparedMsg short-circuits encoding/compression and yields its stored payload. -/
def payloadLenOf (comp : Option Comp) : Msg → Nat
  | .plain n => wireLen comp n
  | .prepared p => p.payload

/-- `SendMsg` (clientStream / addrConnStream / serverStream): `prepareMsg`, then the length check on
    whatever it returned, then the transport write. `none` = RESOURCE_EXHAUSTED and nothing written;
    `some k` = k payload bytes handed to the transport. -/
def sendMsg (comp : Option Comp) (limit : Int) (m : Msg) : Option Nat :=
  if sendOk (payloadLenOf comp m) limit then some (payloadLenOf comp m) else none

/-- Which check rejected a message. -/
inductive Why | none | send | recvWire | recvPlain
deriving DecidableEq, Repr

/-- recvMsg (`int(length) > max`), then — for a compressed message — decompress (`size > max`). -/
def recvCheck (wire : Nat) (compressed : Bool) (plain : Nat) (limit : Int) : Why :=
  if (wire : Int) > limit then .recvWire
  else if compressed && (plain : Int) > limit then .recvPlain
  else .none

def recvOk (wire : Nat) (compressed : Bool) (plain : Nat) (limit : Int) : Bool :=
  recvCheck wire compressed plain limit = .none

/-- What one unary echo-style RPC does: request of `req` bytes, the handler answers `resp` bytes. -/
structure Result where
  code : Code
  why : Why
  transmittedReq : Bool        -- the request message was handed to the transport
  serverGot : Option Nat       -- size of the message the handler received
  transmittedResp : Bool
  clientGot : Option Nat       -- size of the reply the application received
deriving DecidableEq, Repr

def rpc (c : ClientCfg) (s : ServerCfg) (comp : Option Comp) (req resp : Nat) : Result :=
  if !sendOk (wireLen comp req) (clientSendLimit c) then
    ⟨.resourceExhausted, .send, false, none, false, none⟩
  else if !recvOk (wireLen comp req) (isCompressed comp req) req (serverRecvLimit s) then
    ⟨.resourceExhausted, recvCheck (wireLen comp req) (isCompressed comp req) req (serverRecvLimit s), true, none, false, none⟩
  else if !sendOk (wireLen comp resp) (serverSendLimit s) then
    ⟨.resourceExhausted, .send, true, some req, false, none⟩
  else if !recvOk (wireLen comp resp) (isCompressed comp resp) resp (clientRecvLimit c) then
    ⟨.resourceExhausted, recvCheck (wireLen comp resp) (isCompressed comp resp) resp (clientRecvLimit c), true, some req, true, none⟩
  else ⟨.ok, .none, true, some req, true, some resp⟩

end GrpcModel.MsgSize
