/-
Model of how a handler's status reaches the client (C10):
  server.go                          : processRPC tail (status.FromError / WriteStatus(statusOK))
  internal/transport/http2_server.go : writeStatus (trailer field list)
  internal/transport/http2_client.go : operateHeaders (the gRPC branch: field switch, trailer)
  internal/status/status.go          : New, NewWithProto, Code, Err (OK -> nil)
plus, as modelled-not-verified support (trusted base, tied by the differential runs):
  google.golang.org/protobuf : wire encoding of google.rpc.Status / google.protobuf.Any
                               (proto.Marshal with proto3 UTF-8 enforcement, proto.Unmarshal)
  strconv                    : Itoa, ParseInt(s, 10, 32)
-/
import GrpcModel.Model.Headers
import GrpcModel.Model.StatusMsg
namespace GrpcModel.Status
open GrpcModel.Base64 (Bytes)
open GrpcModel.Headers
open GrpcModel

/-! ### google.rpc.Status -/

structure AnyPB where
  typeUrl : Bytes
  value : Bytes
deriving DecidableEq, Repr, Inhabited

/-- `*status.Status` / `spb.Status`. `code` is the `codes.Code` (uint32) view of the int32 proto
    field: `Code() = codes.Code(s.s.Code)`; 0 ≤ code < 2^32. -/
structure Status where
  code : Nat
  msg : Bytes
  details : List AnyPB
deriving DecidableEq, Repr, Inhabited

/-! ### protobuf wire format (protowire + impl coders for these two messages) -/

/-- `protowire.AppendVarint` (v < 2^64). Fuel 10 = maximal number of groups of 7 bits. -/
def appendVarint : Nat → Nat → Bytes
  | 0, _ => []
  | fuel + 1, v => if v < 128 then [UInt8.ofNat v] else UInt8.ofNat (v % 128 + 128) :: appendVarint fuel (v / 128)

def varint (v : Nat) : Bytes := appendVarint 10 v

/-- int32 field value as the uint64 that is varint-encoded (sign extension): `uint64(int64(int32))`. -/
def int32ToU64 (code : Nat) : Nat := if code < 2147483648 then code else code + (18446744073709551616 - 4294967296)

/-- `int32(v)` of a decoded varint, in the uint32 view. -/
def u64ToCode (v : Nat) : Nat := v % 4294967296

def lenDelim (tag : UInt8) (b : Bytes) : Bytes := tag :: (varint b.length ++ b)

/-- `proto.Marshal` of an Any (fields in number order, proto3: zero values omitted). -/
def marshalAnyBody (a : AnyPB) : Bytes :=
  (if a.typeUrl.isEmpty then [] else lenDelim 0x0A a.typeUrl) ++
  (if a.value.isEmpty then [] else lenDelim 0x12 a.value)

def marshalBody (s : Status) : Bytes :=
  (if s.code = 0 then [] else 0x08 :: varint (int32ToU64 s.code)) ++
  (if s.msg.isEmpty then [] else lenDelim 0x12 s.msg) ++
  s.details.flatMap fun a => lenDelim 0x1A (marshalAnyBody a)

/-- `proto.Marshal(p)`: fails ("string field contains invalid UTF-8") when the message or a
    detail's type_url is not valid UTF-8. -/
def marshal (s : Status) : Option Bytes :=
  if StatusMsg.validUtf8 s.msg && s.details.all (fun a => StatusMsg.validUtf8 a.typeUrl) then some (marshalBody s) else none

/-- `protowire.ConsumeVarint`: at most 10 bytes, the 10th must be 0 or 1; `none` = truncated /
    overflow. Returns the value and the remaining bytes. -/
def consumeVarintAux : Nat → Nat → Bytes → Option (Nat × Bytes)
  | _, _, [] => none
  | i, acc, x :: r =>
    if i = 9 then (if x.toNat < 2 then some (acc + x.toNat * 2 ^ 63, r) else none)
    else if x.toNat < 128 then some (acc + x.toNat * 2 ^ (7 * i), r)
    else consumeVarintAux (i + 1) (acc + (x.toNat - 128) * 2 ^ (7 * i)) r

def consumeVarint (b : Bytes) : Option (Nat × Bytes) := consumeVarintAux 0 0 b

/-- `protowire.ConsumeBytes`. -/
def consumeBytes (b : Bytes) : Option (Bytes × Bytes) :=
  match consumeVarint b with
  | none => none
  | some (m, r) => if m > r.length then none else some (r.take m, r.drop m)

/-- `protowire.ConsumeFieldValue` (returns the remaining bytes); groups with fuel. -/
def consumeFieldValue : Nat → Nat → Nat → Bytes → Option Bytes
  | 0, _, _, _ => none
  | fuel + 1, num, typ, b =>
    match typ with
    | 0 => (consumeVarint b).map (·.2)
    | 5 => if b.length < 4 then none else some (b.drop 4)
    | 1 => if b.length < 8 then none else some (b.drop 8)
    | 2 => (consumeBytes b).map (·.2)
    | 3 => group fuel num fuel b
    | _ => none
where
  /-- the `for` loop of the StartGroup case; `n` bounds its iterations -/
  group (fuel num : Nat) : Nat → Bytes → Option Bytes
    | 0, _ => none
    | n + 1, b =>
      match consumeVarint b with
      | none => none
      | some (tag, r) =>
        let num2 := tag / 8
        if num2 > 2147483647 ∨ num2 < 1 then none
        else if tag % 8 = 4 then (if num = num2 then some r else none)
        else match consumeFieldValue fuel num2 (tag % 8) r with
          | none => none
          | some r' => group fuel num n r'

/-- Result of one known-field decoder: `unknown` = errUnknown (wrong wire type → skipped as an
    unknown field), `fail` = errDecode / invalid UTF-8. -/
inductive FieldRes (α : Type)
  | ok (v : α) (rest : Bytes)
  | unknown
  | fail

/-- `unmarshalPointerEager` for google.protobuf.Any. -/
def unmarshalAnyAux : Nat → AnyPB → Bytes → Option AnyPB
  | _, a, [] => some a
  | 0, _, _ :: _ => none
  | fuel + 1, a, b =>
    match consumeVarint b with
    | none => none
    | some (tag, r) =>
      let num := tag / 8
      let typ := tag % 8
      if num < 1 ∨ num > 536870911 then none
      else if typ = 4 then none
      else
        let known : FieldRes AnyPB :=
          if num = 1 then
            (if typ ≠ 2 then .unknown else match consumeBytes r with
              | none => .fail
              | some (v, r') => if StatusMsg.validUtf8 v then .ok { a with typeUrl := v } r' else .fail)
          else if num = 2 then
            (if typ ≠ 2 then .unknown else match consumeBytes r with
              | none => .fail
              | some (v, r') => .ok { a with value := v } r')
          else .unknown
        match known with
        | .ok a' r' => unmarshalAnyAux fuel a' r'
        | .fail => none
        | .unknown =>
          match consumeFieldValue (r.length + 1) num typ r with
          | none => none
          | some r' => unmarshalAnyAux fuel a r'

def unmarshalAny (b : Bytes) : Option AnyPB := unmarshalAnyAux b.length ⟨[], []⟩ b

/-- `proto.Unmarshal(b, &spb.Status{})`. -/
def unmarshalAux : Nat → Status → Bytes → Option Status
  | _, s, [] => some s
  | 0, _, _ :: _ => none
  | fuel + 1, s, b =>
    match consumeVarint b with
    | none => none
    | some (tag, r) =>
      let num := tag / 8
      let typ := tag % 8
      if num < 1 ∨ num > 536870911 then none
      else if typ = 4 then none
      else
        let known : FieldRes Status :=
          if num = 1 then
            (if typ ≠ 0 then .unknown else match consumeVarint r with
              | none => .fail
              | some (v, r') => .ok { s with code := u64ToCode v } r')
          else if num = 2 then
            (if typ ≠ 2 then .unknown else match consumeBytes r with
              | none => .fail
              | some (v, r') => if StatusMsg.validUtf8 v then .ok { s with msg := v } r' else .fail)
          else if num = 3 then
            (if typ ≠ 2 then .unknown else match consumeBytes r with
              | none => .fail
              | some (v, r') => match unmarshalAny v with
                | none => .fail
                | some a => .ok { s with details := s.details ++ [a] } r')
          else .unknown
        match known with
        | .ok s' r' => unmarshalAux fuel s' r'
        | .fail => none
        | .unknown =>
          match consumeFieldValue (r.length + 1) num typ r with
          | none => none
          | some r' => unmarshalAux fuel s r'

def unmarshal (b : Bytes) : Option Status := unmarshalAux b.length ⟨0, [], []⟩ b

/-! ### strconv -/

def digitsRev : Nat → Nat → Bytes
  | 0, _ => []
  | fuel + 1, n => if n < 10 then [UInt8.ofNat (48 + n)] else UInt8.ofNat (48 + n % 10) :: digitsRev fuel (n / 10)

/-- `strconv.Itoa(n)` for n ≥ 0. -/
def itoa (n : Nat) : Bytes := (digitsRev (n + 1) n).reverse

def isDigit (b : UInt8) : Bool := 48 ≤ b && b ≤ 57

def digitsVal (bs : Bytes) : Nat := bs.foldl (fun a b => a * 10 + (b.toNat - 48)) 0

inductive ParseRes
  | ok (v : Int)
  | syntaxErr
  | rangeErr
deriving DecidableEq, Repr

/-- `strconv.ParseInt(s, 10, 32)`: optional sign, then one or more ASCII digits (base 10 given
    explicitly: no underscores, no prefixes); value outside [-2^31, 2^31-1] is a range error. -/
def parseInt32 (s : Bytes) : ParseRes :=
  match s with
  | [] => .syntaxErr
  | c :: rest =>
    let neg := c == 45
    let ds := if c == 43 || c == 45 then rest else s
    if ds.isEmpty || !ds.all isDigit then .syntaxErr
    else
      let v := digitsVal ds
      if neg then (if v > 2147483648 then .rangeErr else .ok (-(v : Int)))
      else (if v > 2147483647 then .rangeErr else .ok v)

/-- `codes.Code(uint32(code))` of an in-range int64. -/
def codeOfInt (v : Int) : Nat := (v % 4294967296).toNat

/-! ### server side -/

def hStatus : Bytes := asciiBytes "grpc-status"
def hMessage : Bytes := asciiBytes "grpc-message"
def hDetailsBin : Bytes := asciiBytes "grpc-status-details-bin"
def hContentType : Bytes := asciiBytes "content-type"
def hHttpStatus : Bytes := asciiBytes ":status"
def hGrpcEncoding : Bytes := asciiBytes "grpc-encoding"

/-- `grpcutil.ContentType(subtype)`. -/
def contentTypeOf (subtype : Bytes) : Bytes :=
  if subtype.isEmpty then asciiBytes "application/grpc" else asciiBytes "application/grpc+" ++ subtype

/-- What the handler's returned error becomes in `processRPC`: `nil` → `statusOK`; a status error
    → that status (`status.FromError`); any other error → `Unknown` + `err.Error()`
    (`FromContextError`, context errors aside). -/
inductive HandlerRet
  | nil
  | status (s : Status)
  | plain (msg : Bytes)

def appStatus : HandlerRet → Status
  | .nil => ⟨0, [], []⟩
  | .status s => s
  | .plain m => ⟨2, m, []⟩

/-- The field list of the trailing HEADERS frame built by `writeStatus`.
    `headerSent`: a HEADERS frame was already written (`updateHeaderSent()` returned true, or
    `len(s.header) > 0` made `writeStatus` send one first); otherwise this is a trailers-only
    response and `:status`/`content-type` lead.  `trailer` is `s.trailer`. -/
def writeStatus (headerSent : Bool) (subtype : Bytes) (st : Status) (trailer : MD) : List Field :=
  let pre : List Field := if headerSent then [] else [(hHttpStatus, asciiBytes "200"), (hContentType, contentTypeOf subtype)]
  let base : List Field := pre ++ [(hStatus, itoa st.code), (hMessage, StatusMsg.encode st.msg)]
  if st.details.isEmpty then appendHeaderFieldsFromMD base trailer
  else
    -- delete(s.trailer, grpcStatusDetailsBinHeader); marshal; on error only log
    let trailer' := mdDelete trailer hDetailsBin
    match marshal st with
    | some b => appendHeaderFieldsFromMD (base ++ [(hDetailsBin, Base64.encodeBinHeader b)]) trailer'
    | none => appendHeaderFieldsFromMD base trailer'

/-! ### client side -/

/-- What the client RPC ends with. `status` = `istatus.NewWithProto(...)` handed to closeStream
    (the RPC error is its `Err()`); the other constructors are the early exits of
    `operateHeaders`, each an error status of the given code. -/
inductive ClientEnd
  | status (s : Status)
  | malformedStatus (range : Bool) (value : Bytes)   -- codes.Unknown, "transport: malformed grpc-status: …"
  | nonGrpc                                          -- not a gRPC response (HTTP status mapping; C11's territory)
  | headerError (name : Bytes)                       -- codes.Internal, "transport: malformed <name>: …"
  | mismatch (code : Nat) (msg : Bytes)              -- codes.Internal, "grpc-status-details-bin mismatch: …"
deriving DecidableEq, Repr

/-- Loop state of the `for _, hf := range frame.Fields` switch (the parts that matter here). -/
structure Scan where
  isGRPC : Bool
  mdata : MD := []
  grpcMessage : Bytes := []
  code : Nat := 2            -- grpcStatusCode = codes.Unknown
  headerError : Option Bytes := none
  early : Option ClientEnd := none

/-- `grpcutil.ContentSubtype`: "application/grpc" followed by nothing, or by '+' or ';' and anything. -/
def validContentType (v : Bytes) : Bool :=
  let base := asciiBytes "application/grpc"
  v.take base.length == base &&
    (match v.drop base.length with
     | [] => true
     | c :: _ => c == 43 || c == 59)

def scanField (sc : Scan) (hf : Field) : Scan :=
  if sc.early.isSome then sc else
  let (name, value) := hf
  if name = hContentType then
    if validContentType value then { sc with mdata := mdAppend sc.mdata name value, isGRPC := true } else sc
  else if name = hGrpcEncoding then sc
  else if name = hStatus then
    match parseInt32 value with
    | .ok v => { sc with code := codeOfInt v }
    | .syntaxErr => { sc with early := some (.malformedStatus false value) }
    | .rangeErr => { sc with early := some (.malformedStatus true value) }
  else if name = hMessage then { sc with grpcMessage := StatusMsg.decode value }
  else if name = hHttpStatus then sc
  else if isReservedHeader name && !isWhitelistedHeader name then sc
  else match decodeMetadataHeader name value with
    | none => { sc with headerError := some name }
    | some v => { sc with mdata := mdAppend sc.mdata name v }

/-- `istatus.NewWithProto(code, message, statusProto)`. -/
def newWithProto (code : Nat) (msg : Bytes) (statusProto : List Bytes) : ClientEnd :=
  match statusProto with
  | [b] =>
    match unmarshal b with
    | none => .status ⟨code, msg, []⟩
    | some st => if st.code = code then .status st else .mismatch code msg
  | _ => .status ⟨code, msg, []⟩

/-- `operateHeaders` on the frame that ends the stream. `initialHeader` = no HEADERS frame was
    accepted before (trailers-only). Returns the end of the RPC and the trailer metadata. -/
def clientTrailers (initialHeader : Bool) (fields : List Field) : ClientEnd × MD :=
  let sc := fields.foldl scanField { isGRPC := !initialHeader }
  match sc.early with
  | some e => (e, [])
  | none =>
    if !sc.isGRPC then (.nonGrpc, [])
    else match sc.headerError with
      | some n => (.headerError n, [])
      | none => (newWithProto sc.code sc.grpcMessage (mdGet sc.mdata hDetailsBin), sc.mdata)

/-- The client-visible status of an end (code, message, details); `Err()` is nil iff code = 0. -/
def ClientEnd.code : ClientEnd → Nat
  | .status s => s.code
  | .malformedStatus _ _ => 2
  | .nonGrpc => 13          -- not exact (HTTP mapping); never produced for a writeStatus frame
  | .headerError _ => 13
  | .mismatch _ _ => 13

/-- `status.Err()`: nil iff the code is OK. -/
def ClientEnd.isNil (e : ClientEnd) : Bool := e.code == 0

/-- The whole path: handler return value → trailer frame → client end. -/
def endToEnd (headerSent : Bool) (subtype : Bytes) (ret : HandlerRet) (trailer : MD) : ClientEnd :=
  (clientTrailers (!headerSent) (writeStatus headerSent subtype (appStatus ret) trailer)).1

end GrpcModel.Status
