/-
Model for C30 (connectivity state reporting), porting

  clientconn.go        connectivityStateManager {updateState, getState, getNotifyChan},
                       ClientConn.WaitForStateChange, exitIdleMode/enterIdleMode/Close (their
                       csMgr.updateState calls), addrConn {connect, resetTransportAndUnlock,
                       tryAllAddrs, createTransport (+ its onClose closure), startHealthCheck's
                       setConnectivityState closure, updateAddrs, tearDown, updateConnectivityState}
  balancer_wrapper.go  acBalancerWrapper.updateState (serializer + the `ctx.Err() != nil ||
                       balancer == nil` filter), ccBalancerWrapper.{close, UpdateState, NewSubConn},
  internal/balancer/gracefulswitch  updateSubConnState's "unknown SubConn" filter and the
                       delete-on-SHUTDOWN.

Grain: every critical section of `ac.mu` / `csm.mu` is one atomic action; everything that happens
between two critical sections of one goroutine is a program point of that goroutine, and the
environment (dial results, transport `onClose` callbacks, timers, LB-policy calls, API calls)
chooses when each goroutine moves.  All theorems quantify over every sequence of such actions.

Part A  connectivityStateManager + WaitForStateChange callers (both orders of "get the notify
        channel" and "read the state": `codeOrder = true` is the code, `false` the wrong order).
Part B  one addrConn: state, transport, the cancellable `ac.ctx` (a generation number; a context
        is live iff it is the current generation and tearDown has not run), the connect
        goroutines (`resetTransportAndUnlock`, possibly several alive at once after updateAddrs),
        the transports created by them (each with its `hctx` flag and whether `onClose` ran).
Part C  the channel: sub-channels, the balancer wrapper's serializer queue with its filters, the
        csm, the waiters; idle entry/exit and Close.

Not modelled (named in props/C30.py): channelz, metrics, resolver, the picker, keepalive
parameter adjustment, the contents of errors; time (the environment decides when a back-off timer
fires; `ResetConnectBackoff` is the environment ending the back-off early).
-/
namespace GrpcModel.Connectivity

/-- connectivity.State (iota order of connectivity/connectivity.go) -/
inductive ConnState | idle | connecting | ready | transientFailure | shutdown
deriving DecidableEq, Repr, Inhabited

/-! ## Part A: connectivityStateManager -/

/-- `notify` = the id of the current `notifyChan` (`none` = nil). Channel ids are allocated in
    increasing order; a channel that was allocated and is no longer current has been closed. -/
structure Csm where
  state : ConnState
  notify : Option Nat
  nextChan : Nat
deriving DecidableEq, Repr, Inhabited

def Csm.init : Csm := { state := .idle, notify := none, nextChan := 0 }

/-- `close(csm.notifyChan)` happened for channel `ch` -/
def Csm.chanClosed (c : Csm) (ch : Nat) : Bool := decide (ch < c.nextChan) && (c.notify != some ch)

/-- csm.updateState: no-op in SHUTDOWN or when unchanged; otherwise store, publish, close and
    forget the notify channel. Returns whether a state was published. -/
def Csm.updateState (c : Csm) (s : ConnState) : Csm × Bool :=
  if c.state = .shutdown then (c, false)
  else if c.state = s then (c, false)
  else ({ c with state := s, notify := none }, true)

/-- csm.getNotifyChan: lazily allocate. -/
def Csm.getNotifyChan (c : Csm) : Csm × Nat :=
  match c.notify with
  | some ch => (c, ch)
  | none => ({ c with notify := some c.nextChan, nextChan := c.nextChan + 1 }, c.nextChan)

/-- program points of one WaitForStateChange call -/
inductive WPc where
  | init                 -- called, nothing done yet
  | gotChan (ch : Nat)   -- code order: `ch := getNotifyChan()` done, about to `getState()`
  | readSame             -- wrong order: `getState() == sourceState` read, about to getNotifyChan()
  | sel (ch : Nat)       -- in `select { case <-ctx.Done(): …; case <-ch: … }`
  | done (r : Bool)
deriving DecidableEq, Repr, Inhabited

structure Waiter where
  src : ConnState
  codeOrder : Bool
  pc : WPc
  ctxDone : Bool
  /-- ghost: the state differed from `src` at the call's first action or at some moment since -/
  sawDiff : Bool
deriving DecidableEq, Repr, Inhabited

/-- One step of a WaitForStateChange caller. `preferCtx` resolves the select when both cases are
    ready. `none` = cannot move. Returns the new csm (getNotifyChan may allocate). -/
def wstep (c : Csm) (w : Waiter) (preferCtx : Bool) : Option (Csm × Waiter) :=
  match w.pc with
  | .init =>
    if w.codeOrder then
      let (c', ch) := c.getNotifyChan
      some (c', { w with pc := .gotChan ch, sawDiff := decide (c.state ≠ w.src) })
    else if c.state ≠ w.src then some (c, { w with pc := .done true, sawDiff := true })
    else some (c, { w with pc := .readSame, sawDiff := false })
  | .gotChan ch =>
    if c.state ≠ w.src then some (c, { w with pc := .done true }) else some (c, { w with pc := .sel ch })
  | .readSame =>
    let (c', ch) := c.getNotifyChan
    some (c', { w with pc := .sel ch })
  | .sel ch =>
    if w.ctxDone ∧ (preferCtx ∨ ¬ c.chanClosed ch) then some (c, { w with pc := .done false })
    else if c.chanClosed ch then some (c, { w with pc := .done true })
    else none
  | .done _ => none

/-- ghost bookkeeping on every published state: waiters whose call has begun note a difference -/
def noteState (s : ConnState) (w : Waiter) : Waiter :=
  match w.pc with
  | .init => w
  | _ => { w with sawDiff := w.sawDiff || decide (s ≠ w.src) }

/-! ## Part B: one addrConn -/

inductive GPc where
  | dialing (left : Nat)   -- in tryAllAddrs, `left` addresses not yet tried, a dial in flight
  | created (t : Nat)      -- NewHTTP2Client returned transport t; about to take ac.mu in createTransport
  | failedAll              -- tryAllAddrs returned an error; about to take ac.mu
  | backoff                -- state is TRANSIENT_FAILURE; in the select on timer / resetBackoff / ctx
  | afterBackoff           -- back-off over (timer or ResetConnectBackoff); about to take ac.mu
  | done
deriving DecidableEq, Repr, Inhabited

/-- a `resetTransportAndUnlock` goroutine; `ctx` = the generation of `ac.ctx` it captured as acCtx -/
structure Gor where
  ctx : Nat
  pc : GPc
deriving DecidableEq, Repr, Inhabited

/-- a transport returned by NewHTTP2Client -/
structure Tr where
  ctx : Nat             -- generation of the ctx createTransport was called with
  hctxCancelled : Bool  -- hcancel() ran (in onClose)
  closed : Bool         -- its onClose callback has run (the transport calls it exactly once)
  health : Bool         -- startHealthCheck handed the state to the legacy health-check function
deriving DecidableEq, Repr, Inhabited

structure AC where
  state : ConnState
  transport : Option Nat
  ctxGen : Nat
  tornDown : Bool
  nAddrs : Nat
  /-- scopts.HealthCheckEnabled ∧ service config has healthCheckConfig ∧ internal.HealthCheckFunc set ∧ not disabled -/
  healthEnabled : Bool
  gors : Nat → Option Gor
  nextG : Nat
  trs : Nat → Option Tr
  nextT : Nat

def AC.init (nAddrs : Nat) (health : Bool) : AC :=
  { state := .idle, transport := none, ctxGen := 0, tornDown := false, nAddrs := nAddrs,
    healthEnabled := health, gors := fun _ => none, nextG := 0, trs := fun _ => none, nextT := 0 }

/-- `ctx.Err() == nil` for the context of generation c -/
def AC.ctxLive (a : AC) (c : Nat) : Bool := (c == a.ctxGen) && !a.tornDown

def AC.setGor (a : AC) (g : Nat) (x : Gor) : AC := { a with gors := fun i => if i = g then some x else a.gors i }
def AC.setTr (a : AC) (t : Nat) (x : Tr) : AC := { a with trs := fun i => if i = t then some x else a.trs i }

/-- addrConn.updateConnectivityState: `if ac.state == s { return }; ac.state = s; ac.acbw.updateState(s, …)`.
    Returns the (old, new) pair when something changed. -/
def AC.setState (a : AC) (s : ConnState) : AC × List (ConnState × ConnState) :=
  if a.state = s then (a, []) else ({ a with state := s }, [(a.state, s)])

inductive AcAct where
  | connect                            -- SubConn.Connect → ac.connect()
  | dialFail (g : Nat)                 -- NewHTTP2Client failed for goroutine g's current address
  | dialOk (g : Nat)                   -- NewHTTP2Client returned a transport
  | dialNone (g : Nat)                 -- tryAllAddrs over an empty address list returns nil
  | lockCreated (g : Nat)              -- createTransport takes ac.mu after the successful dial
  | lockFailed (g : Nat)               -- resetTransportAndUnlock takes ac.mu after tryAllAddrs failed
  | backoffEnd (g : Nat)               -- `<-timer.C` or `<-b` (ResetConnectBackoff)
  | backoffCtxDone (g : Nat)           -- `<-acCtx.Done()` in the back-off select
  | lockAfterBackoff (g : Nat)         -- takes ac.mu after the back-off
  | onClose (t : Nat)                  -- transport t's onClose callback (GOAWAY, connection loss, Close)
  | tearDown                           -- SubConn.Shutdown / enterIdleMode / Close
  | updateAddrs (n : Nat) (stillConnected : Bool)  -- UpdateAddresses with a different list of n addresses
  | healthSet (t : Nat) (s : ConnState) -- the legacy health-check function calls setConnectivityState(s)
deriving DecidableEq, Repr, Inhabited

/-- resetTransportAndUnlock's first critical section (entered with ac.mu held by the caller):
    `if acCtx.Err() != nil { return }; …; ac.updateConnectivityState(Connecting)`, then the new
    goroutine goes on to tryAllAddrs. -/
def AC.startConnect (a : AC) : AC × List (ConnState × ConnState) :=
  if !a.ctxLive a.ctxGen then (a, []) else
  let (a1, ch) := a.setState .connecting
  (({ a1 with nextG := a1.nextG + 1 }).setGor a1.nextG { ctx := a1.ctxGen, pc := .dialing a1.nAddrs }, ch)

/-- One atomic action on an addrConn. Returns the state changes reported through
    updateConnectivityState, in order. Disabled actions change nothing. -/
def acStep (a : AC) : AcAct → AC × List (ConnState × ConnState)
  | .connect =>
    -- if ac.state == Shutdown { return }; if ac.state != Idle { return }; ac.resetTransportAndUnlock()
    if a.state = .shutdown then (a, []) else if a.state ≠ .idle then (a, []) else a.startConnect
  | .dialFail g =>
    match a.gors g with
    | some x => match x.pc with
      | .dialing (k + 1) => (a.setGor g { x with pc := if k = 0 then .failedAll else .dialing k }, [])
      | _ => (a, [])
    | none => (a, [])
  | .dialNone g =>
    match a.gors g with
    | some x => match x.pc with
      | .dialing 0 => (a.setGor g { x with pc := .done }, [])
      | _ => (a, [])
    | none => (a, [])
  | .dialOk g =>
    match a.gors g with
    | some x => match x.pc with
      | .dialing (_ + 1) =>
        let a1 := ({ a with nextT := a.nextT + 1 }).setTr a.nextT { ctx := x.ctx, hctxCancelled := false, closed := false, health := false }
        (a1.setGor g { x with pc := .created a.nextT }, [])
      | _ => (a, [])
    | none => (a, [])
  | .lockCreated g =>
    match a.gors g with
    | some x => match x.pc with
      | .created t =>
        match a.trs t with
        | some tr =>
          let a0 := a.setGor g { x with pc := .done }
          -- if ctx.Err() != nil { ac.mu.Unlock(); newTr.Close(…); return nil }   (Close runs onClose inline)
          if !a.ctxLive x.ctx then (a0.setTr t { tr with closed := true }, [])
          -- if hctx.Err() != nil { ac.updateConnectivityState(Idle); return nil }   (issue 7862 shortcut)
          else if tr.hctxCancelled then a0.setState .idle
          -- ac.curAddr = addr; ac.transport = newTr; ac.startHealthCheck(hctx)
          else if a.healthEnabled then ({ a0 with transport := some t }.setTr t { tr with health := true }, [])
          else ({ a0 with transport := some t }).setState .ready
        | none => (a, [])
      | _ => (a, [])
    | none => (a, [])
  | .lockFailed g =>
    match a.gors g with
    | some x => match x.pc with
      | .failedAll =>
        -- if acCtx.Err() != nil { return }; ac.updateConnectivityState(TransientFailure, err)
        if !a.ctxLive x.ctx then (a.setGor g { x with pc := .done }, [])
        else (a.setGor g { x with pc := .backoff }).setState .transientFailure
      | _ => (a, [])
    | none => (a, [])
  | .backoffEnd g =>
    match a.gors g with
    | some x => match x.pc with
      | .backoff => (a.setGor g { x with pc := .afterBackoff }, [])
      | _ => (a, [])
    | none => (a, [])
  | .backoffCtxDone g =>
    match a.gors g with
    | some x => match x.pc with
      | .backoff => if !a.ctxLive x.ctx then (a.setGor g { x with pc := .done }, []) else (a, [])
      | _ => (a, [])
    | none => (a, [])
  | .lockAfterBackoff g =>
    match a.gors g with
    | some x => match x.pc with
      | .afterBackoff =>
        -- if acCtx.Err() == nil { ac.updateConnectivityState(Idle, err) }
        if a.ctxLive x.ctx then (a.setGor g { x with pc := .done }).setState .idle
        else (a.setGor g { x with pc := .done }, [])
      | _ => (a, [])
    | none => (a, [])
  | .onClose t =>
    match a.trs t with
    | some tr =>
      if tr.closed then (a, []) else
      let a0 := a.setTr t { tr with closed := true }
      -- if ctx.Err() != nil { return }
      if !a.ctxLive tr.ctx then (a0, []) else
      -- hcancel(); if ac.transport == nil { return }
      let a1 := a.setTr t { tr with closed := true, hctxCancelled := true }
      if a.transport = none then (a1, []) else
      -- ac.transport = nil; …; ac.updateConnectivityState(Idle, nil)
      ({ a1 with transport := none }).setState .idle
    | none => (a, [])
  | .tearDown =>
    -- if ac.state == Shutdown { return }; ac.transport = nil; updateConnectivityState(Shutdown); ac.cancel()
    if a.state = .shutdown then (a, []) else
    let (a1, ch) := ({ a with transport := none }).setState .shutdown
    ({ a1 with tornDown := true }, ch)
  | .updateAddrs n still =>
    -- ac.addrs = addrs; if Shutdown/TransientFailure/Idle { return }
    let a0 := { a with nAddrs := n }
    if a.state = .shutdown ∨ a.state = .transientFailure ∨ a.state = .idle then (a0, []) else
    -- if Ready and still connected to one of the new addresses { return }
    if a.state = .ready ∧ still then (a0, []) else
    -- ac.cancel(); new ac.ctx; ac.transport = nil (GracefulClose deferred); if len(addrs)==0 { →Idle }; go resetTransportAndUnlock()
    let a1 := { a0 with ctxGen := a0.ctxGen + 1, transport := none }
    let (a2, ch1) := if n = 0 then a1.setState .idle else (a1, [])
    let (a3, ch2) := a2.startConnect
    (a3, ch1 ++ ch2)
  | .healthSet t s =>
    match a.trs t with
    | some tr =>
      -- setConnectivityState: if ac.transport != currentTr { return }; ac.updateConnectivityState(s, lastErr)
      -- (health/client.go only ever passes CONNECTING, READY or TRANSIENT_FAILURE)
      if tr.health ∧ a.transport = some t ∧ (s = .connecting ∨ s = .ready ∨ s = .transientFailure) then a.setState s else (a, [])
    | none => (a, [])

/-- state and the chronological list of reported changes after a sequence of actions -/
def acRunFrom (a : AC) (log : List (ConnState × ConnState)) : List AcAct → AC × List (ConnState × ConnState)
  | [] => (a, log)
  | x :: xs => acRunFrom (acStep a x).1 (log ++ (acStep a x).2) xs

def acRun (nAddrs : Nat) (health : Bool) (acts : List AcAct) : AC × List (ConnState × ConnState) :=
  acRunFrom (AC.init nAddrs health) [] acts

/-! ## Part C: the channel -/

/-- The current ccBalancerWrapper: its CallbackSerializer (FIFO of pending SubConn state
    callbacks) and what the callbacks check before calling the LB policy. -/
structure Ccb where
  queue : List (Nat × ConnState)   -- scheduled acbw.updateState callbacks, oldest first
  ctxCancelled : Bool              -- serializerCancel() ran: TrySchedule fails, pending callbacks see ctx.Err() != nil
  balancerNil : Bool               -- the close callback ran: ccb.balancer == nil
  removed : List Nat               -- gracefulswitch deleted these SubConns (SHUTDOWN was delivered)
deriving Repr, Inhabited

def Ccb.fresh : Ccb := { queue := [], ctxCancelled := false, balancerNil := false, removed := [] }

structure Sys where
  csm : Csm
  waiters : Nat → Option Waiter
  acs : Nat → Option AC
  epochOf : Nat → Nat          -- which ccBalancerWrapper a sub-channel belongs to
  nextK : Nat
  epoch : Nat
  ccb : Ccb
  closed : Bool                -- cc.conns == nil
  /-- ghosts: every reported sub-channel change; those accepted by a serializer; those a
      serializer has run; those the LB policy's StateListener received — all in order. -/
  hist : List (Nat × ConnState)
  accepted : List (Nat × ConnState)
  popped : List (Nat × ConnState)
  delivered : List (Nat × ConnState)
  /-- ghost: every state published by the csm, in order -/
  published : List ConnState

def Sys.init : Sys :=
  { csm := Csm.init, waiters := fun _ => none, acs := fun _ => none, epochOf := fun _ => 0, nextK := 0, epoch := 0,
    ccb := Ccb.fresh, closed := false, hist := [], accepted := [], popped := [], delivered := [], published := [] }

inductive Act where
  | ac (k : Nat) (a : AcAct)
  | newSubConn (nAddrs : Nat) (health : Bool)   -- ccb.NewSubConn (refused when closed)
  | deliver                                     -- the serializer runs its next callback
  | lbUpdateState (s : ConnState)               -- ccb.UpdateState → csMgr.updateState
  | exitIdle                                    -- exitIdleMode: csMgr.updateState(Connecting)
  | resolverBuildFailed                         -- exitIdleMode: csMgr.updateState(TransientFailure)
  | enterIdle                                   -- enterIdleMode, up to and including the serializers' Done
  | close                                       -- Close, up to and including the serializers' Done
  | startWait (id : Nat) (src : ConnState) (codeOrder : Bool)
  | wstep (id : Nat) (preferCtx : Bool)
  | wctx (id : Nat)
deriving Repr, Inhabited

/-- csMgr.updateState with the ghosts -/
def Sys.csmUpdate (s : Sys) (st : ConnState) : Sys :=
  let (c, pub) := s.csm.updateState st
  if pub then { s with csm := c, published := s.published ++ [st],
                       waiters := fun i => (s.waiters i).map (noteState st) }
  else { s with csm := c }

/-- acbw.updateState for each reported change: `ccb.serializer.TrySchedule(…)` -/
def Sys.report (s : Sys) (k : Nat) (chs : List (ConnState × ConnState)) : Sys :=
  let items := chs.map fun c => (k, c.2)
  let s1 := { s with hist := s.hist ++ items }
  if s.epochOf k = s.epoch ∧ ¬ s.ccb.ctxCancelled then
    { s1 with ccb := { s1.ccb with queue := s1.ccb.queue ++ items }, accepted := s1.accepted ++ items }
  else s1

/-- ccb.close(): the close callback and serializerCancel(); the serializer then runs what is
    left (every callback returns at once because ctx.Err() != nil) and closes Done. -/
def Sys.closeCcb (s : Sys) : Sys :=
  { s with ccb := { s.ccb with queue := [], ctxCancelled := true, balancerNil := true },
           popped := s.popped ++ s.ccb.queue }

def step (s : Sys) : Act → Sys
  | .ac k a =>
    match s.acs k with
    | some x =>
      let (x', chs) := acStep x a
      ({ s with acs := fun i => if i = k then some x' else s.acs i }).report k chs
    | none => s
  | .newSubConn n health =>
    -- refused when cc.conns == nil or ccb.closed (the ccb in the LB policy's hands is the current one)
    if s.closed ∨ s.ccb.ctxCancelled then s else
    { s with acs := fun i => if i = s.nextK then some (AC.init n health) else s.acs i,
             epochOf := fun i => if i = s.nextK then s.epoch else s.epochOf i, nextK := s.nextK + 1 }
  | .deliver =>
    match s.ccb.queue with
    | [] => s
    | (k, st) :: rest =>
      let s1 := { s with ccb := { s.ccb with queue := rest }, popped := s.popped ++ [(k, st)] }
      -- if ctx.Err() != nil || acbw.ccb.balancer == nil { return }
      if s.ccb.ctxCancelled ∨ s.ccb.balancerNil then s1
      -- gracefulswitch.updateSubConnState: unknown SubConn → return; SHUTDOWN → delete
      else if s.ccb.removed.contains k then s1
      else { s1 with delivered := s1.delivered ++ [(k, st)],
                     ccb := { s1.ccb with removed := if st = .shutdown then k :: s1.ccb.removed else s1.ccb.removed } }
  | .lbUpdateState st =>
    -- if cc.conns == nil { return }; if ccb.closed { return }; …; csMgr.updateState(s.ConnectivityState)
    if s.closed ∨ s.ccb.ctxCancelled then s else s.csmUpdate st
  | .exitIdle => if s.closed then s else s.csmUpdate .connecting
  | .resolverBuildFailed => if s.closed then s else s.csmUpdate .transientFailure
  | .enterIdle =>
    if s.closed then s else
    let s1 := (s.closeCcb).csmUpdate .idle
    { s1 with ccb := Ccb.fresh, epoch := s1.epoch + 1 }
  | .close =>
    if s.closed then s else
    let s1 := ({ s with closed := true }).csmUpdate .shutdown
    s1.closeCcb
  | .startWait id src order =>
    match s.waiters id with
    | some _ => s
    | none => { s with waiters := fun i => if i = id then some { src := src, codeOrder := order, pc := .init, ctxDone := false, sawDiff := false } else s.waiters i }
  | .wstep id p =>
    match s.waiters id with
    | some w => match wstep s.csm w p with
      | some (c, w') => { s with csm := c, waiters := fun i => if i = id then some w' else s.waiters i }
      | none => s
    | none => s
  | .wctx id =>
    match s.waiters id with
    | some w => { s with waiters := fun i => if i = id then some { w with ctxDone := true } else s.waiters i }
    | none => s

def runFrom (s : Sys) : List Act → Sys
  | [] => s
  | a :: as => runFrom (step s a) as

def run (acts : List Act) : Sys := runFrom Sys.init acts

end GrpcModel.Connectivity
