/-
Model of Go's `sort.Search` (src/sort/search.go), used by internal/wrr/random.go (C38) and
balancer/ringhash/ring.go (C37):

    i, j := 0, n
    for i < j {
        h := int(uint(i+j) >> 1)
        if !f(h) { i = h + 1 } else { j = h }
    }
    return i
-/
namespace GrpcModel.SortSearch

/-- the loop, with explicit fuel (`j - i` strictly decreases, so `fuel ≥ j - i` is enough). -/
def searchLoop (f : Nat → Bool) : Nat → Nat → Nat → Nat
  | 0, i, _ => i
  | fuel + 1, i, j =>
    if i < j then
      let h := (i + j) / 2
      if !f h then searchLoop f fuel (h + 1) j else searchLoop f fuel i h
    else i

/-- `sort.Search(n, f)`. -/
def search (n : Nat) (f : Nat → Bool) : Nat := searchLoop f n 0 n

end GrpcModel.SortSearch
