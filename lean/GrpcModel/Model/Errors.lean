/-
Model of
  rpc_util.go                       : toRPCErr
  status/status.go                  : FromError (which errors "carry a gRPC status")
  internal/status/status.go         : IsRestrictedControlPlaneCode (gRFC A54)
  picker_wrapper.go                 : pickerWrapper.pick, handling of a picker error
  stream.go                         : newClientStream, handling of a config-selector error
  internal/transport/http2_client.go: getTrAuthData / getCallAuthData, handling of a per-RPC creds error
Go error values are an inductive type: the sentinels the code compares by identity, the two
transport error types it switches on, errors carrying a status, wrappers, and everything else.
-/
import GrpcModel.Generated.Errors
namespace GrpcModel.Errors
open GrpcModel.Generated

inductive GoErr
  | nil                          -- no error
  | eof                          -- io.EOF
  | unexpectedEOF                -- io.ErrUnexpectedEOF
  | ctxDeadline                  -- context.DeadlineExceeded
  | ctxCanceled                  -- context.Canceled
  | noSubConn                    -- balancer.ErrNoSubConnAvailable
  | connErr (inner : GoErr)      -- transport.ConnectionError{err: inner} (Unwrap() = inner, may be nil)
  | newStreamErr (e : GoErr)     -- *transport.NewStreamError{Err: e} (no Unwrap)
  | status (code : Nat)          -- an error whose GRPCStatus() has this code (status.Error, or any implementor)
  | nilStatus                    -- an error whose GRPCStatus() returns nil
  | wrapped (e : GoErr)          -- fmt.Errorf("…%w", e): a different value with Unwrap() = e
  | other                        -- any other error (errors.New, net errors, …)
deriving DecidableEq, Repr

/-- `errors.As(err, &grpcstatus)` along the Unwrap chain: `some (some c)` = found a status with code c,
    `some none` = found an implementor whose GRPCStatus() is nil, `none` = no implementor. -/
def findStatus : GoErr → Option (Option Nat)
  | .status c => some (some c)
  | .nilStatus => some none
  | .wrapped e => findStatus e
  | .connErr inner => findStatus inner
  | _ => none

/-- `_, ok := status.FromError(err)` for a non-nil error; the code when ok. -/
def fromError (e : GoErr) : Option Nat :=
  match findStatus e with
  | some (some c) => some c
  | _ => none

/-- "carries a gRPC status code": `status.FromError` succeeds on it. -/
def carriesStatus (e : GoErr) : Bool := (fromError e).isSome

/-- `toRPCErr`, in source order: identity switch, type switch, FromError, fallback UNKNOWN. -/
def toRPCErr : GoErr → GoErr
  | .nil => .nil
  | .eof => .eof
  | .ctxDeadline => .status codeDeadlineExceeded
  | .ctxCanceled => .status codeCanceled
  | .unexpectedEOF => .status codeInternal
  | .connErr _ => .status codeUnavailable
  | .newStreamErr e => toRPCErr e
  | .status c => .status c
  | .nilStatus => .status codeUnknown
  | .wrapped e => if carriesStatus (.wrapped e) then .wrapped e else .status codeUnknown
  | .noSubConn => .status codeUnknown
  | .other => .status codeUnknown

/-- Look through `*transport.NewStreamError` wrappers (what `toRPCErr`'s type switch does). -/
def stripNSE : GoErr → GoErr
  | .newStreamErr e => stripNSE e
  | e => e

/-- `IsRestrictedControlPlaneCode`: the codes gRFC A54 reserves for the data plane. -/
def restricted (c : Nat) : Bool :=
  c == codeInvalidArgument || c == codeNotFound || c == codeAlreadyExists || c == codeFailedPrecondition
    || c == codeAborted || c == codeOutOfRange || c == codeDataLoss

/-- The shared shape of the three A54 filters: a status error keeps its status unless the code is
    restricted, in which case it is replaced by a fresh INTERNAL status. `none` = not a status error. -/
def a54 (e : GoErr) : Option GoErr :=
  match fromError e with
  | some c => some (if restricted c then .status codeInternal else e)
  | none => none

inductive PickOutcome
  | again                        -- `continue`: wait for the next picker (blocks until ctx is done)
  | fail (e : GoErr)             -- the RPC ends with this error
deriving DecidableEq, Repr

/-- `pickerWrapper.pick` on `p.Pick(info)` returning a non-nil error. -/
def pickErr (e : GoErr) (failfast : Bool) : PickOutcome :=
  if e = .noSubConn then .again
  else match a54 e with
    | some r => .fail r                                   -- dropError{r}, unwrapped by getTransport
    | none => if !failfast then .again else .fail (.status codeUnavailable)

/-- `newClientStream` on `SelectConfig` returning a non-nil error. Since /repo commit 2bdf416 (finding
    F24) an io.EOF coming out of `toRPCErr` is turned into UNKNOWN:
    `if err = toRPCErr(err); err == io.EOF { err = status.Error(codes.Unknown, …) }`. -/
def configSelectorErr (e : GoErr) : GoErr :=
  match a54 e with
  | some r => r
  | none => if toRPCErr e = .eof then .status codeUnknown else toRPCErr e

inductive CredsSite | transportCreds | callCreds
deriving DecidableEq, Repr

/-- `getTrAuthData` / `getCallAuthData` on `GetRequestMetadata` returning a non-nil error; the result
    reaches the application through `NewStreamError` and `toRPCErr`. -/
def credsErr (site : CredsSite) (e : GoErr) : GoErr :=
  toRPCErr (.newStreamErr (match a54 e with
    | some r => r
    | none => match site with
      | .transportCreds => .status codeUnauthenticated
      | .callCreds => .status codeInternal))

/-- stream.go `shouldRetry`, branch `cs.numRetries+1 >= rp.MaxAttempts`:
    `fmt.Errorf("max retries exhausted: failed after %d attempts: %w", n, err)` — the attempt's error
    wrapped by a plain error. On the SendMsg path `err` is io.EOF (the attempt's stream is already done). -/
def retryExhausted (e : GoErr) : GoErr := .wrapped e

/-- `status.FromContextError(err)`. -/
def fromContextError : GoErr → GoErr
  | .nil => .nil
  | .ctxDeadline => .status codeDeadlineExceeded
  | .ctxCanceled => .status codeCanceled
  | _ => .status codeUnknown

/-- stream.go `shouldRetry`, last `select`: the RPC's context ends while the retry backoff timer runs:
    `return false, status.FromContextError(cs.ctx.Err()).Err()`. This error goes retryLocked → withRetry
    (uncommitted path) → RecvMsg / SendMsg / newClientStream → the application with no further conversion. -/
def retryBackoffCtxDone (ctxErr : GoErr) : GoErr := fromContextError ctxErr

/-- What the application gets when the pick blocks until the context ends. -/
def ctxEnd (deadline : Bool) : GoErr := .status (if deadline then codeDeadlineExceeded else codeCanceled)

end GrpcModel.Errors
