/-
Model of internal/xds/clients/lrsclient/load_store.go (one `PerClusterReporter`) at the grain of
individual shared-memory accesses.  Every `atomic.AddUint64 / SwapUint64 / LoadUint64`, every
`rpcLoadData` critical section (`add`, `loadAndClear`: the whole body runs under `rld.mu`), every
`sync.Map` entry lookup/creation and every choice made by a `sync.Map.Range` is ONE step of ONE
thread.  Any number of goroutines: the state holds a list of threads, each a call of

  CallStarted(l)          startE (Load/LoadOrStore of the locality entry) → startA (incrInProgress)
                          → startB (incrIssued) → done
  CallFinished(l, err)    finE (Load; entry missing ⇒ return) → finA (decrInProgress)
                          → finB (incrSucceeded | incrErrored) → done
  CallDropped(c)          dropE (Load/LoadOrStore) → dropA (AddUint64) → done
  CallServerLoad(l,n,v)   loadE (Load of locality; missing ⇒ return; Load/LoadOrStore of name)
                          → loadA (rpcLoadData.add under its mutex) → done
  stats()                 sDrops ⇄ sDrop c   (p.drops.Range: SwapUint64 per category)
                          → sLocs → lSucc l → lInp → lErr → lIss (Swap, Load, Swap, Swap — in this
                          source order) → [all four zero: back to sLocs] | lLoads ⇄ lLoad n
                          (serverLoads.Range: loadAndClear per name) → sLocs … → sTime (p.mu) → done

`sync.Map.Range` is modelled by its documented contract: it visits no key twice, visits every key
that was present when it started, and may or may not visit keys stored concurrently.  WHICH key
comes next (or that the range ends) is an explicit nondeterministic `choice` argument of the step.

Counters are uint64: `AddUint64(x, 1)` is `(x+1) % 2^64`, `AddUint64(x, ^uint64(0))` is
`(x + 2^64-1) % 2^64`, `sd.totalDrops += d` wraps too.  Server-load values are float64 in Go; the
model uses `Nat` (the tie uses integer-valued loads, for which float64 addition is exact below 2^53).

Ghost state (never read by a rule): `applied k` = total added so far to counter `k`
(for `inprog l`: number of increments), `decs l` = number of decrements of `inprog l`,
`invoked k` = amount the calls spawned so far intend to add to `k`, `abandoned k` = amount that
will never be added because CallFinished / CallServerLoad found no entry for the locality,
`dropsApplied` = number of CallDropped adds, `Report.tid` = the thread that produced a report.
-/
namespace GrpcModel.LoadStore

/-- 2^64 -/
def u64 : Nat := 18446744073709551616

inductive Key
  | drop (c : Nat)            -- *uint64 in p.drops[c]            (category 0 is the empty string)
  | succ (l : Nat)            -- rpcCountData.succeeded of locality l
  | err (l : Nat)
  | issued (l : Nat)
  | inprog (l : Nat)
  | ldCount (l n : Nat)       -- rpcLoadData.count for (locality, load name)
  | ldSum (l n : Nat)         -- rpcLoadData.sum
deriving DecidableEq, Repr

/-- localityData for one locality (key of sd.localityStats included). -/
structure LocRep where
  loc : Nat
  succ : Nat
  err : Nat
  inprog : Nat
  issued : Nat
  loads : List (Nat × Nat × Nat)   -- loadStats: (name, count, sum)
deriving DecidableEq, Repr, Inhabited

/-- loadData (reportInterval not modelled). -/
structure Report where
  tid : Nat                        -- ghost
  total : Nat                      -- totalDrops
  drops : List (Nat × Nat)         -- drops: (category ≠ 0, count)
  locs : List LocRep               -- localityStats
deriving DecidableEq, Repr, Inhabited

def Report.empty (tid : Nat) : Report := { tid := tid, total := 0, drops := [], locs := [] }

/-- `sd.totalDrops == 0 && len(sd.drops) == 0 && len(sd.localityStats) == 0` ⇒ stats() returns nil -/
def Report.isNil (r : Report) : Bool := r.total == 0 && r.drops.isEmpty && r.locs.isEmpty

inductive Call
  | start (l : Nat) | finish (l : Nat) (ok : Bool) | drop (c : Nat) | load (l n v : Nat) | stats
deriving DecidableEq, Repr

inductive Pc
  | startE (l : Nat) | startA (l : Nat) | startB (l : Nat)
  | finE (l : Nat) (ok : Bool) | finA (l : Nat) (ok : Bool) | finB (l : Nat) (ok : Bool)
  | dropE (c : Nat) | dropA (c : Nat)
  | loadE (l n v : Nat) | loadA (l n v : Nat)
  | sDrops | sDrop (c : Nat) | sLocs
  | lSucc (l : Nat) | lInp (l s : Nat) | lErr (l s i : Nat) | lIss (l s i e : Nat)
  | lLoads (lr : LocRep) | lLoad (lr : LocRep) (n : Nat)
  | sTime
  | done
deriving DecidableEq, Repr

def Call.entry : Call → Pc
  | .start l => .startE l
  | .finish l ok => .finE l ok
  | .drop c => .dropE c
  | .load l n v => .loadE l n v
  | .stats => .sDrops

structure Thread where
  tid : Nat
  pc : Pc
  rep : Report        -- stats(): the loadData `sd` under construction
  vis : List Nat      -- keys already visited by the current outer Range (drops, then localities)
  need : List Nat     -- keys that were present when that Range started
  nvis : List Nat     -- the same for the nested serverLoads.Range
  nneed : List Nat
deriving Repr

def upd (m : Key → Nat) (k : Key) (v : Nat) : Key → Nat := fun k' => if k' = k then v else m k'
def updN (m : Nat → Nat) (k : Nat) (v : Nat) : Nat → Nat := fun k' => if k' = k then v else m k'

structure Shared where
  mem : Key → Nat
  locs : List Nat              -- keys of p.localityRPCCount
  cats : List Nat              -- keys of p.drops
  names : List (Nat × Nat)     -- (l, n): keys n of serverLoads of locality l
  -- ghost
  applied : Key → Nat
  decs : Nat → Nat
  invoked : Key → Nat
  abandoned : Key → Nat
  dropsApplied : Nat

structure State where
  sh : Shared
  threads : List Thread
  reports : List Report        -- values returned by completed stats() calls (nil = empty report)

def Shared.init : Shared :=
  { mem := fun _ => 0, locs := [], cats := [], names := [], applied := fun _ => 0, decs := fun _ => 0,
    invoked := fun _ => 0, abandoned := fun _ => 0, dropsApplied := 0 }

def init : State := { sh := Shared.init, threads := [], reports := [] }

/-- atomic.AddUint64(x, 1) -/
def addU (x : Nat) : Nat := (x + 1) % u64
/-- atomic.AddUint64(x, ^uint64(0)) -/
def decU (x : Nat) : Nat := (x + (u64 - 1)) % u64

def Shared.add1 (sh : Shared) (k : Key) : Shared :=
  { sh with mem := upd sh.mem k (addU (sh.mem k)), applied := upd sh.applied k (sh.applied k + 1) }

/-- atomic.SwapUint64(x, 0): the old value is returned separately -/
def Shared.clear (sh : Shared) (k : Key) : Shared := { sh with mem := upd sh.mem k 0 }

def insertNew [DecidableEq α] (l : List α) (a : α) : List α := if a ∈ l then l else l ++ [a]

def subset (a b : List Nat) : Bool := a.all (fun x => b.contains x)

def namesOf (sh : Shared) (l : Nat) : List Nat := (sh.names.filter (fun p => p.1 == l)).map (·.2)

/-- One step of thread `t`. `ch` is only read by the three Range program points (`some k` = the
    Range calls f on key k next, `none` = the Range returns). `none` result = not enabled.
    Returns the new shared state, the new thread state, and the value returned by stats() if this
    step completes one. -/
def act (sh : Shared) (t : Thread) (ch : Option Nat) : Option (Shared × Thread × Option Report) :=
  match t.pc with
  -- CallStarted
  | .startE l => some ({ sh with locs := insertNew sh.locs l }, { t with pc := .startA l }, none)
  | .startA l => some (sh.add1 (.inprog l), { t with pc := .startB l }, none)
  | .startB l => some (sh.add1 (.issued l), { t with pc := .done }, none)
  -- CallFinished
  | .finE l ok =>
    if l ∈ sh.locs then some (sh, { t with pc := .finA l ok }, none)
    else
      let k := if ok then Key.succ l else Key.err l
      some ({ sh with abandoned := upd sh.abandoned k (sh.abandoned k + 1) }, { t with pc := .done }, none)
  | .finA l ok =>
    some ({ sh with mem := upd sh.mem (.inprog l) (decU (sh.mem (.inprog l))),
                    decs := updN sh.decs l (sh.decs l + 1) }, { t with pc := .finB l ok }, none)
  | .finB l ok => some (sh.add1 (if ok then .succ l else .err l), { t with pc := .done }, none)
  -- CallDropped
  | .dropE c => some ({ sh with cats := insertNew sh.cats c }, { t with pc := .dropA c }, none)
  | .dropA c =>
    some ({ sh.add1 (.drop c) with dropsApplied := sh.dropsApplied + 1 }, { t with pc := .done }, none)
  -- CallServerLoad
  | .loadE l n v =>
    if l ∈ sh.locs then
      some ({ sh with names := insertNew sh.names (l, n) }, { t with pc := .loadA l n v }, none)
    else
      some ({ sh with abandoned := upd (upd sh.abandoned (.ldCount l n) (sh.abandoned (.ldCount l n) + 1))
                                     (.ldSum l n) (sh.abandoned (.ldSum l n) + v) },
            { t with pc := .done }, none)
  | .loadA l n v =>
    some ({ sh with mem := upd (upd sh.mem (.ldSum l n) (sh.mem (.ldSum l n) + v))
                             (.ldCount l n) (addU (sh.mem (.ldCount l n))),
                    applied := upd (upd sh.applied (.ldSum l n) (sh.applied (.ldSum l n) + v))
                                 (.ldCount l n) (sh.applied (.ldCount l n) + 1) },
          { t with pc := .done }, none)
  -- stats(): p.drops.Range
  | .sDrops =>
    match ch with
    | some c => if c ∈ sh.cats ∧ c ∉ t.vis then some (sh, { t with pc := .sDrop c }, none) else none
    | none =>
      if subset t.need t.vis then some (sh, { t with pc := .sLocs, vis := [], need := sh.locs }, none) else none
  | .sDrop c =>
    let d := sh.mem (.drop c)
    let rep := if d = 0 then t.rep else
      { t.rep with total := (t.rep.total + d) % u64,
                   drops := if c ≠ 0 then t.rep.drops ++ [(c, d)] else t.rep.drops }
    some (sh.clear (.drop c), { t with pc := .sDrops, rep := rep, vis := c :: t.vis }, none)
  -- stats(): p.localityRPCCount.Range
  | .sLocs =>
    match ch with
    | some l => if l ∈ sh.locs ∧ l ∉ t.vis then some (sh, { t with pc := .lSucc l }, none) else none
    | none => if subset t.need t.vis then some (sh, { t with pc := .sTime }, none) else none
  | .lSucc l => some (sh.clear (.succ l), { t with pc := .lInp l (sh.mem (.succ l)) }, none)
  | .lInp l s => some (sh, { t with pc := .lErr l s (sh.mem (.inprog l)) }, none)
  | .lErr l s i => some (sh.clear (.err l), { t with pc := .lIss l s i (sh.mem (.err l)) }, none)
  | .lIss l s i e =>
    let is := sh.mem (.issued l)
    if s = 0 ∧ i = 0 ∧ e = 0 ∧ is = 0 then
      some (sh.clear (.issued l), { t with pc := .sLocs, vis := l :: t.vis }, none)
    else
      some (sh.clear (.issued l),
            { t with pc := .lLoads { loc := l, succ := s, err := e, inprog := i, issued := is, loads := [] },
                     nvis := [], nneed := namesOf sh l }, none)
  -- stats(): countData.serverLoads.Range
  | .lLoads lr =>
    match ch with
    | some n =>
      if (lr.loc, n) ∈ sh.names ∧ n ∉ t.nvis then some (sh, { t with pc := .lLoad lr n }, none) else none
    | none =>
      if subset t.nneed t.nvis then
        some (sh, { t with pc := .sLocs, rep := { t.rep with locs := t.rep.locs ++ [lr] }, vis := lr.loc :: t.vis }, none)
      else none
  | .lLoad lr n =>
    let c := sh.mem (.ldCount lr.loc n)
    let s := sh.mem (.ldSum lr.loc n)
    let lr' := if c = 0 then lr else { lr with loads := lr.loads ++ [(n, c, s)] }
    some ((sh.clear (.ldCount lr.loc n)).clear (.ldSum lr.loc n),
          { t with pc := .lLoads lr', nvis := n :: t.nvis }, none)
  | .sTime => some (sh, { t with pc := .done, rep := Report.empty t.tid }, some t.rep)
  | .done => none

inductive Op
  | spawn (tid : Nat) (c : Call)            -- a goroutine calls c (nothing executed yet)
  | step (tid : Nat) (ch : Option Nat)      -- thread tid performs its next action
deriving Repr

def findT (ts : List Thread) (tid : Nat) : Option Thread := ts.find? (fun t => t.tid == tid)

def replaceT (ts : List Thread) (t' : Thread) : List Thread :=
  match ts with
  | [] => []
  | t :: rest => if t.tid == t'.tid then t' :: rest else t :: replaceT rest t'

def Call.invoke (sh : Shared) : Call → Shared
  | .start l => { sh with invoked := upd sh.invoked (.issued l) (sh.invoked (.issued l) + 1) }
  | .finish l ok =>
    let k := if ok then Key.succ l else Key.err l
    { sh with invoked := upd sh.invoked k (sh.invoked k + 1) }
  | .drop c => { sh with invoked := upd sh.invoked (.drop c) (sh.invoked (.drop c) + 1) }
  | .load l n v =>
    { sh with invoked := upd (upd sh.invoked (.ldCount l n) (sh.invoked (.ldCount l n) + 1))
                           (.ldSum l n) (sh.invoked (.ldSum l n) + v) }
  | .stats => sh

/-- `none` = the op is not enabled (thread id in use / unknown, thread finished, illegal choice). -/
def step? (s : State) : Op → Option State
  | .spawn tid c =>
    match findT s.threads tid with
    | some _ => none
    | none =>
      some { s with sh := c.invoke s.sh,
                    threads := s.threads ++ [{ tid := tid, pc := c.entry, rep := Report.empty tid,
                                               vis := [], need := if c = .stats then s.sh.cats else [],
                                               nvis := [], nneed := [] }] }
  | .step tid ch =>
    match findT s.threads tid with
    | none => none
    | some t =>
      match act s.sh t ch with
      | none => none
      | some (sh', t', r) =>
        some { sh := sh', threads := replaceT s.threads t', reports := s.reports ++ r.toList }

/-- disabled ops are skipped (the driver reports them) -/
def step (s : State) (o : Op) : State := (step? s o).getD s

def run (ops : List Op) : State := ops.foldl step init

/-! ### observables used by the theorems and by the monitor -/

def sumBy (f : α → Nat) (l : List α) : Nat := (l.map f).sum

def LocRep.val (lr : LocRep) : Key → Nat
  | .succ l => if lr.loc = l then lr.succ else 0
  | .err l => if lr.loc = l then lr.err else 0
  | .issued l => if lr.loc = l then lr.issued else 0
  | .ldCount l n => if lr.loc = l then sumBy (fun e => if e.1 = n then e.2.1 else 0) lr.loads else 0
  | .ldSum l n => if lr.loc = l then sumBy (fun e => if e.1 = n then e.2.2 else 0) lr.loads else 0
  | _ => 0

/-- what a report says about counter `k` (per-category drops, per-locality counts, load count/sum) -/
def Report.val (r : Report) (k : Key) : Nat :=
  match k with
  | .drop c => sumBy (fun e => if e.1 = c then e.2 else 0) r.drops
  | .inprog _ => 0
  | k => sumBy (fun lr => lr.val k) r.locs

/-- values a stats() call has taken out of counter `k` and still holds in local variables -/
def Pc.val (p : Pc) (k : Key) : Nat :=
  match p, k with
  | .lInp l s, .succ l' => if l = l' then s else 0
  | .lErr l s _, .succ l' => if l = l' then s else 0
  | .lIss l s _ _, .succ l' => if l = l' then s else 0
  | .lIss l _ _ e, .err l' => if l = l' then e else 0
  | .lLoads lr, k => lr.val k
  | .lLoad lr _, k => lr.val k
  | _, _ => 0

def Thread.held (t : Thread) (k : Key) : Nat := t.rep.val k + t.pc.val k

def reported (s : State) (k : Key) : Nat := sumBy (fun r => r.val k) s.reports
def inflight (s : State) (k : Key) : Nat := sumBy (fun t => t.held k) s.threads
def reportedTotal (s : State) : Nat := sumBy (·.total) s.reports
def inflightTotal (s : State) : Nat := sumBy (fun t => t.rep.total) s.threads
def residualDrops (s : State) : Nat := sumBy (fun c => s.sh.mem (.drop c)) s.sh.cats

/-- counters emptied by stats() with SwapUint64 / loadAndClear -/
def Key.harvested : Key → Bool
  | .inprog _ => false
  | .drop c => c != 0      -- the empty category is only reported through totalDrops
  | _ => true

def quiescent (s : State) : Prop := ∀ t ∈ s.threads, t.pc = .done

/-- program points of stats() -/
def Pc.isSnap : Pc → Bool
  | .sDrops | .sDrop _ | .sLocs | .lSucc _ | .lInp _ _ | .lErr _ _ _ | .lIss _ _ _ _
  | .lLoads _ | .lLoad _ _ | .sTime => true
  | _ => false

/-- thread `tid` is a stats() call that has been invoked and has not returned -/
def liveSnap (s : State) (tid : Nat) : Prop :=
  ∃ t, findT s.threads tid = some t ∧ t.pc.isSnap = true

end GrpcModel.LoadStore
