/-
Model of how user metadata crosses the wire (C09):
  metadata/metadata.go                : AppendToOutgoingContext (lower-casing), Join
  internal/metadata/metadata.go       : ValidateKey, ValidatePair, Validate, hasNotPrintable
  stream.go                           : newClientStream validation; serverStream.SetHeader /
                                        SendHeader / SetTrailer validation
  server.go                           : grpc.SetHeader / SendHeader / SetTrailer (no validation)
  internal/transport/http2_client.go  : createHeaderFields (metadata part), operateHeaders (headers)
  internal/transport/http2_server.go  : operateHeaders (field switch, A41 host/:authority rules),
                                        writeHeaderLocked
  golang.org/x/net/http2              : readMetaFrame's validity checks of received names/values
                                        (validWireHeaderFieldName, httpguts.ValidHeaderFieldValue)
Trailers are `Status.writeStatus` / `Status.clientTrailers`.
-/
import GrpcModel.Model.Status
import GrpcModel.Model.Timeout
namespace GrpcModel.MdWire
open GrpcModel.Base64 (Bytes)
open GrpcModel.Headers GrpcModel.Status
open GrpcModel

/-! ### validation (internal/metadata) -/

/-- `[0-9a-z-_.]` -/
def validKeyChar (r : UInt8) : Bool :=
  (97 ≤ r && r ≤ 122) || (48 ≤ r && r ≤ 57) || r == 46 || r == 45 || r == 95

/-- `ValidateKey`: non-empty; pseudo-headers (leading ':') are skipped; else every byte legal. -/
def validateKey (k : Bytes) : Bool :=
  match k with
  | [] => false
  | c :: _ => if c == 58 then true else k.all validKeyChar

/-- `hasNotPrintable`. -/
def hasNotPrintable (v : Bytes) : Bool := v.any fun b => b < 0x20 || b > 0x7E

/-- `ValidatePair(key, vals...)`. -/
def validatePair (k : Bytes) (vals : List Bytes) : Bool :=
  validateKey k && (isBinKey k || vals.all fun v => !hasNotPrintable v)

/-- `Validate(md)`. -/
def validate (md : MD) : Bool := md.all fun kv => validatePair kv.1 kv.2

/-! ### client: outgoing context → request header fields -/

/-- ASCII part of `strings.ToLower` (keys with bytes ≥ 0x80 are outside the model). -/
def lowerByte (b : UInt8) : UInt8 := if 65 ≤ b && b ≤ 90 then b + 32 else b
def lower (k : Bytes) : Bytes := k.map lowerByte

/-- `metadata.AppendToOutgoingContext(ctx, kv...)`: keys are lower-cased when appended. -/
def appendToOutgoing (kv : List (Bytes × Bytes)) : List (Bytes × Bytes) := kv.map fun p => (lower p.1, p.2)

/-- The validation at the top of `newClientStream`: `Validate(md)` then `ValidatePair` on every
    appended pair. -/
def validOutgoing (md : MD) (added : List (Bytes × Bytes)) : Bool :=
  validate md && added.all fun p => validatePair p.1 [p.2]

/-- Metadata part of `createHeaderFields`: the base MD (reserved keys skipped), then the appended
    pairs in order (lower-cased again — idempotent —, reserved keys skipped). -/
def userFields (md : MD) (added : List (Bytes × Bytes)) : List Field :=
  fieldsFromMD md ++ added.flatMap fun p =>
    let k := lower p.1
    if isReservedHeader k then [] else [(k, encodeMetadataHeader k p.2)]

structure CallCfg where
  scheme : Bytes
  path : Bytes
  authority : Bytes
  subtype : Bytes
  userAgent : Bytes
  /-- `t.registeredCompressors` = `grpcutil.RegisteredCompressors()`: the names registered with
      `encoding.RegisterCompressor` in the process, comma separated ("" = none). -/
  acceptEncoding : Bytes := []

/-- The fixed fields `createHeaderFields` puts first (no send-compressor, no deadline, no creds):
    the seven mandatory ones, then `grpc-accept-encoding` when any compressor is registered. -/
def baseFields (c : CallCfg) : List Field :=
  [(asciiBytes ":method", asciiBytes "POST"), (asciiBytes ":scheme", c.scheme), (asciiBytes ":path", c.path),
   (asciiBytes ":authority", c.authority), (hContentType, contentTypeOf c.subtype),
   (asciiBytes "user-agent", c.userAgent), (asciiBytes "te", asciiBytes "trailers")] ++
  (if c.acceptEncoding.isEmpty then [] else [(asciiBytes "grpc-accept-encoding", c.acceptEncoding)])

/-- `none` = the RPC fails with INTERNAL in `newClientStream`, before any transport call. -/
def clientSend (c : CallCfg) (md : MD) (added : List (Bytes × Bytes)) : Option (List Field) :=
  if validOutgoing md added then some (baseFields c ++ userFields md added) else none

/-! ### what the HTTP/2 framer of the receiving side accepts -/

/-- `httpguts.IsTokenRune` on a byte (bytes ≥ 0x80 decode to non-token runes). -/
def isTokenByte (b : UInt8) : Bool :=
  (97 ≤ b && b ≤ 122) || (65 ≤ b && b ≤ 90) || (48 ≤ b && b ≤ 57) ||
  [33, 35, 36, 37, 38, 39, 42, 43, 45, 46, 94, 95, 96, 124, 126].contains b

/-- `validWireHeaderFieldName`. Names starting with ':' are pseudo-headers: the framer checks them
    separately (known name, no duplicate, before regular fields); the ones grpc-go writes are
    legal and user metadata can never add one (reserved), so they are accepted here. -/
def wireNameOK (n : Bytes) : Bool :=
  match n with
  | [] => false
  | c :: _ => if c == 58 then true else n.all fun b => isTokenByte b && !(65 ≤ b && b ≤ 90)

/-- `httpguts.ValidHeaderFieldValue`: no CTL except TAB (and SP). -/
def wireValueOK (v : Bytes) : Bool := v.all fun b => !((b < 0x20 || b == 0x7F) && !(b == 0x20 || b == 0x09))

def wireOK (fs : List Field) : Bool := fs.all fun f => wireNameOK f.1 && wireValueOK f.2

/-- `readMetaFrame` + `checkPseudos` on a frame from an arbitrary peer: every value legal; every
    regular name legal; no pseudo-header after a regular field; pseudo-header names known, not
    repeated, and not mixing request (:method :path :scheme :authority :protocol) with response
    (:status) ones. A frame failing this is answered with a stream error (PROTOCOL_ERROR). -/
def isPseudoName (n : Bytes) : Bool :=
  match n with
  | c :: _ => c == 58
  | [] => false

def pseudoBeforeRegular : List Field → Bool
  | [] => true
  | f :: rest => if isPseudoName f.1 then pseudoBeforeRegular rest else rest.all fun g => !isPseudoName g.1

def noDup : List Bytes → Bool
  | [] => true
  | x :: rest => !rest.contains x && noDup rest

def framerOK (fs : List Field) : Bool :=
  let pseudo := (fs.filter fun f => isPseudoName f.1).map (·.1)
  let reqNames := [":method", ":path", ":scheme", ":authority", ":protocol"].map asciiBytes
  let isReq := pseudo.any fun n => reqNames.contains n
  let isResp := pseudo.contains (asciiBytes ":status")
  wireOK fs && pseudoBeforeRegular fs &&
    pseudo.all (fun n => reqNames.contains n || n == asciiBytes ":status") &&
    noDup pseudo && !(isReq && isResp)

/-! ### server: request header fields → handler metadata -/

def hAuthority : Bytes := asciiBytes ":authority"
def hHost : Bytes := asciiBytes "host"
def hUserAgent : Bytes := asciiBytes "user-agent"
def hAcceptEncoding : Bytes := asciiBytes "grpc-accept-encoding"
def hMethod : Bytes := asciiBytes ":method"
def hPath : Bytes := asciiBytes ":path"
def hTimeout : Bytes := asciiBytes "grpc-timeout"
def hConnection : Bytes := asciiBytes "connection"

structure SrvScan where
  isGRPC : Bool := false
  mdata : MD := []
  httpMethod : Bytes := []
  protocolError : Bool := false
  headerError : Bool := false

/-- One iteration of the server's `for _, hf := range frame.Fields` switch. -/
def srvField (sc : SrvScan) (hf : Field) : SrvScan :=
  let (name, value) := hf
  if name = hContentType then
    if validContentType value then { sc with mdata := mdAppend sc.mdata name value, isGRPC := true } else sc
  else if name = hAcceptEncoding then { sc with mdata := mdAppend sc.mdata name value }
  else if name = hGrpcEncoding then sc
  else if name = hMethod then { sc with httpMethod := value }
  else if name = hPath then sc
  else if name = hTimeout then
    (match Timeout.decodeBytes value with
     | some _ => sc
     | none => { sc with headerError := true })
  else if name = hConnection then { sc with protocolError := true }
  else if isReservedHeader name && !isWhitelistedHeader name then sc
  else match decodeMetadataHeader name value with
    | none => { sc with headerError := true }
    | some v => { sc with mdata := mdAppend sc.mdata name v }

inductive SrvRes
  | rstProtocol                  -- RST_STREAM(PROTOCOL_ERROR): "connection" header
  | earlyAbort (code : Nat)      -- writeEarlyAbort: trailers-only response with this grpc-status
  | handler (md : MD)            -- the handler runs with this incoming metadata
deriving DecidableEq, Repr

/-- `http2Server.operateHeaders` up to the point the stream is handed to the handler. -/
def serverRecv (fields : List Field) : SrvRes :=
  let sc := fields.foldl srvField {}
  if (mdGet sc.mdata hAuthority).length > 1 || (mdGet sc.mdata hHost).length > 1 then .earlyAbort 13
  else if sc.protocolError then .rstProtocol
  else if !sc.isGRPC then .earlyAbort 3
  else if sc.headerError then .earlyAbort 13
  else
    let md :=
      if (mdGet sc.mdata hAuthority).isEmpty then
        -- "If :authority is missing, Host must be renamed to :authority"
        (if sc.mdata.any (fun kv => kv.1 = hHost) then mdDelete sc.mdata hHost ++ [(hAuthority, mdGet sc.mdata hHost)] else sc.mdata)
      else mdDelete sc.mdata hHost   -- "If :authority is present, Host must be discarded"
    if sc.httpMethod ≠ asciiBytes "POST" then .earlyAbort 13 else .handler md

/-! ### server → client: the header frame -/

/-- `writeHeaderLocked` (no compression). -/
def headerFrame (subtype : Bytes) (header : MD) : List Field :=
  appendHeaderFieldsFromMD [(hHttpStatus, asciiBytes "200"), (hContentType, contentTypeOf subtype)] header

inductive HdrRes
  | md (m : MD)          -- Header() returns this
  | fail (code : Nat)    -- the stream is closed with this status instead
deriving DecidableEq, Repr

/-- Client `operateHeaders` on a first HEADERS frame without END_STREAM. -/
def clientHeaders (fields : List Field) : HdrRes :=
  if !wireOK fields then .fail 13 else
  let sc := fields.foldl scanField { isGRPC := false }
  match sc.early with
  | some e => .fail e.code
  | none =>
    if !sc.isGRPC then .fail 2     -- non-gRPC response: HTTP status mapping (not reachable from headerFrame)
    else match sc.headerError with
      | some _ => .fail 13
      | none => .md sc.mdata

/-! ### server-side APIs -/

/-- `serverStream.SetHeader` / `SendHeader`: validated, INTERNAL on failure (nothing stored). -/
def ssHeaderAccepts (md : MD) : Bool := validate md

/-- `out[k] = append(out[k], …)` with nothing to append: the key exists afterwards. -/
def ensureKey (md : MD) (k : Bytes) : MD := if md.any (fun kv => kv.1 = k) then md else md ++ [(k, [])]

/-- `metadata.Join(a, b)`: a NEW map holding, per key, a's values followed by b's. The arguments
    are only read: the metadata values a handler passes to SetHeader / SendHeader / SetTrailer
    belong to the handler and are never retained or modified (`ServerStream.SetHeader`,
    `SetTrailer`: `s.header = metadata.Join(s.header, md)`; `writeHeader` joins too, or adopts
    `md` when nothing was set before — after which the stream never writes to it again). -/
def mdJoin (a b : MD) : MD :=
  b.foldl (fun acc kv => kv.2.foldl (fun m v => mdAppend m kv.1 v) (ensureKey acc kv.1)) a

/-- Header side of a server stream: accumulated header metadata, and whether the HEADERS frame has
    gone out (`updateHeaderSent`). -/
structure HdrState where
  header : MD := []
  sent : Bool := false

inductive HdrApi | ssSet | ssSend | ctxSet | ctxSend
deriving DecidableEq, Repr

/-- One header call of the handler: new state and the call's result (`none` = nil error, `some c` =
    a status error of code c). Order of the checks as in stream.go / server.go / server_stream.go /
    http2_server.go: empty MD is a no-op for the Set calls; the ServerStream methods validate first
    (INTERNAL); after the HEADERS frame went out every call fails with ErrIllegalHeaderWrite
    (INTERNAL); otherwise the metadata is joined into the stream's header, and Send writes the frame. -/
def hdrCall (st : HdrState) (api : HdrApi) (md : MD) : HdrState × Option Nat :=
  match api with
  | .ssSet =>
    if md.isEmpty then (st, none)
    else if !validate md then (st, some 13)
    else if st.sent then (st, some 13)
    else ({ st with header := mdJoin st.header md }, none)
  | .ctxSet =>
    if md.isEmpty then (st, none)
    else if st.sent then (st, some 13)
    else ({ st with header := mdJoin st.header md }, none)
  | .ssSend =>
    if !validate md then (st, some 13)
    else if st.sent then (st, some 13)
    else ({ header := mdJoin st.header md, sent := true }, none)
  | .ctxSend =>
    if st.sent then (st, some 13)
    else ({ header := mdJoin st.header md, sent := true }, none)

/-- `SetTrailer` (either API; the ServerStream one only logs a validation failure). -/
def trlCall (trailer : MD) (md : MD) : MD := if md.isEmpty then trailer else mdJoin trailer md

end GrpcModel.MdWire
