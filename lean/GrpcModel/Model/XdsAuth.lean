/-
Model of the generic xDS client's authority (internal/xds/clients/xdsclient/authority.go) and of the
part of its environment that feeds it events (channel.go, xdsclient.go channelState, the watch-expiry
/ flow-control / stream-restart parts of ads_stream.go).

Layer A — `Auth`: the authority's serializer callbacks as pure functions, ported statement by
statement: `handleUpdate` (handleADSResourceUpdate incl. handleRevertingToPrimaryOnUpdate),
`handleDNE` (handleADSResourceDoesNotExist), `handleFailure` (handleADSStreamFailure incl.
fallbackToServer / propagateConnectivityErrorToAllWatchers), `watch` (watchResource incl.
xdsChannelToUse) and `unwatch` (unwatchResource incl. closeXDSChannels). Each returns the new state,
the watcher callbacks it schedules, the commands it issues to xdsChannels, and whether `onDone` is
(eventually) invoked. The property theorems (C43, C44) are about this layer, for all states and
all event sequences.

Layer B — `Sys`: per management server an xdsChannel with its ADS stream (subscriptions with watch
state and expiry timer, runner phase, flow control, server-side view of the last request per type),
the authority's event queue (`hold`/`release` model a busy serializer), virtual time, and the
harness' pacing of transport calls (`pump`: lowest server first, one at a time). It exists to tie
layer A to the real code through the T2 harness harness/synct/c_xdsauth_test.go.

Time is in milliseconds. `backoffMs` and `expiryMs` are the harness' configuration.
-/
namespace GrpcModel.XdsAuth

/-! ## Layer A: the authority -/

/-- xdsresource.ServiceStatus (ServiceStatusUnknown never occurs in a resourceState). -/
inductive Status | requested | notExist | acked | nacked
deriving DecidableEq, Repr, Inhabited

structure Key where
  typ : String
  name : String
deriving DecidableEq, Repr, Inhabited

/-- error classes a watcher can see: NACK with the decoder's error string, resource-not-found,
    connection error, anything else -/
inductive Err | nack (tag : String) | notFound | conn | other
deriving DecidableEq, Repr

inductive CbKind | changed (c : String) | resErr (e : Err) | ambErr (e : Err)
deriving DecidableEq, Repr

/-- a watcher callback scheduled on the watcher serializer -/
structure Cb where
  w : Nat
  k : CbKind
deriving DecidableEq, Repr

/-- resourceState -/
structure RState where
  watchers : List Nat
  cache : Option String            -- content of the cached resource
  status : Status                  -- md.Status
  version : String                 -- md.Version
  err : Option (String × String)   -- md.ErrState: (Err.Error(), Version)
  delIgnored : Bool
  chans : List Nat                 -- xdsChannelConfigs: servers on which the resource is subscribed
deriving DecidableEq, Repr

/-- one entry of the `updates` map: a decoded resource or a validation error -/
inductive Upd | ok (c : String) | bad (tag : String)
deriving DecidableEq, Repr

/-- commands to xdsChannels / the xDS client -/
inductive Cmd | build (i : Nat) | release (i : Nat) | sub (i : Nat) (k : Key) | unsub (i : Nat) (k : Key)
deriving DecidableEq, Repr

structure Auth where
  n : Nat                          -- number of configured servers
  ign : List Bool                  -- ServerFeatureIgnoreResourceDeletion per server
  opened : List Nat                -- servers whose xdsChannelConfigs[i].channel != nil
  active : Option Nat              -- activeXDSChannel
  res : List (Key × RState)        -- resources (both map levels flattened), keys unique
  nobuild : List Nat               -- environment: servers whose transport cannot be created right now
                                   -- (getChannelForADS / TransportBuilder.Build returns an error)
deriving Repr

structure Out where
  auth : Auth
  cbs : List Cb := []
  cmds : List Cmd := []
  done : Bool := true              -- onDone is invoked once all scheduled callbacks ran
deriving Repr

/-- ResourceType.AllResourcesRequiredInSotW of the two types of the harness -/
def sotw (typ : String) : Bool := typ == "T"

def lookup (res : List (Key × RState)) (k : Key) : Option RState := (res.find? (·.1 = k)).map (·.2)

def entLookup (entries : List (String × Upd)) (name : String) : Option Upd :=
  (entries.find? (·.1 = name)).map (·.2)

def ignOf (a : Auth) (srv : Nat) : Bool := a.ign.getD srv false

/-- every watcher of the resource gets each of the callbacks `ks` -/
def bcast (r : RState) (ks : List CbKind) : List Cb := r.watchers.flatMap fun w => ks.map fun k => ⟨w, k⟩

/-- the resource is rejected: notify unless the error string equals the previous one -/
def onBad (ver tag : String) (r : RState) : RState × List CbKind :=
  let notify := match r.err with
    | none => true
    | some (t, _) => t != tag
  let kind := if r.cache.isNone then CbKind.resErr (.nack tag) else CbKind.ambErr (.nack tag)
  ({ r with status := .nacked, err := some (tag, ver) }, if notify then [kind] else [])

/-- the resource is accepted -/
def onOk (ver c : String) (r : RState) : RState × List CbKind :=
  let changed := r.cache != some c || r.err.isSome
  ({ r with delIgnored := false, cache := if changed then some c else r.cache,
            version := ver, err := none, status := .acked }, if changed then [.changed c] else [])

def updOne (ver : String) (r : RState) : Upd → RState × List CbKind
  | .bad tag => onBad ver tag r
  | .ok c => onOk ver c r

/-- first loop of handleADSResourceUpdate on one resource state -/
def updRes (typ ver : String) (entries : List (String × Upd)) (p : Key × RState) : (Key × RState) × List CbKind :=
  if p.1.typ = typ then
    match entLookup entries p.1.name with
    | some u => ((p.1, (updOne ver p.2 u).1), (updOne ver p.2 u).2)
    | none => (p, [])
  else (p, [])

/-- second loop (types with AllResourcesRequiredInSotW) on one resource state -/
def delOne (ign present : Bool) (r : RState) : RState × List CbKind :=
  if r.cache.isNone then (r, [])
  else if present then (r, [])
  else if r.status = .notExist then (r, [])
  else if ign then ({ r with delIgnored := true }, [])
  else ({ r with cache := none, status := .notExist, version := "", err := none }, [.resErr .notFound])

def delRes (typ : String) (ign : Bool) (entries : List (String × Upd)) (p : Key × RState) : (Key × RState) × List CbKind :=
  if p.1.typ = typ then
    ((p.1, (delOne ign (entLookup entries p.1.name).isSome p.2).1), (delOne ign (entLookup entries p.1.name).isSome p.2).2)
  else (p, [])

/-- the unsubscribe / release commands of handleRevertingToPrimaryOnUpdate: for every server below
    `srv`, first unsubscribe everything subscribed there, then release the channel -/
def revertCmds (a : Auth) (srv : Nat) : List Cmd :=
  ((List.range a.n).filter (srv < ·)).flatMap fun i =>
    ((a.res.filter fun p => p.2.chans.contains i).map fun p => Cmd.unsub i p.1) ++
    (if a.opened.contains i then [Cmd.release i] else [])

def restrictChans (srv : Nat) (p : Key × RState) : Key × RState :=
  (p.1, { p.2 with chans := p.2.chans.filter (· ≤ srv) })

def revertTo (a : Auth) (srv : Nat) : Auth :=
  { a with active := some srv, opened := a.opened.filter (· ≤ srv), res := a.res.map (restrictChans srv) }

/-- handleRevertingToPrimaryOnUpdate: (state, commands, continue processing?) -/
def revert (a : Auth) (srv : Nat) : Auth × List Cmd × Bool :=
  match a.active with
  | none => (a, [], false)
  | some act =>
    if srv = act then (a, [], true)
    else if act < srv then (a, [], false)
    else (revertTo a srv, revertCmds a srv, true)

/-- the two loops of handleADSResourceUpdate -/
def processUpdate (a : Auth) (srv : Nat) (typ ver : String) (entries : List (String × Upd)) : Auth × List Cb :=
  let cbs1 := a.res.flatMap fun p => bcast p.2 (updRes typ ver entries p).2
  let res1 := a.res.map fun p => (updRes typ ver entries p).1
  if !sotw typ then ({ a with res := res1 }, cbs1)
  else
    let ign := ignOf a srv
    let cbs2 := res1.flatMap fun p => bcast p.2 (delRes typ ign entries p).2
    let res2 := res1.map fun p => (delRes typ ign entries p).1
    ({ a with res := res2 }, cbs1 ++ cbs2)

/-- handleADSResourceUpdate -/
def handleUpdate (a : Auth) (srv : Nat) (typ ver : String) (entries : List (String × Upd)) : Out :=
  let rv := revert a srv
  if rv.2.2 then
    let pu := processUpdate rv.1 srv typ ver entries
    { auth := pu.1, cbs := pu.2, cmds := rv.2.1 }
  else { auth := rv.1, cmds := rv.2.1, done := false }   -- returns before `onDone` is armed

/-- handleADSResourceDoesNotExist -/
def handleDNE (a : Auth) (k : Key) : Out :=
  { auth := { a with res := a.res.map fun p =>
                if p.1 = k then (p.1, { p.2 with cache := none, status := .notExist, version := "", err := none }) else p },
    cbs := a.res.flatMap fun p => bcast p.2 (if p.1 = k then [.resErr .notFound] else []) }

/-- propagateConnectivityErrorToAllWatchers -/
def propagate (a : Auth) : List Cb :=
  a.res.flatMap fun p => bcast p.2 [if p.2.cache.isNone then .resErr .conn else .ambErr .conn]

/-- watcherExistsForUncachedResource -/
def uncachedWatch (a : Auth) : Bool := a.res.any fun p => p.2.status = .requested

/-- the loop over fallbackToServer: the first server after `srv` that has no channel yet and whose channel can
    be created (a server that already has a channel, or whose creation fails, is skipped) -/
def nextServer (a : Auth) (srv : Nat) : Option Nat :=
  ((List.range a.n).filter fun i => srv < i && !a.opened.contains i && !a.nobuild.contains i).head?

/-- where a failure of `srv` makes the authority fall back to: only a failure of the ACTIVE server may move it
    to a lower-priority server (the check added by /repo 98104fb, before the loop); then the loop over
    fallbackToServer finds the first server after it without a channel -/
def fallbackTarget (a : Auth) (srv : Nat) : Option Nat :=
  if a.active != some srv then none else nextServer a srv

/-- fallbackToServer on a server without a channel -/
def fallbackTo (a : Auth) (i : Nat) : Out :=
  { auth := { a with opened := a.opened ++ [i], active := some i,
                     res := a.res.map fun p => (p.1, { p.2 with chans := p.2.chans ++ [i] }) },
    cmds := Cmd.build i :: a.res.map fun p => Cmd.sub i p.1 }

/-- handleADSStreamFailure -/
def handleFailure (a : Auth) (srv : Nat) (afterRecv : Bool) : Out :=
  if afterRecv then { auth := a }
  else if !uncachedWatch a then { auth := a, cbs := propagate a }
  else match fallbackTarget a srv with
    | some i => fallbackTo a i
    | none => { auth := a, cbs := propagate a }

/-- what a new watcher is told at once -/
def initialKinds (r : RState) : List CbKind :=
  (match r.cache with | some c => [.changed c] | none => []) ++
  (if r.status = .nacked then
     match r.err with
     | some (t, _) => [if r.cache.isNone then .resErr (.nack t) else .ambErr (.nack t)]
     | none => []   -- unreachable: NACKed status always comes with an ErrState
   else []) ++
  (if r.status = .notExist then [.resErr .notFound] else [])

def initialCbs (w : Nat) (r : RState) : List Cb := (initialKinds r).map fun k => ⟨w, k⟩

/-- xdsChannelToUse: (state, commands, the channel to use) -/
def channelToUse (a : Auth) : Auth × List Cmd × Nat :=
  match a.active with
  | some act => (a, [], act)
  | none => ({ a with opened := a.opened ++ [0], active := some 0 }, [Cmd.build 0], 0)

/-- the resourceState created by the first watch of a resource -/
def newRState (w act : Nat) : RState :=
  { watchers := [w], cache := none, status := .requested, version := "", err := none, delIgnored := false, chans := [act] }

def addWatcher (k : Key) (w : Nat) (p : Key × RState) : Key × RState :=
  if p.1 = k then (p.1, { p.2 with watchers := p.2.watchers ++ [w] }) else p

/-- watchResource -/
def watch (a : Auth) (k : Key) (w : Nat) : Out :=
  let cu := channelToUse a
  match lookup a.res k with
  | none =>
    { auth := { cu.1 with res := a.res ++ [(k, newRState w cu.2.2)] }, cbs := initialCbs w (newRState w cu.2.2),
      cmds := cu.2.1 ++ [Cmd.sub cu.2.2 k] }
  | some r =>
    { auth := { cu.1 with res := a.res.map (addWatcher k w) }, cbs := initialCbs w r, cmds := cu.2.1 }

def dropWatcher (k : Key) (w : Nat) (p : Key × RState) : Key × RState :=
  if p.1 = k then (p.1, { p.2 with watchers := p.2.watchers.filter (· ≠ w) }) else p

/-- unwatchResource -/
def unwatch (a : Auth) (k : Key) (w : Nat) : Out :=
  match lookup a.res k with
  | none => { auth := a }
  | some r =>
    if r.watchers.filter (· ≠ w) ≠ [] then
      { auth := { a with res := a.res.map (dropWatcher k w) } }
    else
      let res := a.res.filter (·.1 ≠ k)
      let cmds := r.chans.map fun i => Cmd.unsub i k
      if res = [] then
        -- closeXDSChannels
        { auth := { a with res := [], opened := [], active := none }, cmds := cmds ++ a.opened.map Cmd.release }
      else { auth := { a with res := res }, cmds := cmds }

/-- xdsChannelToUse fails: there is no channel yet and the one to the first server cannot be created -/
def cannotStart (a : Auth) : Bool := a.active.isNone && a.nobuild.contains 0

/-- watchResource, including the early return when xdsChannelToUse fails (the watcher gets the error, nothing
    is registered) -/
def watchResource (a : Auth) (k : Key) (w : Nat) : Out :=
  if cannotStart a then { auth := a, cbs := [⟨w, .resErr .other⟩] } else watch a k w

/-- the events the authority's serializer runs; `env` is not a callback but a change of the environment the
    callbacks read: which servers' transports cannot be created from now on -/
inductive AEv
  | update (srv gen : Nat) (typ ver : String) (entries : List (String × Upd))
  | dne (k : Key)
  | failure (srv : Nat) (afterRecv : Bool)
  | watch (k : Key) (w : Nat)
  | unwatch (k : Key) (w : Nat)
  | env (nobuild : List Nat)
deriving Repr

def Auth.step (a : Auth) : AEv → Out
  | .update srv _ typ ver entries => handleUpdate a srv typ ver entries
  | .dne k => handleDNE a k
  | .failure srv after => handleFailure a srv after
  | .watch k w => watchResource a k w
  | .unwatch k w => unwatch a k w
  | .env l => { auth := { a with nobuild := l } }

def Auth.init (n : Nat) (ign : List Bool) : Auth :=
  { n := n, ign := ign, opened := [], active := none, res := [], nobuild := [] }

/-- run a whole event history -/
def Auth.run (a : Auth) : List AEv → Auth
  | [] => a
  | e :: es => Auth.run (a.step e).auth es

/-! ## Layer B: channels, transport pacing, time -/

def backoffMs : Nat := 1000
def expiryMs : Nat := 2505

/-- xdsresource.ResourceWatchState -/
inductive WS | started | requested (deadline : Nat) | received | timeout
deriving DecidableEq, Repr

/-- where the ADS runner goroutine is -/
inductive Phase
  | wantStream            -- inside transport.NewStream (granted by the next pump)
  | backoff (due : Nat)    -- in RunF's timer
  | recv                  -- inside recv(stream)
deriving DecidableEq, Repr

structure Resp where
  typ : String
  ver : String
  entries : List (String × Upd)
deriving Repr

structure Chan where
  opened : Bool := false
  gen : Nat := 0                    -- transports built for this server so far
  streams : Nat := 0                -- streams created for this server so far
  phase : Phase := .wantStream
  live : Bool := false              -- the current stream is not broken
  refs : List Nat := []             -- channelState.interestedAuthorities (0 = top-level authority, 1 = authority "b")
  fcWait : List Nat := []           -- authorities that have not yet reported the last update as processed
                                    -- (adsFlowControl.pending = this is non-empty)
  msgRecv : Bool := false
  inbox : List Resp := []
  subs : List (Key × WS) := []      -- subscribedResources of all types
  types : List String := []         -- resourceTypeState keys
  view : List (String × List String) := []   -- names of the last request per type on the current stream
deriving Repr

def Chan.fcPending (c : Chan) : Bool := !c.fcWait.isEmpty

/-- The client: the top-level authority (old-style resource names) and one more authority "b" (names `b_…`,
    i.e. xdstp://b/…) with the same server list, so that the two share every xdsChannel they both use; the
    channels are owned by the client and closed when the last authority releases them. `held`/`queue` belong to
    the top-level authority's serializer. -/
structure Sys where
  auth : Auth
  authB : Auth
  chans : List Chan
  up : List Bool
  now : Nat := 0
  held : Bool := false
  queue : List AEv := []
  watches : List (Nat × Key) := []
  cbs : List Cb := []
  closed : Bool := false
  nobuildSrv : List Nat := []       -- servers for which TransportBuilder.Build fails right now
  boff : Nat := 0                   -- authority "b" is configured with the servers boff, boff+1, … of the top-level
                                    -- list (its own index j is global server boff + j): with boff > 0 a fallback
                                    -- server of the top-level authority is the primary of "b"
deriving Repr

def insertSorted (x : String) : List String → List String
  | [] => [x]
  | y :: ys => if x ≤ y then x :: y :: ys else y :: insertSorted x ys

def sortStrs (l : List String) : List String := l.foldl (fun acc x => insertSorted x acc) []

def namesOf (subs : List (Key × WS)) (typ : String) : List String :=
  sortStrs ((subs.filter (·.1.typ = typ)).map (·.1.name))

def setView (v : List (String × List String)) (typ : String) (names : List String) : List (String × List String) :=
  (v.filter (·.1 ≠ typ)) ++ [(typ, names)]

/-- startWatchTimersLocked for all resources of the type -/
def startTimers (now : Nat) (typ : String) (subs : List (Key × WS)) : List (Key × WS) :=
  subs.map fun p => if p.1.typ = typ ∧ p.2 = .started then (p.1, .requested (now + expiryMs)) else p

/-- onError: stop the timers of requested resources -/
def resetTimers (subs : List (Key × WS)) : List (Key × WS) :=
  subs.map fun p => match p.2 with
    | .requested _ => (p.1, .started)
    | _ => p

/-- a request for the type goes out (only on a live stream the sender holds) -/
def sendReq (c : Chan) (now : Nat) (typ : String) : Chan :=
  if c.phase = .recv ∧ c.live then
    { c with view := setView c.view typ (namesOf c.subs typ), subs := startTimers now typ c.subs }
  else c

def chanSub (c : Chan) (now : Nat) (k : Key) : Chan :=
  if !c.opened then c else
  let subs := if c.subs.any (·.1 = k) then c.subs.map fun p => if p.1 = k then (k, WS.started) else p
              else c.subs ++ [(k, .started)]
  sendReq { c with subs := subs, types := if c.types.contains k.typ then c.types else c.types ++ [k.typ] } now k.typ

def chanUnsub (c : Chan) (now : Nat) (k : Key) : Chan :=
  if !c.opened then c
  else if !c.types.contains k.typ then c
  else if !c.subs.any (·.1 = k) then c
  else sendReq { c with subs := c.subs.filter (·.1 ≠ k) } now k.typ

def getChan (s : Sys) (i : Nat) : Chan := s.chans.getD i {}
def setChan (s : Sys) (i : Nat) (c : Chan) : Sys := { s with chans := s.chans.set i c }

def getAuth (s : Sys) (x : Nat) : Auth := if x = 0 then s.auth else s.authB
def setAuth (s : Sys) (x : Nat) (a : Auth) : Sys := if x = 0 then { s with auth := a } else { s with authB := a }

/-- first global server of authority `x`'s own server list -/
def offOf (s : Sys) (x : Nat) : Nat := if x = 0 then 0 else s.boff

def globCmd (off : Nat) : Cmd → Cmd
  | .build i => .build (i + off)
  | .release i => .release (i + off)
  | .sub i k => .sub (i + off) k
  | .unsub i k => .unsub (i + off) k

/-- an event (global server index) as authority `x` sees it (index into its own server list) -/
def locEv (off : Nat) : AEv → AEv
  | .update srv gen t v es => .update (srv - off) gen t v es
  | .failure srv after => .failure (srv - off) after
  | e => e

/-- which authority a resource name belongs to (XDSClient.getAuthorityForResource) -/
def ownerOf (k : Key) : Nat := if k.name.startsWith "b_" then 1 else 0

/-- a command of authority `x` (getChannelForADS / the release function / subscribe / unsubscribe) -/
def applyCmd (x : Nat) (s : Sys) : Cmd → Sys
  | .build i =>
    let c := getChan s i
    if c.opened then setChan s i { c with refs := if c.refs.contains x then c.refs else c.refs ++ [x] }
    else setChan s i { opened := true, gen := c.gen + 1, streams := c.streams, phase := .wantStream, refs := [x] }
  | .release i =>
    let c := getChan s i
    let refs := c.refs.filter (· ≠ x)
    if refs.isEmpty then setChan s i { opened := false, gen := c.gen, streams := c.streams }   -- last reference: closed
    else setChan s i { c with refs := refs }
  | .sub i k => setChan s i (chanSub (getChan s i) s.now k)
  | .unsub i k => setChan s i (chanUnsub (getChan s i) s.now k)

def applyCmds (x : Nat) (s : Sys) (cmds : List Cmd) : Sys := cmds.foldl (applyCmd x) s

/-- the serializer of authority `x` runs one event -/
def processEv (x : Nat) (s : Sys) (e : AEv) : Sys :=
  -- getChannelForADS fails for a server iff its transport cannot be built AND the client has no channel to it
  -- yet (an existing channel is shared without building anything): the authority's environment for this step
  let off := offOf s x
  let nb := ((s.nobuildSrv.filter fun i => !(getChan s i).opened).filter (off ≤ ·)).map (· - off)
  let a0 := ((getAuth s x).step (.env nb)).auth
  let o := a0.step (locEv off e)
  let s := setAuth s x o.auth
  let s := applyCmds x { s with cbs := s.cbs ++ o.cbs } (o.cmds.map (globCmd off))
  match e with
  | .update srv gen _ _ _ =>
    let c := getChan s srv
    if o.done ∧ c.opened ∧ c.gen = gen then setChan s srv { c with fcWait := c.fcWait.filter (· ≠ x) } else s
  | _ => s

/-- an event reaches the serializer of authority `x` -/
def emitTo (x : Nat) (s : Sys) (e : AEv) : Sys :=
  if x = 0 ∧ s.held then { s with queue := s.queue ++ [e] } else processEv x s e

/-- channelState forwards an event of channel `i` to every interested authority -/
def emit (s : Sys) (i : Nat) (e : AEv) : Sys :=
  (getChan s i).refs.foldl (fun s x => emitTo x s e) s

/-- the runner's NewStream call is granted -/
def grantNewStream (s : Sys) (i : Nat) : Sys :=
  let c := getChan s i
  if s.up.getD i false then
    let c := { c with streams := c.streams + 1, live := true, phase := .recv, inbox := [], msgRecv := false, view := [] }
    let c := c.types.foldl (fun c t => if namesOf c.subs t = [] then c else sendReq c s.now t) c
    setChan s i c
  else
    let s := setChan s i { c with subs := resetTimers c.subs, phase := .backoff (s.now + backoffMs) }
    emit s i (.failure i false)

/-- the reader's Recv call is granted: the stream error, or the next message -/
def grantRecv (s : Sys) (i : Nat) : Sys :=
  let c := getChan s i
  if !c.live then
    let s := setChan s i { c with subs := resetTimers c.subs,
                                  phase := if c.msgRecv then .wantStream else .backoff (s.now + backoffMs) }
    emit s i (.failure i c.msgRecv)
  else match c.inbox with
    | [] => s
    | m :: rest =>
      let gen0 := c.gen
      let s := setChan s i { c with inbox := rest, msgRecv := true, fcWait := c.refs }
      let s := emit s i (.update i gen0 m.typ m.ver m.entries)
      -- onRecv: mark the received names, send the ACK/NACK listing the current subscriptions
      let c := getChan s i
      if c.opened ∧ c.gen = gen0 ∧ c.types.contains m.typ then
        let subs := c.subs.map fun p =>
          if p.1.typ = m.typ ∧ (entLookup m.entries p.1.name).isSome then
            match p.2 with
            | .started => (p.1, WS.received)
            | .requested _ => (p.1, WS.received)
            | _ => p
          else p
        let c : Chan := { c with subs := subs }
        let c : Chan := if c.phase = Phase.recv ∧ c.live then { c with view := setView c.view m.typ (namesOf c.subs m.typ) } else c
        setChan s i c
      else s

/-- which transport call the pump grants next -/
inductive Grant | newStream (i : Nat) | recv (i : Nat)

def enabled (s : Sys) (i : Nat) : Option Grant :=
  let c := getChan s i
  if !c.opened then none
  else if c.phase = .wantStream then some (.newStream i)
  else if c.phase = .recv ∧ !c.fcPending ∧ (!c.live ∨ c.inbox ≠ []) then some (.recv i)
  else none

def pump (fuel : Nat) (s : Sys) : Sys :=
  match fuel with
  | 0 => s
  | fuel + 1 =>
    match (List.range s.chans.length).findSome? (enabled s) with
    | none => s
    | some (.newStream i) => pump fuel (grantNewStream s i)
    | some (.recv i) => pump fuel (grantRecv s i)

/-- all timer deadlines of open channels -/
def deadlines (s : Sys) : List Nat :=
  s.chans.flatMap fun c =>
    if !c.opened then [] else
    (match c.phase with | .backoff t => [t] | _ => []) ++
    c.subs.filterMap fun p => match p.2 with | .requested d => some d | _ => none

def minOf : List Nat → Option Nat
  | [] => none
  | x :: xs => match minOf xs with
    | none => some x
    | some m => some (min x m)

/-- fire everything due at time `t` (watch-expiry timers first; they never share an instant with a
    retry timer: expiry deadlines are ≡ 5 mod 10, everything else is a multiple of 10) -/
def fireAt (s : Sys) (t : Nat) : Sys :=
  let s := { s with now := t }
  -- expiry timers
  let s := (List.range s.chans.length).foldl (fun s i =>
    let c := getChan s i
    if !c.opened then s else
    let due := c.subs.filterMap fun p => match p.2 with
      | .requested d => if d ≤ t then some p.1 else none
      | _ => none
    due.foldl (fun s k =>
      let c := getChan s i
      let s := setChan s i { c with subs := c.subs.map fun p => if p.1 = k then (p.1, WS.timeout) else p }
      emit s i (.dne k)) s) s
  -- retry timers
  let s := (List.range s.chans.length).foldl (fun s i =>
    let c := getChan s i
    match c.phase with
    | .backoff due => if c.opened ∧ due ≤ t then setChan s i { c with phase := .wantStream } else s
    | _ => s) s
  pump 256 s

def advance (fuel : Nat) (s : Sys) (target : Nat) : Sys :=
  match fuel with
  | 0 => { s with now := target }
  | fuel + 1 =>
    match minOf (deadlines s) with
    | none => { s with now := target }
    | some t => if t ≤ target then advance fuel (fireAt s t) target else { s with now := target }

inductive Op
  | watch (typ name : String) (w : Nat)
  | unwatch (w : Nat)
  | respond (srv : Nat) (r : Resp)
  | brk (srv : Nat)
  | down (srv : Nat) | up (srv : Nat)
  | sleep (ms : Nat)
  | hold | release
  | nobuild (l : List Nat)
  | close
deriving Repr

def Sys.init (n : Nat) (ign : List Bool) (boff : Nat := 0) : Sys :=
  { auth := Auth.init n ign, authB := Auth.init (n - boff) (ign.drop boff), chans := List.replicate n {},
    up := List.replicate n true, boff := boff }

/-- result tag of an op that does not produce a snapshot -/
inductive Res | snap | tag (s : String)

def hasLive (s : Sys) (i : Nat) : Bool :=
  let c := getChan s i
  c.opened && c.phase == .recv && c.live

def step (s : Sys) (op : Op) : Sys × Res :=
  if s.closed then (s, .tag "closed") else
  let s := { s with cbs := [] }
  match op with
  | .watch typ name w =>
    let k : Key := ⟨typ, name⟩
    let x := ownerOf k
    if x = 0 ∧ s.held then (s, .tag "held")
    else if s.watches.any (·.1 = w) then (s, .tag "busy")
    else if typ ≠ "T" ∧ typ ≠ "U" then ({ s with cbs := [⟨w, .resErr .other⟩] }, .snap)
    else
      let s := processEv x { s with watches := s.watches ++ [(w, k)] } (.watch k w)
      (pump 256 s, .snap)
  | .unwatch w =>
    match s.watches.find? (·.1 = w) with
      | none => (s, .tag "nowatch")
      | some (_, k) =>
        let x := ownerOf k
        if x = 0 ∧ s.held then (s, .tag "held") else
        let s := processEv x { s with watches := s.watches.filter (·.1 ≠ w) } (.unwatch k w)
        (pump 256 s, .snap)
  | .respond i r =>
    if !hasLive s i then (s, .tag "nostream")
    else
      let c := getChan s i
      (pump 256 (setChan s i { c with inbox := c.inbox ++ [r] }), .snap)
  | .brk i =>
    if !hasLive s i then (s, .tag "nostream")
    else
      let c := getChan s i
      (pump 256 (setChan s i { c with live := false, inbox := [] }), .snap)
  | .down i => (pump 256 { s with up := s.up.set i false }, .snap)
  | .up i => (pump 256 { s with up := s.up.set i true }, .snap)
  | .sleep ms => (advance 4096 s (s.now + ms), .snap)
  | .hold => if s.held then (s, .tag "held") else ({ s with held := true }, .snap)
  | .release =>
    if !s.held then (s, .tag "nothold")
    else
      let q := s.queue
      let s := q.foldl (processEv 0) { s with held := false, queue := [] }
      (pump 256 s, .snap)
  | .nobuild l => ({ s with nobuildSrv := l }, .snap)
  | .close => ({ s with closed := true }, .tag "closed")

end GrpcModel.XdsAuth
