/-
Model of the parts of Go's `unicode/utf8` (go1.25) that grpc-go's grpc-message codec uses:

  unicode/utf8/utf8.go : first[256], acceptRanges[16], DecodeRuneInString (= DecodeRune),
                         ValidString, appendRuneNonASCII
  runtime/utf8.go      : encoderune  (the `string(r)` conversion)
  the `string([]rune(s))` round trip (one U+FFFD per invalid byte)

Bytes are `UInt8`, runes are `Nat` (a Go `rune` is int32; DecodeRune only returns 0 … 0x10FFFF).
The bit operations of the Go source are kept (`&&&`, `|||`, `<<<`, `>>>` on `Nat`).
The component `utf8` (Driver/Utf8.lean) diffs every definition here against the real functions.
-/
namespace GrpcModel.Utf8

abbrev runeError : Nat := 0xFFFD
abbrev maxRune : Nat := 0x10FFFF
abbrev surrogateMin : Nat := 0xD800
abbrev surrogateMax : Nat := 0xDFFF
abbrev rune1Max : Nat := 0x7F
abbrev rune2Max : Nat := 0x7FF
abbrev rune3Max : Nat := 0xFFFF

/-! first-byte classes: high nibble = index into `acceptRanges` (F = special one-byte case),
    low nibble = length of the sequence (or status for the one-byte cases). -/
abbrev xx : Nat := 0xF1  -- invalid: size 1
abbrev as : Nat := 0xF0  -- ASCII: size 1
abbrev s1 : Nat := 0x02  -- accept 0, size 2
abbrev s2 : Nat := 0x13  -- accept 1, size 3
abbrev s3 : Nat := 0x03  -- accept 0, size 3
abbrev s4 : Nat := 0x23  -- accept 2, size 3
abbrev s5 : Nat := 0x34  -- accept 3, size 4
abbrev s6 : Nat := 0x04  -- accept 0, size 4
abbrev s7 : Nat := 0x44  -- accept 4, size 4

/-- `first[b]` (the 256-entry table written as its row structure). -/
def first (b : Nat) : Nat :=
  if b < 0x80 then as          -- 0x00-0x7F
  else if b < 0xC2 then xx     -- 0x80-0xBF, 0xC0, 0xC1
  else if b < 0xE0 then s1     -- 0xC2-0xDF
  else if b = 0xE0 then s2
  else if b < 0xED then s3     -- 0xE1-0xEC
  else if b = 0xED then s4
  else if b < 0xF0 then s3     -- 0xEE, 0xEF
  else if b = 0xF0 then s5
  else if b < 0xF4 then s6     -- 0xF1-0xF3
  else if b = 0xF4 then s7
  else xx                      -- 0xF5-0xFF

/-- `acceptRanges[i]` as (lo, hi); entries 5…15 of the Go array are the zero value. -/
def acceptRange (i : Nat) : Nat × Nat :=
  if i = 0 then (0x80, 0xBF)
  else if i = 1 then (0xA0, 0xBF)
  else if i = 2 then (0x80, 0x9F)
  else if i = 3 then (0x90, 0xBF)
  else if i = 4 then (0x80, 0x8F)
  else (0, 0)

/-- `utf8.DecodeRuneInString(s)` / `utf8.DecodeRune(p)`: (rune, size). -/
def decodeRune : List UInt8 → Nat × Nat
  | [] => (runeError, 0)
  | b0 :: t =>
    let x := first b0.toNat
    if x ≥ as then
      -- `mask := rune(x) << 31 >> 31`: all ones iff x is odd (x = xx)
      (if x &&& 1 = 1 then runeError else b0.toNat, 1)
    else
      let sz := x &&& 7
      let accept := acceptRange (x >>> 4)
      if t.length + 1 < sz then (runeError, 1) else
      match t with
      | [] => (runeError, 1)            -- not reachable: sz ≥ 2 ≤ n
      | b1 :: t1 =>
        if b1.toNat < accept.1 || accept.2 < b1.toNat then (runeError, 1)
        else if sz ≤ 2 then (((b0.toNat &&& 0x1F) <<< 6) ||| (b1.toNat &&& 0x3F), 2)
        else match t1 with
        | [] => (runeError, 1)          -- not reachable: sz ≥ 3 ≤ n
        | b2 :: t2 =>
          if b2.toNat < 0x80 || 0xBF < b2.toNat then (runeError, 1)
          else if sz ≤ 3 then
            ((((b0.toNat &&& 0x0F) <<< 12) ||| ((b1.toNat &&& 0x3F) <<< 6)) ||| (b2.toNat &&& 0x3F), 3)
          else match t2 with
          | [] => (runeError, 1)        -- not reachable: sz = 4 ≤ n
          | b3 :: _ =>
            if b3.toNat < 0x80 || 0xBF < b3.toNat then (runeError, 1)
            else
              (((((b0.toNat &&& 0x07) <<< 18) ||| ((b1.toNat &&& 0x3F) <<< 12))
                  ||| ((b2.toNat &&& 0x3F) <<< 6)) ||| (b3.toNat &&& 0x3F), 4)

/-- `byte(x)` conversion. -/
def byte (n : Nat) : UInt8 := UInt8.ofNat (n % 256)

/-- `runtime.encoderune` = `[]byte(string(rune))` for `0 ≤ r < 2^31` (so `uint32(r) = r`). -/
def encodeRune (r : Nat) : List UInt8 :=
  if r ≤ rune1Max then [byte r]
  else if r ≤ rune2Max then [byte (0xC0 ||| ((r >>> 6) % 256)), byte (0x80 ||| ((r % 256) &&& 0x3F))]
  else if r > maxRune ∨ (surrogateMin ≤ r ∧ r ≤ surrogateMax) then
    -- r = RuneError; fallthrough into the three-byte case
    [byte (0xE0 ||| ((runeError >>> 12) % 256)), byte (0x80 ||| (((runeError >>> 6) % 256) &&& 0x3F)),
     byte (0x80 ||| ((runeError % 256) &&& 0x3F))]
  else if r ≤ rune3Max then
    [byte (0xE0 ||| ((r >>> 12) % 256)), byte (0x80 ||| (((r >>> 6) % 256) &&& 0x3F)),
     byte (0x80 ||| ((r % 256) &&& 0x3F))]
  else
    [byte (0xF0 ||| ((r >>> 18) % 256)), byte (0x80 ||| (((r >>> 12) % 256) &&& 0x3F)),
     byte (0x80 ||| (((r >>> 6) % 256) &&& 0x3F)), byte (0x80 ||| ((r % 256) &&& 0x3F))]

/-- The three bytes of U+FFFD. -/
abbrev replacement : List UInt8 := [0xEF, 0xBF, 0xBD]

/-- "(RuneError, 1)": the decoder's signal for an invalid or short encoding. -/
def isInvalid (p : Nat × Nat) : Bool := p.1 == runeError && p.2 == 1

/-- `utf8.ValidString`: no position decodes to (RuneError, 1). `fuel` ≥ length. -/
def validAux : Nat → List UInt8 → Bool
  | 0, s => s.isEmpty
  | fuel + 1, s =>
    if s.isEmpty then true else
    let p := decodeRune s
    if isInvalid p then false else validAux fuel (s.drop p.2)

def valid (s : List UInt8) : Bool := validAux s.length s

/-- `string([]rune(s))`: every invalid byte becomes U+FFFD, every well-formed sequence is copied. -/
def sanitizeAux : Nat → List UInt8 → List UInt8
  | 0, _ => []
  | fuel + 1, s =>
    if s.isEmpty then [] else
    let p := decodeRune s
    if isInvalid p then replacement ++ sanitizeAux fuel (s.drop 1)
    else s.take p.2 ++ sanitizeAux fuel (s.drop p.2)

def sanitize (s : List UInt8) : List UInt8 := sanitizeAux s.length s

/-! ### Specification: well-formed UTF-8 byte sequences (Unicode Standard, Table 3-7)

Independent of the decoder above; `GrpcProofs.C08.valid_iff_wellFormed` proves that Go's notion
(`utf8.ValidString`, modelled by `valid`) coincides with it. -/

/-- `lo ≤ b ≤ hi` on a byte. -/
abbrev inRange (lo hi : Nat) (b : UInt8) : Prop := lo ≤ b.toNat ∧ b.toNat ≤ hi

/-- One row of Table 3-7: the encoding of a single Unicode scalar value. -/
inductive Scalar : List UInt8 → Prop
  | r00_7F (b0) : inRange 0x00 0x7F b0 → Scalar [b0]
  | rC2_DF (b0 b1) : inRange 0xC2 0xDF b0 → inRange 0x80 0xBF b1 → Scalar [b0, b1]
  | rE0 (b0 b1 b2) : inRange 0xE0 0xE0 b0 → inRange 0xA0 0xBF b1 → inRange 0x80 0xBF b2 → Scalar [b0, b1, b2]
  | rE1_EC (b0 b1 b2) : inRange 0xE1 0xEC b0 → inRange 0x80 0xBF b1 → inRange 0x80 0xBF b2 → Scalar [b0, b1, b2]
  | rED (b0 b1 b2) : inRange 0xED 0xED b0 → inRange 0x80 0x9F b1 → inRange 0x80 0xBF b2 → Scalar [b0, b1, b2]
  | rEE_EF (b0 b1 b2) : inRange 0xEE 0xEF b0 → inRange 0x80 0xBF b1 → inRange 0x80 0xBF b2 → Scalar [b0, b1, b2]
  | rF0 (b0 b1 b2 b3) : inRange 0xF0 0xF0 b0 → inRange 0x90 0xBF b1 → inRange 0x80 0xBF b2 → inRange 0x80 0xBF b3 →
      Scalar [b0, b1, b2, b3]
  | rF1_F3 (b0 b1 b2 b3) : inRange 0xF1 0xF3 b0 → inRange 0x80 0xBF b1 → inRange 0x80 0xBF b2 → inRange 0x80 0xBF b3 →
      Scalar [b0, b1, b2, b3]
  | rF4 (b0 b1 b2 b3) : inRange 0xF4 0xF4 b0 → inRange 0x80 0x8F b1 → inRange 0x80 0xBF b2 → inRange 0x80 0xBF b3 →
      Scalar [b0, b1, b2, b3]

/-- A well-formed UTF-8 string: a concatenation of scalar encodings. -/
inductive WellFormed : List UInt8 → Prop
  | nil : WellFormed []
  | cons (pre t) : Scalar pre → WellFormed t → WellFormed (pre ++ t)

end GrpcModel.Utf8
