/-
Model of Go's `encoding/base64` as used by internal/transport/http_util.go:
  encodeBinHeader = base64.RawStdEncoding.EncodeToString
  decodeBinHeader = if len(v)%4 == 0 then base64.StdEncoding.DecodeString(v)
                    else base64.RawStdEncoding.DecodeString(v)
Ported from go1.25 src/encoding/base64/base64.go: `Encode`, `decodeQuantum`, `Decode`
(the 8/4-byte fast paths of `Decode` are Go-internal optimisations of repeated
`decodeQuantum` calls and are not modelled separately). Non-strict mode (trailing bits are not
checked), '\r' and '\n' are skipped, padding is mandatory for Std and illegal for RawStd.
Arithmetic is on `Nat` (`a/4` for `a>>2`, `a%4*16` for `(a&3)<<4`, …).
-/
namespace GrpcModel.Base64

abbrev Bytes := List UInt8

/-- `encodeStd` alphabet: index (0..63) → character. -/
def encChar (n : Nat) : UInt8 :=
  if n < 26 then UInt8.ofNat (65 + n)
  else if n < 52 then UInt8.ofNat (97 + (n - 26))
  else if n < 62 then UInt8.ofNat (48 + (n - 52))
  else if n = 62 then 43 else 47

/-- `decodeMap`: character → index, `none` for 0xff (not in the alphabet). -/
def decChar (b : UInt8) : Option Nat :=
  let n := b.toNat
  if 65 ≤ n ∧ n ≤ 90 then some (n - 65)
  else if 97 ≤ n ∧ n ≤ 122 then some (n - 97 + 26)
  else if 48 ≤ n ∧ n ≤ 57 then some (n - 48 + 52)
  else if n = 43 then some 62
  else if n = 47 then some 63
  else none

def padByte : UInt8 := 61  -- '='

/-- `(*Encoding).Encode`: 3 bytes → 4 characters; a remainder of 1 (2) bytes gives 2 (3)
    characters plus, when `pad`, `==` (`=`). -/
def encode (pad : Bool) : Bytes → Bytes
  | a :: b :: c :: rest =>
    encChar (a.toNat / 4) :: encChar (a.toNat % 4 * 16 + b.toNat / 16)
      :: encChar (b.toNat % 16 * 4 + c.toNat / 64) :: encChar (c.toNat % 64) :: encode pad rest
  | [a, b] =>
    [encChar (a.toNat / 4), encChar (a.toNat % 4 * 16 + b.toNat / 16), encChar (b.toNat % 16 * 4)]
      ++ (if pad then [padByte] else [])
  | [a] =>
    [encChar (a.toNat / 4), encChar (a.toNat % 4 * 16)] ++ (if pad then [padByte, padByte] else [])
  | [] => []

/-- `base64.StdEncoding.EncodeToString`. -/
def encodeStd (bs : Bytes) : Bytes := encode true bs
/-- `base64.RawStdEncoding.EncodeToString`. -/
def encodeRaw (bs : Bytes) : Bytes := encode false bs

def isNL (b : UInt8) : Bool := b == 10 || b == 13

def skipNL : Bytes → Bytes
  | b :: r => if isNL b then skipNL r else b :: r
  | [] => []

/-- The tail of `decodeQuantum`: the collected sextets (`dlen` = their number, 2..4) are packed
    into 24 bits and the first `dlen-1` bytes are emitted. -/
def finish (acc : List Nat) : Bytes :=
  let val := acc.getD 0 0 * 262144 + acc.getD 1 0 * 4096 + acc.getD 2 0 * 64 + acc.getD 3 0
  ([UInt8.ofNat (val / 65536 % 256), UInt8.ofNat (val / 256 % 256), UInt8.ofNat (val % 256)]).take (acc.length - 1)

inductive QRes
  | err
  | done (out : Bytes) (rest : Bytes)
deriving Repr, DecidableEq

/-- `decodeQuantum`: `acc` are the sextets read so far (`j = acc.length`), the list is `src[si:]`. -/
def decQ (pad : Bool) : List Nat → Bytes → QRes
  | acc, [] =>
    match acc.length with
    | 0 => .done [] []
    | 1 => .err
    | _ => if pad then .err else .done (finish acc) []
  | acc, b :: rest =>
    match decChar b with
    | some v =>
      if acc.length = 3 then .done (finish (acc ++ [v])) rest else decQ pad (acc ++ [v]) rest
    | none =>
      if isNL b then decQ pad acc rest
      else if !(pad && b == padByte) then .err
      else match acc.length with
        | 0 => .err
        | 1 => .err
        | 2 =>
          match skipNL rest with
          | [] => .err
          | p :: r2 =>
            if p != padByte then .err
            else if (skipNL r2).isEmpty then .done (finish acc) [] else .err
        | _ => if (skipNL rest).isEmpty then .done (finish acc) [] else .err

/-- `(*Encoding).Decode` as the loop `for si < len(src) { decodeQuantum }`; `none` = any
    `CorruptInputError` (the partial output is discarded by every caller modelled here). -/
def decodeLoop (pad : Bool) : Nat → Bytes → Option Bytes
  | _, [] => some []
  | 0, _ :: _ => none
  | fuel + 1, src =>
    match decQ pad [] src with
    | .err => none
    | .done out rest => (decodeLoop pad fuel rest).map (out ++ ·)

def decode (pad : Bool) (src : Bytes) : Option Bytes := decodeLoop pad (src.length + 1) src

/-- `base64.StdEncoding.DecodeString`. -/
def decodeStd (src : Bytes) : Option Bytes := decode true src
/-- `base64.RawStdEncoding.DecodeString`. -/
def decodeRaw (src : Bytes) : Option Bytes := decode false src

/-- internal/transport/http_util.go `encodeBinHeader`. -/
def encodeBinHeader (v : Bytes) : Bytes := encodeRaw v

/-- internal/transport/http_util.go `decodeBinHeader`: padded decoding when the length is a
    multiple of 4 ("input was padded, or padding was not necessary"), raw otherwise. -/
def decodeBinHeader (v : Bytes) : Option Bytes :=
  if v.length % 4 = 0 then decodeStd v else decodeRaw v

end GrpcModel.Base64
