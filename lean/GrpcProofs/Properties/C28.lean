/-
C28  metadata API behaves as a case-insensitive ordered multimap.
Property theorems only; proofs and helper lemmas are in GrpcProofs/Lemmas/MD.lean.

Vocabulary (GrpcModel/Model/MD.lean): an `MD` is a Go map as an association list IN ITERATION ORDER
(every theorem quantifies over all lists, i.e. all orders); `mgetD md k` = `md[k]`; `lower` =
ASCII strings.ToLower; `NoFoldCollision md` = no two keys of the map are equal up to case;
`foldLookup md k` = the multimap value of `md` at `lower k`; `specOutgoing raw k` = base values then the
values appended by AppendToOutgoingContext, in call order; `histSpec ops` = the same read off a call
history; `St`/`step` = the reference machine (map objects on a heap, contexts refer to them).

F9 (reading): with two keys equal up to case the lookups disagree and depend on Go's map order —
`agreement_needs_no_collision`; the statement is proved on the domain `NoFoldCollision`.
-/
import GrpcProofs.Lemmas.MD
namespace GrpcProofs.C28
open GrpcModel.MD
open GrpcProofs.Lemmas

/-- FromOutgoingContext returns, for every key, exactly: nothing at a non-lower-case key, and at a
    lower-case key the base values followed by the appended values in call order. -/
theorem fromOutgoing_spec (raw : RawMD) (h : NoFoldCollision (raw.md.getD [])) :
    (∀ k, mgetD (fromOutgoing raw) k = if lower k = k then specOutgoing raw k else []) ∧
    (∀ x ∈ MD.keys (fromOutgoing raw), lower x = x) :=
  ⟨fun k => MD.mgetD_fromOutgoing_any raw k h, MD.keys_lower_fromOutgoing raw⟩

/-- Same, for ANY sequence of NewOutgoingContext / AppendToOutgoingContext calls: the context then
    carries a rawMD (unless no call was made) whose FromOutgoingContext is the history's multimap. -/
theorem fromOutgoing_history (ops : List OutOp)
    (hops : ∀ md, OutOp.newOut md ∈ ops → NoFoldCollision md) :
    match runOut ops with
    | none => ops = []
    | some raw => ∀ k, mgetD (fromOutgoing raw) k = if lower k = k then histSpec ops k else [] :=
  MD.fromOutgoing_history ops hops

/-- ValueFromOutgoingContext agrees with the full lookup (any case of the queried key). -/
theorem valueFromOutgoing_agrees (raw : RawMD) (k : Key) (h : NoFoldCollision (raw.md.getD [])) :
    valueFromOutgoing raw k = mgetD (fromOutgoing raw) (lower k) := by
  rw [MD.valueFromOutgoing_eq raw k h, MD.mgetD_fromOutgoing raw k h]

/-- FromIncomingContext is the lower-cased multimap of the stored MD. -/
theorem fromIncoming_spec (md : MD) (h : NoFoldCollision md) :
    (∀ k, mgetD (fromIncoming md) k = if lower k = k then foldLookup md k else []) ∧
    (∀ x ∈ MD.keys (fromIncoming md), lower x = x) :=
  ⟨fun k => MD.mgetD_fromIncoming_any md k h, MD.keys_lower_fromIncoming md⟩

/-- ValueFromIncomingContext agrees with the full lookup. -/
theorem valueFromIncoming_agrees (md : MD) (k : Key) (h : NoFoldCollision md) :
    valueFromIncoming md k = mgetD (fromIncoming md) (lower k) := by
  rw [MD.valueFromIncoming_eq md k h, MD.mgetD_fromIncoming md k h]

/-- Go's random map iteration order cannot be observed through any of the four readers. -/
theorem iteration_order_irrelevant (md md' : MD) (hp : md'.Perm md) (h : NoFoldCollision md)
    (added : List (List (Key × Val))) (k : Key) :
    mgetD (fromIncoming md') k = mgetD (fromIncoming md) k ∧
    valueFromIncoming md' k = valueFromIncoming md k ∧
    mgetD (fromOutgoing ⟨some md', added⟩) k = mgetD (fromOutgoing ⟨some md, added⟩) k ∧
    valueFromOutgoing ⟨some md', added⟩ k = valueFromOutgoing ⟨some md, added⟩ k := by
  have h' := MD.noFold_perm hp h
  refine ⟨?_, ?_, ?_, ?_⟩
  · rw [MD.mgetD_fromIncoming_any md' k h', MD.mgetD_fromIncoming_any md k h, MD.foldLookup_perm hp h]
  · rw [MD.valueFromIncoming_eq md' k h', MD.valueFromIncoming_eq md k h, MD.foldLookup_perm hp h]
  · rw [MD.mgetD_fromOutgoing_any _ k (by simpa using h'), MD.mgetD_fromOutgoing_any _ k (by simpa using h)]
    simp [specOutgoing, MD.foldLookup_perm hp h]
  · rw [MD.valueFromOutgoing_eq _ k (by simpa using h'), MD.valueFromOutgoing_eq _ k (by simpa using h)]
    simp [specOutgoing, MD.foldLookup_perm hp h]

/-- F9: without `NoFoldCollision` the agreement fails (MD{"Foo":{"A"},"foo":{"b"}}, key "Foo"), and
    the full lookup depends on the iteration order. -/
theorem agreement_needs_no_collision :
    (¬ ∀ (md : MD) (k : Key), valueFromIncoming md k = mgetD (fromIncoming md) (lower k)) ∧
    (∃ md md' : MD, md'.Perm md ∧ fromIncoming md' ≠ fromIncoming md) := by
  constructor
  · intro H
    have := H [([70, 111, 111], ["A"]), ([102, 111, 111], ["b"])] [70, 111, 111]
    revert this; decide
  · refine ⟨[([70, 111, 111], ["A"]), ([102, 111, 111], ["b"])],
      [([102, 111, 111], ["b"]), ([70, 111, 111], ["A"])], List.Perm.swap _ _ _, by decide⟩

/-- Get/Set/Append/Delete only look at the lower-cased key argument. -/
theorem get_set_append_delete_case_insensitive (md : MD) (k k' : Key) (vs : List Val)
    (h : lower k = lower k') :
    mdGet md k = mdGet md k' ∧ mdSet md k vs = mdSet md k' vs ∧
    mdAppend md k vs = mdAppend md k' vs ∧ mdDelete md k = mdDelete md k' := by
  simp [mdGet, mdSet, mdAppend, mdDelete, h]

/-- …and behave as a multimap keyed by the lower-cased key. -/
theorem multimap_laws (md : MD) (k k' : Key) (vs : List Val) :
    (vs ≠ [] → mdGet (mdSet md k vs) k' = if lower k = lower k' then vs else mdGet md k') ∧
    (mdSet md k [] = md) ∧
    (mdGet (mdAppend md k vs) k' = if lower k = lower k' then mdGet md k' ++ vs else mdGet md k') ∧
    (mdGet (mdDelete md k) k' = if lower k = lower k' then [] else mdGet md k') :=
  ⟨MD.get_set md k k' vs, by simp [mdSet], MD.get_append md k k' vs, MD.get_delete md k k'⟩

/-- Pairs / New: per lower-cased key, the values in argument order; all keys lower-case. -/
theorem pairs_new_spec (kv : List (Key × Val)) (k : Key) :
    mdGet (mdPairs kv) k = pairVals kv k ∧ mdGet (mdNew kv) k = pairVals kv k ∧
    (∀ x ∈ MD.keys (mdPairs kv), lower x = x) :=
  ⟨MD.get_pairs kv k, MD.get_pairs kv k, MD.keys_lower_foldl_addPair kv [] (by simp [MD.keys])⟩

/-- Join concatenates the values of each key in argument order. -/
theorem join_concat_in_order (mds : List MD) (k : Key) (h : ∀ md ∈ mds, MD.WF md) :
    mgetD (mdJoin mds) k = (mds.map (mgetD · k)).flatten :=
  MD.mgetD_join mds k h

/-- Copy returns an equal map (that it is a DIFFERENT object is `copies_are_fresh`). -/
theorem copy_eq (md : MD) (h : MD.WF md) : mdCopy md = md := MD.copy_eq md h

/-- In every reachable state of the reference machine contexts refer to existing objects only. -/
theorem refsOK_reachable (ops : List Op) : MD.RefsOK (MD.runOps ops) := MD.refsOK_reachable ops

/-- An object just returned by Copy / FromIncomingContext / FromOutgoingContext / Join / New / Pairs
    is referenced by no context: whatever the caller then does to it changes no context read and no
    other object. -/
theorem copies_are_fresh (st : St) (hR : MD.RefsOK st) (op mu : Op) (d : Nat) (st1 : St) (m : MD)
    (hc : MD.creates op = some d) (h1 : step st op = (st1, .md m)) (hm : MD.mutates mu = some d) :
    (step st1 mu).1.ctxs = st.ctxs ∧
    (∀ c x, (c, x) ∈ st.ctxs →
      rawOf (step st1 mu).1 x = rawOf st x ∧ incOf (step st1 mu).1 x = incOf st x) ∧
    (∀ j, j ≠ d → getObj (step st1 mu).1 j = getObj st j) :=
  MD.copies_are_fresh st hR op mu d st1 m hc h1 hm

-- non-vacuity
example : NoFoldCollision [([70, 111, 111], ["A"]), ([98], ["b"])] := by
  unfold NoFoldCollision; decide
example : mgetD (fromOutgoing (appendToOutgoing (some (newOutgoing [([70], ["A"])])) [([70], "x"), ([102], "y")])) [102] = ["A", "x", "y"] := by decide
example : valueFromOutgoing (appendToOutgoing none [([75], "v")]) [107] = ["v"] := by decide
example : mdGet (mdPairs [([75], "1"), ([107], "2")]) [75] = ["1", "2"] := by decide
example : (step (step {} (.lit 0 [([97], ["1"])])).1 (.copy 1 0)).2 = .md [([97], ["1"])] := by decide

end GrpcProofs.C28
