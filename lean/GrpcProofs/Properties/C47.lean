/-
C47  Header and string matchers implement Envoy matcher semantics.
Property theorems only; vocabulary (`CaseEq`, `FoldEq`, `Decimal`, `HeaderSem`, `SMSem`) and helper lemmas are in
GrpcProofs/Lemmas/Matchers.lean. All statements are about the model in GrpcModel/Model/Matchers.lean (a port of the
Go matchers with ASCII case folding) and quantify over ALL byte strings, header maps and configurations.
`Re.matches` (regex, full string) is an opaque predicate here.
-/
import GrpcProofs.Lemmas.Matchers
namespace GrpcProofs.C47
open GrpcModel.Matchers GrpcProofs.Lemmas.Matchers

/-! ### header matchers -/

/-- Every header matcher sees the comma-joined values of the header (no space), or nothing when the key is absent. -/
theorem value_is_comma_join (md : MD) (k : Str) :
    valueFromMD md k = (lookupMD md k).map (List.intercalate [44]) := by
  unfold valueFromMD
  cases lookupMD md k <;> simp [joinComma_eq_intercalate]

/-- A matcher other than present_match never matches when the header is absent — whatever `invert` says. -/
theorem absent_header_never_matches (m : HeaderMatcher) (md : MD) (hk : isPresentKind m = false)
    (habs : lookupMD md (key m) = none) : m.match md = false := by
  cases m <;> simp only [isPresentKind, Bool.true_eq_false] at hk <;>
    simp only [HeaderMatcher.match] <;> exact onValue_absent md _ _ habs

/-- `invert` flips the result only when the header is present: the inverted matcher answers
    "present ∧ ¬ (the plain matcher's answer)". -/
theorem invert_flips_only_when_present (m : HeaderMatcher) (md : MD) (hk : isPresentKind m = false) :
    (setInvert true m).match md = ((lookupMD md (key m)).isSome && !(setInvert false m).match md) := by
  cases m <;> simp only [isPresentKind, Bool.true_eq_false] at hk <;>
    simp only [setInvert, HeaderMatcher.match, key]
  case exact k pat _ => exact onValue_invert md k (· == pat)
  case regex k re _ => exact onValue_invert md k re.matches
  case range k a b _ =>
    have h1 : (fun v => rangeResult v a b true) = (fun v => rangeResult v a b false != true) :=
      funext fun v => rangeResult_inv v a b true
    have h2 : (fun v => rangeResult v a b false) = (fun v => rangeResult v a b false != false) :=
      funext fun v => rangeResult_inv v a b false
    rw [h1, h2]
    exact onValue_invert md k (rangeResult · a b false)
  case «prefix» k pat _ => exact onValue_invert md k (pat.isPrefixOf ·)
  case suffix k pat _ => exact onValue_invert md k (pat.isSuffixOf ·)
  case contains k pat _ => exact onValue_invert md k (hasInfix pat ·)
  case string k sm _ => exact onValue_invert md k sm.match

/-- exact: present and (joined value = pattern) xor invert. -/
theorem header_exact_spec (k pat : Str) (inv : Bool) (md : MD) :
    (HeaderMatcher.exact k pat inv).match md = true ↔ HeaderSem md k inv (· = pat) := by
  simp only [HeaderMatcher.match]
  rw [match_eq_withInvert md k inv (· == pat)]
  exact withInvert_iff md k inv _ _ (fun v => by simp)

/-- prefix: present and (pattern is a prefix of the joined value) xor invert. -/
theorem header_prefix_spec (k pat : Str) (inv : Bool) (md : MD) :
    (HeaderMatcher.prefix k pat inv).match md = true ↔ HeaderSem md k inv (pat <+: ·) := by
  simp only [HeaderMatcher.match]
  rw [match_eq_withInvert md k inv (pat.isPrefixOf ·)]
  exact withInvert_iff md k inv _ _ (fun v => List.isPrefixOf_iff_prefix)

/-- suffix. -/
theorem header_suffix_spec (k pat : Str) (inv : Bool) (md : MD) :
    (HeaderMatcher.suffix k pat inv).match md = true ↔ HeaderSem md k inv (pat <:+ ·) := by
  simp only [HeaderMatcher.match]
  rw [match_eq_withInvert md k inv (pat.isSuffixOf ·)]
  exact withInvert_iff md k inv _ _ (fun v => List.isSuffixOf_iff_suffix)

/-- contains: the pattern occurs as a contiguous substring of the joined value. -/
theorem header_contains_spec (k pat : Str) (inv : Bool) (md : MD) :
    (HeaderMatcher.contains k pat inv).match md = true ↔ HeaderSem md k inv (pat <:+: ·) := by
  simp only [HeaderMatcher.match]
  rw [match_eq_withInvert md k inv (hasInfix pat ·)]
  exact withInvert_iff md k inv _ _ (fun v => hasInfix_iff pat v)

/-- regex: the WHOLE joined value is in the language of the regex (opaque predicate `Re.matches`). -/
theorem header_regex_spec (k : Str) (re : Re) (inv : Bool) (md : MD) :
    (HeaderMatcher.regex k re inv).match md = true ↔ HeaderSem md k inv (re.matches · = true) := by
  simp only [HeaderMatcher.match]
  rw [match_eq_withInvert md k inv re.matches]
  exact withInvert_iff md k inv _ _ (fun v => Iff.rfl)

/-- range: the joined value is the base-10 notation of an integer n with start ≤ n < end (bounds are int64 in Go,
    which is what makes `ParseInt`'s range error unobservable). -/
theorem header_range_spec (k : Str) (start stop : Int) (inv : Bool) (md : MD)
    (hs : -9223372036854775808 ≤ start) (he : stop ≤ 9223372036854775807) :
    (HeaderMatcher.range k start stop inv).match md = true ↔
      HeaderSem md k inv (fun v => ∃ n : Int, Decimal v n ∧ start ≤ n ∧ n < stop) := by
  simp only [HeaderMatcher.match, range_branch _ start stop inv hs he]
  rw [match_eq_withInvert md k inv (Spec.inRange · start stop)]
  exact withInvert_iff md k inv _ _ (fun v => inRange_iff v start stop)

/-- string_match: the string matcher's meaning (`SMSem`) on the joined value, xor invert. -/
theorem header_string_spec (k : Str) (kind : SMKind) (pat : Str) (ic inv : Bool) (md : MD) (hk : kind ≠ .regex) :
    (HeaderMatcher.string k (newSM kind pat ic) inv).match md = true ↔ HeaderSem md k inv (SMSem kind pat .eps ic) := by
  simp only [HeaderMatcher.match]
  rw [match_eq_withInvert md k inv (newSM kind pat ic).match]
  exact withInvert_iff md k inv _ _ (fun v => string_matcher_sem kind pat ic v hk)

/-- present_match compares presence: the matcher answers whether "the key is in the header map" equals the
    configured expectation (invert flips it) — for EVERY header map, including a header present with an empty value
    (the code treated that one as absent until fix 8ad6d37; the counterexample theorem that used to stand here is
    gone with the defect). -/
theorem present_match_spec (md : MD) (k : Str) (p inv : Bool) :
    (newPresent k p inv).match md = Spec.present md k p inv := by
  unfold newPresent HeaderMatcher.match Spec.present onValue
  unfold valueFromMD
  cases hl : lookupMD md k with
  | none => cases p <;> cases inv <;> simp [hl]
  | some vs => cases p <;> cases inv <;> simp [hl]

example : (newPresent [120] true false).match [([120], [[]])] = true := by decide

/-! ### the vocabulary is what it says -/

/-- The spec's integer notation: optional sign, ≥ 1 ASCII digits, positional base-10 value. -/
theorem decimal_spec (v : Str) (n : Int) : Spec.decimal v = some n ↔ Decimal v n := decimal_iff v n

/-- byte equality up to ASCII case, and that both `ToLower`- and `ToUpper`-style folds decide it. -/
theorem caseEq_spec (x y : Nat) :
    (Spec.caseEqB x y = true ↔ CaseEq x y) ∧ (lowerB x = lowerB y ↔ CaseEq x y) ∧ (upperB x = upperB y ↔ CaseEq x y) := by
  refine ⟨caseEqB_iff x y, ?_, ?_⟩
  · rw [← caseEqB_iff, ← lower_beq]; simp
  · rw [← caseEqB_iff, ← upper_beq]; simp

theorem eqFold_spec (a b : Str) : Spec.eqFold a b = true ↔ FoldEq a b := eqFold_iff a b
theorem prefixFold_spec (pat s : Str) : Spec.prefixFold pat s = true ↔ ∃ p r, s = p ++ r ∧ FoldEq p pat :=
  prefixFold_iff pat s
theorem suffixFold_spec (pat s : Str) : Spec.suffixFold pat s = true ↔ ∃ r p, s = r ++ p ∧ FoldEq p pat :=
  suffixFold_iff pat s
theorem infixFold_spec (pat s : Str) : Spec.infixFold pat s = true ↔ ∃ a p b, s = a ++ p ++ b ∧ FoldEq p pat :=
  infixFold_iff pat s

/-! ### string matchers -/

/-- The ported `StringMatcher` (pattern lower-cased at construction, input lower-cased at match) computes the
    executable specification the monitor uses, for every byte string. -/
theorem string_matcher_spec (kind : SMKind) (pat : Str) (ic : Bool) (input : Str) (hk : kind ≠ .regex) :
    (newSM kind pat ic).match input = Spec.sm kind pat .eps ic input :=
  string_matcher_eq_spec kind pat ic input hk

/-- Without ignore_case: equality, prefix, suffix, substring on the raw bytes. -/
theorem string_matcher_case_sensitive (pat input : Str) :
    ((newSM .exact pat false).match input = true ↔ input = pat) ∧
    ((newSM .prefix pat false).match input = true ↔ pat <+: input) ∧
    ((newSM .suffix pat false).match input = true ↔ pat <:+ input) ∧
    ((newSM .contains pat false).match input = true ↔ pat <:+: input) := by
  refine ⟨?_, ?_, ?_, ?_⟩
  · exact string_matcher_sem .exact pat false input (by decide)
  · exact string_matcher_sem .prefix pat false input (by decide)
  · exact string_matcher_sem .suffix pat false input (by decide)
  · exact string_matcher_sem .contains pat false input (by decide)

/-- With ignore_case the comparison is ASCII case-insensitive: the input (resp. a prefix, a suffix, a substring of
    it) is position-wise equal to the pattern up to the case of ASCII letters — and nothing else is folded. -/
theorem ignore_case_is_ascii_fold (pat input : Str) :
    ((newSM .exact pat true).match input = true ↔ FoldEq input pat) ∧
    ((newSM .prefix pat true).match input = true ↔ ∃ p r, input = p ++ r ∧ FoldEq p pat) ∧
    ((newSM .suffix pat true).match input = true ↔ ∃ r p, input = r ++ p ∧ FoldEq p pat) ∧
    ((newSM .contains pat true).match input = true ↔ ∃ a p b, input = a ++ p ++ b ∧ FoldEq p pat) := by
  refine ⟨?_, ?_, ?_, ?_⟩
  · exact string_matcher_sem .exact pat true input (by decide)
  · exact string_matcher_sem .prefix pat true input (by decide)
  · exact string_matcher_sem .suffix pat true input (by decide)
  · exact string_matcher_sem .contains pat true input (by decide)

/-- `StringMatcherFromProto`: rejects exactly an empty prefix/suffix/contains pattern and an invalid regex; what it
    accepts computes the specification (for a regex, ignore_case has no effect). -/
theorem from_proto_spec (kind : SMKind) (pat : Str) (re : Re) (ic : Bool) :
    (smFromProto kind pat re ic = none ↔
      ((kind = .prefix ∨ kind = .suffix ∨ kind = .contains) ∧ pat = []) ∨ (kind = .regex ∧ re.valid = false)) ∧
    (∀ sm, smFromProto kind pat re ic = some sm → ∀ input, sm.match input = Spec.sm kind pat re ic input) := by
  constructor
  · cases kind <;> simp [smFromProto]
  · intro sm h input
    cases kind <;> simp only [smFromProto] at h
    · cases h; exact string_matcher_eq_spec .exact pat ic input (by decide)
    · split at h
      · cases h
      · cases h; exact string_matcher_eq_spec .prefix pat ic input (by decide)
    · split at h
      · cases h
      · cases h; exact string_matcher_eq_spec .suffix pat ic input (by decide)
    · split at h
      · cases h
      · cases h; exact string_matcher_eq_spec .contains pat ic input (by decide)
    · split at h
      · cases h; rfl
      · cases h

/-! ### path matchers -/

/-- exact path: equal, or with case_insensitive equal up to ASCII case. -/
theorem path_exact_spec (p path : Str) (ci : Bool) :
    ((newPathExact p ci).match path = Spec.pathExact p ci path) ∧
    ((newPathExact p ci).match path = true ↔ if ci = true then FoldEq path p else path = p) := by
  have h : (newPathExact p ci).match path = Spec.pathExact p ci path := by
    cases ci
    · simp only [newPathExact, PathMatcher.match, Spec.pathExact, Bool.false_eq_true, if_false]
      rw [Bool.eq_iff_iff]; simp only [beq_iff_eq]; exact eq_comm
    · simp only [newPathExact, PathMatcher.match, Spec.pathExact, if_true, asciiUpper]
      rw [map_beq_eq_eqFold upperB upper_beq, Bool.eq_iff_iff, eqFold_iff, eqFold_iff]
      exact ⟨foldEq_symm, foldEq_symm⟩
  refine ⟨h, ?_⟩
  rw [h]
  cases ci <;> simp [Spec.pathExact, eqFold_iff]

/-- path prefix: the configured prefix is a prefix of the path, with case_insensitive up to ASCII case. -/
theorem path_prefix_spec (p path : Str) (ci : Bool) :
    ((newPathPrefix p ci).match path = Spec.pathPrefix p ci path) ∧
    ((newPathPrefix p ci).match path = true ↔
      if ci = true then ∃ q r, path = q ++ r ∧ FoldEq q p else p <+: path) := by
  have h : (newPathPrefix p ci).match path = Spec.pathPrefix p ci path := by
    cases ci
    · simp [newPathPrefix, PathMatcher.match, Spec.pathPrefix]
    · simp only [newPathPrefix, PathMatcher.match, Spec.pathPrefix, if_true, asciiUpper]
      exact map_isPrefixOf_eq_prefixFold upperB upper_beq p path
  refine ⟨h, ?_⟩
  rw [h]
  cases ci <;> simp [Spec.pathPrefix, prefixFold_iff]

/-- "regex (full-string)": the reference matcher used for every regex matcher (header, string, path) accepts a
    subject iff the WHOLE subject is a word of the regex's language `Lang` (the inductive textbook semantics:
    literal, `.` = any byte but newline, class range, concatenation, alternation, star) — not a substring search.
    In the implementation this is what `CompileSafeRegex`'s `^(?:…)$` wrapping buys; the correspondence run
    compares the two on every regex op. -/
theorem regex_full_string (r : Re) (s : Str) : r.matches s = true ↔ Lang r s := matches_iff s r

/-- regex path: the whole path is in the regex's language. -/
theorem path_regex_spec (re : Re) (path : Str) : (PathMatcher.regex re).match path = re.matches path := rfl

/-! ### model = monitor specification for the header matchers -/

/-- The ported header matchers compute `Spec.withInvert` of the specified predicate (what the monitor evaluates on
    the implementation's answers). -/
theorem model_header_eq_spec (k pat : Str) (inv : Bool) (md : MD) :
    (HeaderMatcher.exact k pat inv).match md = Spec.withInvert md k inv (· == pat) ∧
    (HeaderMatcher.prefix k pat inv).match md = Spec.withInvert md k inv (pat.isPrefixOf ·) ∧
    (HeaderMatcher.suffix k pat inv).match md = Spec.withInvert md k inv (pat.isSuffixOf ·) ∧
    (HeaderMatcher.contains k pat inv).match md = Spec.withInvert md k inv (hasInfix pat ·) ∧
    (∀ re, (HeaderMatcher.regex k re inv).match md = Spec.withInvert md k inv re.matches) ∧
    (∀ start stop, -9223372036854775808 ≤ start → stop ≤ 9223372036854775807 →
      (HeaderMatcher.range k start stop inv).match md = Spec.withInvert md k inv (Spec.inRange · start stop)) ∧
    (∀ kind ic, kind ≠ .regex →
      (HeaderMatcher.string k (newSM kind pat ic) inv).match md = Spec.withInvert md k inv (Spec.sm kind pat .eps ic)) := by
  refine ⟨?_, ?_, ?_, ?_, ?_, ?_, ?_⟩
  · simp only [HeaderMatcher.match]; exact match_eq_withInvert md k inv (· == pat)
  · simp only [HeaderMatcher.match]; exact match_eq_withInvert md k inv (pat.isPrefixOf ·)
  · simp only [HeaderMatcher.match]; exact match_eq_withInvert md k inv (pat.isSuffixOf ·)
  · simp only [HeaderMatcher.match]; exact match_eq_withInvert md k inv (hasInfix pat ·)
  · intro re; simp only [HeaderMatcher.match]; exact match_eq_withInvert md k inv re.matches
  · intro start stop hs he
    simp only [HeaderMatcher.match, range_branch _ start stop inv hs he]
    exact match_eq_withInvert md k inv (Spec.inRange · start stop)
  · intro kind ic hk
    simp only [HeaderMatcher.match]
    rw [match_eq_withInvert md k inv (newSM kind pat ic).match]
    congr 1; funext v; exact string_matcher_eq_spec kind pat ic v hk

-- non-vacuity: both sides of the characterisations are inhabited, and the boundary bytes are not folded
example : (newSM .exact [75, 101] true).match [107, 69] = true := by decide                 -- "Ke" ~ "kE"
example : (newSM .exact [64] true).match [96] = false := by decide                          -- '@' vs '`'
example : (newSM .exact [91] true).match [123] = false := by decide                         -- '[' vs '{'
example : (newSM .exact [107] true).match [226, 132, 170] = false := by decide              -- "k" vs U+212A: not ASCII-equal
example : (newSM .contains [66] true).match [97, 98, 99] = true := by decide
example : (HeaderMatcher.range [120] 5 6 false).match [([120], [[43, 53]])] = true := by decide   -- "+5" ∈ [5,6)
example : (HeaderMatcher.range [120] 5 6 false).match [([120], [[53], [53]])] = false := by decide -- "5,5"
example : (HeaderMatcher.exact [120] [97, 44, 98] false).match [([120], [[97], [98]])] = true := by decide
example : (HeaderMatcher.exact [120] [97] true).match [] = false := by decide
example : (newPresent [120] true true).match [] = true := by decide
example : (Re.seq (.char 97) (.star .dot)).matches [97, 98, 99] = true := by decide
example : (Re.char 97).matches [98, 97] = false := by decide                                -- full-string, not search

end GrpcProofs.C47
