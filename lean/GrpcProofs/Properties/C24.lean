/-
C24  Every RPC error is a status with a legal code.
Property theorems only (direct structural proofs; no helper lemma file is needed).
-/
import GrpcModel.Model.Errors
namespace GrpcProofs.C24
open GrpcModel.Errors GrpcModel.Generated

/-- `toRPCErr` always yields nil, io.EOF, or an error that carries a gRPC status — for every error
    value, however deeply NewStreamError / ConnectionError / %w wrappers are nested. -/
theorem toRPCErr_is_status_or_nil_or_eof (e : GoErr) :
    toRPCErr e = .nil ∨ toRPCErr e = .eof ∨ carriesStatus (toRPCErr e) = true := by
  induction e with
  | newStreamErr e ih => simpa [toRPCErr] using ih
  | wrapped e _ =>
    simp only [toRPCErr]
    split
    · rename_i h; exact Or.inr (Or.inr h)
    · exact Or.inr (Or.inr rfl)
  | nil => exact Or.inl rfl
  | eof => exact Or.inr (Or.inl rfl)
  | _ => exact Or.inr (Or.inr rfl)

/-- nil comes out only for nil (possibly inside NewStreamError wrappers). -/
theorem toRPCErr_nil_iff (e : GoErr) : toRPCErr e = .nil ↔ stripNSE e = .nil := by
  induction e with
  | newStreamErr e ih => simpa [toRPCErr, stripNSE] using ih
  | wrapped e _ => simp only [toRPCErr, stripNSE]; split <;> simp
  | _ => simp [toRPCErr, stripNSE]

/-- io.EOF comes out only for io.EOF itself (compared by identity; a wrapped EOF becomes UNKNOWN). -/
theorem toRPCErr_eof_iff (e : GoErr) : toRPCErr e = .eof ↔ stripNSE e = .eof := by
  induction e with
  | newStreamErr e ih => simpa [toRPCErr, stripNSE] using ih
  | wrapped e _ => simp only [toRPCErr, stripNSE]; split <;> simp
  | _ => simp [toRPCErr, stripNSE]

/-- Converting twice changes nothing (errors are converted at several layers). -/
theorem toRPCErr_idempotent (e : GoErr) : toRPCErr (toRPCErr e) = toRPCErr e := by
  induction e with
  | newStreamErr e ih => simpa [toRPCErr] using ih
  | wrapped e _ =>
    simp only [toRPCErr]
    split
    · rename_i h; simp [toRPCErr, h]
    · rfl
  | _ => rfl

/-- The restricted set is exactly INVALID_ARGUMENT(3), NOT_FOUND(5), ALREADY_EXISTS(6),
    FAILED_PRECONDITION(9), ABORTED(10), OUT_OF_RANGE(11), DATA_LOSS(15) — for every code value. -/
theorem restricted_table (c : Nat) : restricted c = true ↔ c ∈ [3, 5, 6, 9, 10, 11, 15] := by
  simp only [restricted, codeInvalidArgument, codeNotFound, codeAlreadyExists, codeFailedPrecondition, codeAborted,
    codeOutOfRange, codeDataLoss, Bool.or_eq_true, beq_iff_eq, List.mem_cons, List.not_mem_nil, or_false]
  omega

/-- T4 pin: the source of `IsRestrictedControlPlaneCode` is the text the table above was read from. -/
theorem restricted_source_pinned : errRestrictedSrc =
    "func IsRestrictedControlPlaneCode(s *Status) bool { switch s.Code() { case codes.InvalidArgument, codes.NotFound, codes.AlreadyExists, codes.FailedPrecondition, codes.Aborted, codes.OutOfRange, codes.DataLoss: return true } return false }" := rfl

/-- A status error with a restricted code coming from a picker, a config selector or per-RPC
    credentials (either site) is surfaced as INTERNAL(13); this holds for every error value that
    carries such a status (wrapped ones included) and both failfast settings. -/
theorem restricted_becomes_internal (e : GoErr) (c : Nat) (ff : Bool) (site : CredsSite)
    (hs : fromError e = some c) (hc : c ∈ [3, 5, 6, 9, 10, 11, 15]) :
    pickErr e ff = .fail (.status 13) ∧ configSelectorErr e = .status 13 ∧ credsErr site e = .status 13 := by
  have hr : restricted c = true := (restricted_table c).mpr hc
  have hn : e ≠ .noSubConn := by intro h; subst h; simp [fromError, findStatus] at hs
  have ha : a54 e = some (.status 13) := by simp [a54, hs, hr, codeInternal]
  refine ⟨?_, ?_, ?_⟩
  · simp [pickErr, hn, ha]
  · simp [configSelectorErr, ha]
  · simp [credsErr, ha, toRPCErr]

/-- An error that carries a status still carries one after `toRPCErr` (the code may change:
    a ConnectionError wrapping a status becomes UNAVAILABLE). -/
theorem status_kept (e : GoErr) (c : Nat) (h : fromError e = some c) : carriesStatus (toRPCErr e) = true := by
  cases e with
  | status c' => rfl
  | connErr inner => rfl
  | wrapped e' =>
    have hc : carriesStatus (.wrapped e') = true := by simp [carriesStatus, h]
    simp [toRPCErr, hc]
  | _ => simp [fromError, findStatus] at h

/-- Every error the three filters hand on carries a status: a status error with another code keeps a
    status, and a non-status error becomes UNAVAILABLE (picker, failfast), UNAUTHENTICATED (transport
    credentials) or INTERNAL (call credentials). -/
theorem filters_yield_status (e : GoErr) (ff : Bool) (site : CredsSite) :
    (∀ r, pickErr e ff = .fail r → carriesStatus r = true) ∧ carriesStatus (credsErr site e) = true := by
  constructor
  · intro r h
    unfold pickErr at h
    split at h
    · cases h
    · unfold a54 at h
      cases hf : fromError e with
      | none =>
        rw [hf] at h
        cases ff <;> simp at h
        subst h; rfl
      | some c =>
        rw [hf] at h
        simp only [PickOutcome.fail.injEq] at h
        subst h
        split
        · rfl
        · simp [carriesStatus, hf]
  · unfold credsErr a54
    cases hf : fromError e with
    | none => cases site <;> rfl
    | some c =>
      simp only
      split
      · rfl
      · simp only [toRPCErr]
        exact status_kept e c hf

/-- What `pick` does with a picker error: wait for another picker exactly for ErrNoSubConnAvailable
    and for non-status errors of wait-for-ready RPCs; a non-status error of a failfast RPC is UNAVAILABLE(14). -/
theorem picker_error_outcome (e : GoErr) (ff : Bool) :
    (pickErr e ff = .again ↔ e = .noSubConn ∨ (fromError e = none ∧ ff = false)) ∧
    (e ≠ .noSubConn → fromError e = none → ff = true → pickErr e ff = .fail (.status 14)) := by
  constructor
  · unfold pickErr a54
    by_cases hn : e = .noSubConn
    · simp [hn]
    · cases hf : fromError e <;> cases ff <;> simp [hn]
  · intro hn hf hff
    simp [pickErr, a54, hn, hf, hff, codeUnavailable]

/-- Every error a config selector returns surfaces from Invoke/NewStream as a status — io.EOF
    included (before /repo commit 2bdf416 io.EOF leaked unchanged: finding F24, then documented by
    `config_selector_eof_counterexample` and a `_partial` version of this theorem). The hypothesis
    excludes only a `*NewStreamError` whose `Err` is nil, which `toRPCErr` maps to nil. -/
theorem config_selector_error_is_status (e : GoErr) (h1 : stripNSE e ≠ .nil) :
    carriesStatus (configSelectorErr e) = true := by
  unfold configSelectorErr a54
  cases hf : fromError e with
  | none =>
    simp only
    split
    · rfl
    · rename_i hne
      rcases toRPCErr_is_status_or_nil_or_eof e with h | h | h
      · exact absurd ((toRPCErr_nil_iff e).mp h) h1
      · exact absurd h hne
      · exact h
  | some c =>
    simp only
    split
    · rfl
    · simp [carriesStatus, hf]

/-- F31: when the attempt limit is hit on the SendMsg path, `shouldRetry` wraps the attempt's io.EOF in a
    plain error: SendMsg then returns an error that is neither io.EOF nor a status — "every non-nil error
    returned by SendMsg (other than io.EOF) carries a status" is false of the code. -/
theorem retry_exhausted_sendmsg_counterexample :
    ¬ ∀ e : GoErr, retryExhausted e = .eof ∨ carriesStatus (retryExhausted e) = true := by
  intro h
  have := h .eof
  simp [retryExhausted, carriesStatus, fromError, findStatus] at this

/-- Partial (full statement refuted above): when the wrapped attempt error carries a status (the
    RecvMsg / finish path), the "max retries exhausted" error still carries that status (errors.As). -/
theorem retry_exhausted_keeps_status_partial (e : GoErr) (c : Nat) (h : fromError e = some c) :
    fromError (retryExhausted e) = some c := by
  simpa [retryExhausted, fromError, findStatus] using h

/-- When the deadline expires or the application cancels during the retry backoff sleep, the error
    `shouldRetry` returns — which RecvMsg / SendMsg / Invoke hand to the application unconverted — is a
    status: DEADLINE_EXCEEDED(4) resp. CANCELED(1). -/
theorem retry_backoff_ctx_done_is_status :
    retryBackoffCtxDone .ctxDeadline = .status 4 ∧ retryBackoffCtxDone .ctxCanceled = .status 1 ∧
    (∀ e, e ≠ .nil → carriesStatus (retryBackoffCtxDone e) = true) := by
  refine ⟨rfl, rfl, ?_⟩
  intro e he
  cases e <;> first | exact absurd rfl he | rfl

/-- Per-RPC credential errors always reach the application as a status (both sites). -/
theorem creds_error_is_status (site : CredsSite) (e : GoErr) : carriesStatus (credsErr site e) = true :=
  (filters_yield_status e true site).2

-- non-vacuity
example : toRPCErr (.newStreamErr (.newStreamErr .ctxCanceled)) = .status 1 := by decide
example : toRPCErr (.wrapped (.status 5)) = .wrapped (.status 5) := by decide
example : toRPCErr (.wrapped .ctxCanceled) = .status 2 := by decide
example : pickErr (.wrapped (.status 5)) false = .fail (.status 13) := by decide
example : pickErr (.status 7) true = .fail (.status 7) := by decide
example : credsErr .transportCreds .other = .status 16 := by decide
example : credsErr .callCreds (.connErr (.status 7)) = .status 14 := by decide
example : configSelectorErr (.newStreamErr .eof) = .status 2 := by decide
example : configSelectorErr (.wrapped (.status 9)) = .status 13 := by decide

end GrpcProofs.C24
