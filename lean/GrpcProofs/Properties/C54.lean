/-
C54  Health Watch streams converge to the latest status.

Model: GrpcModel/Model/Health.lean (critical sections of health.Server are rules; the Watch loop of
every stream is split into recv / sendOk / leave, so any number of arbitrarily slow streams
interleave with SetServingStatus / Shutdown / Resume).  Invariant: GrpcProofs/Lemmas/Health.lean.
`ReachV` = reachable by schedules whose SetServingStatus arguments are enum values (>= 0): the code
uses -1 as the "nothing sent yet" sentinel of lastSentStatus.
-/
import GrpcProofs.Lemmas.Health
namespace GrpcProofs.C54
open GrpcModel.Health GrpcProofs.Lemmas.Health

/-- Watch puts the service's current status — SERVICE_UNKNOWN (3) if it is not registered — into the
    new stream's channel, under the lock. -/
theorem watch_puts_current {s t : St} (svc : Nat) (st : apply s (.watch svc) = some t) :
    (t.w s.nw).slot = some (match s.statusMap svc with | some v => v | none => 3) ∧
    (t.w s.nw).alive = true ∧ (t.w s.nw).log = [] ∧ (t.w s.nw).sending = none ∧ t.nw = s.nw + 1 := by
  simp only [apply] at st; simp at st; subst st
  cases h : s.statusMap svc <;> simp [setW, cur, h, SERVICE_UNKNOWN]

/-- Whatever a stream takes out of its channel is the service's status (or SERVICE_UNKNOWN) at that
    very moment — later SetServingStatus calls have replaced older values in the slot. -/
theorem taken_is_current {s t : St} (h : ReachV s) (i : Nat) (st : apply s (.recv i) = some t) (v : Int)
    (hv : (s.w i).slot = some v) : v = cur s (s.w i).svc := by
  simp only [apply] at st
  split at st
  · rename_i hg; exact ((reach_inv h).wok i hg.1).slotCur hg.2.1 v hv
  · simp at st

/-- The first message of a stream is the service's current status (SERVICE_UNKNOWN if unregistered):
    a stream that has sent nothing yet never skips, and what it starts to send is the status current
    at that moment. -/
theorem first_is_current_or_unknown {s t : St} (h : ReachV s) (i : Nat) (st : apply s (.recv i) = some t)
    (hfirst : out (s.w i) = []) :
    (t.w i).sending = some (cur s (s.w i).svc) ∧ (t.w i).log = [] := by
  have inv := reach_inv h
  simp only [apply] at st
  split at st
  · rename_i hg
    obtain ⟨c1, c2, c3, c4, c5, c6, c7, c8⟩ := inv.wok i hg.1
    have hl := c4 hg.2.1 hfirst
    have hlog : (s.w i).log = [] := by
      have := hfirst; simp only [out] at this; exact (List.append_eq_nil_iff.mp this).1
    split at st
    · simp at st
    · rename_i v hv
      have hc := c6 hg.2.1 v hv
      have hn := cur_nonneg inv.nnMap (s.w i).svc
      split at st <;> simp at st <;> subst st
      · omega
      · simp [setW, hc, hlog]
  · simp at st

/-- A stream never delivers the same status twice in a row (delivered messages and the one in
    flight). -/
theorem no_consecutive_duplicates {s : St} (h : ReachV s) (i : Nat) (hi : i < s.nw) :
    noDup2 (out (s.w i)) ∧ noDup2 (s.w i).log := by
  have c := ((reach_inv h).wok i hi).chain
  refine ⟨c, ?_⟩
  cases hs : (s.w i).sending with
  | none => simpa [out, hs] using c
  | some v => exact noDup2_prefix _ v (by simpa [out, hs] using c)

/-- `hist` really is the sequence of statuses the service had since the stream registered: it
    starts with the status at registration, every step either leaves it alone or appends the new
    current status, and it is appended to whenever the current status changes. -/
theorem hist_is_status_history {s t : St} (h : ReachV s) (r : Rule) (st : apply s r = some t) (i : Nat)
    (hi : i < s.nw) (ha : (t.w i).alive = true) :
    ((t.w i).hist = (s.w i).hist ∧ cur t (t.w i).svc = cur s (s.w i).svc) ∨
    (t.w i).hist = (s.w i).hist ++ [cur t (t.w i).svc] := by
  have inv := reach_inv h
  cases r with
  | set svc v =>
    simp only [apply] at st
    split at st <;> simp at st <;> subst st
    · left; exact ⟨rfl, rfl⟩
    · simp only at ha ⊢
      by_cases hc : (s.w i).alive = true ∧ (s.w i).svc = svc
      · right; simp [hc, put, cur]
      · left
        simp only [hc, if_false] at ha ⊢
        have : (s.w i).svc ≠ svc := fun e => hc ⟨ha, e⟩
        simp [cur, this]
  | shutdown =>
    simp only [apply] at st; simp at st; subst st
    simp only [setAll] at ha ⊢
    by_cases hc : (s.w i).alive = true ∧ (s.statusMap (s.w i).svc).isSome = true
    · right
      obtain ⟨u, hu⟩ := Option.isSome_iff_exists.mp hc.2
      simp [hc, put, cur, hu]
    · left
      simp only [hc, if_false] at ha ⊢
      have : s.statusMap (s.w i).svc = none := by
        cases hm : s.statusMap (s.w i).svc with
        | none => rfl
        | some u => exact absurd ⟨ha, by simp [hm]⟩ hc
      simp [cur, this]
  | resume =>
    simp only [apply] at st; simp at st; subst st
    simp only [setAll] at ha ⊢
    by_cases hc : (s.w i).alive = true ∧ (s.statusMap (s.w i).svc).isSome = true
    · right
      obtain ⟨u, hu⟩ := Option.isSome_iff_exists.mp hc.2
      simp [hc, put, cur, hu]
    · left
      simp only [hc, if_false] at ha ⊢
      have : s.statusMap (s.w i).svc = none := by
        cases hm : s.statusMap (s.w i).svc with
        | none => rfl
        | some u => exact absurd ⟨ha, by simp [hm]⟩ hc
      simp [cur, this]
  | watch svc =>
    simp only [apply] at st; simp at st; subst st
    left; simp [setW, Nat.ne_of_lt hi, cur]
  | recv j =>
    left
    simp only [apply] at st
    split at st
    · split at st
      · simp at st
      · split at st <;> simp at st <;> subst st <;> by_cases e : i = j <;> simp [setW, e, cur]
    · simp at st
  | sendOk j =>
    left
    simp only [apply] at st
    split at st
    · split at st <;> simp at st; subst st; by_cases e : i = j <;> simp [setW, e, cur]
    · simp at st
  | leave j =>
    left
    simp only [apply] at st
    split at st <;> simp at st; subst st; by_cases e : i = j <;> simp [setW, e, cur]

/-- A stream only sends statuses the service actually had, and in the order it had them: what the
    stream delivered (plus what is in flight, plus what waits in the channel) is a subsequence of
    the service's status history since the stream registered. -/
theorem only_statuses_the_service_had {s : St} (h : ReachV s) (i : Nat) (hi : i < s.nw) :
    (out (s.w i) ++ (s.w i).slot.toList).Sublist (s.w i).hist ∧ (s.w i).log.Sublist (s.w i).hist ∧
    (∀ v ∈ (s.w i).log, v ∈ (s.w i).hist) := by
  have c := ((reach_inv h).wok i hi).sub
  have hl : (s.w i).log.Sublist (s.w i).hist := by
    refine List.Sublist.trans ?_ c
    simp only [out, List.append_assoc]
    exact List.sublist_append_left _ _
  exact ⟨c, hl, fun v hv => hl.subset hv⟩

/-- the newest status a live stream knows of: waiting in the channel, else being sent, else the
    last one delivered -/
def newest (x : Watcher) : Option Int :=
  match x.slot with
  | some v => some v
  | none => (out x).getLast?

/-- After the last status change the stream eventually reports that status: at every moment the
    newest status in a live stream's pipeline IS the service's current status; nothing in the
    pipeline can get stuck (a waiting value can be taken when no Send is in progress, a Send in
    progress can complete); and a stream with nothing left to do has delivered the current status
    as its last message. -/
theorem eventually_latest {s : St} (h : ReachV s) (i : Nat) (hi : i < s.nw) (ha : (s.w i).alive = true) :
    newest (s.w i) = some (cur s (s.w i).svc) ∧
    ((s.w i).slot ≠ none → (s.w i).sending = none → (apply s (.recv i)).isSome) ∧
    ((s.w i).sending ≠ none → (apply s (.sendOk i)).isSome) ∧
    ((s.w i).slot = none → (s.w i).sending = none → (s.w i).log.getLast? = some (cur s (s.w i).svc)) := by
  have inv := reach_inv h
  obtain ⟨c1, c2, c3, c4, c5, c6, c7, c8⟩ := inv.wok i hi
  have hn := cur_nonneg inv.nnMap (s.w i).svc
  have key : (s.w i).slot = none → (out (s.w i)).getLast? = some (cur s (s.w i).svc) := by
    intro hs
    have hl := c7 ha hs
    cases ho : (out (s.w i)).getLast? with
    | none =>
      have := c4 ha (List.getLast?_eq_none_iff.mp ho)
      omega
    | some u => rw [← c5 ha u ho, hl]
  refine ⟨?_, ?_, ?_, ?_⟩
  · unfold newest
    cases hs : (s.w i).slot with
    | some v => simp [c6 ha v hs]
    | none => simpa using key hs
  · intro h1 h2
    simp only [apply]
    rw [if_pos ⟨hi, ha, h2⟩]
    cases hs : (s.w i).slot with
    | none => exact absurd hs h1
    | some v => simp only []; split <;> rfl
  · intro h1
    simp only [apply]
    rw [if_pos ⟨hi, ha⟩]
    cases hs : (s.w i).sending with
    | none => exact absurd hs h1
    | some v => rfl
  · intro h1 h2
    have := key h1
    simpa [out, h2] using this

/-- Check returns the latest status: NewServer registers "" as SERVING; an accepted
    SetServingStatus makes exactly that service report the new value; nothing a stream does changes
    any answer. -/
theorem check_is_latest :
    (check init 0 = some SERVING ∧ ∀ k, k ≠ 0 → check init k = none) ∧
    (∀ s t svc v, apply s (.set svc v) = some t → s.shutdown = false →
        check t svc = some v ∧ ∀ k, k ≠ svc → check t k = check s k) ∧
    (∀ s t r, apply s r = some t → (∀ svc v, r ≠ .set svc v) → r ≠ .shutdown → r ≠ .resume →
        ∀ k, check t k = check s k) := by
  refine ⟨⟨by simp [check, init], fun k hk => by simp [check, init, hk]⟩, ?_, ?_⟩
  · intro s t svc v st hs
    simp only [apply, hs] at st; simp at st; subst st
    exact ⟨by simp [check], fun k hk => by simp [check, hk]⟩
  · intro s t r st h1 h2 h3 k
    cases r with
    | set svc v => exact absurd rfl (h1 svc v)
    | shutdown => exact absurd rfl h2
    | resume => exact absurd rfl h3
    | watch svc => simp only [apply] at st; simp at st; subst st; rfl
    | recv j =>
      simp only [apply] at st
      split at st
      · split at st
        · simp at st
        · split at st <;> simp at st <;> subst st <;> rfl
      · simp at st
    | sendOk j =>
      simp only [apply] at st
      split at st
      · split at st <;> simp at st; subst st; rfl
      · simp at st
    | leave j => simp only [apply] at st; split at st <;> simp at st; subst st; rfl

/-- Between Shutdown and Resume every registered service reports NOT_SERVING — to Check and, by
    `eventually_latest`, to every stream — and status changes are ignored; only Resume ends this,
    and it makes every registered service SERVING. -/
theorem shutdown_masks_until_resume {s : St} (h : ReachV s) :
    (∀ t, apply s .shutdown = some t → t.shutdown = true) ∧
    (s.shutdown = true →
      (∀ k v, check s k = some v → v = NOT_SERVING) ∧
      (∀ svc v t, apply s (.set svc v) = some t → t = s) ∧
      (∀ i, i < s.nw → (s.w i).alive = true → (s.statusMap (s.w i).svc).isSome →
          newest (s.w i) = some NOT_SERVING) ∧
      (∀ r t, apply s r = some t → r ≠ .resume → t.shutdown = true)) ∧
    (∀ t, apply s .resume = some t → t.shutdown = false ∧
      ∀ k, (check s k).isSome → check t k = some SERVING) := by
  have inv := reach_inv h
  refine ⟨?_, ?_, ?_⟩
  · intro t st; simp only [apply] at st; simp at st; subst st; rfl
  · intro hd
    refine ⟨fun k v hk => inv.down hd k v hk, ?_, ?_, ?_⟩
    · intro svc v t st; simp only [apply, hd] at st; simp at st; exact st.symm
    · intro i hi ha hreg
      have := (eventually_latest h i hi ha).1
      obtain ⟨u, hu⟩ := Option.isSome_iff_exists.mp hreg
      rw [this]; simp [cur, hu, inv.down hd _ u hu]
    · intro r t st hr
      cases r with
      | set svc v => simp only [apply, hd] at st; simp at st; subst st; exact hd
      | shutdown => simp only [apply] at st; simp at st; subst st; rfl
      | resume => exact absurd rfl hr
      | watch svc => simp only [apply] at st; simp at st; subst st; exact hd
      | recv j =>
        simp only [apply] at st
        split at st
        · split at st
          · simp at st
          · split at st <;> simp at st <;> subst st <;> exact hd
        · simp at st
      | sendOk j =>
        simp only [apply] at st
        split at st
        · split at st <;> simp at st; subst st; exact hd
        · simp at st
      | leave j => simp only [apply] at st; split at st <;> simp at st; subst st; exact hd
  · intro t st
    simp only [apply] at st; simp at st; subst st
    refine ⟨rfl, ?_⟩
    intro k hk
    obtain ⟨u, hu⟩ := Option.isSome_iff_exists.mp hk
    simp [check, setAll] at hu ⊢
    simp [hu]

/-- the sentinel: a status of -1 (outside the enum) would never be reported — why `ReachV` is needed -/
theorem sentinel_counterexample :
    ((run init [.set 5 (-1), .watch 5, .recv 0]).w 0).sending = none ∧
    ((run init [.set 5 (-1), .watch 5, .recv 0]).w 0).slot = none := by decide

-- non-vacuity: a slow stream skips the intermediate status and never repeats
example : ((run init [.watch 0, .recv 0, .set 0 2, .set 0 1, .sendOk 0, .recv 0]).w 0).log = [1] := by decide
example : ((run init [.watch 0, .recv 0, .set 0 2, .set 0 3, .sendOk 0, .recv 0, .sendOk 0]).w 0).log = [1, 3] := by decide
example : ((run init [.watch 7, .recv 0, .sendOk 0, .shutdown, .recv 0]).w 0).log = [3] := by decide
example : ((run init [.watch 0, .shutdown, .set 0 1, .recv 0, .sendOk 0, .resume, .recv 0, .sendOk 0]).w 0).log = [2, 1] := by decide

end GrpcProofs.C54
