/-
C30  Connectivity state reporting is consistent and never missed  (PARTIAL: see props/C30.py)

Model: GrpcModel/Model/Connectivity.lean.  Invariants: GrpcProofs/Lemmas/Connectivity.lean (one
addrConn) and GrpcProofs/Lemmas/ConnectivitySys.lean (csm, WaitForStateChange callers, serializer).

Sub-channel theorems are about `acStep`: ANY action on ANY addrConn state reachable by ANY sequence
of actions (`AcReach n health a`; n = number of addresses, `health` = legacy LB-channel health
checking in force).  `(o, n) ∈ (acStep a act).2` reads: this action made
`updateConnectivityState` report the change o → n.
Channel theorems are about `SReach s`: any state of the channel model reachable by any interleaving
of sub-channel actions, LB-policy calls, serializer runs, idle entry/exit, Close and
WaitForStateChange callers' steps.
-/
import GrpcProofs.Lemmas.ConnectivitySys
import GrpcModel.Generated.Connectivity
namespace GrpcProofs.C30
open GrpcModel.Connectivity GrpcProofs.Lemmas.Connectivity

/-- T4: the order of `connectivity.State` in the source is the model's constructor order. -/
theorem state_order_matches_source :
    GrpcModel.Generated.connStateNames = ["Idle", "Connecting", "Ready", "TransientFailure", "Shutdown"] := by
  decide

/-! ### allowed transitions of a sub-channel -/

/-- **Nothing leaves SHUTDOWN** (sub-channel): no action ever reports a change out of SHUTDOWN. -/
theorem nothing_leaves_shutdown {n : Nat} {health : Bool} {a : AC} (hr : AcReach n health a) (act : AcAct)
    (o nw : ConnState) (hm : (o, nw) ∈ (acStep a act).2) : o ≠ ConnState.shutdown := by
  intro ho
  have := (changes_shut hr act).1
  rcases changes_shape a act with ⟨h1, _⟩ | ⟨m, h1, _, _⟩ | ⟨h1, _, h3⟩
  · rw [h1] at hm; simp at hm
  · rw [h1] at hm; simp at hm
    have h0 := this (by rw [← hm.1]; exact ho)
    rw [h1] at h0; simp at h0
  · rw [h1] at hm; simp at hm
    rcases hm with hm | hm
    · have h0 := this (by rw [← hm.1]; exact ho)
      rw [h1] at h0; simp at h0
    · rw [hm.1] at ho; cases ho

/-- **Nothing leaves SHUTDOWN** (channel): in the sequence of published channel states nothing
    follows SHUTDOWN. -/
theorem channel_never_leaves_shutdown {s : Sys} (hr : SReach s) (l1 l2 : List ConnState)
    (h : s.published = l1 ++ ConnState.shutdown :: l2) : l2 = [] :=
  (reach_invA hr).shutLast l1 l2 h

/-- **A sub-channel reaches READY only from CONNECTING** — for sub-channels without legacy
    LB-channel health checking.
    Full statement (false, see the counterexample): the same for `AcReach n health a` with any `health`. -/
theorem ready_only_from_connecting_partial {n : Nat} {a : AC} (hr : AcReach n false a) (act : AcAct) (o : ConnState)
    (hm : (o, ConnState.ready) ∈ (acStep a act).2) : o = ConnState.connecting := by
  have hinv := reach_inv hr
  have hh := reach_health hr
  obtain ⟨_, site⟩ := change_site hm
  cases site with
  | connect h1 h2 h3 => cases h3
  | created g x t tr hg hpc htr hl h5 h6 =>
    have := hinv.liveG g x hg hl
    rw [hpc] at this
    rw [h5]; exact this.1
  | failed g x hg hpc hl h5 h6 => cases h6
  | afterBackoff g x hg hpc hl h5 h6 => cases h6
  | onClose t tr htr hc hl hne h5 h6 => cases h6
  | tearDown h1 h2 h3 => cases h3
  | updateAddrs k still h1 h2 =>
    rcases h2 with ⟨_, h2⟩ | ⟨_, h2⟩ <;> cases h2
  | health t s tr htr hhl htt hs h5 h6 =>
    have := hinv.trHealth t tr htr hhl
    rw [hh] at this; cases this

theorem acRunFrom_reach {n : Nat} {health : Bool} (acts : List AcAct) :
    ∀ a log, AcReach n health a → AcReach n health (acRunFrom a log acts).1 := by
  induction acts with
  | nil => intro a log h; exact h
  | cons x xs ih => intro a log h; exact ih _ _ (AcReach.step x h)

/-- the sub-channel state after: Connect, dial succeeds, createTransport installs the transport
    (health checking takes over), the health function reports TRANSIENT_FAILURE -/
def healthTF : AC := (acRun 1 true [.connect, .dialOk 0, .lockCreated 0, .healthSet 0 .transientFailure]).1

theorem healthTF_reach : AcReach 1 true healthTF := acRunFrom_reach _ _ _ AcReach.init

/-- With legacy health checking the statement is FALSE: the health function's
    setConnectivityState(READY) moves the sub-channel TRANSIENT_FAILURE → READY. -/
theorem ready_only_from_connecting_counterexample :
    ¬ (∀ (n : Nat) (health : Bool) (a : AC), AcReach n health a → ∀ (act : AcAct) (o : ConnState),
        (o, ConnState.ready) ∈ (acStep a act).2 → o = ConnState.connecting) := by
  intro h
  have := h 1 true healthTF healthTF_reach (.healthSet 0 .ready) .transientFailure (by decide)
  cases this

/-- **A sub-channel leaves TRANSIENT_FAILURE only to IDLE or SHUTDOWN** — without legacy health
    checking. Full statement (false, see the counterexample): the same for any `health`. -/
theorem tf_only_to_idle_or_shutdown_partial {n : Nat} {a : AC} (hr : AcReach n false a) (act : AcAct) (nw : ConnState)
    (hm : (ConnState.transientFailure, nw) ∈ (acStep a act).2) : nw = ConnState.idle ∨ nw = ConnState.shutdown := by
  have hinv := reach_inv hr
  have hh := reach_health hr
  obtain ⟨_, site⟩ := change_site hm
  cases site with
  | connect h1 h2 h3 => cases h2
  | created g x t tr hg hpc htr hl h5 h6 =>
    have := hinv.liveG g x hg hl
    rw [hpc] at this
    rw [this.1] at h5; cases h5
  | failed g x hg hpc hl h5 h6 =>
    have := hinv.liveG g x hg hl
    rw [hpc] at this
    rw [this.1] at h5; cases h5
  | afterBackoff g x hg hpc hl h5 h6 => exact Or.inl h6
  | onClose t tr htr hc hl hne h5 h6 => exact Or.inl h6
  | tearDown h1 h2 h3 => exact Or.inr h3
  | updateAddrs k still h1 h2 =>
    rcases h2 with ⟨h2, _⟩ | ⟨h2 | h2, _⟩
    · rcases h1 with h1 | h1 <;> rw [h1] at h2 <;> cases h2
    · rcases h1 with h1 | h1 <;> rw [h1] at h2 <;> cases h2
    · cases h2
  | health t s tr htr hhl htt hs h5 h6 =>
    have := hinv.trHealth t tr htr hhl
    rw [hh] at this; cases this

/-- **…to IDLE only after the back-off**: TRANSIENT_FAILURE → IDLE is reported only by the critical
    section that a connect goroutine enters from program point `afterBackoff`, with a live context;
    and (`afterBackoff_only_via_backoffEnd`) a goroutine is at `afterBackoff` only by leaving the
    back-off select through the timer or ResetConnectBackoff. -/
theorem tf_to_idle_only_after_backoff {n : Nat} {a : AC} (hr : AcReach n false a) (act : AcAct)
    (hm : (ConnState.transientFailure, ConnState.idle) ∈ (acStep a act).2) :
    ∃ g x, act = AcAct.lockAfterBackoff g ∧ a.gors g = some x ∧ x.pc = GPc.afterBackoff ∧ a.ctxLive x.ctx = true := by
  have hinv := reach_inv hr
  have hh := reach_health hr
  obtain ⟨_, site⟩ := change_site hm
  cases site with
  | connect h1 h2 h3 => cases h2
  | created g x t tr hg hpc htr hl h5 h6 =>
    have := hinv.liveG g x hg hl
    rw [hpc] at this
    rw [this.1] at h5; cases h5
  | failed g x hg hpc hl h5 h6 => cases h6
  | afterBackoff g x hg hpc hl h5 h6 => exact ⟨g, x, rfl, hg, hpc, hl⟩
  | onClose t tr htr hc hl hne h5 h6 =>
    exfalso
    cases htt : a.transport with
    | none => exact hne htt
    | some t' =>
      have := hinv.trState t' htt
      rw [← h5, hh] at this
      simp at this
  | tearDown h1 h2 h3 => cases h3
  | updateAddrs k still h1 h2 =>
    rcases h2 with ⟨h2, _⟩ | ⟨_, h2⟩
    · rcases h1 with h1 | h1 <;> rw [h1] at h2 <;> cases h2
    · cases h2
  | health t s tr htr hhl htt hs h5 h6 =>
    have := hinv.trHealth t tr htr hhl
    rw [hh] at this; cases this

theorem backoff_left_only_by_timer_or_reset (a : AC) (act : AcAct) (g : Nat) (y : Gor)
    (h : (acStep a act).1.gors g = some y) (hp : y.pc = GPc.afterBackoff) :
    (∃ x, a.gors g = some x ∧ x.pc = GPc.afterBackoff) ∨
    (act = AcAct.backoffEnd g ∧ ∃ x, a.gors g = some x ∧ x.pc = GPc.backoff) :=
  afterBackoff_only_via_backoffEnd a act g y h hp

/-- With legacy health checking the statement is FALSE: the health function's retry loop calls
    setConnectivityState(CONNECTING) while the sub-channel is TRANSIENT_FAILURE. -/
theorem tf_only_to_idle_or_shutdown_counterexample :
    ¬ (∀ (n : Nat) (health : Bool) (a : AC), AcReach n health a → ∀ (act : AcAct) (nw : ConnState),
        (ConnState.transientFailure, nw) ∈ (acStep a act).2 → nw = ConnState.idle ∨ nw = ConnState.shutdown) := by
  intro h
  have := h 1 true healthTF healthTF_reach (.healthSet 0 .connecting) .connecting (by decide)
  rcases this with h | h <;> cases h

/-! ### GetState and WaitForStateChange -/

/-- **GetState returns the most recently published state** (`getState` returns `csm.state`; IDLE before
    anything was published). -/
theorem getState_is_last_published {s : Sys} (hr : SReach s) : s.csm.state = s.published.getLast?.getD ConnState.idle :=
  (reach_invA hr).lastPub

/-- **WaitForStateChange(src) returns true whenever the state differs from src at or after the
    call** (code order: get the notify channel, then read the state).  `w.sawDiff` is the ghost
    "the state differed from src at the call's first action or at some moment since".  Once it is
    set, the caller is never blocked and cannot conclude "unchanged": in the select its channel is
    already closed, and before its read either the read will see a different state or its channel is
    already closed.  (It can then only return true — or false if its context is done as well, the
    Go select being free to pick either ready case: `wait_false_only_if_ctx_done`.) -/
theorem wait_returns_true_if_differs {s : Sys} (hr : SReach s) (id : Nat) (w : Waiter) (hw : s.waiters id = some w)
    (ho : w.codeOrder = true) (hd : w.sawDiff = true) :
    (∀ ch, w.pc = WPc.sel ch → s.csm.chanClosed ch = true ∧
        (w.ctxDone = false → ∀ p, wstep s.csm w p = some (s.csm, { w with pc := WPc.done true }))) ∧
    (∀ ch, w.pc = WPc.gotChan ch → s.csm.state ≠ w.src ∨ s.csm.chanClosed ch = true) := by
  have hi := (reach_invA hr).winv id w hw
  unfold WInv at hi
  constructor
  · intro ch hp
    rw [hp] at hi
    simp only at hi
    obtain ⟨_, h2, _⟩ := hi ho
    have hc : s.csm.chanClosed ch = true := by
      cases hcl : s.csm.chanClosed ch with
      | true => rfl
      | false => have := (h2 hcl).2; rw [hd] at this; cases this
    refine ⟨hc, ?_⟩
    intro hctx p
    simp [wstep, hp, hctx, hc]
  · intro ch hp
    rw [hp] at hi
    simp only at hi
    obtain ⟨_, h2, _⟩ := hi
    cases hcl : s.csm.chanClosed ch with
    | true => exact Or.inr rfl
    | false =>
      left
      have := h2 hcl
      rw [hd] at this
      simpa using this.symm

/-- it returns true only if the state did differ at or after the call -/
theorem wait_true_only_if_differed {s : Sys} (hr : SReach s) (id : Nat) (w : Waiter) (hw : s.waiters id = some w)
    (ho : w.codeOrder = true) (hp : w.pc = WPc.done true) : w.sawDiff = true := by
  have hi := (reach_invA hr).winv id w hw
  unfold WInv at hi
  rw [hp] at hi
  exact hi ho

/-- it returns false only if its context is done -/
theorem wait_false_only_if_ctx_done {s : Sys} (hr : SReach s) (id : Nat) (w : Waiter) (hw : s.waiters id = some w)
    (hp : w.pc = WPc.done false) : w.ctxDone = true := by
  have hi := (reach_invA hr).winv id w hw
  unfold WInv at hi
  rw [hp] at hi
  exact hi

/-- The opposite order (read the state, then get the channel) MISSES a change: the caller reads
    IDLE = src, the channel becomes CONNECTING (no notify channel exists yet, nothing is closed), the
    caller then allocates a fresh channel and sits in the select although the state has differed
    from src since its call began — it cannot move. -/
theorem wrong_order_misses_a_change :
    ∃ (acts : List Act) (w : Waiter) (ch : Nat), (run acts).waiters 1 = some w ∧ w.codeOrder = false ∧ w.pc = WPc.sel ch ∧
      w.sawDiff = true ∧ w.ctxDone = false ∧ (run acts).csm.state ≠ w.src ∧ (run acts).csm.chanClosed ch = false ∧
      ∀ p, wstep (run acts).csm w p = none := by
  refine ⟨[.startWait 1 .idle false, .wstep 1 false, .exitIdle, .wstep 1 false],
    { src := .idle, codeOrder := false, pc := .sel 0, ctxDone := false, sawDiff := true }, 0, ?_⟩
  refine ⟨by decide, rfl, rfl, rfl, rfl, by decide, by decide, ?_⟩
  intro p
  cases p <;> decide

/-! ### what the LB policy sees -/

/-- **Sub-channel state updates reach the LB policy in the order they happened**: for every
    sub-channel k, the states delivered to its StateListener are a prefix of the states that
    updateConnectivityState reported for k (`hist` records every reported change, in order) — none
    reordered, none skipped before a later one is delivered.  **And none arrive after the
    sub-channel is shut down**: nothing follows SHUTDOWN in what the LB policy receives. -/
theorem lb_sees_updates_in_order_none_after_shutdown {s : Sys} (hr : SReach s) (k : Nat) :
    proj k s.delivered <+: proj k s.hist ∧ ShutLast (proj k s.delivered) := by
  have h := reach_invC hr
  have hp : proj k s.delivered <+: proj k s.hist :=
    ((h.delPrefix k).trans (proj_prefix_of_fifo h k)).trans (h.accPrefix k)
  refine ⟨hp, ?_⟩
  cases hk : s.acs k with
  | none =>
    have := h.histNone k hk
    rw [this] at hp
    rw [List.prefix_nil.mp hp]
    intro l1 l2 heq; simp at heq
  | some a => exact shutLast_prefix hp (h.histShut k a hk).1

/-- the same for the reported changes themselves: SHUTDOWN is only ever the last reported state -/
theorem lb_sees_nothing_after_shutdown {s : Sys} (hr : SReach s) (k : Nat) (l1 l2 : List ConnState)
    (h : proj k s.delivered = l1 ++ ConnState.shutdown :: l2) : l2 = [] :=
  (lb_sees_updates_in_order_none_after_shutdown hr k).2 l1 l2 h

/-! ### non-vacuity -/

/-- dial fails → TRANSIENT_FAILURE, back-off, IDLE; reconnect, READY; GOAWAY → IDLE; shutdown. -/
example : (acRun 1 false [.connect, .dialFail 0, .lockFailed 0, .backoffEnd 0, .lockAfterBackoff 0, .connect, .dialOk 1,
                          .lockCreated 1, .onClose 0, .tearDown, .connect]).2 =
    [(.idle, .connecting), (.connecting, .transientFailure), (.transientFailure, .idle), (.idle, .connecting),
     (.connecting, .ready), (.ready, .idle), (.idle, .shutdown)] := by decide

/-- the Connecting → Idle shortcut of issue 7862: the transport's onClose runs before createTransport
    re-acquires ac.mu. -/
example : (acRun 1 false [.connect, .dialOk 0, .onClose 0, .lockCreated 0]).2 =
    [(.idle, .connecting), (.connecting, .idle)] := by decide

/-- the LB policy sees CONNECTING, READY for sub-channel 0; after ccb.close nothing more. -/
example : (run [.exitIdle, .newSubConn 1 false, .ac 0 .connect, .deliver, .ac 0 (.dialOk 0), .ac 0 (.lockCreated 0), .deliver,
               .close, .ac 0 .tearDown, .deliver]).delivered = [(0, .connecting), (0, .ready)] := by decide

end GrpcProofs.C30
