/-
C48  RBAC and authz policies are enforced exactly as written.
Property theorems only; helper lemmas are in GrpcProofs/Lemmas/RBAC.lean and Lemmas/Authz.lean.
-/
import GrpcProofs.Lemmas.Authz
namespace GrpcProofs.C48
open GrpcModel.RBAC GrpcModel.Authz GrpcProofs.Lemmas.RBAC GrpcProofs.Lemmas.Authz

/-- "a policy matches when one of its permissions and one of its principals match" -/
def PolicyMatches (r : Request) (p : Policy) : Prop :=
  (∃ perm ∈ p.perms.toList, perm.eval r = true) ∧ (∃ prin ∈ p.prins.toList, prin.eval r = true)

theorem policy_matches_iff (r : Request) (p : Policy) : p.matches r = true ↔ PolicyMatches r p := by
  simp [Policy.matches, PolicyMatches, permList_any_iff, prinList_any_iff]

theorem findMatch_iff (r : Request) (e : Engine) :
    e.findMatch r = true ↔ ∃ p ∈ e.policies, PolicyMatches r p := by
  simp [Engine.findMatch, policy_matches_iff]

/-- **The chain decision.**  For every chain (any number of engines, any policy trees) and every request:
    the RPC is allowed exactly when the context is complete and no ALLOW engine lacks, and no DENY engine has, a
    matching policy; it fails with Internal exactly when the context is incomplete; and on a complete context the
    decision is the reference decision `Spec.decision` that the monitor evaluates on the implementation. -/
theorem chain_decision_spec (c : Chain) (r : Request) :
    (isAuthorized c r = .allow ↔
      r.wellFormed = true ∧ ∀ e ∈ c,
        (e.action = .allow → ∃ p ∈ e.policies, PolicyMatches r p) ∧
        (e.action = .deny → ¬ ∃ p ∈ e.policies, PolicyMatches r p))
    ∧ (isAuthorized c r = .internal ↔ r.wellFormed = false)
    ∧ (r.wellFormed = true → isAuthorized c r = Spec.decision c r) := by
  unfold isAuthorized
  cases hw : r.wellFormed
  · simp
  · simp only [Bool.not_true, Bool.false_eq_true, ↓reduceIte, true_and, forall_const]
    refine ⟨?_, ?_, chainLoop_eq_spec r c⟩
    · rw [chainLoop_allow_iff]
      constructor
      · intro h e he
        refine ⟨fun ha => (findMatch_iff r e).mp ((h e he).1 ha), fun hd hex => ?_⟩
        have := (h e he).2 hd
        rw [(findMatch_iff r e).mpr hex] at this
        exact absurd this (by simp)
      · intro h e he
        refine ⟨fun ha => (findMatch_iff r e).mpr ((h e he).1 ha), fun hd => ?_⟩
        cases hm : e.findMatch r
        · rfl
        · exact absurd ((findMatch_iff r e).mp hm) ((h e he).2 hd)
    · simp [chainLoop_ne_internal]

/-- A request is rejected with PermissionDenied exactly when the context is complete and some DENY engine has a
    matching policy or some ALLOW engine has none. -/
theorem chain_denied_iff (c : Chain) (r : Request) :
    isAuthorized c r = .deny ↔
      r.wellFormed = true ∧ ∃ e ∈ c,
        (e.action = .allow ∧ ¬ ∃ p ∈ e.policies, PolicyMatches r p) ∨
        (e.action = .deny ∧ ∃ p ∈ e.policies, PolicyMatches r p) := by
  obtain ⟨h1, h2, _⟩ := chain_decision_spec c r
  have tri : isAuthorized c r = .deny ↔ ¬ isAuthorized c r = .allow ∧ ¬ isAuthorized c r = .internal := by
    cases isAuthorized c r <;> simp
  rw [tri, h1, h2]
  cases hw : r.wellFormed
  · simp
  · simp only [true_and, Bool.true_eq_false, not_false_eq_true, and_true]
    constructor
    · intro h
      by_cases hex : ∃ e ∈ c, (e.action = .allow ∧ ¬ ∃ p ∈ e.policies, PolicyMatches r p) ∨
          (e.action = .deny ∧ ∃ p ∈ e.policies, PolicyMatches r p)
      · exact hex
      · exfalso
        apply h
        intro e he
        refine ⟨fun ha => ?_, fun hd hp => hex ⟨e, he, Or.inr ⟨hd, hp⟩⟩⟩
        by_cases hp : ∃ p ∈ e.policies, PolicyMatches r p
        · exact hp
        · exact absurd ⟨e, he, Or.inl ⟨ha, hp⟩⟩ hex
    · rintro ⟨e, he, h | h⟩ hall
      · exact h.2 ((hall e he).1 h.1)
      · exact (hall e he).2 h.1 h.2

/-- The Go engine keeps its policies in a map and iterates it in random order; the decision cannot depend on
    that order. -/
theorem engine_order_irrelevant (a : Action) (ps ps' : List Policy) (r : Request) (h : ps.Perm ps') :
    Engine.findMatch ⟨a, ps⟩ r = Engine.findMatch ⟨a, ps'⟩ r := by
  rw [Bool.eq_iff_iff]
  simp only [Engine.findMatch, List.any_eq_true]
  constructor
  · rintro ⟨p, hp, hm⟩; exact ⟨p, h.mem_iff.mp hp, hm⟩
  · rintro ⟨p, hp, hm⟩; exact ⟨p, h.mem_iff.mpr hp, hm⟩

/-- Permission trees: and = every child, or = some child, not = negation, any = true, and each leaf is its
    leaf matcher (path → the method name, header → the request's headers incl. :path/:method, destination
    CIDR/port → the local address, metadata → its `invert`, requested_server_name → matched against ""). -/
theorem perm_eval_spec (r : Request) :
    (∀ l, (Perm.and l).eval r = true ↔ ∀ p ∈ l.toList, p.eval r = true)
    ∧ (∀ l, (Perm.or l).eval r = true ↔ ∃ p ∈ l.toList, p.eval r = true)
    ∧ (∀ p, (Perm.not p).eval r = true ↔ ¬ p.eval r = true)
    ∧ Perm.any.eval r = true
    ∧ (∀ h, (Perm.header h).eval r = h.matches r.headers)
    ∧ (∀ m, (Perm.urlPath (some m)).eval r = m.matches r.path)
    ∧ (∀ c, (Perm.destIp c).eval r = true ↔ ∃ ip, r.dst = some ip ∧ c.contains ip = true)
    ∧ (∀ p, (Perm.destPort p).eval r = true ↔ r.dstPort = some p)
    ∧ (∀ b, (Perm.metadata b).eval r = b)
    ∧ (∀ m, (Perm.reqServerName (some m)).eval r = m.matches []) := by
  refine ⟨fun l => ?_, fun l => ?_, fun p => ?_, ?_, fun h => ?_, fun m => ?_, fun c => ?_, fun p => ?_, fun b => ?_, fun m => ?_⟩
  · rw [Perm.eval]; exact permList_all_iff r l
  · rw [Perm.eval]; exact permList_any_iff r l
  · rw [Perm.eval]; simp
  · rw [Perm.eval]
  · rw [Perm.eval]
  · rw [Perm.eval]
  · rw [Perm.eval, dstIpEval]; cases r.dst <;> simp
  · rw [Perm.eval]; simp
  · rw [Perm.eval]
  · rw [Perm.eval]

/-- Principal trees, likewise (remote CIDR → the peer address; direct_remote_ip, source_ip and remote_ip are the
    same matcher; authenticated → `authenticated_spec`). -/
theorem prin_eval_spec (r : Request) :
    (∀ l, (Prin.and l).eval r = true ↔ ∀ p ∈ l.toList, p.eval r = true)
    ∧ (∀ l, (Prin.or l).eval r = true ↔ ∃ p ∈ l.toList, p.eval r = true)
    ∧ (∀ p, (Prin.not p).eval r = true ↔ ¬ p.eval r = true)
    ∧ Prin.any.eval r = true
    ∧ (∀ m, (Prin.authenticated m).eval r = authEval r m)
    ∧ (∀ k c, (Prin.remoteIp k c).eval r = true ↔ ∃ ip, r.src = some ip ∧ c.contains ip = true)
    ∧ (∀ h, (Prin.header h).eval r = h.matches r.headers)
    ∧ (∀ m, (Prin.urlPath (some m)).eval r = m.matches r.path)
    ∧ (∀ b, (Prin.metadata b).eval r = b) := by
  refine ⟨fun l => ?_, fun l => ?_, fun p => ?_, ?_, fun m => ?_, fun k c => ?_, fun h => ?_, fun m => ?_, fun b => ?_⟩
  · rw [Prin.eval]; exact prinList_all_iff r l
  · rw [Prin.eval]; exact prinList_any_iff r l
  · rw [Prin.eval]; simp
  · rw [Prin.eval]
  · rw [Prin.eval]
  · rw [Prin.eval, srcIpEval]; cases r.src <;> simp
  · rw [Prin.eval]
  · rw [Prin.eval]
  · rw [Prin.eval]

/-- Authenticated principal: only on a TLS connection; with no principal_name any TLS peer; otherwise the name
    matcher must match one of the peer's identities, which are the URI SANs of the first certificate if it has
    any, else its DNS SANs if it has any, else its subject; no certificate = the empty identity. -/
theorem authenticated_spec (r : Request) :
    authEval r none = r.tls
    ∧ (∀ m, authEval r (some m) = true ↔ r.tls = true ∧ ∃ id ∈ Spec.identities r, m.matches id = true)
    ∧ (r.certs = [] → Spec.identities r = [[]])
    ∧ (∀ c t, r.certs = c :: t →
        (c.uris ≠ [] → Spec.identities r = c.uris)
        ∧ (c.uris = [] → c.dns ≠ [] → Spec.identities r = c.dns)
        ∧ (c.uris = [] → c.dns = [] → Spec.identities r = [c.subject])) := by
  refine ⟨?_, fun m => ?_, fun h => ?_, fun c t h => ⟨fun hu => ?_, fun hu hd => ?_, fun hu hd => ?_⟩⟩
  · unfold authEval; cases r.tls <;> simp
  · rw [authEval_some]; simp
  · simp [Spec.identities, h]
  · simp [Spec.identities, h, hu]
  · simp [Spec.identities, h, hu, hd]
  · simp [Spec.identities, h, hu, hd]

/-- CIDR ranges: the address is inside exactly when it is of the same family and its `len` most significant
    bits equal those of the prefix. -/
theorem cidr_contains_spec :
    (∀ (a b : BitVec 32) n, n ≤ 32 → ((Cidr.v4 a n).contains (.v4 b) = true ↔ ∀ i, i < n → a.getMsbD i = b.getMsbD i))
    ∧ (∀ (a b : BitVec 128) n, n ≤ 128 → ((Cidr.v6 a n).contains (.v6 b) = true ↔ ∀ i, i < n → a.getMsbD i = b.getMsbD i))
    ∧ (∀ a n b, (Cidr.v4 a n).contains (.v6 b) = false)
    ∧ (∀ a n b, (Cidr.v6 a n).contains (.v4 b) = false)
    ∧ (∀ c : Cidr, c.ok = true ↔ (∃ a n, c = .v4 a n ∧ n ≤ 32) ∨ (∃ a n, c = .v6 a n ∧ n ≤ 128)) := by
  refine ⟨fun a b n hn => ?_, fun a b n hn => ?_, fun _ _ _ => rfl, fun _ _ _ => rfl, fun c => ?_⟩
  · exact shift_xor_zero_iff a b n hn
  · exact shift_xor_zero_iff a b n hn
  · cases c with
    | v4 a n => simp only [Cidr.ok, decide_eq_true_eq]; exact ⟨fun h => Or.inl ⟨a, n, rfl, h⟩, by rintro (⟨_, _, h, hn⟩ | ⟨_, _, h, _⟩) <;> simp_all⟩
    | v6 a n => simp only [Cidr.ok, decide_eq_true_eq]; exact ⟨fun h => Or.inr ⟨a, n, rfl, h⟩, by rintro (⟨_, _, h, _⟩ | ⟨_, _, h, hn⟩) <;> simp_all⟩
    | bad => simp [Cidr.ok]

theorem hasSub_iff (sub : Str) : ∀ s : Str, hasSub sub s = true ↔ sub <:+: s
  | [] => by simp [hasSub]
  | c :: t => by
    simp only [hasSub, Bool.or_eq_true, List.isPrefixOf_iff_prefix, hasSub_iff sub t, List.infix_cons_iff]

/-- Header leaves.  The value is the comma-joined list of the header's values.  Except for `present`, an absent
    header never matches (whatever `invert`); a present one matches when (value = exact / has the prefix / has the
    suffix / contains the substring / parses as an int64 in [lo, hi)) differs from `invert`. -/
theorem header_leaf_spec (name : Str) (inv : Bool) (md : MD) :
    (∀ spec, (∀ b, spec ≠ .present b) → valueFromMD md name = none → HdrM.matches ⟨name, spec, inv⟩ md = false)
    ∧ (∀ v, valueFromMD md name = some v →
        (∀ s, HdrM.matches ⟨name, .exact s, inv⟩ md = (decide (v = s) != inv))
        ∧ (∀ s, HdrM.matches ⟨name, .pfx s, inv⟩ md = true ↔ (s <+: v ↔ inv = false))
        ∧ (∀ s, HdrM.matches ⟨name, .sfx s, inv⟩ md = true ↔ (s <:+ v ↔ inv = false))
        ∧ (∀ s, HdrM.matches ⟨name, .contains s, inv⟩ md = true ↔ (s <:+: v ↔ inv = false))
        ∧ (∀ lo hi, HdrM.matches ⟨name, .range lo hi, inv⟩ md = true ↔
            ((∃ i, parseInt64 v = some i ∧ lo ≤ i ∧ i < hi) ↔ inv = false)))
    ∧ (∀ b, HdrM.matches ⟨name, .present b, inv⟩ md = true ↔
        ((∃ v, valueFromMD md name = some v) ↔ (b != inv) = true)) := by
  refine ⟨fun spec hs hv => ?_, fun v hv => ⟨fun s => ?_, fun s => ?_, fun s => ?_, fun s => ?_, fun lo hi => ?_⟩, fun b => ?_⟩
  · cases spec <;> simp_all [HdrM.matches]
  · simp only [HdrM.matches, hv]
    congr 1
    rw [Bool.eq_iff_iff]; simp
  · simp only [HdrM.matches, hv, bne_iff_ne, ne_eq]
    rw [← List.isPrefixOf_iff_prefix]
    cases s.isPrefixOf v <;> cases inv <;> simp
  · simp only [HdrM.matches, hv, bne_iff_ne, ne_eq]
    rw [← List.isSuffixOf_iff_suffix]
    cases s.isSuffixOf v <;> cases inv <;> simp
  · simp only [HdrM.matches, hv, bne_iff_ne, ne_eq]
    rw [← hasSub_iff]
    cases hasSub s v <;> cases inv <;> simp
  · simp only [HdrM.matches, hv]
    cases hp : parseInt64 v with
    | none => cases inv <;> simp
    | some i =>
      by_cases hr : lo ≤ i ∧ i < hi
      · cases inv <;> simp [hr]
      · cases inv <;> simp [hr]
  · simp only [HdrM.matches]
    cases hv : valueFromMD md name with
    | none => cases b <;> cases inv <;> simp
    | some v => cases v <;> cases b <;> cases inv <;> simp

/-- `NewChainEngine` fails exactly on a LOG action or on a policy containing an unsupported / malformed rule;
    otherwise the chain is the configuration itself. -/
theorem newChainEngine_accepts_iff (c : Chain) :
    (newChainEngine c = some c ↔
      ∀ e ∈ c, e.action ≠ .log ∧ ∀ p ∈ e.policies, p.perms.ok = true ∧ p.prins.ok = true)
    ∧ (newChainEngine c = some c ∨ newChainEngine c = none) := by
  unfold newChainEngine
  constructor
  · simp only [List.all_eq_true, Engine.ok, Policy.ok, Bool.and_eq_true, bne_iff_ne, ne_eq]
    constructor
    · intro h
      split at h
      · rename_i h'; exact h'
      · simp at h
    · intro h; simp only [ite_eq_left_iff]; intro h'; exact absurd h h'
  · split <;> simp

/-! ### authz -/

/-- Whatever `translatePolicy` accepts, `NewChainEngine` accepts (so `NewStatic` fails only in the translator). -/
theorem translate_builds (p : SDKPolicy) (c : Chain) (h : translate p = some c) : newChainEngine c = some c :=
  translate_ok p c h

/-- The RBAC policy emitted for one rule matches exactly the requests the rule matches as written
    (principals: none = anyone, else one of them under the wildcard rules against the TLS identities;
     paths: none = any, else one of them; headers: each key has one of its values). -/
theorem rule_policy_matches_iff (r : Request) (rule : Rule) (perm : Perm)
    (h : parseRequest rule.paths rule.headers = some perm) :
    Policy.matches ⟨.cons perm .nil, .cons (parsePeer rule.principals) .nil⟩ r = Spec.ruleMatches r rule := by
  have := rulePolicy_matches r rule perm h
  simpa [rulePolicy, h] using this

/-- **What the translation really decides**, for every accepted policy and every complete request: the reference
    decision of the policy from which every rule whose name is repeated by a later rule of the same list has
    been removed. -/
theorem authz_lastWins_semantics (p : SDKPolicy) (c : Chain) (r : Request)
    (h : newStatic p = some c) (hw : r.wellFormed = true) :
    intercept c r =
      GrpcModel.Authz.Spec.decision { p with deny := Spec.lastWins p.deny, allow := Spec.lastWins p.allow } r :=
  static_decision p c r h hw

/- Full statement (FALSE for the unchanged code, see `authz_semantics_counterexample`, finding F4):
     ∀ p c r, newStatic p = some c → r.wellFormed → intercept c r = Authz.Spec.decision p r
   i.e. "denied if it matches any deny rule and otherwise allowed exactly when it matches some allow rule".
   Proved below under the extra hypothesis that rule names are distinct within each list — the hypothesis a
   `translatePolicy` that rejected duplicate names would discharge. -/
theorem authz_semantics_partial (p : SDKPolicy) (c : Chain) (r : Request)
    (hd : (p.deny.map (·.name)).Nodup) (ha : (p.allow.map (·.name)).Nodup)
    (h : newStatic p = some c) (hw : r.wellFormed = true) :
    intercept c r = GrpcModel.Authz.Spec.decision p r := by
  rw [static_decision p c r h hw, lastWins_nodup _ hd, lastWins_nodup _ ha]

/-- F4 witness: {"name":"pol","deny_rules":[{"name":"d","request":{"paths":["/x/secret"]}},
    {"name":"d","request":{"paths":["/x/other"]}}],"allow_rules":[{"name":"a"}]} is accepted and a request for
    /x/secret — which matches the first deny rule — is allowed. -/
def f4Policy : SDKPolicy :=
  { name := [112, 111, 108]
    deny := [⟨[100], [], [[47, 120, 47, 115, 101, 99, 114, 101, 116]], []⟩,
             ⟨[100], [], [[47, 120, 47, 111, 116, 104, 101, 114]], []⟩]
    allow := [⟨[97], [], [], []⟩] }

def f4Request : Request :=
  { missing := false, path := [47, 120, 47, 115, 101, 99, 114, 101, 116], md := [], src := some (.v4 0x0a000001#32),
    dst := some (.v4 0x0a000002#32), dstPort := some 443, tls := false, certs := [] }

theorem authz_semantics_counterexample :
    ¬ ∀ (p : SDKPolicy) (c : Chain) (r : Request), newStatic p = some c → r.wellFormed = true →
        intercept c r = GrpcModel.Authz.Spec.decision p r := by
  intro h
  have hc : ∃ c, newStatic f4Policy = some c ∧ intercept c f4Request = .allow := by
    refine ⟨_, rfl, ?_⟩
    decide
  obtain ⟨c, h1, h2⟩ := hc
  have := h f4Policy c f4Request h1 (by decide)
  rw [h2] at this
  revert this
  decide

/-- Unconditionally: whatever is allowed matches some allow rule as written. -/
theorem authz_allowed_sound (p : SDKPolicy) (c : Chain) (r : Request)
    (h : newStatic p = some c) (hallow : intercept c r = .allow) :
    p.allow.any (Spec.ruleMatches r) = true := by
  have hw : r.wellFormed = true := by
    cases hw : r.wellFormed
    · simp [intercept, isAuthorized, hw] at hallow
    · rfl
  rw [static_decision p c r h hw] at hallow
  simp only [GrpcModel.Authz.Spec.decision] at hallow
  split at hallow
  · simp at hallow
  · split at hallow
    · rename_i h2
      obtain ⟨rule, hr, hm⟩ := List.any_eq_true.mp h2
      exact List.any_eq_true.mpr ⟨rule, lastWins_sub _ _ hr, hm⟩
    · simp at hallow

/-- Unconditionally: a matching deny rule whose name no later deny rule repeats does deny. -/
theorem authz_deny_engine_sound (p : SDKPolicy) (c : Chain) (r : Request)
    (h : newStatic p = some c) (hw : r.wellFormed = true)
    (rule : Rule) (hr : rule ∈ Spec.lastWins p.deny) (hm : Spec.ruleMatches r rule = true) :
    intercept c r = .deny := by
  rw [static_decision p c r h hw]
  simp only [GrpcModel.Authz.Spec.decision]
  have : (Spec.lastWins p.deny).any (Spec.ruleMatches r) = true := List.any_eq_true.mpr ⟨rule, hr, hm⟩
  simp [this]

-- non-vacuity
example : newStatic f4Policy ≠ none := by decide
example : GrpcModel.Authz.Spec.decision f4Policy f4Request = .deny := by decide
example : isAuthorized [⟨.deny, [⟨.cons .any .nil, .cons .any .nil⟩]⟩] f4Request = .deny := by decide
example : isAuthorized [⟨.allow, [⟨.cons (.destPort 443) .nil, .cons (.remoteIp 0 (.v4 0x0a000000#32 8)) .nil⟩]⟩] f4Request = .allow := by
  decide
example : isAuthorized [] { f4Request with dstPort := none } = .internal := by decide
example : (Cidr.v4 0x0a000000#32 8).contains (.v4 0x0b000001#32) = false := by decide
example : newChainEngine [⟨.log, []⟩] = none := by decide
example : translate { f4Policy with allow := [] } = none := by decide

end GrpcProofs.C48
