import GrpcModel.Model.Keepalive
namespace GrpcProofs.C15
end GrpcProofs.C15
