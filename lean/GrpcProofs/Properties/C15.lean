/-
C15  Keepalive detects dead peers in bounded time and never kills healthy ones; ping-strike policy.
Property theorems only; helper lemmas are in GrpcProofs/Lemmas/Keepalive.lean.

All theorems are about the timed automata of lean/GrpcModel/Model/Keepalive.lean (client loop
`fire`, server loop `serverFire`, ledger `handlePing`), for EVERY configuration with Time, Timeout ≥ 1
and EVERY valid (urgent) event sequence: arbitrary delays, reads, stream opens/closes, timer expiries.
Instants are Nat nanoseconds on a virtual clock; the tie to wall-clock time is the stated GAP.
-/
import GrpcProofs.Lemmas.Keepalive
namespace GrpcProofs.C15
open GrpcModel.Keepalive GrpcModel.Generated GrpcProofs.Lemmas.Keepalive

/-- The state of the client automaton after the event sequence `es`. -/
def after (c : Cfg) (es : List Ev) : KA := (run c (KA.init c) es).1

/-- The state of the server automaton (`serverFire`) after `es`. -/
def safter (c : Cfg) (es : List Ev) : KA := (runG serverFire c (KA.init c) es).1

/-! ## Dead peer: closed no later than Timeout after max(lastRead + Time, applicable-since) -/

/-- FULL STATEMENT (C15, first sentence), for the client loop:
      not closed ∧ applicable → now ≤ max(lastRead + Time, appSince) + Timeout.
    Time cannot pass `timerAt` without the timer firing (urgency, `Valid`), so this is "closed no
    later than".  It is FALSE of the unchanged code (`dead_peer_closed_by_counterexample`); what holds
    in general is the bound plus `slack`, which is `min Time Timeout` after a late wake, else 0. -/
theorem dead_peer_closed_by_partial (c : Cfg) (es : List Ev) (hv : Valid c (KA.init c) es = true)
    (hc : (after c es).closed = false) (ha : (after c es).applicable c = true)
    (hcu : (after c es).pendingInit = 0) :
    (after c es).now ≤ max ((after c es).lastRead + c.time) (after c es).appSince + c.timeout
      + (if (after c es).lateWake then min c.time c.timeout else 0) := by
  have := bound_of_inv (inv_run es (inv_init c) hv) hc ha hcu
  simp only [deadBound, slack] at this
  exact this

/-- The exact bound of the statement holds whenever no frame is read while the keepalive loop is
    dormant (parked in `kpDormancyCond.Wait()`): for every `read` event of the run, the state just
    before it is not dormant. -/
theorem dead_peer_closed_by (c : Cfg) (es : List Ev) (hv : Valid c (KA.init c) es = true)
    (hn : ∀ pre post, es = pre ++ Ev.read :: post → (after c pre).dormant = false)
    (hc : (after c es).closed = false) (ha : (after c es).applicable c = true)
    (hcu : (after c es).pendingInit = 0) :
    (after c es).now ≤ max ((after c es).lastRead + c.time) (after c es).appSince + c.timeout := by
  have h := dead_peer_closed_by_partial c es hv hc ha hcu
  have hl : (after c es).lateWake = false := noLate_run es _ hv hn (by simp [NoLate, KA.init])
  simpa [hl] using h

/-- … in particular always with PermitWithoutStream (never dormant; applicable from instant 0, so
    the bound is lastRead + Time + Timeout). -/
theorem dead_peer_closed_by_permit (c : Cfg) (hp : c.permit = true) (es : List Ev)
    (hv : Valid c (KA.init c) es = true) (hc : (after c es).closed = false)
    (hcu : (after c es).pendingInit = 0) :
    (after c es).now ≤ (after c es).lastRead + c.time + c.timeout := by
  have h := dead_peer_closed_by_partial c es hv hc (by simp [KA.applicable, hp]) hcu
  have hi := inv_run es (inv_init c) hv
  have hl : (after c es).lateWake = false := by
    cases hlw : (after c es).lateWake with
    | false => rfl
    | true => have := hi.late_np hlw; simp [hp] at this
  have h0 : (after c es).appSince = 0 := appSince_zero hp es _ rfl
  simp [hl, h0] at h
  omega

/-- The wake-up has two cooperating sites: NewStream registers the stream in `activeStreams` (caller
    goroutine), loopy later runs its `initStream`, which signals a dormant keepalive loop. In every
    reachable state a dormant loop with open streams still has an `initStream` on its way … -/
theorem dormant_with_streams_has_pending_wake (c : Cfg) (es : List Ev) (hv : Valid c (KA.init c) es = true)
    (hd : (after c es).dormant = true) (hs : 0 < (after c es).streams) : 0 < (after c es).pendingInit := by
  simp only [after] at hd hs ⊢
  have h := (inv_run es (inv_init c) hv).dorm hd
  rcases h.2.2.1 with h0 | h0 <;> omega

/-- … and EVERY `initStream` wakes the loop, however many streams are registered by then: it leaves
    dormancy and pings at once. (So once loopy has caught up, `pendingInit = 0`, a loop with streams is
    not dormant and `dead_peer_closed_by` applies.) -/
theorem every_initStream_wakes (c : Cfg) (s : KA) (hc : s.closed = false) (hd : s.dormant = true)
    (ho : s.outstanding = false) :
    (step c s .initS).1.dormant = false ∧ (step c s .initS).2 = [Out.ping s.now] := by
  simp [step, stepG, hc, hd, sendAndSleep, ho]

/-- The unchanged code violates the literal bound: Time 10, Timeout 3, no PermitWithoutStream; the
    loop goes dormant at 10, a frame is read at 20, a stream opens at 29 (ping), the expiry at 32
    sees the stale read, discards the outstanding ping and pings again; at 34 > 33 = max(20+10, 29)+3
    the transport is still open (it closes at 35). -/
theorem dead_peer_closed_by_counterexample :
    ¬ ∀ (c : Cfg) (es : List Ev), Valid c (KA.init c) es = true →
        (after c es).closed = false → (after c es).applicable c = true → (after c es).pendingInit = 0 →
        (after c es).now ≤ max ((after c es).lastRead + c.time) (after c es).appSince + c.timeout := by
  intro h
  have := h ⟨10, 3, false⟩ [.delay 10, .fire, .delay 10, .read, .delay 9, .openS, .delay 3, .fire, .fire, .delay 2]
    (by decide) (by decide) (by decide) (by decide)
  revert this
  decide

/-- Time really can pass (the bounds are not vacuous by a time-lock): with Time, Timeout ≥ 1, in any
    state where the timer is due, after at most two expiries at that instant the loop is closed,
    dormant, or its timer is strictly in the future. -/
theorem time_can_pass (c : Cfg) (ht : 1 ≤ c.time) (hto : 1 ≤ c.timeout) (s : KA) (hok : Ev.ok s .fire = true) :
    ((fire c s).1.closed = true ∨ (fire c s).1.dormant = true ∨ (fire c s).1.now < (fire c s).1.timerAt) ∨
    (Ev.ok (fire c s).1 .fire = true ∧
      ((fire c (fire c s).1).1.closed = true ∨ (fire c (fire c s).1).1.dormant = true ∨
        (fire c (fire c s).1).1.now < (fire c (fire c s).1).1.timerAt)) :=
  fire_progress ht hto hok

/-- The big step the correspondence driver uses for `adv d` (`schedule`: let d ns pass, firing the
    timer whenever due) is a valid run of this automaton, so the theorems apply to what is diffed
    against the real transport. -/
theorem adv_is_valid_run (c : Cfg) (fuel : Nat) (s : KA) (d : Nat) (es : List Ev)
    (hs : s.closed = false → s.dormant = false → s.now ≤ s.timerAt)
    (h : schedule fire c s d fuel = some es) : Valid c s es = true :=
  schedule_valid c fuel s d es hs h

/-! ## Healthy peer: never closed -/

/-- The only way to close: no frame for at least Time + Timeout. -/
theorem closed_only_after_silence (c : Cfg) (es : List Ev) (hv : Valid c (KA.init c) es = true)
    (hc : (after c es).closed = true) : (after c es).lastRead + c.time + c.timeout ≤ (after c es).now :=
  (inv_run es (inv_init c) hv).shut hc

/-- "receives some byte at least once every Time", on the INPUT clock `clockStep` (now, instant of the
    last `read` event — what the peer did, not what the model thinks): at every point of the run,
    now ≤ lastRead + Time. -/
def Healthy (c : Cfg) : Nat × Nat → List Ev → Prop
  | k, [] => k.1 ≤ k.2 + c.time
  | k, e :: es => k.1 ≤ k.2 + c.time ∧ Healthy c (clockStep k e) es

private theorem healthy_head {c : Cfg} {k : Nat × Nat} {es : List Ev} (h : Healthy c k es) : k.1 ≤ k.2 + c.time := by
  cases es with
  | nil => exact h
  | cons e es => exact h.1

private theorem healthy_run {c : Cfg} (hto : 1 ≤ c.timeout) : ∀ (es : List Ev) (s : KA), Inv c s → s.closed = false →
    Valid c s es = true → Healthy c (s.now, s.lastRead) es → (run c s es).1.closed = false
  | [], _, _, hc, _, _ => hc
  | e :: es, s, hi, hc, hv, hh => by
    simp only [Valid, Bool.and_eq_true] at hv
    rw [run_cons]
    have hi1 := inv_step hi e hv.1
    have hk := clock_agree (c := c) e hc
    have hh2 : Healthy c ((step c s e).1.now, (step c s e).1.lastRead) es := by rw [hk]; exact hh.2
    cases hc1 : (step c s e).1.closed with
    | false => exact healthy_run hto es _ hi1 hc1 hv.2 hh2
    | true =>
      have h1 := hi1.shut hc1
      have h2 := healthy_head hh2
      simp only at h2
      omega

/-- C15, second sentence: a connection on which a frame is read at least once every Time is never
    closed by keepalive (client loop; any PermitWithoutStream, any stream activity). -/
theorem healthy_never_closed (c : Cfg) (hto : 1 ≤ c.timeout) (es : List Ev)
    (hv : Valid c (KA.init c) es = true) (hh : Healthy c (0, 0) es) : (after c es).closed = false :=
  healthy_run hto es _ (inv_init c) rfl hv hh

/-! ## The server loop is the client loop with PermitWithoutStream -/

theorem server_loop_eq (c : Cfg) (hp : c.permit = true) (s : KA) : serverFire c s = fire c s := by
  simp [serverFire, fire, hp]

private theorem srun_eq (c : Cfg) (hp : c.permit = true) : ∀ (es : List Ev) (s : KA), runG serverFire c s es = run c s es
  | [], _ => rfl
  | e :: es, s => by
    have h1 : stepG serverFire c s e = stepG fire c s e := by
      cases e <;> simp [stepG, server_loop_eq c hp]
    simp only [run, runG, h1]
    have := srun_eq c hp es (stepG fire c s e).1
    simp only [run] at this
    rw [this]

/-- Server: while nothing is read the connection is closed no later than lastRead + Time + Timeout. -/
theorem server_dead_peer_closed_by (c : Cfg) (hp : c.permit = true) (es : List Ev)
    (hv : Valid c (KA.init c) es = true) (hc : (safter c es).closed = false)
    (hcu : (safter c es).pendingInit = 0) :
    (safter c es).now ≤ (safter c es).lastRead + c.time + c.timeout := by
  have he : safter c es = after c es := by simp only [safter, after]; rw [srun_eq c hp]
  rw [he] at hc hcu ⊢
  exact dead_peer_closed_by_permit c hp es hv hc hcu

/-- Server: a connection heard from at least once every Time is never closed by keepalive. -/
theorem server_healthy_never_closed (c : Cfg) (hp : c.permit = true) (hto : 1 ≤ c.timeout) (es : List Ev)
    (hv : Valid c (KA.init c) es = true) (hh : Healthy c (0, 0) es) : (safter c es).closed = false := by
  have he : safter c es = after c es := by simp only [safter, after]; rw [srun_eq c hp]
  rw [he]; exact healthy_never_closed c hto es hv hh

/-! ## Ping-strike policy (server `handlePing`) -/

/-- The spacing the statement demands before a ping, with the statement's literals (two hours). -/
def requiredLit (p : Policy) (s : Ledger) : Nat :=
  if s.ns = 0 ∧ p.permit = false then 7200000000000 else p.minTime

/-- This ping is at least `requiredLit` after the previous one (or is the first). -/
def spacedPing (p : Policy) (s : Ledger) : Prop :=
  ∀ l, s.lastPingAt = some l → l + requiredLit p s ≤ s.now

/-- Every ping of the run respects the spacing. -/
def Spaced (p : Policy) : Ledger → List LEv → Prop
  | _, [] => True
  | s, e :: es => (e = LEv.ping → spacedPing p s) ∧ Spaced p (lstep p s e) es

private theorem required_lit (p : Policy) (s : Ledger) : required p s = requiredLit p s := by
  simp only [required, requiredLit, defaultPingTimeout]
  by_cases h1 : s.ns = 0 <;> by_cases h2 : p.permit = false <;> simp [h1, h2] <;> omega

private theorem not_early_of_spaced {p : Policy} {s : Ledger} (h : spacedPing p s) : tooEarly p s = false := by
  unfold tooEarly
  cases hl : s.lastPingAt with
  | none => rfl
  | some l =>
    have := h l hl
    rw [required_lit]
    simp; omega

/-- C15, third sentence: no GOAWAY ENHANCE_YOUR_CALM — indeed not a single strike — for a client whose
    consecutive pings are at least MinTime apart while it has streams (or PermitWithoutStream) and
    at least two hours (7 200 000 000 000 ns) apart otherwise; any interleaving with delays, stream
    opens/closes and server writes. -/
theorem no_goaway_if_spaced (p : Policy) : ∀ (es : List LEv) (s : Ledger), s.strikes = 0 → s.goaway = false →
    Spaced p s es → (lrun p s es).goaway = false ∧ (lrun p s es).strikes = 0
  | [], _, h0, hg, _ => ⟨hg, h0⟩
  | e :: es, s, h0, hg, hs => by
    simp only [lrun]
    apply no_goaway_if_spaced p es _ _ _ hs.2
    · cases e with
      | ping =>
        have := not_early_of_spaced (hs.1 rfl)
        by_cases hf : s.resetFlag = true <;> simp [lstep, handlePing, hf, this, h0]
      | _ => simpa [lstep] using h0
    · cases e with
      | ping =>
        have := not_early_of_spaced (hs.1 rfl)
        by_cases hf : s.resetFlag = true <;> simp [lstep, handlePing, hf, this, h0, hg, maxPingStrikes]
      | _ => simpa [lstep] using hg

/-- A strike: a ping that is too early (statement's literals) and not forgiven by a server write
    since the previous ping. -/
def isStrike (p : Policy) (s : Ledger) : Bool :=
  !s.resetFlag && (match s.lastPingAt with | none => false | some l => decide (s.now < l + requiredLit p s))

def countStrikes (p : Policy) : Ledger → List LEv → Nat
  | _, [] => 0
  | s, e :: es => (if e = LEv.ping ∧ isStrike p s = true then 1 else 0) + countStrikes p (lstep p s e) es

def noWrite (es : List LEv) : Prop := ∀ e ∈ es, e ≠ LEv.write

private theorem tooEarly_lit (p : Policy) (s : Ledger) :
    tooEarly p s = (match s.lastPingAt with | none => false | some l => decide (s.now < l + requiredLit p s)) := by
  unfold tooEarly
  cases s.lastPingAt with
  | none => rfl
  | some l => simp [required_lit]

/-- Strikes accumulate: over a stretch without server writes, starting with no pending forgiveness,
    `pingStrikes` grows by exactly the number of too-early pings — well-spaced pings in between do
    not reset it. -/
theorem strikes_accumulate (p : Policy) : ∀ (es : List LEv) (s : Ledger), s.resetFlag = false → noWrite es →
    (lrun p s es).strikes = s.strikes + countStrikes p s es ∧ (lrun p s es).resetFlag = false
  | [], _, hf, _ => ⟨by simp [lrun, countStrikes], hf⟩
  | e :: es, s, hf, hw => by
    have hw' : noWrite es := fun x hx => hw x (List.mem_cons_of_mem _ hx)
    have he : e ≠ LEv.write := hw e (List.mem_cons_self ..)
    simp only [lrun, countStrikes]
    cases e with
    | write => exact absurd rfl he
    | ping =>
      have hf' : (lstep p s .ping).resetFlag = false := by simp [lstep, handlePing, hf]
      have ih := strikes_accumulate p es _ hf' hw'
      refine ⟨?_, ih.2⟩
      rw [ih.1]
      simp only [lstep, handlePing, hf, isStrike, tooEarly_lit]
      cases s.lastPingAt with
      | none => simp
      | some l => by_cases h : s.now < l + requiredLit p s <;> simp [h] <;> omega
    | delay d =>
      have ih := strikes_accumulate p es (lstep p s (.delay d)) (by simpa [lstep] using hf) hw'
      refine ⟨?_, ih.2⟩; rw [ih.1]; simp [lstep]
    | openS =>
      have ih := strikes_accumulate p es (lstep p s .openS) (by simpa [lstep] using hf) hw'
      refine ⟨?_, ih.2⟩; rw [ih.1]; simp [lstep]
    | doneS =>
      have ih := strikes_accumulate p es (lstep p s .doneS) (by simpa [lstep] using hf) hw'
      refine ⟨?_, ih.2⟩; rw [ih.1]; simp [lstep]

private theorem goaway_sticky (p : Policy) : ∀ (es : List LEv) (s : Ledger), s.goaway = true → (lrun p s es).goaway = true
  | [], _, h => h
  | e :: es, s, h => by
    simp only [lrun]
    apply goaway_sticky p es
    cases e with
    | ping => by_cases hf : s.resetFlag = true <;> simp [lstep, handlePing, hf, h]
    | _ => simpa [lstep] using h

/-- C15, last clause: the third too-early ping that is not separated from the previous ones by
    server-sent headers or data triggers GOAWAY ENHANCE_YOUR_CALM — whatever else (delays, well
    spaced pings, stream opens/closes) happens in between. -/
theorem third_strike_goaway (p : Policy) : ∀ (es : List LEv) (s : Ledger), s.resetFlag = false → noWrite es →
    3 ≤ s.strikes + countStrikes p s es → 1 ≤ countStrikes p s es → (lrun p s es).goaway = true
  | [], _, _, _, _, h1 => by simp [countStrikes] at h1
  | e :: es, s, hf, hw, h3, h1 => by
    have hw' : noWrite es := fun x hx => hw x (List.mem_cons_of_mem _ hx)
    have he : e ≠ LEv.write := hw e (List.mem_cons_self ..)
    simp only [lrun]
    simp only [countStrikes] at h3 h1
    cases e with
    | write => exact absurd rfl he
    | ping =>
      have hf' : (lstep p s .ping).resetFlag = false := by simp [lstep, handlePing, hf]
      by_cases hk : isStrike p s = true
      · -- this ping is a strike
        simp only [hk, and_self, if_true] at h3 h1
        have hst : (lstep p s .ping).strikes = s.strikes + 1 := by
          simp only [isStrike, hf] at hk
          simp only [lstep, handlePing, hf, tooEarly_lit]
          simp at hk
          simp [hk]
        by_cases hrest : 1 ≤ countStrikes p (lstep p s .ping) es
        · exact third_strike_goaway p es _ hf' hw' (by omega) hrest
        · -- it is the last strike: GOAWAY right here
          have hz : countStrikes p (lstep p s .ping) es = 0 := by omega
          apply goaway_sticky
          have h2 : 2 ≤ s.strikes := by omega
          simp only [isStrike, hf] at hk
          simp at hk
          simp only [lstep, handlePing, hf, tooEarly_lit]
          simp [hk, maxPingStrikes]
          right; omega
      · simp only [hk] at h3 h1
        simp at h3 h1
        have hst : (lstep p s .ping).strikes = s.strikes := by
          simp only [isStrike, hf] at hk
          simp only [lstep, handlePing, hf, tooEarly_lit]
          simp at hk
          cases hl : s.lastPingAt with
          | none => simp
          | some l => have := hk; simp [hl] at this; simp [this]
        exact third_strike_goaway p es _ hf' hw' (by omega) h1
    | delay d =>
      simp at h3 h1
      exact third_strike_goaway p es (lstep p s (.delay d)) (by simpa [lstep] using hf) hw' (by simpa [lstep] using h3) h1
    | openS =>
      simp at h3 h1
      exact third_strike_goaway p es (lstep p s .openS) (by simpa [lstep] using hf) hw' (by simpa [lstep] using h3) h1
    | doneS =>
      simp at h3 h1
      exact third_strike_goaway p es (lstep p s .doneS) (by simpa [lstep] using hf) hw' (by simpa [lstep] using h3) h1

/-- Server-sent headers / data / trailers forgive: the next ping (however early, however many
    strikes before) resets `pingStrikes` to 0 and cannot trigger the GOAWAY. -/
theorem strikes_reset_by_server_write (p : Policy) (s : Ledger) (es : List LEv)
    (hnp : ∀ e ∈ es, e ≠ LEv.ping) :
    let s' := lrun p (lstep p s .write) (es ++ [.ping])
    s'.strikes = 0 ∧ s'.goaway = s.goaway := by
  have key : ∀ (es : List LEv) (t : Ledger), (∀ e ∈ es, e ≠ LEv.ping) → t.resetFlag = true →
      (lrun p t (es ++ [.ping])).strikes = 0 ∧ (lrun p t (es ++ [.ping])).goaway = t.goaway := by
    intro es
    induction es with
    | nil => intro t _ hf; simp [lrun, lstep, handlePing, hf]
    | cons e es ih =>
      intro t hnp hf
      have hnp' : ∀ x ∈ es, x ≠ LEv.ping := fun x hx => hnp x (List.mem_cons_of_mem _ hx)
      have he : e ≠ LEv.ping := hnp e (List.mem_cons_self ..)
      simp only [List.cons_append, lrun]
      cases e with
      | ping => exact absurd rfl he
      | write => have := ih (lstep p t .write) hnp' (by simp [lstep]); simpa [lstep] using this
      | delay d => have := ih (lstep p t (.delay d)) hnp' (by simpa [lstep] using hf); simpa [lstep] using this
      | openS => have := ih (lstep p t .openS) hnp' (by simpa [lstep] using hf); simpa [lstep] using this
      | doneS => have := ih (lstep p t .doneS) hnp' (by simpa [lstep] using hf); simpa [lstep] using this
  have := key es (lstep p s .write) hnp (by simp [lstep])
  simpa [lstep] using this

/-! ## Non-vacuity -/

-- dead peer, PermitWithoutStream: ping at Time, closed exactly at Time + Timeout
example : (run ⟨10, 20, true⟩ (KA.init ⟨10, 20, true⟩) [.delay 10, .fire, .delay 10, .fire, .delay 10, .fire]).2
    = [.ping 10, .close 30] := by decide
example : (after ⟨10, 20, true⟩ [.delay 10, .fire, .delay 10, .fire, .delay 9]).now = 29
    ∧ (after ⟨10, 20, true⟩ [.delay 10, .fire, .delay 10, .fire, .delay 9]).closed = false := by decide
example : Valid ⟨10, 20, true⟩ (KA.init ⟨10, 20, true⟩) [.delay 10, .fire, .delay 10, .fire, .delay 10, .fire] = true := by decide
-- healthy peer: a read exactly every Time
example : Healthy ⟨10, 3, true⟩ (0, 0) [.delay 10, .read, .fire, .delay 10, .read, .fire] := by
  simp [Healthy, clockStep]
-- the late wake closes at 35
example : (run ⟨10, 3, false⟩ (KA.init ⟨10, 3, false⟩)
    [.delay 10, .fire, .delay 10, .read, .delay 9, .openS, .delay 3, .fire, .fire, .delay 3, .fire]).2
    = [.ping 29, .ping 32, .close 35] := by decide
-- three strikes: first ping free, then three pings 1 ns apart with MinTime 5 and a stream open
example : (lrun ⟨5, false⟩ Ledger.init [.openS, .ping, .delay 1, .ping, .delay 1, .ping, .delay 1, .ping]).goaway = true := by decide
example : countStrikes ⟨5, false⟩ Ledger.init [.openS, .ping, .delay 1, .ping, .delay 1, .ping, .delay 1, .ping] = 3 := by decide
-- spaced exactly MinTime: no strike; two-hour rule without streams
example : Spaced ⟨5, false⟩ Ledger.init [.openS, .ping, .delay 5, .ping, .doneS, .delay 7200000000000, .ping] := by
  simp [Spaced, spacedPing, lstep, handlePing, Ledger.init, requiredLit, tooEarly]
example : (lrun ⟨5, false⟩ Ledger.init [.ping, .delay 7199999999999, .ping]).strikes = 1 := by decide

end GrpcProofs.C15
