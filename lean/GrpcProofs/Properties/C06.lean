/-
C06  gRPC message framing round-trips and size limits are enforced.
Property theorems only; helper lemmas are in GrpcProofs/Lemmas/Framing.lean.

Model: lean/GrpcModel/Model/Framing.lean (compress, msgHeader, parser.recvMsg, checkRecvPayload,
decompress incl. LimitReader(limit+1) and gzipDecompressor.doWithMaxSize, recvAndDecompress).
The compressor `f` / decompressor `dec` are parameters; the only thing assumed about them is the
stated hypothesis (`dec (f m) = some (m, false)`: decompressing a compressed message yields it and ends
without error). `Usable cfg` = a decompressor is configured and the peer announced a real grpc-encoding.
-/
import GrpcProofs.Lemmas.Framing
namespace GrpcProofs.C06
open GrpcModel.Framing GrpcModel.Generated GrpcProofs.Lemmas.Framing

/-- the sender's choice per message: compress it with `f` (`true`) or not -/
def compOf (f : Bytes → Bytes) (c : Bool) : Option (Bytes → Bytes) := if c then some f else none

/-- the byte stream produced by sending the items in order -/
def wire (f : Bytes → Bytes) : List (Bool × Bytes) → Bytes
  | [] => []
  | it :: rest => frame (compOf f it.1) it.2 ++ wire f rest

/-- **Round trip.** For every list of messages, each sent compressed or not, with every wire size and
    every decompressed size within the receive limit (and below 2^32, the range of the length prefix),
    the receiver yields exactly the messages, in order, and then io.EOF — whatever the compressor is,
    as long as the decompressor inverts it. -/
theorem parse_frames (cfg : Cfg) (dec : Decomp) (f : Bytes → Bytes) (items : List (Bool × Bytes))
    (hinv : ∀ m, dec (f m) = some (m, false))
    (huse : ∀ it ∈ items, it.1 = true → it.2 ≠ [] → Usable cfg)
    (hsize : ∀ it ∈ items, it.2.length ≤ cfg.limit ∧ (it.1 = true → (f it.2).length ≤ cfg.limit))
    (h32 : ∀ it ∈ items, it.2.length < 4294967296 ∧ (f it.2).length < 4294967296)
    (fuel : Nat) (hfuel : items.length < fuel) :
    recvAll cfg dec fuel (wire f items) = (items.map (·.2), .eof) := by
  induction items generalizing fuel with
  | nil =>
    obtain ⟨k, rfl⟩ : ∃ k, fuel = k + 1 := ⟨fuel - 1, by simp at hfuel; omega⟩
    simp [recvAll, wire, recvAD_def, recvMsg_nil, afterRecv]
  | cons it rest ih =>
    obtain ⟨k, rfl⟩ : ∃ k, fuel = k + 1 := ⟨fuel - 1, by simp at hfuel; omega⟩
    have hmem : it ∈ it :: rest := List.mem_cons_self
    have hfr := recv_frame cfg dec (compOf f it.1) it.2 (wire f rest)
      (by intro g hg; cases hc : it.1 <;> simp [compOf, hc] at hg; subst hg; exact hinv _)
      (by intro g hg hne; cases hc : it.1 <;> simp [compOf, hc] at hg; exact huse it hmem hc hne)
      (hsize it hmem).1
      (by intro g hg; cases hc : it.1 <;> simp [compOf, hc] at hg; subst hg; exact (hsize it hmem).2 hc)
      ⟨(h32 it hmem).1, by intro g hg; cases hc : it.1 <;> simp [compOf, hc] at hg; subst hg; exact (h32 it hmem).2⟩
    have ih' := ih (fun x hx => huse x (List.mem_cons_of_mem _ hx)) (fun x hx => hsize x (List.mem_cons_of_mem _ hx))
      (fun x hx => h32 x (List.mem_cons_of_mem _ hx)) k (by simp at hfuel; omega)
    simp only [recvAll, wire, hfr.1, hfr.2, ih', List.map_cons]

/-- **Nothing is silently misdecoded.** Whatever `recv` delivers is the payload of a complete frame
    at the head of the stream whose declared length is within the limit: verbatim when the flag is 0;
    when the flag is 1, only with a usable decompressor, and then the decompressor's complete,
    error-free output, itself within the limit. Exactly the frame's bytes are consumed. -/
theorem recv_ok_sound (cfg : Cfg) (dec : Decomp) (stream out : Bytes)
    (h : (recvAndDecompress cfg dec stream).res = .ok out) :
    ∃ (b0 : UInt8) (payload : Bytes),
      stream = b0 :: (be32 payload.length ++ payload) ++ (recvAndDecompress cfg dec stream).rest ∧
      payload.length ≤ cfg.limit ∧
      ((b0 = 0 ∧ out = payload) ∨
       (b0 = 1 ∧ Usable cfg ∧ dec payload = some (out, false) ∧ out.length ≤ cfg.limit)) := by
  by_cases hlen : 5 ≤ stream.length
  · obtain ⟨b0, L, tail, hL, rfl⟩ := stream_header stream hlen
    rw [recv_header cfg dec b0 L hL tail] at h ⊢
    by_cases h1 : L > cfg.limit
    · simp [h1] at h
    by_cases h2 : tail.length < L
    · simp [h1, h2] at h
    simp only [h1, h2, if_false] at h ⊢
    have hpl : (tail.take L).length = L := by rw [List.length_take]; omega
    have hst : b0 :: (be32 L ++ tail) = b0 :: (be32 (tail.take L).length ++ tail.take L) ++ tail.drop L := by
      rw [hpl]; simp
    cases hc : checkRecvPayload b0.toNat cfg.rc (cfg.path != .none) cfg.isServer with
    | some e => simp [hc] at h
    | none =>
      simp only [hc] at h ⊢
      by_cases hpf : b0.toNat = compressionMade
      · simp only [hpf, if_true] at h ⊢
        have hinv := decompress_ok_inv cfg.path dec cfg.limit (tail.take L) out h
        have hb : b0 = 1 := by
          have : b0.toNat = (1 : UInt8).toNat := by simpa [compressionMade] using hpf
          exact UInt8.toNat_inj.mp this
        have hu : Usable cfg := by
          refine ⟨hinv.1, ?_⟩
          rw [hpf] at hc
          cases hrc : cfg.rc <;> simp [checkRecvPayload, compressionNone, compressionMade, hrc] at hc ⊢
        exact ⟨b0, tail.take L, hst, by omega, Or.inr ⟨hb, hu, hinv.2.1, hinv.2.2⟩⟩
      · simp only [hpf, if_false] at h ⊢
        have hb : b0 = 0 := by
          have h0 : b0.toNat = 0 := by
            by_cases hz : b0.toNat = 0
            · exact hz
            · rw [check_unknown b0.toNat _ _ _ hz (by simpa [compressionMade] using hpf)] at hc; cases hc
          exact UInt8.toNat_inj.mp (by simpa using h0)
        have ho : out = tail.take L := by injection h with h; exact h.symm
        exact ⟨b0, tail.take L, hst, by omega, Or.inl ⟨hb, ho⟩⟩
  · exfalso
    by_cases h0 : stream = []
    · subst h0; simp [recvAD_def, recvMsg_nil, afterRecv] at h
    · simp [recvAD_def, recvMsg_short cfg.limit stream h0 (by omega), afterRecv] at h

/-- **Declared oversize.** A frame whose length prefix exceeds the limit fails with RESOURCE_EXHAUSTED,
    whatever its flag, whatever follows (nothing of the payload is read, nothing is decompressed). -/
theorem declared_oversize_is_resource_exhausted (cfg : Cfg) (dec : Decomp) (b0 : UInt8) (L : Nat) (tail : Bytes)
    (hL : L < 4294967296) (hover : cfg.limit < L) :
    (recvAndDecompress cfg dec (b0 :: (be32 L ++ tail))).res = .error .resourceExhausted ∧
    (recvAndDecompress cfg dec (b0 :: (be32 L ++ tail))).mat = 0 := by
  rw [recv_header cfg dec b0 L hL tail]; simp [hover]

/-- **Decompressed oversize.** A compressed frame within the wire limit whose payload decompresses to
    more than the limit fails with RESOURCE_EXHAUSTED on every decompressor path (for a third-party
    legacy `Decompressor` provided its `Do` returned the data without error). -/
theorem decompressed_oversize_is_resource_exhausted (cfg : Cfg) (dec : Decomp) (payload data rest : Bytes) (bad : Bool)
    (hu : Usable cfg) (hm : cfg.limit < maxInt64) (hw : payload.length ≤ cfg.limit) (h32 : payload.length < 4294967296)
    (hd : dec payload = some (data, bad)) (hover : cfg.limit < data.length)
    (hb : cfg.path = .legacyCustom → bad = false) :
    (recvAndDecompress cfg dec ((1 : UInt8) :: (be32 payload.length ++ (payload ++ rest)))).res
      = .error .resourceExhausted := by
  rw [recv_header cfg dec 1 payload.length h32 (payload ++ rest)]
  have a : ¬ payload.length > cfg.limit := by omega
  have b : ¬ (payload ++ rest).length < payload.length := by simp
  have hp : (cfg.path != Path.none) = true := (path_bne _).mpr hu.1
  simp only [a, b, if_false, show (1 : UInt8).toNat = 1 from rfl, hu.2, hp, check_made_usable]
  simp only [compressionMade, if_true, List.take_left']
  exact decompress_oversize cfg.path dec cfg.limit payload data bad hu.1 hm hd hover hb

/-- **Bounded materialisation.** On the `encoding.Compressor` path and with the built-in legacy gzip
    decompressor, one `recv` never materialises more than limit+1 decompressed bytes — for every stream
    and every decompressor behaviour (zip bombs included). -/
theorem materialised_le_limit_succ (cfg : Cfg) (dec : Decomp) (stream : Bytes)
    (hp : cfg.path = .newApi ∨ cfg.path = .legacyGzip) (hm : cfg.limit < maxInt64) :
    (recvAndDecompress cfg dec stream).mat ≤ cfg.limit + 1 ∧
    ∀ d, (decompress cfg.path dec cfg.limit d).2 ≤ cfg.limit + 1 := by
  refine ⟨?_, fun d => decompress_mat cfg.path dec cfg.limit d hp hm⟩
  rw [recvAD_def]
  generalize recvMsg cfg.limit stream = r
  obtain ⟨r1, rest⟩ := r
  cases r1 with
  | error e => simp [afterRecv]
  | ok p =>
    obtain ⟨pf, compressed⟩ := p
    simp only [afterRecv]
    split
    · simp
    · split
      · exact decompress_mat cfg.path dec cfg.limit compressed hp hm
      · simp

/-- The bound does NOT hold for a third-party legacy `grpc.Decompressor`: `dc.Do(r)` hands back the
    whole decompressed payload before the size check (limit 0, a 3-byte payload: 3 > 0+1). -/
theorem legacy_custom_materialises_all_counterexample :
    ¬ (∀ (dec : Decomp) (limit : Nat) (d : Bytes), (decompress .legacyCustom dec limit d).2 ≤ limit + 1) := by
  intro h
  have := h (fun _ => some ([0, 0, 0], false)) 0 []
  simp [decompress] at this

/-- **Compressed flag without a usable decompressor** (none configured, or grpc-encoding absent /
    identity) is an error, never a message. -/
theorem compressed_without_decompressor_is_error (cfg : Cfg) (dec : Decomp) (tail out : Bytes)
    (hu : ¬ Usable cfg) : (recvAndDecompress cfg dec ((1 : UInt8) :: tail)).res ≠ .ok out := by
  intro h
  obtain ⟨b0, payload, hst, _, hcase⟩ := recv_ok_sound cfg dec _ out h
  have hb : b0 = 1 := by
    have := congrArg List.head? hst
    simpa using this.symm
  rcases hcase with ⟨h0, _⟩ | ⟨_, hu', _⟩
  · rw [hb] at h0; exact absurd h0 (by decide)
  · exact hu hu'

/-- **Unknown flag value** (anything but 0 and 1) is an error, never a message. -/
theorem unknown_flag_is_error (cfg : Cfg) (dec : Decomp) (b0 : UInt8) (tail out : Bytes)
    (h0 : b0 ≠ 0) (h1 : b0 ≠ 1) : (recvAndDecompress cfg dec (b0 :: tail)).res ≠ .ok out := by
  intro h
  obtain ⟨b, payload, hst, _, hcase⟩ := recv_ok_sound cfg dec _ out h
  have hb : b = b0 := by
    have := congrArg List.head? hst
    simpa using this.symm
  rcases hcase with ⟨hz, _⟩ | ⟨ho, _⟩
  · exact h0 (hb ▸ hz)
  · exact h1 (hb ▸ ho)

/-- **Truncated streams.** The empty stream is the clean end (io.EOF); a partial header, or a complete
    header (declared length within the limit) followed by fewer bytes than declared, is
    io.ErrUnexpectedEOF — never a message and never a clean end. -/
theorem truncated_is_error_never_message (cfg : Cfg) (dec : Decomp) :
    (recvAndDecompress cfg dec []).res = .error .eof ∧
    (∀ s : Bytes, s ≠ [] → s.length < 5 → (recvAndDecompress cfg dec s).res = .error .unexpectedEOF) ∧
    (∀ (b0 : UInt8) (L : Nat) (part : Bytes), L < 4294967296 → L ≤ cfg.limit → part.length < L →
      (recvAndDecompress cfg dec (b0 :: (be32 L ++ part))).res = .error .unexpectedEOF) := by
  refine ⟨by simp [recvAD_def, recvMsg_nil, afterRecv], ?_, ?_⟩
  · intro s h0 h5; simp [recvAD_def, recvMsg_short cfg.limit s h0 h5, afterRecv]
  · intro b0 L part hL hlim hpart
    rw [recv_header cfg dec b0 L hL part]
    simp [Nat.not_lt.mpr hlim, hpart]

/-- **Sender.** The frame of a message is flag, big-endian length of the payload, payload; the flag is 1
    exactly when a compressor is configured and the message is non-empty; the length prefix reads back as
    the payload length whenever that is below 2^32 (`msgHeader` truncates with `uint32(…)` above). -/
theorem frame_length_prefix (comp : Option (Bytes → Bytes)) (m : Bytes) :
    (∃ (flag : UInt8) (payload : Bytes), frame comp m = flag :: (be32 payload.length ++ payload) ∧
      ((flag = 0 ∧ payload = m ∧ (comp = none ∨ m = [])) ∨ (flag = 1 ∧ m ≠ [] ∧ ∃ f, comp = some f ∧ payload = f m))) ∧
    (∀ n rest, n < 4294967296 → u32 (be32 n ++ rest) = n) := by
  refine ⟨?_, fun n rest h => u32_be32 n h rest⟩
  cases comp with
  | none => exact ⟨0, m, by simp [frame, compress, msgHeader, compressionNone, compressionMade], Or.inl ⟨rfl, rfl, Or.inl rfl⟩⟩
  | some f =>
    by_cases he : m.length = 0
    · have : m = [] := List.eq_nil_of_length_eq_zero he
      exact ⟨0, m, by simp [frame, compress, msgHeader, compressionNone, compressionMade, he], Or.inl ⟨rfl, rfl, Or.inr this⟩⟩
    · have hne : m ≠ [] := by intro h; exact he (by simp [h])
      exact ⟨1, f m, by simp [frame, compress, msgHeader, compressionMade, he], Or.inr ⟨rfl, hne, f, rfl, rfl⟩⟩

-- non-vacuity: a concrete compressor/decompressor pair satisfying the hypotheses, and both outcomes
example : recvAll ⟨10, .newApi, .named, false⟩ (fun p => some (p.map (· ^^^ 1), false)) 5
    (wire (fun m => m.map (· ^^^ 1)) [(true, [1, 2, 3]), (false, []), (false, [9])]) = ([[1, 2, 3], [], [9]], .eof) := by decide
/-- (only for the examples below: `Except` has no decidable equality) -/
def failsWith (r : Except Err Bytes) (e : Err) : Bool := match r with | .error e' => e' == e | .ok _ => false

example : failsWith (recvAndDecompress ⟨2, .none, .empty, false⟩ (fun _ => none) [0, 0, 0, 0, 3, 1, 2, 3]).res
    .resourceExhausted = true := by decide
example : failsWith (recvAndDecompress ⟨8, .newApi, .named, true⟩ (fun _ => some (List.replicate 100 0, false)) [1, 0, 0, 0, 1, 7]).res
    .resourceExhausted = true ∧
    (recvAndDecompress ⟨8, .newApi, .named, true⟩ (fun _ => some (List.replicate 100 0, false)) [1, 0, 0, 0, 1, 7]).mat = 9 := by decide
example : failsWith (recvAndDecompress ⟨8, .none, .named, true⟩ (fun _ => none) [1, 0, 0, 0, 1, 7]).res .unimplemented = true := by decide
example : failsWith (recvAndDecompress ⟨8, .newApi, .named, true⟩ (fun _ => none) [2, 0, 0, 0, 1, 7]).res .internal = true := by decide

end GrpcProofs.C06
