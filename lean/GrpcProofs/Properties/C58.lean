/-
C58  Security-requiring per-RPC credentials never go over weak connections.
Property theorems only; helper lemmas are in GrpcProofs/Lemmas/CredsPolicy.lean.

Vocabulary (GrpcModel/Model/CredsPolicy.lean):
  `c.weak`        the negotiated SecurityLevel is KNOWN and below PrivacyAndIntegrity
                  (the AuthInfo reports NoSecurity or IntegrityOnly);
  `c.strong`      the AuthInfo reports PrivacyAndIntegrity;
  `c.anyRequire`  some configured credential (WithPerRPCCredentials, the bundle's, the call
                  option's) has RequireTransportSecurity() = true;
  `rpc c`         what one RPC on a fresh channel does: `dialErr` (NewClient fails), `connErr`
                  (no transport: UNAVAILABLE), `rpcErr` (createHeaderFields fails: nothing is
                  written) or `sent tr call inv` (the credential header fields that are written).
-/
import GrpcProofs.Lemmas.CredsPolicy
namespace GrpcProofs.C58
open GrpcModel.CredsPolicy GrpcModel.Generated GrpcProofs.Lemmas.CredsPolicy

/-- T4: the order of the SecurityLevel constants in credentials.go is what the property assumes:
    Invalid(0) < NoSecurity(1) < IntegrityOnly(2) < PrivacyAndIntegrity(3). -/
theorem security_level_order :
    securityLevelNames = ["InvalidSecurityLevel", "NoSecurity", "IntegrityOnly", "PrivacyAndIntegrity"]
    ∧ Level.num .invalid = 0 ∧ Level.num .none = 1 ∧ Level.num .integrityOnly = 2
    ∧ Level.num .privacyAndIntegrity = 3 := by decide

/-! ### the finite table -/

/-- a credential slot: absent, present without / with RequireTransportSecurity -/
inductive Req | absent | no | yes
deriving DecidableEq, Repr

/-- one cell of the property's configuration table -/
structure Cell where
  tkind : TKind
  via : Via
  dial : Req
  bundle : Req
  call : Req

def Req.list : Req → List Cred
  | .absent => [] | .no => [⟨false, []⟩] | .yes => [⟨true, []⟩]
def Req.opt : Req → Option Cred
  | .absent => none | .no => some ⟨false, []⟩ | .yes => some ⟨true, []⟩

def Cell.toConfig (x : Cell) : Config :=
  { tkind := x.tkind, via := x.via, dial := x.dial.list, bundle := x.bundle.opt, call := x.call.opt }

/-- the decision for a cell, in the property's vocabulary (see `specCore`) -/
def spec (x : Cell) : Class :=
  specCore x.tkind x.via (x.dial == .yes) (x.via.hasBundle && x.bundle == .yes) (x.call == .yes)

/-- THE WHOLE TABLE, cell by cell (17 transport kinds × 5 ways of configuring × 3 × 3 × 3 credential
    slots = 2295 cells, each evaluated by the kernel): the ported code takes exactly the decision
    `spec` says. The quantifier of the property is this finite table, so this is a proof. -/
theorem decision_table (x : Cell) : classOf (rpc x.toConfig) = spec x := by
  obtain ⟨tk, via, d, b, c⟩ := x
  cases tk with
  | custom p a =>
    cases p <;> cases a with
    | common l => cases l <;> cases via <;> cases d <;> cases b <;> cases c <;> decide
    | _ => cases via <;> cases d <;> cases b <;> cases c <;> decide
  | _ => cases via <;> cases d <;> cases b <;> cases c <;> decide

/-- Lifting the table to EVERY configuration — any number of dial-level credentials, arbitrary
    well-formed metadata: the outcome class depends only on the cell the configuration falls in. -/
theorem rpc_class_eq_table (c : Config) (hv : c.validMD = true) :
    classOf (rpc c) = specCore c.tkind c.via (c.dial.any (·.require)) (bundleReq c) (callReq c) :=
  rpc_class c hv

/-! ### the property -/

/-- Clause 1 (all configurations, all metadata, valid or not): if credential header fields are
    written at all, then no configured credential requires transport security or the connection's
    level is not known to be below PrivacyAndIntegrity. -/
theorem never_sent_below_privacy_and_integrity (c : Config) (h : (rpc c).isSent = true) :
    ¬ (c.weak = true ∧ c.anyRequire = true) := by
  intro ⟨hw, hr⟩
  cases hrpc : rpc c with
  | sent tr call inv =>
    obtain ⟨_, ai, hh, h1, h2, _, _⟩ := sent_inv c tr call inv hrpc
    have haw : ai.weak = true := by simpa [Config.weak, hh] using hw
    rw [anyRequire_eq] at hr
    simp only [haw, Bool.and_true, Bool.true_or] at h1 h2
    rw [h1, h2] at hr
    simp at hr
  | _ => rw [hrpc] at h; simp [Outcome.isSent] at h

/-- Clause 2: on a connection known to be below PrivacyAndIntegrity with a security-requiring
    credential configured, the RPC (or the dial, or the connection) FAILS and nothing is written —
    the outcome is one of the error constructors, none of which carries a header field. With
    well-formed metadata the failure is exactly: NewClient error (dial-level credential on
    "insecure" protocol credentials), connection error "cannot send secure credentials on an
    insecure connection" (dial-level/bundle credential), or UNAUTHENTICATED (call credential). -/
theorem fails_before_any_credential_metadata (c : Config) (hw : c.weak = true) (hr : c.anyRequire = true) :
    (rpc c).isSent = false ∧
    (c.validMD = true →
      (∃ e, classOf (rpc c) = .dialErr e) ∨ classOf (rpc c) = .connErr .insecureCreds ∨ classOf (rpc c) = .unauth) := by
  constructor
  · cases h : (rpc c).isSent with
    | false => rfl
    | true => exact absurd ⟨hw, hr⟩ (never_sent_below_privacy_and_integrity c h)
  · intro hv
    rw [rpc_class c hv]
    rw [anyRequire_eq] at hr
    unfold Config.weak at hw
    unfold specCore
    cases hh : c.tkind.handshake with
    | none => simp [hh] at hw
    | some ai =>
      have haw : ai.weak = true := by simpa [hh] using hw
      simp only [haw, Bool.and_true, Bool.true_or]
      cases h1 : (!c.via.hasTC && !c.via.hasBundle) <;> cases h2 : (c.via.hasTC && c.via.hasBundle) <;>
        cases h3 : (c.via.hasBundle && !c.via.bundleHasTC) <;> cases h4 : c.tkind.protoInsecure <;>
        cases h5 : c.dial.any (·.require) <;> cases h6 : bundleReq c <;> cases h7 : callReq c <;>
        simp_all

/-- …and the call credential's GetRequestMetadata is not even invoked in that case. -/
theorem weak_call_cred_never_invoked (c : Config) (hw : c.weak = true) (hr : callReq c = true) :
    Name.c ∉ (rpc c).inv :=
  weak_call_not_invoked c hw hr

/-- Clause 3a: on a PrivacyAndIntegrity connection, correctly configured, with well-formed
    metadata, the RPC is sent whatever the credentials require. -/
theorem sent_on_strong_connection (c : Config) (hs : c.strong = true) (hv : c.validMD = true)
    (hd : validateTransportCredentials c = none) : (rpc c).isSent = true := by
  have hcls := rpc_class c hv
  have hh : c.tkind.handshake = some (.common .privacyAndIntegrity) := by simpa [Config.strong] using hs
  have hspec : specCore c.tkind c.via (c.dial.any (·.require)) (bundleReq c) (callReq c) = .sent := by
    unfold validateTransportCredentials at hd
    unfold specCore
    rw [hh]
    cases h1 : (!c.via.hasTC && !c.via.hasBundle) <;> cases h2 : (c.via.hasTC && c.via.hasBundle) <;>
      cases h3 : (c.via.hasBundle && !c.via.bundleHasTC) <;>
      cases h4 : (c.tkind.protoInsecure && c.dial.any (·.require)) <;>
      simp_all [Auth.weak]
  rw [hspec] at hcls
  cases hrpc : rpc c <;> rw [hrpc] at hcls <;> simp [classOf, Outcome.isSent] at hcls ⊢
  rename_i code inv
  cases code <;> simp at hcls

/-- Clause 3b ("delivered unchanged"): whenever header fields are written, the connection-level
    map holds for every key exactly the value assigned last by the connection-level credentials
    (in configuration order, keys ASCII-lower-cased, values byte-identical), and the call-level
    map the same for the call credential. Nothing is dropped, nothing altered. -/
theorem delivered_unchanged_when_allowed (c : Config) (tr call : AuthMap) (inv : List Name)
    (h : rpc c = .sent tr call inv) (k : Key) :
    get? tr k = overlay none ((connCreds c).flatMap (·.2.md)) k ∧
    get? call k = overlay none (callMD c) k := by
  obtain ⟨_, ai, _, _, _, ⟨inv1, htr⟩, hcall⟩ := sent_inv c tr call inv h
  exact ⟨getTrAuthData_get? _ _ _ _ htr k, addPairs_get? _ _ _ hcall k⟩

/-- Clause 3c: every header field written comes from a configured credential's pair (lower-cased
    key, same value) that passed ValidatePair — nothing is invented. -/
theorem nothing_invented (c : Config) (tr call : AuthMap) (inv : List Name)
    (h : rpc c = .sent tr call inv) (x : Key × Bytes) (hx : x ∈ tr ++ call) :
    ∃ cr ∈ c.allCreds, ∃ kv ∈ cr.md, x = (lowerKey kv.1, kv.2) ∧ validatePair (lowerKey kv.1) kv.2 = true := by
  obtain ⟨_, ai, _, _, _, ⟨inv1, htr⟩, hcall⟩ := sent_inv c tr call inv h
  rcases List.mem_append.1 hx with hx | hx
  · rcases mem_getTrAuthData htr hx with h0 | ⟨nc, hnc, kv, hkv, he⟩
    · cases h0
    · exact ⟨nc.2, connCreds_sub_allCreds c hnc, kv, hkv, he⟩
  · rcases mem_addPairs hcall hx with h0 | ⟨kv, hkv, he⟩
    · cases h0
    · cases hc : c.call with
      | none => simp [callMD, hc] at hkv
      | some cr =>
        refine ⟨cr, ?_, kv, by simpa [callMD, hc] using hkv, he⟩
        simp [Config.allCreds, hc]

/-- The reading, stated so that it cannot hide: levels that are UNKNOWN are accepted by the code.
    InvalidSecurityLevel and AuthInfo types without GetCommonAuthInfo: every credential is sent;
    nil AuthInfo: dial-level requiring credentials are sent, a requiring call credential fails
    UNAUTHENTICATED. (Whether that is desirable is outside the statement: C58 speaks of a
    negotiated level "below" PrivacyAndIntegrity.) -/
theorem unknown_level_reading (d b cl : Req) :
    spec ⟨.custom false (.common .invalid), .bundle, d, b, cl⟩ = .sent ∧
    spec ⟨.custom false .noCommon, .bundle, d, b, cl⟩ = .sent ∧
    spec ⟨.custom false .nilInfo, .bundle, d, b, .no⟩ = .sent ∧
    spec ⟨.custom false .nilInfo, .bundle, d, b, .yes⟩ = .unauth := by
  cases d <;> cases b <;> cases cl <;> decide

-- non-vacuity: the hypotheses are satisfiable and the branches are all reachable
example : (rpc ⟨.tls, .opt, [⟨true, [("Authorization".toList, [116])]⟩], none, some ⟨true, [("x-c".toList, [126])]⟩⟩).isSent = true := by decide
example : rpc ⟨.insecure, .opt, [⟨true, []⟩], none, none⟩ = .dialErr .missing := by decide
example : rpc ⟨.insecure, .bundle, [], some ⟨true, []⟩, none⟩ = .connErr .insecureCreds := by decide
example : rpc ⟨.localTCP, .opt, [⟨false, []⟩], none, some ⟨true, []⟩⟩ = .rpcErr .unauthenticated [.d 0] := by decide
example : rpc ⟨.custom false (.common .integrityOnly), .opt, [], none, some ⟨true, []⟩⟩ = .rpcErr .unauthenticated [] := by decide
example : rpc ⟨.localUDS, .opt, [⟨true, [("K".toList, [0])]⟩], none, none⟩ = .rpcErr .internal [.d 0] := by decide
example : (⟨.localTCP, .opt, [], none, some ⟨true, []⟩⟩ : Config).weak = true ∧
          (⟨.localTCP, .opt, [], none, some ⟨true, []⟩⟩ : Config).anyRequire = true := by decide
example : (⟨.tls, .opt, [], none, none⟩ : Config).strong = true := by decide

end GrpcProofs.C58
