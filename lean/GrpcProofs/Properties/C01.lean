import GrpcProofs.Lemmas.LoopyC01
/-!
# C01  Outbound DATA never exceeds the peer's flow-control windows

Model: `GrpcModel/Model/Loopy.lean` (port of `loopyWriter` in internal/transport/controlbuf.go).
Property predicate: `GrpcModel.Loopy.C01` in `GrpcModel/Model/LoopySpec.lean` — the PEER's ledger (RFC 7540 §6.9):
connection window `65535 + Σ WINDOW_UPDATE(0) − Σ DATA`, per stream `initial window at open + Σ WINDOW_UPDATE(id) +
Σ (new − old SETTINGS_INITIAL_WINDOW_SIZE) − Σ DATA(id)`; a DATA frame must fit both (an empty one always may be
sent), no DATA frame is larger than 16384 bytes and no HEADERS/CONTINUATION fragment is larger than 16384 bytes.
The ledger is computed from the observable trace only (control items in, frames out), never from the writer's state.

All theorems quantify over the side (client/server) and over EVERY finite history `ops : List Op` of control items and
`processData` calls: any interleaving of application writes of any sizes on any number of streams, WINDOW_UPDATEs
(including ones that wrap the writer's uint32 `sendQuota`), SETTINGS that raise or lower the initial window, resets,
trailers, GOAWAYs, and of the map iteration order in `applySettings` (the `order` oracle) and every HPACK block length
(the `hb` oracle).  No hypothesis on the history is needed.
-/
namespace GrpcProofs.C01
open GrpcModel.Loopy GrpcModel.Loopy.C01 GrpcProofs.Loopy

/-- **C01.** The trace of every history satisfies the executable C01 predicate (the one the monitor evaluates on the real
writer's frames): no DATA frame exceeds the peer's connection window or its stream's window, none is larger than
16384 bytes, no header fragment is larger than 16384 bytes. -/
theorem c01_holds (side : Side) (ops : List Op) : C01.holds (trace side ops) = true := by
  have := (runFrom_led (led_init side) ops).1
  simp only [holds, trace, run, this, Option.isNone_none]

/-- The ledger invariant behind it, at the end of every history: unless `run()` has returned, `sendQuota` is at most the peer's
connection window (equal up to the uint32 wrap-around of `sendQuota += increment`, which only ever loses credit), and for
every established stream `oiws − bytesOutStanding` IS the peer's window for that stream. -/
theorem ledger_invariant (side : Side) (ops : List Op) :
    let s := final side ops
    let p := (runMon Peer.init (trace side ops)).1
    s.closed = true ∨ ((s.sendQuota : Int) ≤ p.conn ∧ p.iws = s.oiws ∧ ∀ id ∈ s.keys, p.win id = some (s.quota id)) := by
  have := (runFrom_led (led_init side) ops).2
  rcases this with h | h
  · exact Or.inl h
  · exact Or.inr ⟨h.conn, h.iws, h.win⟩

/-- The peer-granted connection window never goes negative. -/
theorem conn_window_never_negative (side : Side) (ops : List Op) :
    0 ≤ (runMon Peer.init (trace side ops)).1.conn :=
  runMon_conn_nonneg _ (by decide)

/-- Every DATA frame the writer emits, at any point of any history, fits the peer's connection window and its stream's window
as they stand just before the frame (or is empty). `pa` is the ledger after everything that precedes the frame. -/
theorem data_within_windows (side : Side) (ops : List Op) (pre post : List (Op × List Out)) (op : Op) (a b : List Out)
    (id off size : Nat) (es : Bool) (htr : trace side ops = pre ++ (op, a ++ .data id off size es :: b) :: post) :
    ∃ pa, ((runMon Peer.init pre).1.recv op (a ++ .data id off size es :: b)).sendAll a = (pa, none) ∧
      (size = 0 ∨ ((size : Int) ≤ pa.conn ∧ ∃ w, pa.win id = some w ∧ (size : Int) ≤ w)) := by
  have h := c01_holds side ops
  simp only [holds, htr, Option.isNone_iff_eq_none] at h
  obtain ⟨pa, h1, _, h3⟩ := runMon_ok_frame h
  exact ⟨pa, h1, h3⟩

theorem mem_trace_split {tr : List (Op × List Out)} {op : Op} {outs : List Out} {o : Out}
    (h1 : (op, outs) ∈ tr) (h2 : o ∈ outs) : ∃ pre post a b, tr = pre ++ (op, a ++ o :: b) :: post := by
  obtain ⟨pre, post, rfl⟩ := List.append_of_mem h1
  obtain ⟨a, b, rfl⟩ := List.append_of_mem h2
  exact ⟨pre, post, a, b, rfl⟩

/-- No DATA frame is larger than 16 KiB. -/
theorem data_frame_le_16384 (side : Side) (ops : List Op) (op : Op) (outs : List Out) (id off size : Nat) (es : Bool)
    (h1 : (op, outs) ∈ trace side ops) (h2 : Out.data id off size es ∈ outs) : size ≤ 16384 := by
  obtain ⟨pre, post, a, b, htr⟩ := mem_trace_split h1 h2
  have h := c01_holds side ops
  simp only [holds, htr, Option.isNone_iff_eq_none] at h
  obtain ⟨_, _, hf, _⟩ := runMon_ok_frame h
  exact hf

/-- No HEADERS/CONTINUATION fragment exceeds the frame size, whatever the HPACK block length. -/
theorem header_fragment_le_16384 (side : Side) (ops : List Op) (op : Op) (outs : List Out) (id : Nat) (es : Bool)
    (frags : List Nat) (h1 : (op, outs) ∈ trace side ops) (h2 : Out.headers id es frags ∈ outs) :
    ∀ x ∈ frags, x ≤ 16384 := by
  obtain ⟨pre, post, a, b, htr⟩ := mem_trace_split h1 h2
  have h := c01_holds side ops
  simp only [holds, htr, Option.isNone_iff_eq_none] at h
  obtain ⟨_, _, hf, _⟩ := runMon_ok_frame h
  exact hf

/-- `writeHeader` splits a block of any length into fragments of at most 16384 bytes that add up to the block. -/
theorem header_split_exact (L : Nat) :
    (headerFrags maxFrameLen L).sum = L ∧ ∀ x ∈ headerFrags maxFrameLen L, x ≤ 16384 := by
  refine ⟨headerFrags_sum _ _, ?_⟩
  have := headerFrags_le (m := maxFrameLen) (by decide) L
  rw [maxFrameLen_eq] at this
  exact this

/-! ### non-vacuity: the predicate is falsifiable and the model does write data -/

/-- a frame one byte over the stream window is rejected -/
example : C01.holds [(.register 1, []), (.settings [(4, 10)] [], [.settingsAck]), (.tick 0, [.data 1 0 11 false])] = false := by
  decide
/-- a frame one byte over the connection window is rejected -/
example : C01.holds [(.register 1, []), (.register 3, []), (.winUpdate 1 100000, []), (.winUpdate 3 100000, []),
    (.tick 0, [.data 1 0 16384 false]), (.tick 0, [.data 1 16384 16384 false]), (.tick 0, [.data 1 32768 16384 false]),
    (.tick 0, [.data 3 0 16383 false]), (.tick 0, [.data 3 16383 1 false])] = false := by
  decide
/-- lowering the initial window below what is in flight makes the stream window negative: only empty frames may follow -/
example : C01.holds [(.register 1, []), (.tick 0, [.data 1 0 100 false]), (.settings [(4, 50)] [], [.settingsAck]),
    (.tick 0, [.data 1 100 0 true])] = true := by decide
example : C01.holds [(.register 1, []), (.tick 0, [.data 1 0 100 false]), (.settings [(4, 50)] [], [.settingsAck]),
    (.tick 0, [.data 1 100 1 false])] = false := by decide
example : C01.holds [(.tick 0, [.data 1 0 16385 false])] = false := by decide
example : C01.holds [(.register 1, []), (.serverHeaders 1 false 16385 false 0, [.headers 1 false [16385]])] = false := by decide
/-- the model really emits DATA, clamped by the stream window (10), then waits -/
example : (trace .server [.register 1, .settings [(4, 10)] [], .data 1 5 100 false, .tick 0, .tick 0]).map (·.2) =
    [[], [.settingsAck], [], [.cb .onEachWrite 1, .data 1 0 10 false], []] := by decide

end GrpcProofs.C01
