import GrpcModel.Model.LoopySpec
namespace GrpcProofs.C01
open GrpcModel.Loopy
theorem placeholder : C01.holds [] = true := by decide
end GrpcProofs.C01
