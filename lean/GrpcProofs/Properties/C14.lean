/-
C14  GOAWAY and graceful drain never lose or double-run accepted work — CLIENT half.

Model: GrpcModel/Model/ClientConn.lean (`http2Client` as a per-connection state machine; one event
= one critical section of reader / loopy / NewStream / Close, so `run s es` ranges over every
interleaving and every frame sequence).  Helper lemmas: GrpcProofs/Lemmas/ClientConn*.lean.

Statement (client part): after a client receives GOAWAY(last-stream-id N) it opens no new stream on
that connection, streams with id <= N are not failed by the GOAWAY, streams with id > N fail as
unprocessed; a later GOAWAY with a larger id is a connection error.

The last clause is FALSE of the code as it is: `handleGoAway` returns the connection error, the
reader loop stores it in `errClose` and goes on reading (`case *http2.GoAwayFrame: errClose =
t.handleGoAway(frame)` without `return`), so the connection is not closed.  See
`second_goaway_larger_is_conn_error_counterexample` and the `_partial` next to it.
-/
import GrpcProofs.Lemmas.ClientConnGoAway
namespace GrpcProofs.C14
open GrpcModel.ClientConn GrpcProofs.Lemmas.ClientConn

/-- The reader goroutine is alive, the transport is not closing, and `handleGoAway` does not reject the
frame (non-zero even id; id above the previous GOAWAY's). -/
def Accepted (s : State) (n : Nat) : Prop :=
  s.readerDone = false ∧ s.tstate ≠ .closing ∧ ¬(n > 0 ∧ n % 2 = 0) ∧ ¬(s.goAwayClosed = true ∧ n > s.prevGoAwayID)

/-- `upperLimit` of `handleGoAway` -/
def upper (s : State) : Nat := if s.prevGoAwayID = 0 then maxU32 else s.prevGoAwayID

theorem activeCount_pos {s : State} {i : Nat} {x : Strm} (hx : s.streams[i]? = some x) (ha : x.inActive = true) :
    s.activeCount ≠ 0 := by
  unfold State.activeCount
  have hm : x ∈ s.streams := List.mem_of_getElem? hx
  have : x ∈ s.streams.filter (·.inActive) := List.mem_filter.mpr ⟨hm, ha⟩
  intro h0
  have := List.eq_nil_of_length_eq_zero h0
  simp_all

/-- The connection errors `handleGoAway` reports are acted upon (`s.errCloses`, read off the source of
`reader` by T4) only in a tree where the reader loop returns after the call. -/
theorem snapF_same (x : Strm) : (snapF x).id = x.id ∧ (snapF x).term = x.term ∧ (snapF x).unprocessed = x.unprocessed := by
  simp [snapF]

/-- the reader returning (`close(readerDone)`, `Close(errClose)`) does not touch identity or outcome of any stream -/
theorem readerExit_get {s : State} {i : Nat} {x : Strm} (hx : s.streams[i]? = some x) :
    ∃ y, s.readerExit.streams[i]? = some y ∧ (y = x ∨ y = snapF x) := by
  unfold State.readerExit
  split
  · exact ⟨x, hx, Or.inl rfl⟩
  · rw [closeP1_streams]
    split
    · exact ⟨x, hx, Or.inl rfl⟩
    · exact ⟨snapF x, by simp [hx], Or.inr rfl⟩

/-- What `handleGoAway` does, on an accepted GOAWAY(n), to the stream at index `i`, and whether it
reports the "no active streams" error. -/
theorem handleGoAway_get {s : State} {n : Nat} (c : Nat) (d : Bytes) (h : Accepted s n) {i : Nat} {x : Strm}
    (hx : s.streams[i]? = some x) :
    (s.handleGoAway n c d).1.streams[i]? =
      some (if s.activeCount ≠ 0 ∧ isVictim n (upper s) x = true then closeF (some cUnavailable) cUnavailable (markF x) else x)
    ∧ (s.handleGoAway n c d).2 = (s.activeCount == 0) := by
  obtain ⟨h1, h2, h3, h4⟩ := h
  have h4' : ¬(s.goAwayClosed = true ∧ s.prevGoAwayID < n) := h4
  simp only [State.handleGoAway, h2]
  simp only [Bool.and_eq_true, decide_eq_true_eq, h3, h4', if_false]
  split
  · exact ⟨by rw [goAwayKill_get (hx := hx)]; rfl, goAwayKill_err ..⟩
  · refine ⟨?_, ?_⟩
    · rw [put_streams, goAwayKill_get (hx := by simpa using hx), activeCount_congr (goAwayFirst_streams ..)]
      unfold upper
      congr 1
    · rw [goAwayKill_err, activeCount_congr (goAwayFirst_streams ..)]

theorem handleGoAway_state {s : State} (hr : Reach s) {n : Nat} (c : Nat) (d : Bytes) (h : Accepted s n) :
    (s.handleGoAway n c d).1.tstate ≠ .reachable ∧ (s.handleGoAway n c d).1.goAwayClosed = true := by
  obtain ⟨h1, h2, h3, h4⟩ := h
  have h4' : ¬(s.goAwayClosed = true ∧ s.prevGoAwayID < n) := h4
  simp only [State.handleGoAway, h2]
  simp only [Bool.and_eq_true, decide_eq_true_eq, h3, h4', if_false]
  split
  · rename_i hg
    simp only [goAwayKill_tstate, goAwayKill_ga, hg, and_true]
    exact hr.ga_notReachable hg
  · simp [goAwayFirst_tstate]

/-- **No new stream after GOAWAY.**  Once a GOAWAY has been accepted the transport is never `reachable`
again, and along every continuation (`es` arbitrary: more frames, NewStream calls racing with it,
loopy, Close …) no stream id is allocated and the set of streams is unchanged. -/
theorem no_new_stream_after_goaway {s : State} (hr : Reach s) {n : Nat} (c : Nat) (d : Bytes) (h : Accepted s n) (es : List Ev) :
    let s1 := s.onFrame (.goAway n c d)
    s1.tstate ≠ .reachable ∧ s1.goAwayClosed = true ∧
    (run s1 es).tstate ≠ .reachable ∧ (run s1 es).nextID = s1.nextID ∧
    (run s1 es).streams.map (·.id) = s1.streams.map (·.id) := by
  intro s1
  have ht : s1.tstate ≠ .reachable ∧ s1.goAwayClosed = true := by
    have hs := handleGoAway_state hr c d h
    simp only [s1, State.onFrame, h.1, Bool.false_eq_true, if_false]
    split
    · have hm := mono_readerExit (s.handleGoAway n c d).1
      exact ⟨hm.notReach hs.1, hm.ga hs.2⟩
    · exact hs
  have hm := mono_run s1 es
  refine ⟨ht.1, ht.2, hm.notReach ht.1, (hm.frozen ht.1).1, ?_⟩
  have hl := (hm.frozen ht.1).2
  apply List.ext_getElem?
  intro i
  simp only [List.getElem?_map]
  cases hx : s1.streams[i]? with
  | none =>
    have : (run s1 es).streams[i]? = none := by
      rw [List.getElem?_eq_none_iff] at hx ⊢; omega
    simp [this]
  | some x =>
    obtain ⟨y, hy, hid, _⟩ := hm.str.2 i x hx
    simp [hy, hid]

/-- **Streams with id ≤ N are not failed by the GOAWAY**: the frame leaves their identity, outcome
(`term`: none = still running) and Unprocessed flag as they were; if any stream is still in
`activeStreams` the whole record is untouched. -/
theorem le_N_not_failed_by_goaway {s : State} {n : Nat} (c : Nat) (d : Bytes) (h : Accepted s n) {i : Nat} {x : Strm}
    (hx : s.streams[i]? = some x) (hle : x.id ≤ n) :
    ∃ y, (s.onFrame (.goAway n c d)).streams[i]? = some y ∧ y.id = x.id ∧ y.term = x.term ∧
      y.unprocessed = x.unprocessed ∧ (s.activeCount ≠ 0 → y = x) := by
  have hv : isVictim n (upper s) x = false := by
    simp [isVictim]; intro _ h2; omega
  obtain ⟨hg, he⟩ := handleGoAway_get c d h hx
  simp only [hv, Bool.false_eq_true, and_false, if_false] at hg
  simp only [State.onFrame, h.1, Bool.false_eq_true, if_false]
  split
  · rename_i hc
    obtain ⟨y, hy, hyx⟩ := readerExit_get hg
    refine ⟨y, hy, ?_⟩
    have h0 : s.activeCount = 0 := by simp [he] at hc; exact hc.2
    rcases hyx with rfl | rfl
    · simp
    · simp [snapF, h0]
  · exact ⟨x, hg, rfl, rfl, rfl, fun _ => rfl⟩

/-- **Streams with id > N fail as unprocessed**: every stream still in `activeStreams` that has no
outcome yet and whose id is above N (and not above the previous GOAWAY's id, if any) ends with
UNAVAILABLE and `Unprocessed() = true` (eligible for transparent retry). -/
theorem gt_N_unprocessed {s : State} {n : Nat} (c : Nat) (d : Bytes) (h : Accepted s n) {i : Nat} {x : Strm}
    (hx : s.streams[i]? = some x) (ha : x.inActive = true) (hterm : x.term = none) (hgt : n < x.id) (hup : x.id ≤ upper s) :
    ∃ y, (s.onFrame (.goAway n c d)).streams[i]? = some y ∧ y.id = x.id ∧
      y.term = some { err := some 14, status := some 14 } ∧ y.unprocessed = true := by
  have hv : isVictim n (upper s) x = true := by simp [isVictim, ha, hgt, hup]
  obtain ⟨hg, he⟩ := handleGoAway_get c d h hx
  have hac := activeCount_pos hx ha
  have he' : (s.handleGoAway n c d).2 = false := by simp [he, hac]
  simp only [State.onFrame, h.1, Bool.false_eq_true, if_false, he', Bool.and_false]
  refine ⟨_, hg, ?_⟩
  simp [hac, hv, closeF, markF, hterm, cUnavailable_eq]

/-- …and a stream that already had its outcome keeps it (`closeStream` is idempotent). -/
theorem goaway_keeps_outcome {s : State} {n : Nat} (c : Nat) (d : Bytes) {i : Nat} {x : Strm} {t : Term}
    (hx : s.streams[i]? = some x) (hterm : x.term = some t) :
    ∃ y, (s.onFrame (.goAway n c d)).streams[i]? = some y ∧ y.term = some t := by
  obtain ⟨y, hy, _, _, ht⟩ := (mono_onFrame s (.goAway n c d)).str.2 i x hx
  exact ⟨y, hy, ht t hterm⟩


/-- **A later GOAWAY with a larger id is a connection error** — in a tree whose reader loop returns when
`handleGoAway` reports an error (`errCloses`): the reader exits and `Close` starts (state `closing`;
C11's `every_stream_gets_a_status` then gives every stream its outcome). -/
theorem second_goaway_larger_is_conn_error {s : State} {n : Nat} (c : Nat) (d : Bytes)
    (hfix : s.errCloses = true)
    (h1 : s.readerDone = false) (h2 : s.tstate ≠ .closing)
    (hga : s.goAwayClosed = true) (hgt : n > s.prevGoAwayID) :
    (s.onFrame (.goAway n c d)).readerDone = true ∧ (s.onFrame (.goAway n c d)).tstate = .closing := by
  have hgt' : s.prevGoAwayID < n := hgt
  have : (s.handleGoAway n c d).2 = true := by
    simp only [State.handleGoAway, h2]; splits <;> simp_all
  simp only [State.onFrame, h1, Bool.false_eq_true, if_false, hfix, this, Bool.and_self, if_true]
  have hrd : (s.handleGoAway n c d).1.readerDone = false := by
    simp only [State.handleGoAway, h2]; splits <;> simp_all
  simp only [State.readerExit, hrd, Bool.false_eq_true, if_false]
  exact ⟨by rw [closeP1_readerDone], closeP1_tstate ..⟩

/-- What the code AS IT IS (`errCloses = false`: `errClose = t.handleGoAway(frame)` without `return`) does
with a later GOAWAY whose id exceeds the previous one's: `handleGoAway` returns its connection error
(counted in `goAwayErrs`) and *nothing else changes*: no stream is touched, the transport state,
`prevGoAwayID` and the control buffer are as before, the reader keeps reading.

Full statement (false for this code, see the counterexample below): "… and the connection is closed". -/
theorem second_goaway_larger_is_conn_error_partial {s : State} {n : Nat} (c : Nat) (d : Bytes)
    (hnofix : s.errCloses = false)
    (h1 : s.readerDone = false) (h2 : s.tstate ≠ .closing) (hev : ¬(n > 0 ∧ n % 2 = 0))
    (hga : s.goAwayClosed = true) (hgt : n > s.prevGoAwayID) :
    s.onFrame (.goAway n c d) = { s with goAwayErrs := s.goAwayErrs + 1 } := by
  have hgt' : s.prevGoAwayID < n := hgt
  simp [State.onFrame, h1, State.handleGoAway, h2, hev, hga, hgt', hnofix]

/-- one stream, GOAWAY(1), then GOAWAY(3) -/
def witness : List Ev :=
  [.newRPC false none, .loopy, .flush, .frame (.goAway 1 0 []), .loopy, .frame (.goAway 3 0 [])]

/-- **A later GOAWAY with a larger id is NOT treated as a connection error by the code as it is**
(`errCloses = false`).  After GOAWAY(1), GOAWAY(3): the error was detected (`goAwayErrs = 1`) but the
transport is still `draining` (not `closing`), the reader is alive, stream 1 is still open, and no
internal event can close the connection (loopy idle, `Close` never started). -/
theorem second_goaway_larger_is_conn_error_counterexample :
    ¬ (∀ (s : State) (n c : Nat) (d : Bytes), s.errCloses = false → s.readerDone = false → s.tstate ≠ .closing →
        s.goAwayClosed = true → n > s.prevGoAwayID →
        ((s.onFrame (.goAway n c d)).readerDone = true ∨ (s.onFrame (.goAway n c d)).tstate = .closing)) := by
  intro h
  have := h (run (init false 400 none none) (witness.take 5)) 3 0 [] (by decide) (by decide) (by decide) (by decide) (by decide)
  revert this
  decide

theorem witness_state :
    let s := run (init false 400 none none) witness
    s.goAwayErrs = 1 ∧ s.tstate = .draining ∧ s.readerDone = false ∧ s.closeP = .none ∧ s.cbuf = [] ∧
    s.connClosed = false ∧ (s.streams.map (·.term)) = [none] := by decide

/-- the tree this revision was checked against is the unfixed one (T4: no `return` after
`t.handleGoAway(frame)` in `reader`); when this stops being true the `_counterexample` no longer
describes the code and `second_goaway_larger_is_conn_error` does. -/
theorem witness_with_fix :
    let s := run (init true 400 none none) witness
    s.tstate = .closing ∧ s.readerDone = true := by decide

/-! non-vacuity -/
example : Accepted (run (init false 400 none none) (witness.take 3)) 1 := by unfold Accepted; decide
example : ((run (init false 400 none none) (witness.take 3)).streams.map (·.id)) = [1] := by decide

end GrpcProofs.C14
