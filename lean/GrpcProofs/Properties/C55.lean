/-
C55  Binary logs are correctly truncated and never include omitted headers.
Property theorems only; proofs and helper lemmas are in GrpcProofs/Lemmas/Binlog.lean.

Vocabulary (GrpcModel/Model/Binlog.lean): `truncateMetadata h es` / `truncateMessage m d` /
`metadataKeyOmit` / `mdToMetadataProto` port the Go functions; `counted e` = key ≠ grpc-trace-bin;
`csize` = bytes that count towards the header limit; `Holds h inp out flag` = the statement for one
metadata entry; `metaVerdict` = the executable monitor that is run on the implementation.
`hfit : h = maxUInt → csize es ≤ h` only says that the total size of existing slices is < 2^64.

F7 (fixed by /repo commit 6e01388): before that commit `truncateMetadata` cut the entry list at the
first over-limit entry, so a grpc-trace-bin entry behind it was lost (limit 4, entries
[bigkey=bigvalue, grpc-trace-bin=t] logged nothing); this file then carried
`trace_bin_always_kept_partial` + `trace_bin_always_kept_counterexample` / `statement_holds_counterexample`.
The model now ports the fixed code and the full statement is a theorem: `statement_holds`,
`trace_bin_always_kept`.
-/
import GrpcProofs.Lemmas.Binlog
namespace GrpcProofs.C55
open GrpcModel.Binlog
open GrpcProofs.Lemmas

/-- THE STATEMENT, for the code: for every limit and every entry list, what `truncateMetadata` logs
    satisfies `Holds` — the counted entries kept are the longest in-order fitting prefix of the counted
    loggable entries, every grpc-trace-bin entry is kept, nothing else changes, truncated ⇔ dropped. -/
theorem statement_holds (h : Nat) (es : List Entry) (hfit : h = maxUInt → csize es ≤ h) :
    Holds h es (truncateMetadata h es).1 (truncateMetadata h es).2 :=
  Binlog.statement_holds h es hfit

/-- The monitor run on the implementation decides exactly the statement. -/
theorem metaVerdict_ok_iff (h : Nat) (inp out : List Entry) (flag : Bool) :
    metaVerdict h inp out flag = .ok ↔ Holds h inp out flag :=
  Binlog.metaVerdict_ok_iff h inp out flag

/-- …so the code's own result always gets verdict `ok`. -/
theorem code_verdict (h : Nat) (es : List Entry) (hfit : h = maxUInt → csize es ≤ h) :
    metaVerdict h es (truncateMetadata h es).1 (truncateMetadata h es).2 = .ok :=
  Binlog.code_verdict h es hfit

/-- What `Holds` (its local "next entry does not fit" form) gives: the logged counted entries are the
    longest fitting prefix of the counted loggable entries, and every grpc-trace-bin entry is logged. -/
theorem statement_implies {h : Nat} {inp out : List Entry} {flag : Bool} (H : Holds h inp out flag) :
    (∀ q, q <+: inp.filter counted → csize q ≤ h → q.length ≤ (out.filter counted).length) ∧
    (∀ e ∈ inp, e.key = traceBin → e ∈ out) :=
  ⟨Binlog.holds_longest H, Binlog.holds_trace_bin_kept H⟩

/-- Shape of the result: the LONGEST prefix of the entry list whose counted bytes (grpc-trace-bin = 0)
    fit in the header limit, followed by the grpc-trace-bin entries behind it. -/
theorem result_is_longest_fitting_prefix (h : Nat) (es : List Entry) (hfit : h = maxUInt → csize es ≤ h) :
    ∃ n, (truncateMetadata h es).1 = es.take n ++ (es.drop n).filter (fun e => !(counted e)) ∧
      csize (es.take n) ≤ h ∧ ∀ p, p <+: es → csize p ≤ h → p.length ≤ n :=
  Binlog.result_is_longest_fitting_prefix h es hfit

/-- Read on the counted (non-trace-bin) entries alone: those logged are the longest prefix of the
    counted loggable entries whose key+value sizes fit. -/
theorem counted_entries_longest_fitting_prefix (h : Nat) (es : List Entry) (hfit : h = maxUInt → csize es ≤ h) :
    (truncateMetadata h es).1.filter counted <+: es.filter counted ∧
    csize ((truncateMetadata h es).1.filter counted) ≤ h ∧
    ∀ q, q <+: es.filter counted → csize q ≤ h → q.length ≤ ((truncateMetadata h es).1.filter counted).length :=
  Binlog.counted_entries_longest_fitting_prefix h es hfit

/-- truncated is set exactly when something was dropped. -/
theorem truncated_flag_iff_dropped (h : Nat) (es : List Entry) (hfit : h = maxUInt → csize es ≤ h) :
    ((truncateMetadata h es).2 = true ↔ (truncateMetadata h es).1 ≠ es) ∧
    ((truncateMetadata h es).2 = true ↔ (truncateMetadata h es).1.length < es.length) :=
  Binlog.truncated_flag_iff_dropped h es hfit

/-- "not counted": which counted entries are logged does not depend on the grpc-trace-bin entries
    present (deleting them all from the input gives the same counted output). -/
theorem trace_bin_not_counted (h : Nat) (es : List Entry) :
    (truncateMetadata h es).1.filter counted = (truncateMetadata h (es.filter counted)).1 :=
  Binlog.trace_bin_not_counted h es

/-- "always kept": every grpc-trace-bin entry of the input is logged, wherever it stands.
    (Full strength since 6e01388; it was `_partial` + a counterexample before.) -/
theorem trace_bin_always_kept (h : Nat) (es : List Entry) (hfit : h = maxUInt → csize es ≤ h)
    (e : Entry) (he : e ∈ es) (hk : e.key = traceBin) : e ∈ (truncateMetadata h es).1 :=
  Binlog.trace_bin_always_kept h es hfit e he hk

/-- A message entry holds exactly the first min(limit, len) payload bytes (so at most the limit),
    and truncated is set exactly when bytes were dropped. -/
theorem message_le_limit (m : Nat) (data : Bytes) (hlen : data.length ≤ maxUInt) :
    (truncateMessage m data).1 = data.take m ∧ (truncateMessage m data).1.length ≤ m ∧
    ((truncateMessage m data).2 = true ↔ (truncateMessage m data).1 ≠ data) ∧
    ((truncateMessage m data).2 = true ↔ m < data.length) :=
  Binlog.message_le_limit m data hlen

/-- `metadataKeyOmit` (its case list is regenerated from the Go source, T4) omits exactly: the seven
    literal names, and every grpc-* name other than grpc-trace-bin. -/
theorem metadataKeyOmit_spec (k : Bytes) :
    metadataKeyOmit k = true ↔
      (k ∈ [asciiBytes "lb-token", asciiBytes ":path", asciiBytes ":authority", asciiBytes "content-encoding",
            asciiBytes "content-type", asciiBytes "user-agent", asciiBytes "te"]
       ∨ (asciiBytes "grpc-" <+: k ∧ k ≠ asciiBytes "grpc-trace-bin")) :=
  Binlog.metadataKeyOmit_spec k

/-- Headers gRPC omits from logs never appear, for every map and every iteration order. -/
theorem omitted_never_appear (md : MD) (e : Entry) (he : e ∈ mdToMetadataProto md) :
    mustOmit e.key = false ∧
    e.key ∉ [asciiBytes ":path", asciiBytes ":authority", asciiBytes "content-type", asciiBytes "user-agent",
             asciiBytes "te", asciiBytes "lb-token"] ∧
    ¬ (asciiBytes "grpc-" <+: e.key ∧ e.key ≠ asciiBytes "grpc-trace-bin") :=
  Binlog.omitted_never_appear md e he

/-- …and nothing else is lost: groups are logged in iteration order, each key's values contiguous
    and in order, and an entry is logged iff its key is not omitted. -/
theorem loggable_all_appear_in_order :
    (∀ a b : MD, mdToMetadataProto (a ++ b) = mdToMetadataProto a ++ mdToMetadataProto b) ∧
    (∀ (k : Bytes) (vs : List Bytes), mdToMetadataProto [(k, vs)]
        = if metadataKeyOmit k then [] else vs.map (fun v => ⟨k, v⟩)) ∧
    (∀ (md : MD) (e : Entry), e ∈ mdToMetadataProto md ↔
        metadataKeyOmit e.key = false ∧ ∃ vs, (e.key, vs) ∈ md ∧ e.value ∈ vs) :=
  Binlog.loggable_all_appear_in_order

/-- End to end through `Build`: a client/server header entry satisfies the statement with respect to
    the loggable entries of the map (in its iteration order): an in-order sublist that fits, flagged iff
    something was dropped, with every grpc-trace-bin entry and without omitted headers. -/
theorem build_header_spec (h m : Nat) (md : MD) (hfit : h = maxUInt → csize (mdToMetadataProto md) ≤ h) :
    build h m (.serverHeader md) = build h m (.clientHeader md) ∧
    ∃ out flag, build h m (.clientHeader md) = .mdata out flag ∧
      Holds h (mdToMetadataProto md) out flag ∧ csize out ≤ h ∧ (flag = true ↔ out ≠ mdToMetadataProto md) ∧
      (∀ e ∈ mdToMetadataProto md, e.key = traceBin → e ∈ out) ∧
      ∀ e ∈ out, e ∈ mdToMetadataProto md ∧ mustOmit e.key = false := by
  refine ⟨rfl, _, _, rfl, ?_⟩
  have H := statement_holds h (mdToMetadataProto md) hfit
  obtain ⟨n, hn, _, _⟩ := result_is_longest_fitting_prefix h (mdToMetadataProto md) hfit
  refine ⟨H, H.2.1, H.2.2.2.2, (statement_implies H).2, fun e he => ?_⟩
  have hin : e ∈ mdToMetadataProto md := by
    rw [hn] at he
    rcases List.mem_append.1 he with h1 | h1
    · exact List.mem_of_mem_take h1
    · exact List.mem_of_mem_drop (List.mem_filter.1 h1).1
  exact ⟨hin, (omitted_never_appear md e hin).1⟩

theorem build_message_spec (h m : Nat) (data : Bytes) (hlen : data.length ≤ maxUInt) :
    build h m (.message data) = .msg data.length (data.take m) (decide (m < data.length)) := by
  obtain ⟨h1, _, _, h4⟩ := message_le_limit m data hlen
  simp only [build]
  rw [h1]
  congr 1
  cases hb : (truncateMessage m data).2
  · have : ¬ m < data.length := fun hlt => by rw [h4.2 hlt] at hb; cases hb
    simp [this]
  · simp [h4.1 hb]

-- non-vacuity (the second pair is the former F7 witness)
example : (truncateMetadata 4 [⟨asciiBytes "a", [49]⟩, ⟨traceBin, [116]⟩, ⟨asciiBytes "bb", [50, 50]⟩]).2 = true := by decide
example : (truncateMetadata 4 [⟨asciiBytes "a", [49]⟩, ⟨traceBin, [116]⟩, ⟨asciiBytes "bb", [50, 50]⟩]).1.length = 2 := by decide
example : truncateMetadata 4 [⟨asciiBytes "bigkey", asciiBytes "bigvalue"⟩, ⟨traceBin, [116]⟩] = ([⟨traceBin, [116]⟩], true) := by decide
example : metaVerdict 4 [⟨asciiBytes "bigkey", asciiBytes "bigvalue"⟩, ⟨traceBin, [116]⟩] [] true = .traceBinDropped := by decide
example : Holds 2 [⟨asciiBytes "a", [49]⟩, ⟨traceBin, [116]⟩] [⟨asciiBytes "a", [49]⟩, ⟨traceBin, [116]⟩] false :=
  (metaVerdict_ok_iff _ _ _ _).1 (by decide)
example : truncateMessage 2 [1, 2, 3] = ([1, 2], true) := by decide
example : metadataKeyOmit (asciiBytes "grpc-status") = true ∧ metadataKeyOmit (asciiBytes "grpc-trace-bin") = false := by decide
example : mdToMetadataProto [(asciiBytes "te", [[1]]), (asciiBytes "a", [[1], [2]])] = [⟨asciiBytes "a", [1]⟩, ⟨asciiBytes "a", [2]⟩] := by decide

end GrpcProofs.C55
