/-
C55  Binary logs are correctly truncated and never include omitted headers.
Property theorems only; proofs and helper lemmas are in GrpcProofs/Lemmas/Binlog.lean.

Vocabulary (GrpcModel/Model/Binlog.lean): `truncateMetadata h es` / `truncateMessage m d` /
`metadataKeyOmit` / `mdToMetadataProto` port the Go functions; `counted e` = key ≠ grpc-trace-bin;
`csize` = bytes that count towards the header limit; `Holds h inp out flag` = the statement for one
metadata entry; `metaVerdict` = the executable monitor that is run on the implementation.
`hfit : h = maxUInt → csize es ≤ h` only says that the total size of existing slices is < 2^64.

F7: the statement's clause "grpc-trace-bin always kept" is FALSE of the code (a grpc-trace-bin entry
behind the first over-limit entry is cut with the rest): `trace_bin_always_kept_counterexample`,
`statement_holds_counterexample`; what does hold is `trace_bin_always_kept_partial` /
`statement_holds_partial`, and `fixed_satisfies_statement` shows the suggested patch satisfies
the whole statement.
-/
import GrpcProofs.Lemmas.Binlog
namespace GrpcProofs.C55
open GrpcModel.Binlog
open GrpcProofs.Lemmas

/-- The logged metadata is the LONGEST in-order prefix of the entry list whose counted bytes
    (grpc-trace-bin = 0) fit in the header limit. -/
theorem result_is_longest_fitting_prefix (h : Nat) (es : List Entry) (hfit : h = maxUInt → csize es ≤ h) :
    (truncateMetadata h es).1 <+: es ∧ csize (truncateMetadata h es).1 ≤ h ∧
    ∀ p, p <+: es → csize p ≤ h → p.length ≤ (truncateMetadata h es).1.length :=
  Binlog.result_is_longest_fitting_prefix h es hfit

/-- Same, read on the counted (non-trace-bin) entries alone: those logged are the longest prefix of
    the counted loggable entries whose key+value sizes fit. -/
theorem counted_entries_longest_fitting_prefix (h : Nat) (es : List Entry) (hfit : h = maxUInt → csize es ≤ h) :
    (truncateMetadata h es).1.filter counted <+: es.filter counted ∧
    csize ((truncateMetadata h es).1.filter counted) ≤ h ∧
    ∀ q, q <+: es.filter counted → csize q ≤ h → q.length ≤ ((truncateMetadata h es).1.filter counted).length :=
  Binlog.counted_entries_longest_fitting_prefix h es hfit

/-- truncated is set exactly when something was dropped. -/
theorem truncated_flag_iff_dropped (h : Nat) (es : List Entry) :
    ((truncateMetadata h es).2 = true ↔ (truncateMetadata h es).1 ≠ es) ∧
    ((truncateMetadata h es).2 = true ↔ (truncateMetadata h es).1.length < es.length) :=
  Binlog.truncated_flag_iff_dropped h es

/-- "not counted": which counted entries are logged does not depend on the grpc-trace-bin entries
    present (deleting them all from the input gives the same counted output). -/
theorem trace_bin_not_counted (h : Nat) (es : List Entry) :
    (truncateMetadata h es).1.filter counted = (truncateMetadata h (es.filter counted)).1 :=
  Binlog.trace_bin_not_counted h es

/- Full statement (FALSE, see the counterexample below):
     ∀ h es e, e ∈ es → e.key = traceBin → e ∈ (truncateMetadata h es).1
   Proved part: a grpc-trace-bin entry is kept whenever everything in front of it fits. -/
theorem trace_bin_always_kept_partial (h : Nat) (pre post : List Entry) (e : Entry)
    (hk : e.key = traceBin) (hpre : csize pre ≤ h) :
    pre ++ [e] <+: (truncateMetadata h (pre ++ e :: post)).1 ∧ e ∈ (truncateMetadata h (pre ++ e :: post)).1 :=
  Binlog.trace_bin_always_kept_partial h pre post e hk hpre

/-- F7 witness: limit 4, entries [bigkey=bigvalue, grpc-trace-bin=t] → nothing is logged. -/
theorem trace_bin_always_kept_counterexample :
    ¬ ∀ (h : Nat) (es : List Entry) (e : Entry), e ∈ es → e.key = traceBin → e ∈ (truncateMetadata h es).1 :=
  Binlog.trace_bin_always_kept_counterexample

/-- The monitor run on the implementation decides exactly the statement. -/
theorem metaVerdict_ok_iff (h : Nat) (inp out : List Entry) (flag : Bool) :
    metaVerdict h inp out flag = .ok ↔ Holds h inp out flag :=
  Binlog.metaVerdict_ok_iff h inp out flag

/-- What `Holds` (its local "next entry does not fit" form) gives: the logged counted entries are the
    longest fitting prefix of the counted loggable entries, and every grpc-trace-bin entry is logged. -/
theorem statement_implies {h : Nat} {inp out : List Entry} {flag : Bool} (H : Holds h inp out flag) :
    (∀ q, q <+: inp.filter counted → csize q ≤ h → q.length ≤ (out.filter counted).length) ∧
    (∀ e ∈ inp, e.key = traceBin → e ∈ out) :=
  ⟨Binlog.holds_longest H, Binlog.holds_trace_bin_kept H⟩

/-- The code's result gets verdict `ok`, or — exactly when a grpc-trace-bin entry sits behind the
    cut — the always-kept verdict, and never any other. -/
theorem code_verdict (h : Nat) (es : List Entry) (hfit : h = maxUInt → csize es ≤ h) :
    metaVerdict h es (truncateMetadata h es).1 (truncateMetadata h es).2 =
      if (es.drop (truncateMetadata h es).1.length).any (fun e => !(counted e)) then .traceBinDropped else .ok :=
  Binlog.code_verdict h es hfit

/- Full statement (FALSE, F7):  ∀ h es, Holds h es (truncateMetadata h es).1 (truncateMetadata h es).2 -/
theorem statement_holds_partial (h : Nat) (es : List Entry) (hfit : h = maxUInt → csize es ≤ h)
    (hno : ∀ e ∈ es.drop (truncateMetadata h es).1.length, e.key ≠ traceBin) :
    Holds h es (truncateMetadata h es).1 (truncateMetadata h es).2 := by
  rw [← metaVerdict_ok_iff, code_verdict h es hfit, if_neg]
  intro hany
  obtain ⟨x, hx, hp⟩ := List.any_eq_true.1 hany
  have := hno x hx
  simp [counted] at hp
  exact this hp

theorem statement_holds_counterexample :
    ¬ ∀ (h : Nat) (es : List Entry), Holds h es (truncateMetadata h es).1 (truncateMetadata h es).2 := by
  intro H
  have := (metaVerdict_ok_iff _ _ _ _).2
    (H 4 [⟨asciiBytes "bigkey", asciiBytes "bigvalue"⟩, ⟨traceBin, [116]⟩])
  revert this
  decide

/-- The suggested patch (keep the grpc-trace-bin entries behind the cut as well) satisfies the whole
    statement, the always-kept clause included. -/
theorem fixed_satisfies_statement (h : Nat) (es : List Entry) (hfit : h = maxUInt → csize es ≤ h) :
    Holds h es (truncateMetadataFixed h es).1 (truncateMetadataFixed h es).2 ∧
    ∀ e ∈ es, e.key = traceBin → e ∈ (truncateMetadataFixed h es).1 :=
  ⟨Binlog.fixed_holds h es hfit, Binlog.holds_trace_bin_kept (Binlog.fixed_holds h es hfit)⟩

/-- A message entry holds exactly the first min(limit, len) payload bytes (so at most the limit),
    and truncated is set exactly when bytes were dropped. -/
theorem message_le_limit (m : Nat) (data : Bytes) (hlen : data.length ≤ maxUInt) :
    (truncateMessage m data).1 = data.take m ∧ (truncateMessage m data).1.length ≤ m ∧
    ((truncateMessage m data).2 = true ↔ (truncateMessage m data).1 ≠ data) ∧
    ((truncateMessage m data).2 = true ↔ m < data.length) :=
  Binlog.message_le_limit m data hlen

/-- `metadataKeyOmit` (its case list is regenerated from the Go source, T4) omits exactly: the seven
    literal names, and every grpc-* name other than grpc-trace-bin. -/
theorem metadataKeyOmit_spec (k : Bytes) :
    metadataKeyOmit k = true ↔
      (k ∈ [asciiBytes "lb-token", asciiBytes ":path", asciiBytes ":authority", asciiBytes "content-encoding",
            asciiBytes "content-type", asciiBytes "user-agent", asciiBytes "te"]
       ∨ (asciiBytes "grpc-" <+: k ∧ k ≠ asciiBytes "grpc-trace-bin")) :=
  Binlog.metadataKeyOmit_spec k

/-- Headers gRPC omits from logs never appear, for every map and every iteration order. -/
theorem omitted_never_appear (md : MD) (e : Entry) (he : e ∈ mdToMetadataProto md) :
    mustOmit e.key = false ∧
    e.key ∉ [asciiBytes ":path", asciiBytes ":authority", asciiBytes "content-type", asciiBytes "user-agent",
             asciiBytes "te", asciiBytes "lb-token"] ∧
    ¬ (asciiBytes "grpc-" <+: e.key ∧ e.key ≠ asciiBytes "grpc-trace-bin") :=
  Binlog.omitted_never_appear md e he

/-- …and nothing else is lost: groups are logged in iteration order, each key's values contiguous
    and in order, and an entry is logged iff its key is not omitted. -/
theorem loggable_all_appear_in_order :
    (∀ a b : MD, mdToMetadataProto (a ++ b) = mdToMetadataProto a ++ mdToMetadataProto b) ∧
    (∀ (k : Bytes) (vs : List Bytes), mdToMetadataProto [(k, vs)]
        = if metadataKeyOmit k then [] else vs.map (fun v => ⟨k, v⟩)) ∧
    (∀ (md : MD) (e : Entry), e ∈ mdToMetadataProto md ↔
        metadataKeyOmit e.key = false ∧ ∃ vs, (e.key, vs) ∈ md ∧ e.value ∈ vs) :=
  Binlog.loggable_all_appear_in_order

/-- End to end through `Build`: a client/server header entry is a prefix of the loggable entries of
    the map (in its iteration order) that fits, flagged iff shorter, without omitted headers; a message
    entry carries the untruncated length and the first min(limit,len) bytes. -/
theorem build_header_spec (h m : Nat) (md : MD) (hfit : h = maxUInt → csize (mdToMetadataProto md) ≤ h) :
    build h m (.serverHeader md) = build h m (.clientHeader md) ∧
    ∃ out flag, build h m (.clientHeader md) = .mdata out flag ∧
      out <+: mdToMetadataProto md ∧ csize out ≤ h ∧ (flag = true ↔ out ≠ mdToMetadataProto md) ∧
      ∀ e ∈ out, mustOmit e.key = false := by
  refine ⟨rfl, _, _, rfl, ?_⟩
  obtain ⟨h1, h2, _⟩ := result_is_longest_fitting_prefix h (mdToMetadataProto md) hfit
  exact ⟨h1, h2, (truncated_flag_iff_dropped h _).1,
    fun e he => (omitted_never_appear md e (h1.subset he)).1⟩

theorem build_message_spec (h m : Nat) (data : Bytes) (hlen : data.length ≤ maxUInt) :
    build h m (.message data) = .msg data.length (data.take m) (decide (m < data.length)) := by
  obtain ⟨h1, _, _, h4⟩ := message_le_limit m data hlen
  simp only [build]
  rw [h1]
  congr 1
  cases hb : (truncateMessage m data).2
  · have : ¬ m < data.length := fun hlt => by rw [h4.2 hlt] at hb; cases hb
    simp [this]
  · simp [h4.1 hb]

-- non-vacuity
example : (truncateMetadata 4 [⟨asciiBytes "a", [49]⟩, ⟨traceBin, [116]⟩, ⟨asciiBytes "bb", [50, 50]⟩]).2 = true := by decide
example : (truncateMetadata 4 [⟨asciiBytes "a", [49]⟩, ⟨traceBin, [116]⟩, ⟨asciiBytes "bb", [50, 50]⟩]).1.length = 2 := by decide
example : Holds 2 [⟨asciiBytes "a", [49]⟩, ⟨traceBin, [116]⟩] [⟨asciiBytes "a", [49]⟩, ⟨traceBin, [116]⟩] false :=
  (metaVerdict_ok_iff _ _ _ _).1 (by decide)
example : metaVerdict 4 [⟨asciiBytes "bigkey", asciiBytes "bigvalue"⟩, ⟨traceBin, [116]⟩] [] true = .traceBinDropped := by decide
example : metaVerdict 4 [⟨asciiBytes "bigkey", asciiBytes "bigvalue"⟩, ⟨traceBin, [116]⟩] [⟨traceBin, [116]⟩] true = .ok := by decide
example : truncateMessage 2 [1, 2, 3] = ([1, 2], true) := by decide
example : metadataKeyOmit (asciiBytes "grpc-status") = true ∧ metadataKeyOmit (asciiBytes "grpc-trace-bin") = false := by decide
example : mdToMetadataProto [(asciiBytes "te", [[1]]), (asciiBytes "a", [[1], [2]])] = [⟨asciiBytes "a", [1]⟩, ⟨asciiBytes "a", [2]⟩] := by decide

end GrpcProofs.C55
