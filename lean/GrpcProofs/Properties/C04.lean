/-
C04  Inbound flow-control accounting is exact and never wedges a stream.

Property theorems only; helper lemmas are in GrpcProofs/Lemmas/InFlow.lean.  The model is
GrpcModel/Model/InFlow.lean: `InFlow.onData/onRead/maybeAdjust/newLimit` and `TrInFlow.*` port
internal/transport/flowcontrol.go with Go's uint32 wrap-around and int32 casts; `step` runs them
under the callers' protocol (`Ghost.legal`) and keeps, as ghost state computed ONLY from the ops and
the answers, what the PEER sees: `adv` = the stream window it holds (initial window + SETTINGS
increases + WINDOW_UPDATE increments − flow-controlled bytes sent), `cfg` = the configured window.

Histories (`legalRun`): any interleaving of
  data size pad   a DATA frame of any flow-controlled length 0 < size < 2^24, conforming or NOT,
                  padded or not (for a padded frame `pad p` = onRead(size − dataLen) follows later),
  req n / read k  Stream.read / ReadMessageHeader: requestRead(n) with any n < 2^32 (messages far larger
                  than the window included), then reads that add up to n, each at most what is queued,
  bdp n           a BDP update limit ≤ n ≤ 16 MiB,
until a frame is rejected (the callers then reset the stream).  `strict = true` additionally excludes
a BDP update arriving while `limit + delta` would exceed 2^31−1 (needs a read of ≥ 2 GiB − 16 MiB in
flight); it is needed only for the 2^31−1 bound and is violated by the unchanged code otherwise
(`advertised_bound_counterexample`, known finding F20).

Readings (DESIGN.md §7).  "restored to at least the configured window" is formalised as
`adv + pendingUpdate = limit + delta` with `pendingUpdate < limit/4` once everything delivered has been
read — the literal `adv ≥ limit` is false by design of the quarter-window batching — hence
`adv > 3/4·limit > 0`, and a read larger than the window is granted by `maybeAdjust`.
-/
import GrpcProofs.Lemmas.InFlow
import GrpcProofs.Lemmas.InFlowConn
namespace GrpcProofs.C04
open GrpcModel.InFlow GrpcProofs.Lemmas.InFlow GrpcModel.InFlowConn GrpcProofs.Lemmas.InFlowConn

/-- **Exact ledger**: along every legal history, as long as no frame was rejected, the window the
    peer holds is exactly `limit + delta − (pendingData + pendingUpdate)`, `pendingData` is exactly
    the bytes received and not yet read/given back, and the batched credit is below a quarter window. -/
theorem ledger_exact (l : Nat) (ops : List Op) (hl0 : l ≤ 2147483647)
    (hl : legalRun false (State.init l) ops = true)
    (ha : (run (State.init l) ops).1.g.failed = false) :
    ∀ s, s = (run (State.init l) ops).1 →
    s.g.adv = (s.f.limit : Int) + s.f.delta - ((s.f.pd : Int) + s.f.pu)
    ∧ s.f.pd = s.g.outstanding ∧ s.g.cfg = s.f.limit
    ∧ (s.f.pu = 0 ∨ s.f.pu < s.f.limit / 4) ∧ s.f.delta ≤ s.g.want := by
  intro s hs
  subst hs
  rcases run_inv false _ ops (finv_init false l hl0) hl with h | h
  · exact ⟨h.ledger, h.pd, h.cfg, h.pu, h.delta⟩
  · rw [ha] at h; cases h

/-- **A conforming peer is accepted**: after any legal history, a DATA frame whose flow-controlled
    length fits the window the peer holds is accepted. -/
theorem accepts_conforming_peer (l : Nat) (ops : List Op) (size : Nat) (pad : Option Nat)
    (hl0 : l ≤ 2147483647) (hl : legalRun false (State.init l) (ops ++ [.data size pad]) = true)
    (hfit : (size : Int) ≤ (run (State.init l) ops).1.g.adv) :
    (step (run (State.init l) ops).1 (.data size pad)).2 = .accepted := by
  rw [legalRun_append] at hl
  simp only [Bool.and_eq_true, legalRun] at hl
  rcases run_inv false _ ops (finv_init false l hl0) hl.1 with h | h
  · exact (step_data false _ size pad h hl.2.1).1.mpr hfit
  · have := failed_not_legal false _ (run (State.init l) ops).1.f.delta (.data size pad) h
    rw [this] at hl; exact absurd hl.2.1 (by simp)

/-- **Only excess is rejected**: a DATA frame is rejected (→ RST_STREAM FLOW_CONTROL_ERROR) only if it
    exceeds the window the peer holds. -/
theorem rejects_only_excess (l : Nat) (ops : List Op) (size : Nat) (pad : Option Nat)
    (hl0 : l ≤ 2147483647) (hl : legalRun false (State.init l) (ops ++ [.data size pad]) = true)
    (hrej : (step (run (State.init l) ops).1 (.data size pad)).2 = .rejected) :
    (size : Int) > (run (State.init l) ops).1.g.adv := by
  rw [legalRun_append] at hl
  simp only [Bool.and_eq_true, legalRun] at hl
  rcases run_inv false _ ops (finv_init false l hl0) hl.1 with h | h
  · exact (step_data false _ size pad h hl.2.1).2.1.mp hrej
  · have := failed_not_legal false _ (run (State.init l) ops).1.f.delta (.data size pad) h
    rw [this] at hl; exact absurd hl.2.1 (by simp)

/-- **Advertised window ≤ 2^31−1** — proved for histories in which no BDP update arrives while
    `limit + delta` would exceed 2^31−1 (`strict`).  FULL statement (every legal history) is false for
    the unchanged code: `advertised_bound_counterexample`. -/
theorem advertised_le_max_partial (l : Nat) (ops : List Op) (hl0 : l ≤ 2147483647)
    (hl : legalRun true (State.init l) ops = true)
    (ha : (run (State.init l) ops).1.g.failed = false) :
    (run (State.init l) ops).1.g.adv ≤ 2147483647
    ∧ (run (State.init l) ops).1.f.limit + (run (State.init l) ops).1.f.delta ≤ 2147483647 := by
  rcases run_inv true _ ops (finv_init true l hl0) hl with h | h
  · exact ⟨(finv_window _ h).1, h.strictMax rfl⟩
  · rw [ha] at h; cases h

/-- `maybeAdjust` bounds `limit + delta` by 2^31−1, but `newLimit` does not re-check it: a BDP update
    during a ~2 GiB read lifts the window the peer holds above 2^31−1. -/
theorem advertised_bound_counterexample :
    ¬ ∀ (l : Nat) (ops : List Op), l ≤ 2147483647 → legalRun false (State.init l) ops = true →
      (run (State.init l) ops).1.g.failed = false → (run (State.init l) ops).1.g.adv ≤ 2147483647 := by
  intro h
  have := h 65535 [.req 2147483647, .bdp 131070] (by decide) (by decide) (by decide)
  revert this
  decide

/-- **No wedge** (reading of "restored to at least the configured window"): whenever everything
    delivered so far has been read or given back (`pendingData = 0`), the peer holds
    `limit + delta − pendingUpdate` with `pendingUpdate` zero or below a quarter window: more than
    three quarters of the configured window, and at least one byte — it can always send, so a
    reading application is never stalled forever. -/
theorem no_wedge (l : Nat) (ops : List Op) (hl0 : l ≤ 2147483647)
    (hl : legalRun false (State.init l) ops = true)
    (ha : (run (State.init l) ops).1.g.failed = false)
    (hread : (run (State.init l) ops).1.g.outstanding = 0) :
    ∀ s, s = (run (State.init l) ops).1 →
    s.g.adv + s.f.pu = (s.f.limit : Int) + s.f.delta
    ∧ (s.f.pu = 0 ∨ s.f.pu < s.f.limit / 4)
    ∧ (s.g.adv ≥ (s.g.cfg : Int) ∨ s.g.adv + ((s.g.cfg / 4 : Nat) : Int) > (s.g.cfg : Int))
    ∧ (0 < s.g.cfg → 0 < s.g.adv) ∧ s.g.restored = true := by
  intro s hs
  subst hs
  obtain ⟨h1, h2, h3, h4, _⟩ := ledger_exact l ops hl0 hl ha _ rfl
  have hpd : (run (State.init l) ops).1.f.pd = 0 := by rw [h2]; exact hread
  have hA : (run (State.init l) ops).1.g.adv ≥ ((run (State.init l) ops).1.g.cfg : Int)
      ∨ (run (State.init l) ops).1.g.adv + (((run (State.init l) ops).1.g.cfg / 4 : Nat) : Int)
          > ((run (State.init l) ops).1.g.cfg : Int) := by
    rw [h3, h1, hpd]; rcases h4 with h | h <;> first | (left; omega) | (right; omega)
  have hB : 0 < (run (State.init l) ops).1.g.cfg → 0 < (run (State.init l) ops).1.g.adv := by
    rw [h3, h1, hpd]; intro hp; rcases h4 with h | h <;> omega
  refine ⟨by rw [h1, hpd]; omega, h4, hA, hB, ?_⟩
  unfold Ghost.restored
  simp only [Bool.and_eq_true, Bool.or_eq_true, decide_eq_true_eq]
  refine ⟨hA, ?_⟩
  by_cases hz : (run (State.init l) ops).1.g.cfg = 0
  · exact Or.inl hz
  · exact Or.inr (hB (by omega))

/-- **A read larger than the window is granted**: right after `requestRead(n)` (any n < 2^32) the
    peer may send all of the message that has not arrived yet, `min(n, 2^31−1) − pendingData` bytes,
    or else the window has been raised to the protocol maximum `limit + delta = 2^31−1`. -/
theorem big_read_granted (l : Nat) (ops : List Op) (n : Nat) (hl0 : l ≤ 2147483647)
    (hl : legalRun false (State.init l) (ops ++ [.req n]) = true) :
    ∀ s s', s = (run (State.init l) ops).1 → s' = (step s (.req n)).1 →
    s'.g.adv ≥ ((if n > 2147483647 then 2147483647 else n : Nat) : Int) - s.g.outstanding
    ∨ s'.f.limit + s'.f.delta = 2147483647 := by
  intro s s' hs hs'
  subst hs; subst hs'
  rw [legalRun_append] at hl
  simp only [Bool.and_eq_true, legalRun] at hl
  rcases run_inv false _ ops (finv_init false l hl0) hl.1 with h | h
  · obtain ⟨w, ho, hinv, hadv, hgr, hd, hlim⟩ := step_req false _ n h hl.2.1
    rcases hgr with hgr | hgr
    · left; rw [← h.pd]; exact hgr
    · right; rw [hd, hlim]; exact hgr
  · have := failed_not_legal false _ (run (State.init l) ops).1.f.delta (.req n) h
    rw [this] at hl; exact absurd hl.2.1 (by simp)

/-- **The run-time monitor never rejects the model**: on every (strict) legal history each answer of
    the ported code satisfies the executable C04 predicate `Ghost.verdict` — the same function the
    driver evaluates on the IMPLEMENTATION's answers. -/
theorem monitor_accepts_model (l : Nat) (pre : List Op) (op : Op) (hl0 : l ≤ 2147483647)
    (hl : legalRun true (State.init l) (pre ++ [op]) = true) :
    (run (State.init l) pre).1.g.verdict op (step (run (State.init l) pre).1 op).2 = .ok () := by
  rw [legalRun_append] at hl
  simp only [Bool.and_eq_true, legalRun] at hl
  rcases run_inv true _ pre (finv_init true l hl0) hl.1 with h | h
  · exact step_verdict _ op h hl.2.1
  · have := failed_not_legal true _ (run (State.init l) pre).1.f.delta op h
    rw [this] at hl; exact absurd hl.2.1 (by simp)

/-- **Connection window ledger**: against a conforming peer the connection window it holds is exactly
    `limit − unacked`, between 0 and 2^31−1. -/
theorem conn_ledger (l : Nat) (ops : List TOp) (hl0 : l ≤ 2147483647)
    (hl : tlegalRun (TState.init l) ops = true) :
    ∀ s, s = trun (TState.init l) ops →
    s.adv = (s.f.limit : Int) - s.f.unacked ∧ 0 ≤ s.adv ∧ s.adv ≤ 2147483647 := by
  intro s hs
  subst hs
  have h := trun_inv _ ops (tinv_init l hl0) hl
  obtain ⟨h1, h2, h3⟩ := h
  refine ⟨h3, ?_, ?_⟩ <;> rw [h3] <;> omega

/-- **The connection window never wedges**: it is replenished on reception, independently of the
    application: after every step `unacked` is zero or below a quarter of the limit. -/
theorem conn_window (l : Nat) (ops : List TOp) (hl0 : l ≤ 2147483647)
    (hl : tlegalRun (TState.init l) ops = true) :
    ∀ s, s = trun (TState.init l) ops →
    (s.f.unacked = 0 ∨ s.f.unacked < s.f.limit / 4)
    ∧ (s.adv ≥ (s.f.limit : Int) ∨ s.adv + ((s.f.limit / 4 : Nat) : Int) > (s.f.limit : Int))
    ∧ (0 < s.f.limit → 0 < s.adv) ∧ connRestored s.adv s.f.limit = true := by
  intro s hs
  subst hs
  have h := trun_inv _ ops (tinv_init l hl0) hl
  obtain ⟨h1, h2, h3⟩ := h
  have hA : (trun (TState.init l) ops).adv ≥ ((trun (TState.init l) ops).f.limit : Int)
      ∨ (trun (TState.init l) ops).adv + (((trun (TState.init l) ops).f.limit / 4 : Nat) : Int)
          > ((trun (TState.init l) ops).f.limit : Int) := by
    rw [h3]; rcases h2 with h | h <;> first | (left; omega) | (right; omega)
  have hB : 0 < (trun (TState.init l) ops).f.limit → 0 < (trun (TState.init l) ops).adv := by
    rw [h3]; intro hp; rcases h2 with h | h <;> omega
  refine ⟨h2, hA, hB, ?_⟩
  unfold connRestored
  simp only [Bool.and_eq_true, Bool.or_eq_true, decide_eq_true_eq]
  refine ⟨hA, ?_⟩
  by_cases hz : (trun (TState.init l) ops).f.limit = 0
  · exact Or.inl hz
  · exact Or.inr (hB (by omega))

/-! ### connection level: stream registration interleaved with BDP updates
(`GrpcModel/Model/InFlowConn.lean`: `openS` = the stream gets its id and enters activeStreams with
`inFlow{limit: t.initialWindowSize}`; `bdp n` = updateFlowControl raises `initialWindowSize`, the limit of
every ACTIVE stream and, through SETTINGS, the peer's window of exactly those streams) -/

/-- **Every open stream's ledger is exact at all times**, however stream registrations, per-stream
    traffic and BDP updates interleave: the window the peer holds for it equals
    `limit + delta − (pendingData + pendingUpdate)` and its limit is the connection's current
    (= last advertised) initial window. -/
theorem conn_streams_exact (l : Nat) (ops : List COp) (hl0 : l ≤ 2147483647)
    (hl : clegalRun (Conn.init l) ops = true) :
    ∀ e ∈ (crun (Conn.init l) ops).streams,
      e.2.g.adv = (e.2.f.limit : Int) + e.2.f.delta - ((e.2.f.pd : Int) + e.2.f.pu)
      ∧ e.2.f.limit = (crun (Conn.init l) ops).iws ∧ e.2.g.cfg = (crun (Conn.init l) ops).iws
      ∧ 0 ≤ e.2.g.adv := by
  intro e he
  obtain ⟨h1, h2⟩ := (crun_inv _ ops (cinv_init l hl0) hl).each e he
  exact ⟨h1.ledger, by rw [← h1.cfg]; exact h2, h2, h1.nonneg⟩

/-- **A conforming peer is accepted on every stream of the connection**, in particular on a stream
    that was registered after (or queued during) any number of BDP updates: a DATA frame is accepted
    iff it fits the window the peer holds for that stream. -/
theorem conn_accepts_iff_fits (l : Nat) (ops : List COp) (hl0 : l ≤ 2147483647)
    (hl : clegalRun (Conn.init l) ops = true) (size : Nat) (pad : Option Nat) :
    ∀ e ∈ (crun (Conn.init l) ops).streams,
      e.2.g.legal false e.2.f.delta (.data size pad) = true →
      ((step e.2 (.data size pad)).2 = .accepted ↔ (size : Int) ≤ e.2.g.adv)
      ∧ ((step e.2 (.data size pad)).2 = .rejected ↔ (size : Int) > e.2.g.adv) := by
  intro e he hleg
  obtain ⟨h1, _⟩ := (crun_inv _ ops (cinv_init l hl0) hl).each e he
  obtain ⟨a, b, _⟩ := step_data false e.2 size pad h1 hleg
  exact ⟨a, b⟩

/-- **No stream of the connection wedges**: on every open stream on which everything delivered has been
    read or given back (payload read by the application, padding returned at once), the peer holds the
    current advertised initial window up to a batched credit that is zero or strictly below a quarter of
    it, and at least one byte (`Ghost.restored`, with `cfg` = the connection's initial window). -/
theorem conn_no_wedge (l : Nat) (ops : List COp) (hl0 : l ≤ 2147483647)
    (hl : clegalRun (Conn.init l) ops = true) :
    ∀ e ∈ (crun (Conn.init l) ops).streams, e.2.g.outstanding = 0 →
      e.2.g.restored = true ∧ e.2.g.cfg = (crun (Conn.init l) ops).iws := by
  intro e he h0
  obtain ⟨h1, h2⟩ := (crun_inv _ ops (cinv_init l hl0) hl).each e he
  exact ⟨finv_restored e.2 h1 h0, h2⟩

/-- **A new stream starts with exactly the advertised window**: when a stream is registered — after
    any history, BDP updates included — the limit it enforces and the window the peer holds for it are
    both the connection's current initial window. -/
theorem new_stream_window (l : Nat) (ops : List COp) (id : Nat) (hl0 : l ≤ 2147483647)
    (hl : clegalRun (Conn.init l) (ops ++ [.openS id]) = true) :
    ∀ e ∈ (crun (Conn.init l) (ops ++ [.openS id])).streams, e.1 = id →
      e.2.f.limit = (crun (Conn.init l) ops).iws ∧ e.2.g.adv = ((crun (Conn.init l) ops).iws : Int)
      ∧ e.2.f.pd = 0 ∧ e.2.f.pu = 0 ∧ e.2.f.delta = 0 := by
  intro e he hid
  rw [clegalRun_append] at hl
  simp only [Bool.and_eq_true, clegalRun, clegal, Bool.not_eq_true'] at hl
  have hno : (crun (Conn.init l) ops).has id = false := hl.2.1
  rw [crun_append] at he
  simp only [crun, cstep, hno, Bool.false_eq_true, ↓reduceIte, List.mem_append, List.mem_singleton] at he
  rcases he with he | he
  · exfalso
    have : (crun (Conn.init l) ops).has id = true := by
      simp only [Conn.has, List.any_eq_true]
      exact ⟨e, he, by simp [hid]⟩
    rw [hno] at this; cases this
  · subst he
    exact ⟨rfl, rfl, rfl, rfl, rfl⟩

-- non-vacuity: a legal history with a message 4x the window, padded frames and a BDP update
set_option maxRecDepth 100000
example : legalRun true (State.init 65535)
    [.req 5, .data 5 none, .read 5, .req 262140, .data 16384 (some 100), .pad 100, .read 16284,
     .bdp 131070, .data 65535 none] = true := by decide
example : (run (State.init 65535) [.req 5, .data 5 none, .read 5, .req 100, .data 16384 none, .read 100]).2
    = [.wu 0, .accepted, .wu 0, .wu 0, .accepted, .wu 0] := by decide
example : (run (State.init 65535) [.data 65535 none, .data 1 none]).2 = [.accepted, .rejected] := by decide
example : tlegalRun (TState.init 65535) [.data 16383, .data 1, .reset, .bdp 131070, .data 32767] = true := by decide
example : clegalRun (Conn.init 65535)
    [.openS 1, .sop 1 (.data 60000 none), .bdp 120000, .openS 3, .sop 3 (.data 100000 none), .closeS 1] = true := by decide

end GrpcProofs.C04
