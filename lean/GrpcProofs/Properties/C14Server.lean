/-
C14, SERVER half: "A server draining gracefully sends a final GOAWAY whose id is the highest stream id
it accepted, serves every stream up to that id to completion, and accepts no stream above it."

Model: GrpcModel/Model/ServerDrain.lean (`http2Server` drain: operateHeaders admission, Drain,
handlePing, outgoingGoAwayHandler, loopy's register/trailers/cleanup/goAway handlers, Close).
Lemmas: GrpcProofs/Lemmas/ServerDrain.lean (`Eff`: what one event can do to maxStreamID / state /
accepted ids / final GOAWAY; `DInv`).  `run init es` ranges over every interleaving of the reader,
loopy, the handlers, the ack-waiting goroutine and Close.

The middle clause is FALSE of the code as it is (`accepted_served_to_completion_counterexample`):
a stream accepted between the PING ack and loopy's handling of the final GOAWAY is covered by the
final GOAWAY's id, but loopy's `draining && len(estdStreams) == 0` exit can fire before it has
processed that stream's `registerStream` item, and the connection is closed under the running
handler.  Reproduced on the real transport (known finding F44).
-/
import GrpcProofs.Lemmas.ServerDrain
namespace GrpcProofs.C14Server
open GrpcModel.ServerDrain GrpcProofs.Lemmas.ServerDrain

def SReach (s : State) : Prop := ∃ es, s = run init es

theorem SReach.cinv {s : State} (h : SReach s) : CInv (core s) := by
  obtain ⟨es, rfl⟩ := h
  exact cinv_csteps cinv_init (core_run init es)

/-- **The final GOAWAY's id is the highest stream id the server accepted**: (1) the handler of the final
GOAWAY of a graceful drain chooses `t.maxStreamID` (under `maxStreamMu`+`mu`, together with `state = draining`) … -/
theorem final_goaway_carries_maxStreamID (s : State) (hf : s.finalGoAway = none) :
    (s.finalChosen false).finalGoAway = some s.maxStreamID ∧ (s.finalChosen false).tstate = .draining := by
  simp [State.finalChosen, hf]

/-- … (2) and in every reachable state, once the final GOAWAY(n) is chosen, the transport is not `reachable`,
n ≤ maxStreamID and every stream that was handed to a handler has id ≤ n. -/
theorem final_goaway_id_is_highest_accepted {s : State} (h : SReach s) {n : Nat} (hf : s.finalGoAway = some n) :
    s.tstate ≠ .reachable ∧ ∀ x ∈ s.streams, x.id ≤ n := by
  have := h.cinv.fin n hf
  refine ⟨this.1, fun x hx => this.2.2 x.id ?_⟩
  show x.id ∈ ids s
  simp only [ids, List.mem_map]
  exact ⟨x, hx, rfl⟩

/-- **The final GOAWAY never covers a stream the server silently dropped.**  `operateHeaders` records the id in
`maxStreamID` first and decides much later (`t.state != reachable` → drop without any response); because
it holds `maxStreamMu` in between and the GOAWAY handler needs that lock, a dropped stream's id is always
ABOVE the final GOAWAY's last-stream-id (so the client treats it as unprocessed and retries it).
(`errGoAway = false`: no protocol-error GOAWAY tore the connection down.) -/
theorem no_silent_drop_below_final_goaway {s : State} (h : SReach s) (he : s.errGoAway = false) {n : Nat}
    (hf : s.finalGoAway = some n) : ∀ d ∈ s.dropped, n < d :=
  h.cinv.drop he n hf

/-- the lock that makes it so: while the reader is inside `operateHeaders` (between `t.maxStreamID = streamID`
and the admission decision) loopy's GOAWAY handlers wait -/
theorem goaway_waits_for_operateHeaders (s : State) (hu : Bool) (code : Nat) (cc : Bool) (rest : List Item)
    (hq : s.cbuf = .goAway hu code cc :: rest) (hp : s.hdrPending.isSome = true) : s.loopyStep = (s, []) := by
  unfold State.loopyStep
  split
  · rfl
  · simp [hq, Item.isGoAway, hp]

/-- and a HEADERS frame being processed always carries an id above an already chosen final GOAWAY id -/
theorem pending_headers_above_final {s : State} (h : SReach s) {p n : Nat} (hp : s.hdrPending = some p)
    (hf : s.finalGoAway = some n) : n < p ∧ p = s.maxStreamID :=
  ⟨(h.cinv.pend p hp).2 n hf, (h.cinv.pend p hp).1⟩

/-- **No stream above it is accepted** (nor any stream at all): once the transport has left `reachable`
(the final GOAWAY handler sets `draining` together with choosing the id) no event sequence adds a stream
to the set handed to handlers. -/
theorem none_accepted_after_final_goaway {s : State} (hn : s.tstate ≠ .reachable) (es : List Ev) :
    ids (run s es) = ids s ∧ (run s es).tstate ≠ .reachable :=
  frozen_csteps (a := core s) hn (core_run s es)

/-- What does hold of "serves every stream up to that id to completion": the final-GOAWAY handler itself
closes the connection only if `activeStreams` is empty (or the GOAWAY carries an error); otherwise it
just switches loopy to draining. -/
theorem accepted_served_to_completion_partial (s : State) (code : Nat) (rest : List Item)
    (hq : s.cbuf = .goAway false code false :: rest) (hl : (s.lExited || s.lBlocked) = false) (hc : s.tstate ≠ .closing)
    (hd : (s.connClosed || s.peerGone) = false) (hh : s.held = false) (hp : s.hdrPending = none) (hact : s.activeCount ≠ 0) :
    s.loopyStep.1.lExited = false ∧ s.loopyStep.1.lDraining = true ∧ s.loopyStep.1.connClosed = s.connClosed := by
  have hl' : s.lExited = false := by cases h : s.lExited <;> simp_all
  have hac : ∀ t : State, t.activeNil = s.activeNil → t.streams = s.streams → (t.activeCount == 0) = false := by
    intro t h1 h2
    have : t.activeCount = s.activeCount := by simp [State.activeCount, h1, h2]
    rw [this]; simpa using hact
  unfold State.loopyStep
  simp only [hl, Bool.false_eq_true, if_false, hq, hc, hd, State.write, hh, Bool.false_or, Item.isGoAway, hp, Option.isSome_none,
    Bool.and_false, State.finalChosen]
  generalize hg : (State.activeCount _ == 0) = r
  have hr : r = false := by rw [← hg]; exact hac _ rfl rfl
  subst hr
  simp [State.afterFinalFlush, hl']

/-- stream 1 is open; Drain; the ack arrives; stream 1 is reset by the client and stream 3 arrives — all
handled by the reader before loopy gets to the final GOAWAY item. -/
def witness : List Ev :=
  [.hdr 1, .loopy, .drain, .loopy, .flush, .pingAck goAwayPing, .waiterFire, .rst 1, .hdr 3,
   .loopy,   -- final GOAWAY(3): state draining, loopy draining (activeStreams = {3})
   .loopy]   -- cleanupStream(1): estdStreams empty (registerStream(3) is still queued) → loopy exits

/-- **"Serves every stream up to that id to completion" does NOT hold for the code as it is**: in the
reachable state below the final GOAWAY said 3, stream 3 was handed to a handler and has not finished,
and loopy has already exited with "finished processing active streams while in draining mode" (the
connection is closed one second later or when the reader is done; `Close` then cancels stream 3). -/
theorem accepted_served_to_completion_counterexample :
    ¬ (∀ s : State, SReach s → ∀ n, s.finalGoAway = some n → s.lExited = true →
        ∀ x ∈ s.streams, x.id ≤ n → x.done = true) := by
  intro h
  have := h (run init witness) ⟨witness, rfl⟩ 3 (by decide) (by decide)
    { id := 3, active := true, done := false, cancelled := false } (by decide) (by decide)
  exact absurd this (by decide)

theorem witness_state :
    let s := run init witness
    s.finalGoAway = some 3 ∧ s.tstate = .draining ∧ s.lExited = true ∧ s.closeTimer = some 1000 ∧
    s.streams = [{ id := 1, active := false, done := true, cancelled := true }, { id := 3, active := true, done := false, cancelled := false }] ∧
    (run s [.tick 1000, .closeTimerFire, .readerErr]).streams.map (·.cancelled) = [true, true] := by decide

end GrpcProofs.C14Server
