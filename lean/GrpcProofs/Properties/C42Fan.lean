/-
C42, clause "no response is read until all watchers have finished processing the previous one", for the
whole fan-out of one response over the authorities that share an xdsChannel and their watchers.
Model: GrpcModel/Model/AdsFan.lean; invariant: GrpcProofs/Lemmas/AdsFan.lean.
A reachable state is `run {} ops` for an arbitrary list of watch / respond / done operations (any number of
authorities, watchers and resources, `done`s in any order).
-/
import GrpcProofs.Lemmas.AdsFan
namespace GrpcProofs.C42Fan
open GrpcModel.AdsFan GrpcProofs.Lemmas.AdsFan

/-- The stream's flow-control count is exactly the number of `done`s of responses that watchers still hold —
whatever authority they belong to, in every reachable state. -/
theorem outstanding_counts_busy_watchers (ops : List Op) :
    (run {} ops).outstanding = heldResp (run {} ops).ws :=
  (inv_run {} ops inv_init).count

/-- **No response is read while a watcher is still processing the previous one**: in every reachable state in
which some watcher (of any authority) still holds the `done` of a response, that response is the current one,
flow control is pending, and the reader has entered `Recv` exactly as often as it has been handed a response —
it has not entered the `Recv` of the next one. -/
theorem no_read_while_watcher_busy (ops : List Op) (h : heldResp (run {} ops).ws > 0) :
    (run {} ops).cur.isSome = true ∧ (run {} ops).delivered = (run {} ops).completed + 1 ∧
    ((run {} ops).started = true → recvEntered (run {} ops) = (run {} ops).delivered) := by
  have hi := inv_run {} ops inv_init
  have hc : (run {} ops).cur ≠ none := fun hn => by have := hi.cur.mp hn; have := hi.count; omega
  have hs : (run {} ops).cur.isSome = true := by
    cases hcc : (run {} ops).cur with
    | none => exact absurd hcc hc
    | some _ => rfl
  have hd := hi.deliv
  simp [hs] at hd
  exact ⟨hs, hd, fun hst => by simp [recvEntered, hst, hd]⟩

/-- …and the stream is released as soon as nobody holds one: flow control is free and every response read so
far is complete (the reader is in, or on its way to, the next `Recv`). -/
theorem released_when_all_watchers_done (ops : List Op) (h : heldResp (run {} ops).ws = 0) :
    (run {} ops).cur = none ∧ (run {} ops).delivered = (run {} ops).completed := by
  have hi := inv_run {} ops inv_init
  have hc : (run {} ops).cur = none := hi.cur.mpr (by rw [hi.count]; exact h)
  have hd := hi.deliv
  simp [hc] at hd
  exact ⟨hc, hd⟩

/-- A `done` given back by ONE watcher does not release the stream while another watcher (here: of another
authority) still holds its own: the count only goes down by one. -/
theorem one_done_of_several_does_not_release (s : St) (id : Nat) (v : Nat) (ws : List Watcher)
    (hp : popTok id s.ws = some (.resp v, ws)) (hmany : s.outstanding > 1) :
    (step s (.done id)).cur = s.cur ∧ (step s (.done id)).outstanding = s.outstanding - 1 ∧
    (step s (.done id)).completed = s.completed := by
  have : ¬ s.outstanding ≤ 1 := by omega
  simp [step, hp, this]

-- non-vacuity: top-level authority 0 has a non-blocking watcher, authority 1 a blocking one, both named in
-- the response; after the response authority 0 is finished and authority 1 is not: nothing more is read.
example :
    let s := run {} [.watch 1 "x" 1 true, .watch 0 "x" 2 false, .respond [(0, "x"), (1, "x")], .respond [(0, "x")]]
    (heldResp s.ws, s.cur, s.delivered, s.completed, recvEntered s, s.inbox.length) = (1, some 1, 1, 0, 1, 1) := by decide
example :
    let s := run {} [.watch 1 "x" 1 true, .watch 0 "x" 2 false, .respond [(0, "x"), (1, "x")], .respond [(0, "x")], .done 1]
    (heldResp s.ws, s.cur, s.delivered, s.completed, recvEntered s, s.inbox.length) = (0, none, 2, 2, 3, 0) := by decide

end GrpcProofs.C42Fan
