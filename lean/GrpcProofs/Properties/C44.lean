/-
C44  Management-server fallback follows gRFC A71.
Model: GrpcModel/Model/XdsAuth.lean, layer A (`handleFailure` = handleADSStreamFailure + fallbackToServer,
`revert` = handleRevertingToPrimaryOnUpdate, `handleUpdate`). Helper lemmas: GrpcProofs/Lemmas/XdsAuth.lean.

Statements are about every authority state / every event (hence every history of stream failures and
responses across any number of configured servers and any watch registrations).
-/
import GrpcProofs.Lemmas.XdsAuth
namespace GrpcProofs.C44
open GrpcModel.XdsAuth GrpcProofs.Lemmas.XdsAuth

/-! ### switching to a lower-priority server -/

/-- **C44, fallback.** The only event that moves the active server to a lower priority is a failure of the
    ACTIVE server's stream before any response (`afterRecv = false`) while some watched resource is still in
    state REQUESTED — which in every reachable state means it has no cached value (`fallback_needs_uncached_watch`);
    the new active server `j` is the first server after it without a channel whose channel can be created (a
    server whose transport cannot be created is skipped, as fallbackToServer does), it gets a channel (`build j`)
    and every watched resource is subscribed on it; the watchers hear nothing.

    Before /repo 98104fb the code keyed the decision on the FAILING server, which need not be the active one (a
    still-down primary, or a stale report of a released channel): this theorem was `…_partial` and
    `fallback_full_statement_counterexample` refuted the literal statement on the history
    `[watch, failure 0, failure 0]` with three servers (findings F40 / F41, now fixed). -/
theorem fallback_only_if_failed_before_any_response_and_uncached_watch
    (a : Auth) (e : AEv) (i j : Nat) (hi : a.active = some i) (hj : (a.step e).auth.active = some j) (hlt : i < j) :
    e = .failure i false ∧
      (∃ p ∈ a.res, p.2.status = .requested) ∧
      j < a.n ∧ j ∉ a.opened ∧ j ∉ a.nobuild ∧ (∀ x, i < x → x < j → x ∈ a.opened ∨ x ∈ a.nobuild) ∧
      Cmd.build j ∈ (a.step e).cmds ∧ (∀ p ∈ a.res, Cmd.sub j p.1 ∈ (a.step e).cmds) ∧
      (a.step e).cbs = [] := by
  cases e with
  | update srv gen typ ver es =>
    exfalso
    simp only [Auth.step] at hj
    by_cases h1 : srv = i
    · subst h1
      simp [handleUpdate, revert_same hi, processUpdate_res, hi] at hj
      omega
    · by_cases h2 : i < srv
      · simp [handleUpdate, revert_below hi h2, hi] at hj; omega
      · have h3 : srv < i := by omega
        simp [handleUpdate, revert_above hi h3, processUpdate_res, revertTo] at hj
        omega
  | dne k =>
    exfalso
    simp only [Auth.step, handleDNE, hi, Option.some.injEq] at hj
    omega
  | failure srv after =>
    simp only [Auth.step, handleFailure] at hj ⊢
    cases after with
    | true => simp [hi] at hj; omega
    | false =>
      by_cases hu : uncachedWatch a = true
      · cases hn0 : fallbackTarget a srv with
        | none => simp [hu, hn0, hi] at hj; omega
        | some j' =>
          simp only [Bool.false_eq_true, ↓reduceIte, hu, Bool.not_true, hn0, fallbackTo, Option.some.injEq] at hj ⊢
          subst hj
          obtain ⟨hact, hn⟩ := fallbackTarget_some hn0
          rw [hi] at hact
          simp only [Option.some.injEq] at hact
          subst hact
          have hm := mem_nextServer hn
          refine ⟨rfl, ?_, hm.2.1, hm.2.2, nextServer_buildable hn, ?_, by simp, ?_, trivial⟩
          · simp only [uncachedWatch, List.any_eq_true, decide_eq_true_eq] at hu
            exact hu
          · exact fun x hx1 hx2 => nextServer_between hn x hx1 hx2
          · intro p hp
            simp only [List.mem_cons, List.mem_map]
            exact Or.inr ⟨p, hp, rfl⟩
      · simp [hu, hi] at hj; omega
  | env l =>
    exfalso
    simp only [Auth.step, hi, Option.some.injEq] at hj
    omega
  | watch k w =>
    exfalso
    simp only [Auth.step] at hj
    rcases watchResource_cases a k w with ⟨_, hwr⟩ | ⟨_, hwr⟩ <;> rw [hwr] at hj
    · simp only [hi, Option.some.injEq] at hj; omega
    simp only [watch] at hj
    have : (channelToUse a).1.active = some i := by simp [channelToUse, hi]
    split at hj <;> simp [this] at hj <;> omega
  | unwatch k w =>
    exfalso
    simp only [Auth.step, unwatch] at hj
    split at hj
    · simp [hi] at hj; omega
    · split at hj
      · simp [hi] at hj; omega
      · split at hj
        · simp at hj
        · simp [hi] at hj; omega

/-- In every reachable state the resource that allowed the fallback is watched and has no cached value. -/
theorem fallback_needs_uncached_watch (n : Nat) (ign : List Bool) (hist : List AEv)
    (hf : FreshRun (Auth.init n ign) hist) (e : AEv) (i j : Nat)
    (hi : (Auth.run (Auth.init n ign) hist).active = some i)
    (hj : ((Auth.run (Auth.init n ign) hist).step e).auth.active = some j) (hlt : i < j) :
    ∃ p ∈ (Auth.run (Auth.init n ign) hist).res, p.2.watchers ≠ [] ∧ p.2.cache = none := by
  obtain ⟨_, ⟨p, hp, hst⟩, _⟩ :=
    fallback_only_if_failed_before_any_response_and_uncached_watch _ e i j hi hj hlt
  have hinv := inv_run hist _ (inv_init n ign) hf
  have hw := watched_run hist _ (inv_init n ign) (by intro p hp; simp [Auth.init] at hp) hf
  exact ⟨p, hp, hw p hp, (hinv.rinv p hp).req hst⟩

/-- Conversely the fallback does happen: a failure of the active server before any response, an uncached watch
    and a server after it without a channel switch the active server to the first such server, silently. -/
theorem fallback_if (a : Auth) (srv j : Nat) (hact : a.active = some srv) (hu : uncachedWatch a = true)
    (hn : nextServer a srv = some j) :
    (handleFailure a srv false).auth.active = some j ∧ (handleFailure a srv false).cbs = [] ∧
    j ∈ (handleFailure a srv false).auth.opened ∧
    ∀ p ∈ (handleFailure a srv false).auth.res, j ∈ p.2.chans := by
  have ht : fallbackTarget a srv = some j := by simp [fallbackTarget, hact, hn]
  simp only [handleFailure, Bool.false_eq_true, ↓reduceIte, hu, Bool.not_true, ht, fallbackTo, List.mem_append,
    List.mem_singleton, or_true, List.mem_map, true_and]
  rintro p ⟨q, _, rfl⟩
  simp

/-- No fallback after a response was received on the stream, nor when nothing is uncached, nor when the failing
    server is not the active one (a higher-priority server still down while in fallback, or a stale report of a
    released channel), nor when no server is left: the state does not change (the watchers are told, except in the
    first case). -/
theorem no_fallback_otherwise (a : Auth) (srv : Nat) (after : Bool)
    (h : after = true ∨ uncachedWatch a = false ∨ a.active ≠ some srv ∨ nextServer a srv = none) :
    (handleFailure a srv after).auth = a ∧ (handleFailure a srv after).cmds = [] := by
  have key : fallbackTarget a srv = none →
      (handleFailure a srv after).auth = a ∧ (handleFailure a srv after).cmds = [] := by
    intro ht
    unfold handleFailure
    cases after <;> by_cases hu : uncachedWatch a = true <;> simp [hu, ht]
  rcases h with rfl | h | h | h
  · simp [handleFailure]
  · unfold handleFailure; cases after <;> simp [h]
  · exact key (by simp [fallbackTarget, h])
  · exact key (by unfold fallbackTarget; split <;> simp [h])

/-! ### which channels exist -/

/-- **C44, channels created / released.** In EVERY history (stale reports of released channels and failing
    transport creations included) the authority never holds a channel to a server below its active one, and none
    at all when nothing is active: whatever was opened during fallback is gone after a revert. -/
theorem no_channel_below_active (n : Nat) (ign : List Bool) (hist : List AEv) :
    NoBelow (Auth.run (Auth.init n ign) hist) := by
  have : ∀ (es : List AEv) (a : Auth), NoBelow a → NoBelow (Auth.run a es) := by
    intro es
    induction es with
    | nil => intro a hp; exact hp
    | cons e es ih => intro a hp; exact ih _ (noBelow_step hp)
  exact this hist _ ⟨by simp [Auth.init], by simp [Auth.init]⟩

/-- histories in which no transport creation ever fails -/
def NoBuildFaultRun (hist : List AEv) : Prop := ∀ e ∈ hist, NoBuildFault e

/-- In every history without failing transport creations (stale reports of released channels included, since
    /repo 98104fb) the authority holds channels to exactly the servers 0 … active (none when nothing is watched):
    each fallback opens the server right after the active one, each revert to `srv` leaves exactly 0 … srv. -/
theorem channels_are_prefix_up_to_active (n : Nat) (ign : List Bool) (hist : List AEv) (h : NoBuildFaultRun hist) :
    Prefix (Auth.run (Auth.init n ign) hist) ∧ (Auth.run (Auth.init n ign) hist).nobuild = [] := by
  have : ∀ (es : List AEv) (a : Auth), Prefix a → a.nobuild = [] → (∀ e ∈ es, NoBuildFault e) →
      Prefix (Auth.run a es) ∧ (Auth.run a es).nobuild = [] := by
    intro es
    induction es with
    | nil => intro a hp hnb _; exact ⟨hp, hnb⟩
    | cons e es ih =>
      intro a hp hnb hf
      exact ih _ (prefix_step hp hnb) (step_nobuild (hf e (by simp)) hnb) (fun e' he' => hf e' (by simp [he']))
  exact this hist _ ⟨by simp [Auth.init], by simp [Auth.init]⟩ rfl h

/-- … and then a fallback always goes from the active server `i` to `i + 1`. -/
theorem fallback_goes_to_next (a : Auth) (hp : Prefix a) (hnb : a.nobuild = []) (e : AEv) (i j : Nat)
    (hi : a.active = some i) (hj : (a.step e).auth.active = some j) (hlt : i < j) : j = i + 1 := by
  obtain ⟨_, _, _, _, _, h4, _⟩ :=
    fallback_only_if_failed_before_any_response_and_uncached_watch a e i j hi hj hlt
  rcases Nat.lt_or_ge (i + 1) j with h | h
  · have h5 := h4 (i + 1) (by omega) h
    rw [hnb] at h5
    simp only [List.not_mem_nil, or_false] at h5
    have := (hp.2 i hi (i + 1)).mp h5; omega
  · omega

/-! ### reverting when a higher-priority server delivers an update -/

/-- **C44, revert.** An update from a server `srv` of higher priority than the active one makes `srv` the active
    server, is processed (callbacks as for any update, `onDone` armed), and for every configured server `i` below
    `srv`: everything subscribed there is unsubscribed, its channel is released if it had one, and afterwards it
    has no channel and no resource lists it. This holds whatever the set of channels looks like: in particular
    when a fallback skipped a server whose transport could not be created, the channel behind that gap is
    released too (`revert_releases_behind_a_gap`). -/
theorem revert_on_higher_priority_update_releases_lower (a : Auth) (srv act : Nat) (typ ver : String)
    (es : List (String × Upd)) (hact : a.active = some act) (hlt : srv < act) :
    let o := handleUpdate a srv typ ver es
    o.auth.active = some srv ∧ o.done = true ∧
    (∀ i, srv < i → i ∉ o.auth.opened) ∧
    (∀ p ∈ o.auth.res, ∀ i ∈ p.2.chans, i ≤ srv) ∧
    (∀ i ∈ a.opened, srv < i → i < a.n → Cmd.release i ∈ o.cmds) ∧
    (∀ p ∈ a.res, ∀ i ∈ p.2.chans, srv < i → i < a.n → Cmd.unsub i p.1 ∈ o.cmds) ∧
    (∀ c ∈ o.cmds, (∃ i k, c = .unsub i k ∧ srv < i) ∨ (∃ i, c = .release i ∧ srv < i)) := by
  intro o
  have ho : o = handleUpdate a srv typ ver es := rfl
  simp only [handleUpdate, revert_above hact hlt, ↓reduceIte, processUpdate_res] at ho
  rw [ho]
  refine ⟨rfl, rfl, ?_, ?_, ?_, ?_, ?_⟩
  · intro i hi hmem
    simp only [revertTo, List.mem_filter, decide_eq_true_eq] at hmem
    omega
  · intro p hp i hic
    simp only [revertTo, List.mem_map] at hp
    obtain ⟨_, ⟨q, _, rfl⟩, rfl⟩ := hp
    rw [(updFull_key ..).2.2] at hic
    simp only [restrictChans, List.mem_filter, decide_eq_true_eq] at hic
    exact hic.2
  · intro i hi hgt hn
    simp only [revertCmds, List.mem_flatMap, List.mem_filter, List.mem_range, decide_eq_true_eq, List.mem_append,
      List.mem_map]
    exact ⟨i, ⟨hn, hgt⟩, Or.inr (by simp [hi])⟩
  · intro p hp i hic hgt hn
    simp only [revertCmds, List.mem_flatMap, List.mem_filter, List.mem_range, decide_eq_true_eq, List.mem_append,
      List.mem_map]
    exact ⟨i, ⟨hn, hgt⟩, Or.inl ⟨p, ⟨hp, by simpa using hic⟩, rfl⟩⟩
  · intro c hc
    simp only [revertCmds, List.mem_flatMap, List.mem_filter, List.mem_range, decide_eq_true_eq, List.mem_append,
      List.mem_map] at hc
    obtain ⟨i, ⟨_, hgt⟩, ⟨p, _, rfl⟩ | hc⟩ := hc
    · exact Or.inl ⟨i, p.1, rfl, hgt⟩
    · split at hc
      · simp only [List.mem_singleton] at hc; subst hc; exact Or.inr ⟨i, rfl, hgt⟩
      · simp at hc

/-- An update from the active server itself changes neither the active server nor any channel. -/
theorem update_from_active_keeps_servers (a : Auth) (srv : Nat) (typ ver : String) (es : List (String × Upd))
    (hact : a.active = some srv) :
    (handleUpdate a srv typ ver es).auth.active = some srv ∧ (handleUpdate a srv typ ver es).auth.opened = a.opened ∧
    (handleUpdate a srv typ ver es).cmds = [] ∧ (handleUpdate a srv typ ver es).done = true := by
  simp [handleUpdate, revert_same hact, processUpdate_res, hact]

/-! ### updates from servers below the active one -/

/-- **C44, ignore.** An update from a server below the active one (or arriving when no server is active) changes
    nothing and reaches no watcher. `done = false`: the function returns before its deferred `onDone` logic is set
    up, so the ADS flow control of the channel that delivered the update is never released by this authority
    (DESIGN section 7 observation; it is real, see the report: harmless only because such a channel has normally
    been closed already). -/
theorem updates_below_active_ignored (a : Auth) (srv : Nat) (typ ver : String) (es : List (String × Upd))
    (h : a.active = none ∨ ∃ act, a.active = some act ∧ act < srv) :
    handleUpdate a srv typ ver es = { auth := a, cbs := [], cmds := [], done := false } := by
  rcases h with h | ⟨act, h, hlt⟩
  · simp [handleUpdate, revert_none h]
  · simp [handleUpdate, revert_below h hlt]

/-- A fallback that had to skip server 1 (its transport cannot be created) lands on server 2; when the primary
    delivers an update, server 2 — behind the gap — is unsubscribed and released. -/
theorem revert_releases_behind_a_gap :
    let a := Auth.run (Auth.init 3 [false, false, false])
      [.watch ⟨"T", "r1"⟩ 1, .env [1], .failure 0 false]
    let o := a.step (.update 0 1 "T" "v1" [("r1", .ok "c")])
    a.active = some 2 ∧ a.opened = [0, 2] ∧
    o.auth.active = some 0 ∧ o.auth.opened = [0] ∧ o.cmds = [.unsub 2 ⟨"T", "r1"⟩, .release 2] := by
  decide

/-! ### observations outside the listed clauses (both reproduced on the real client by the harness) -/

/-- A resource first watched while a fallback server is active is subscribed on that server only
    (`watchResource` uses `xdsChannelToUse`); the revert to the primary unsubscribes it there and nothing
    subscribes it on the primary: it stays watched but is requested from no server. -/
theorem watch_during_fallback_is_lost_on_revert :
    let a := Auth.run (Auth.init 2 [false, false])
      [.watch ⟨"T", "r1"⟩ 1, .failure 0 false, .watch ⟨"T", "r2"⟩ 2, .update 0 1 "T" "v1" [("r1", .ok "c")]]
    a.active = some 0 ∧ (lookup a.res ⟨"T", "r2"⟩).map (fun r => (r.watchers, r.chans)) = some ([2], []) := by
  decide

/-- A failure report of a server whose channel the authority has already released (queued behind the update that
    reverted to the primary) no longer moves the authority (before /repo 98104fb it ended on server 2 with channels
    {0, 2}: finding F41); the watchers are merely told about the connection error. -/
theorem stale_failure_report_does_not_trigger_fallback :
    let a := Auth.run (Auth.init 3 [false, false, false])
      [.watch ⟨"T", "r1"⟩ 1, .watch ⟨"T", "r2"⟩ 2, .failure 0 false,
       .update 0 1 "T" "v1" [("r1", .ok "c")],   -- the primary is back: revert, server 1 released
       .failure 1 false]                          -- the report server 1's channel had already queued
    a.active = some 0 ∧ a.opened = [0] := by
  decide

end GrpcProofs.C44
