/-
C46  xDS routing selects the right virtual host, route and cluster.
Property theorems only; helper lemmas (loop invariant of FindBestMatchingVirtualHost, counting lemmas, …) are in
GrpcProofs/Lemmas/Routing.lean. Statements are about the model in GrpcModel/Model/Routing.lean and quantify over all
route configurations, RPCs and all values of the random source (explicit arguments of the model).
-/
import GrpcProofs.Lemmas.Routing
namespace GrpcProofs.C46
open GrpcModel.Matchers GrpcModel.Routing GrpcProofs.Lemmas.Routing

/-! ### virtual host -/

/-- The Go constants order the pattern types exact > suffix > prefix > universal > invalid (values regenerated from
    the const block on every run: reordering it breaks this theorem). -/
theorem domain_rank_order :
    DomainMatchType.exact.rank = 4 ∧ DomainMatchType.suffix.rank = 3 ∧ DomainMatchType.prefix.rank = 2 ∧
    DomainMatchType.universal.rank = 1 ∧ DomainMatchType.invalid.rank = 0 := by decide

/-- What each (valid) pattern type matches: "*" everything, "*x" hosts ending in x, "x*" hosts starting with x,
    otherwise equality. -/
theorem domain_match_spec (d host : Str) :
    (matchTypeForDomain d = .universal → domainMatches d host = true) ∧
    (matchTypeForDomain d = .suffix → (domainMatches d host = true ↔ d.tail <:+ host)) ∧
    (matchTypeForDomain d = .prefix → (domainMatches d host = true ↔ d.dropLast <+: host)) ∧
    (matchTypeForDomain d = .exact → (domainMatches d host = true ↔ d = host)) ∧
    (matchTypeForDomain d = .invalid → domainMatches d host = false) := by
  refine ⟨?_, ?_, ?_, ?_, ?_⟩ <;> intro h <;> simp [domainMatches, h]

/-- A malformed domain anywhere in the route configuration ⇒ no virtual host (the RDS response is invalid). -/
theorem best_vhost_invalid (host : Str) (vhs : List (List Str))
    (h : ∃ p ∈ domainPairs vhs, matchTypeForDomain p.2 = .invalid) : findBestVHost host vhs = none :=
  find_none_iff host vhs h

/-- With well-formed domains the chosen virtual host is the owner of the FIRST (in configuration order) matching
    domain that no matching domain beats — `Spec.better`: better type (exact > suffix > prefix > wildcard), or same
    type and longer pattern — and none is chosen iff no domain matches the authority. -/
theorem best_vhost_spec (host : Str) (vhs : List (List Str))
    (hvalid : ∀ p ∈ domainPairs vhs, matchTypeForDomain p.2 ≠ .invalid) :
    (findBestVHost host vhs = none ↔ ∀ p ∈ domainPairs vhs, domainMatches p.2 host = false) ∧
    (∀ i, findBestVHost host vhs = some i ↔
      ∃ p pre post, p.1 = i ∧ domainPairs vhs = pre ++ p :: post ∧ domainMatches p.2 host = true ∧
        (∀ q ∈ pre, domainMatches q.2 host = true → Spec.better p.2 q.2 = true) ∧
        (∀ q ∈ post, domainMatches q.2 host = true → Spec.better q.2 p.2 = false)) := by
  obtain ⟨h1, h2⟩ := find_spec host vhs hvalid
  refine ⟨h1, fun i => (h2 i).trans ?_⟩
  constructor
  · rintro ⟨p, hp, pre, post, h⟩; exact ⟨p, pre, post, hp, h⟩
  · rintro ⟨p, pre, post, hp, h⟩; exact ⟨p, hp, pre, post, h⟩

/-- `Spec.better` is the lexicographic order the statement names. -/
theorem better_spec (q p : Str) : Spec.better q p = true ↔
    Spec.rank (matchTypeForDomain q) > Spec.rank (matchTypeForDomain p) ∨
    (Spec.rank (matchTypeForDomain q) = Spec.rank (matchTypeForDomain p) ∧ q.length > p.length) :=
  better_def q p

/-- The executable specification evaluated by the monitor agrees with the ported loop on every input. -/
theorem best_vhost_eq_monitor (host : Str) (vhs : List (List Str)) :
    findBestVHost host vhs = Spec.bestVHost host vhs := find_eq_spec host vhs

/-! ### route -/

/-- Give every route j its own draw τ[j] of the random source. Fed the draws in the order the code consumes them
    (only routes whose path and header matchers matched and that have a fraction draw one), `SelectConfig`'s loop
    returns the FIRST route whose path, header and runtime-fraction matchers all match. -/
theorem first_matching_route (strict : Bool) (method : Str) (md : MD) (routes : List Route) (τ : List Nat)
    (hτ : τ.length = routes.length) :
    firstMatch strict method md routes (drawsUsed method md routes τ) =
      (List.zip routes τ).findIdx? (fun rt => rt.1.matchWith strict method md rt.2) :=
  firstMatch_eq_findIdx strict method md routes τ hτ

/-- …spelled out: route i matches, no earlier route does; and no route is selected iff none matches. -/
theorem first_matching_route_first (strict : Bool) (method : Str) (md : MD) (routes : List Route) (τ : List Nat)
    (hτ : τ.length = routes.length) :
    (∀ i, firstMatch strict method md routes (drawsUsed method md routes τ) = some i ↔
      ∃ h : i < (List.zip routes τ).length,
        (List.zip routes τ)[i].1.matchWith strict method md (List.zip routes τ)[i].2 = true ∧
        ∀ j (hj : j < i), ¬ (List.zip routes τ)[j].1.matchWith strict method md (List.zip routes τ)[j].2 = true) ∧
    (firstMatch strict method md routes (drawsUsed method md routes τ) = none ↔
      ∀ rt ∈ List.zip routes τ, rt.1.matchWith strict method md rt.2 = false) := by
  rw [first_matching_route strict method md routes τ hτ]
  exact ⟨fun i => List.findIdx?_eq_some_iff_getElem, List.findIdx?_eq_none_iff⟩

/-- A route matches iff path, every header matcher and (when configured) the runtime fraction match. -/
theorem route_match_spec (strict : Bool) (r : Route) (method : Str) (md : MD) (t : Nat) :
    r.matchWith strict method md t = true ↔
      r.path.match method = true ∧ (∀ h ∈ r.headers, h.match md = true) ∧
      (∀ f, r.fraction = some f → fractionMatch strict f t = true) := by
  unfold Route.matchWith Route.staticMatch
  cases hf : r.fraction with
  | none => simp
  | some f => simp [and_assoc]

/-! ### runtime fraction -/

/-- FULL STATEMENT (false of the code, see `fraction_exact_counterexample`):
      ∀ f ≤ 10^6, |{ t < 10^6 | match f t }| = f.
    AS THE CODE IS (`t <= fraction`): a fraction of f per million matches min(f+1, 10^6) of the 10^6 draws. -/
theorem fraction_count_as_is_partial (f : Nat) :
    (List.range 1000000).countP (fractionMatchAsIs f) = min (f + 1) 1000000 := by
  have h : fractionMatchAsIs f = fun t => decide (t ≤ f) := by funext t; simp [fractionMatchAsIs]
  rw [h]; exact countP_le 1000000 f

/-- The code breaks "exactly f of the million draws (so 0 never matches)": fraction 0 matches the draw t = 0, and
    the count for f = 0 is 1. -/
theorem fraction_exact_counterexample :
    fractionMatchAsIs 0 0 = true ∧
    ¬ (∀ f ≤ 1000000, (List.range 1000000).countP (fractionMatchAsIs f) = f) := by
  refine ⟨by decide, ?_⟩
  intro h
  have h0 := h 0 (by omega)
  rw [fraction_count_as_is_partial] at h0
  omega

/-- After the one-character fix (`t < fraction`) the statement holds: exactly f of the 10^6 draws match for every
    f ≤ 10^6 (all of them above), which is the monitor's `Spec.fractionCount`; and 0 never matches. -/
theorem fraction_exact_after_fix (f : Nat) :
    (List.range 1000000).countP (fractionMatchFixed f) = Spec.fractionCount f ∧
    (f ≤ 1000000 → (List.range 1000000).countP (fractionMatchFixed f) = f) ∧
    (∀ t, fractionMatchFixed 0 t = false) := by
  have h' : (List.range 1000000).countP (fractionMatchFixed f) = min f 1000000 := by
    have h : fractionMatchFixed f = fun t => decide (t < f) := by funext t; simp [fractionMatchFixed]
    rw [h]; exact countP_lt 1000000 f
  refine ⟨by rw [h']; rfl, fun hf => by rw [h']; omega, fun t => by simp [fractionMatchFixed]⟩

/-! ### weighted clusters -/

/-- Over all draws of the WRR's random source (`wrrBound` of them, each equally likely) cluster i is chosen in
    proportion to its weight: count_i · Σw = w_i · #draws. (All-equal weights take the uniform branch, otherwise the
    draw is searched in the accumulated weights.) -/
theorem cluster_in_proportion (ws : List Nat) (i : Nat) (hi : i < ws.length) :
    (List.range (wrrBound ws)).countP (fun r => wrrNext ws r == some i) * ws.sum = ws[i]! * wrrBound ws := by
  have hne : ws ≠ [] := by intro h; simp [h] at hi
  unfold wrrBound wrrNext
  simp only [hne, if_false]
  by_cases he : equalWeights ws = true
  · simp only [he, if_true]
    have hc : (List.range ws.length).countP (fun r => some r == some i) = 1 := by
      have h : (fun r : Nat => some r == some i) = fun r => decide (r = i) := by
        funext r; rw [Bool.eq_iff_iff]; simp
      rw [h]; exact countP_eq_index ws.length i hi
    rw [hc]
    cases ws with
    | nil => exact absurd rfl hne
    | cons w ws' =>
      have hall : (w :: ws').all (· == w) = true := by
        simp only [equalWeights] at he; simp [he]
      rw [sum_of_equal w _ hall, getElem_of_equal w _ i hall hi, Nat.one_mul, Nat.mul_comm]
  · simp only [he, Bool.false_eq_true, if_false]
    have hc : (List.range ws.sum).countP (fun r => some (searchAcc r (accWeights 0 ws)) == some i) = ws[i]! := by
      have h : (fun r : Nat => some (searchAcc r (accWeights 0 ws)) == some i) =
          fun r => decide (0 ≤ r ∧ searchAcc r (accWeights 0 ws) = i) := by
        funext r; rw [Bool.eq_iff_iff]; simp
      rw [h]; exact count_search ws 0 i ws.sum hi (by omega)
    rw [hc]

/-- Exactly: with unequal weights cluster i is chosen by w_i of the Σw draws; with equal weights by 1 of the n. -/
theorem cluster_count (ws : List Nat) (i : Nat) (hi : i < ws.length) :
    (equalWeights ws = false → (List.range ws.sum).countP (fun r => wrrNext ws r == some i) = ws[i]!) ∧
    (equalWeights ws = true → (List.range ws.length).countP (fun r => wrrNext ws r == some i) = 1) := by
  have hne : ws ≠ [] := by intro h; simp [h] at hi
  constructor
  · intro he
    unfold wrrNext
    simp only [hne, if_false, he, Bool.false_eq_true]
    have h : (fun r : Nat => some (searchAcc r (accWeights 0 ws)) == some i) =
        fun r => decide (0 ≤ r ∧ searchAcc r (accWeights 0 ws) = i) := by
        funext r; rw [Bool.eq_iff_iff]; simp
    rw [h]; exact count_search ws 0 i ws.sum hi (by omega)
  · intro he
    unfold wrrNext
    simp only [hne, if_false, he, if_true]
    have h : (fun r : Nat => some r == some i) = fun r => decide (r = i) := by
        funext r; rw [Bool.eq_iff_iff]; simp
    rw [h]; exact countP_eq_index ws.length i hi

/-! ### request hash -/

/-- The request hash depends only on the configured hash-policy inputs: two RPCs that agree on the values of every
    header named by a (non "-bin") header policy get the same hash (or both the random fallback), whatever else
    differs — method, other metadata, the draws. `hashFn` (xxhash64) and the channel id are parameters. -/
theorem hash_depends_only_on_policy_inputs (hashFn : Str → UInt64) (c : UInt64) (ps : List HashPolicy)
    (v v' : Str → List Str)
    (h : ∀ n t, HashPolicy.header n t ∈ ps → hasSuffixBin n = false → v n = v' n) :
    generateHash hashFn c v ps = generateHash hashFn c v' ps := by
  unfold generateHash
  rw [hashLoop_congr hashFn c v v' ps 0 false h]

/-- In particular the hash of an RPC equals the hash of its projection onto the policy inputs (what the monitor
    recomputes from the implementation's answer). -/
theorem hash_eq_monitor_projection (hashFn : Str → UInt64) (c : UInt64) (ps : List HashPolicy) (md : MD) (emd : Option MD) :
    generateHash hashFn c (hashValues md emd) ps =
      generateHash hashFn c (hashValues (Spec.projectMD ps md) (emd.map (Spec.projectMD ps))) ps := by
  apply hash_depends_only_on_policy_inputs
  intro n t hmem hbin
  have hin : Spec.isHashInput ps (asciiLower n) = true := by
    unfold Spec.isHashInput
    rw [List.any_eq_true]
    exact ⟨.header n t, hmem, by simp [hbin]⟩
  unfold hashValues Spec.projectMD
  have hl := fun m => lookup_filter (Spec.isHashInput ps) (asciiLower n) hin m
  cases emd with
  | none => simp only [Option.map_none]; rw [hl md]
  | some e => simp only [Option.map_some]; rw [hl md, hl e]

/-- Which hash: policies are folded left to right (`rotl(h,1) xor policyHash`), a header policy whose header is
    absent or "-bin" is skipped, a terminal policy that applied stops the fold; nothing applied ⇒ random (`none`). -/
theorem hash_examples (hashFn : Str → UInt64) (c : UInt64) (v : Str → List Str) :
    generateHash hashFn c v [] = none ∧
    generateHash hashFn c v [.channelID false] = some c ∧
    (∀ n t, v n = [] → generateHash hashFn c v [.header n t] = none) ∧
    (∀ n t rest, generateHash hashFn c v (.channelID true :: .header n t :: rest) = some c) := by
  refine ⟨rfl, ?_, ?_, ?_⟩
  · simp [generateHash, hashLoop, rotl1]
  · intro n t hv
    simp only [generateHash, hashLoop, hv]
    split <;> simp
  · intro n t rest
    simp [generateHash, hashLoop, rotl1]

/-- A terminal policy that applied (channel id, or a present non "-bin" header) ends the fold: whatever policies
    follow it do not influence the hash. -/
theorem hash_terminal_cuts (hashFn : Str → UInt64) (c : UInt64) (v : Str → List Str) (p : HashPolicy)
    (hp : applies v p = true) (ht : isTerminal p = true) (ps1 ps2 ps2' : List HashPolicy) :
    generateHash hashFn c v (ps1 ++ p :: ps2) = generateHash hashFn c v (ps1 ++ p :: ps2') := by
  unfold generateHash
  rw [hashLoop_terminal_cuts hashFn c v p hp ht ps2 ps2' ps1 0 false]

/-! ### SelectConfig -/

/-- `SelectConfig` composes the three choices: the first matching route, a cluster of that route by the WRR draw,
    and the hash of that route's policies. -/
theorem select_config_spec (strict : Bool) (hashFn : Str → UInt64) (c : UInt64) (routes : List Route)
    (method : Str) (md : MD) (emd : Option MD) (ds : List Nat) (w i k : Nat) (h : Option UInt64)
    (hsel : selectConfig strict hashFn c routes method md emd ds w = .picked i k h) :
    firstMatch strict method (matchMD md emd) routes ds = some i ∧
    ∃ rt, routes[i]? = some rt ∧ rt.action = .route ∧
      wrrNext (rt.clusters.map (·.2)) (w % wrrBound (rt.clusters.map (·.2))) = some k ∧
      h = generateHash hashFn c (hashValues md emd) rt.hashPolicies := by
  unfold selectConfig at hsel
  cases hf : firstMatch strict method (matchMD md emd) routes ds with
  | none => simp [hf] at hsel
  | some j =>
    simp only [hf] at hsel
    cases hr : routes[j]? with
    | none => simp [hr] at hsel
    | some rt =>
      simp only [hr] at hsel
      by_cases ha : rt.action = .route
      · simp only [ha, ne_eq, not_true_eq_false, if_false] at hsel
        cases hw : wrrNext (rt.clusters.map (·.2)) (w % wrrBound (rt.clusters.map (·.2))) with
        | none => simp [hw] at hsel
        | some k' =>
          simp only [hw, SelectResult.picked.injEq] at hsel
          obtain ⟨rfl, rfl, rfl⟩ := hsel
          exact ⟨rfl, rt, hr, ha, hw, rfl⟩
      · simp [ha] at hsel

-- non-vacuity
example : findBestVHost [97, 46, 99] [[[42]], [[42, 46, 99]], [[97, 46, 42], [97, 46, 99]]] = some 2 := by decide  -- exact wins
example : findBestVHost [97, 46, 99] [[[42]], [[42, 46, 99], [42, 99]], [[97, 46, 42]]] = some 1 := by decide       -- suffix > prefix
example : findBestVHost [97, 46, 99] [[[42, 99]], [[42, 46, 99]]] = some 1 := by decide                            -- longer suffix
example : findBestVHost [97] [[[98]], [[97, 42, 98]]] = none := by decide                                          -- "a*b" invalid
example : findBestVHost [97] [[[98]]] = none := by decide
example : wrrNext [1, 2, 3] 0 = some 0 ∧ wrrNext [1, 2, 3] 2 = some 1 ∧ wrrNext [1, 2, 3] 5 = some 2 := by decide
example : wrrNext [5, 5] 1 = some 1 := by decide
example : fractionMatchAsIs 1 1 = true ∧ fractionMatchFixed 1 1 = false := by decide

end GrpcProofs.C46
