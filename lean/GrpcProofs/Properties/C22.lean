/-
C22  Deadlines and cancellation propagate to both ends.
Property theorems only; helper lemmas are in GrpcProofs/Lemmas/Deadline.lean. The grpc-timeout
encoding bound d ≤ d' is C07's theorem (imported and reused).

The model (lean/GrpcModel/Model/Deadline.lean) is one RPC goroutine moving through the five
blocking selects of the client path, for unary and streaming RPCs, under arbitrary environment
events and arbitrary select choices; `WF` is an invariant of every run (`wf_reachable`).
-/
import GrpcProofs.Lemmas.Deadline
import GrpcProofs.Properties.C07
namespace GrpcProofs.C22
open GrpcModel.Deadline GrpcModel.Generated GrpcProofs.Lemmas.Deadline

/-! ## Every blocking point listens to the context -/

/-- Structural: each of the five select sets contains the context case — directly, or (write quota)
    through `s.done`, which the watcher goroutine closes on ctx.Done (`watcher_relays_ctx`). -/
theorem every_block_point_listens_to_ctx (p : Pos) :
    Wake.ctxDone ∈ selectSet p ∨ (p = .wquota ∧ Wake.streamDone ∈ selectSet p) := by
  cases p <;> simp [selectSet]

/-- The watcher of a created streaming RPC turns ctx.Done into `s.done` closed + status fixed. -/
theorem watcher_relays_ctx (s : St) (e : CtxErr) (h : WF s) (hs : s.streaming = true) (hcr : s.created = true)
    (hc : s.ctx = none) (hsd : s.sdone = false) :
    (fired s e).sdone = true ∧ (fired s e).finished = some (codeOfCtx e) := by
  rw [fired_streaming_created e h hs hcr hc hsd]; simp

/-- `WF` holds in every state of every run, for both kinds of RPC, any initial picker / quota
    situation, any event sequence and any select choices. -/
theorem wf_reachable (streaming ready : Bool) (squota reqSz : Nat) (serverStreams : Bool) (pref : Nat → Bool) (es : List Ev) :
    WF (run pref 0 (St.init streaming ready squota reqSz serverStreams) es) :=
  wf_run pref es 0 (wf_init streaming ready squota reqSz serverStreams)

/-- C22 "the handler's context is cancelled when the client cancels", client half, and "regardless of
    where it is blocked" for the time the application is NOT inside a grpc call: for EVERY stream the
    application created through `ClientConn.NewStream` — whatever its StreamDesc (client-streaming,
    server-streaming, both, or neither) — and at EVERY point after creation (in application code
    between two calls, or parked in any of the selects), a cancel / expired deadline closes the
    transport stream in that very step: `s.done` is closed, RST_STREAM(CANCEL) is on the wire and the
    status is fixed to the context's code. (`cc.Invoke` needs no watcher: it is always inside a call.) -/
theorem cancel_anywhere_releases_stream (b : Bool) (s : St) (e : CtxErr) (h : WF s) (hs : s.streaming = true)
    (hcr : s.created = true) (hc : s.ctx = none) (hsd : s.sdone = false) :
    (step b s (.ctxFire e)).sdone = true ∧ (step b s (.ctxFire e)).rstSent = true
      ∧ (step b s (.ctxFire e)).finished = some (codeOfCtx e) :=
  ctxFire_releases e h hs hcr hc hsd

/-- … and the RST_STREAM cancels the handler's context (composition with `server_ctx_cancelled_on_rst`
    below is immediate); the next RecvMsg of the application then returns that code at once. -/
theorem released_stream_recv_returns_code (b : Bool) (s : St) (c : Nat) (hp : s.pc = .app) (hh : s.hdr = true)
    (hsd : s.sdone = true) (hb : s.buf = [.err c]) : (step b s .appRecv).pc = .returned c := by
  have w : wake b { s with pc := .parked .recv } = some { s with pc := .returned c } := by
    simp only [wake]
    rw [recvClose_sdone (by simpa using hsd)]
    simp [takeHead, hb]
  rw [step_appRecv hp hh, resume_some w, resume_none (wake_returned _ _ _ rfl)]

/-! ## Terminal code ∈ {DEADLINE_EXCEEDED, CANCELLED}, wherever the RPC is blocked -/

/-- The status code of a context error is CANCELLED (1) or DEADLINE_EXCEEDED (4). -/
theorem terminal_code (e : CtxErr) : codeOfCtx e = 1 ∨ codeOfCtx e = 4 := by
  cases e <;> simp [codeOfCtx, codeCanceled, codeDeadlineExceeded]

theorem terminal_code_deadline : codeOfCtx .deadlineExceeded = 4 := rfl
theorem terminal_code_cancel : codeOfCtx .canceled = 1 := rfl

/-- C22, first sentence. An RPC that is genuinely parked (context live, no select case ready:
    `wake = none`) at ANY blocking point other than write quota returns the context's status code in
    the very step in which the deadline passes / cancel is called — whatever the select choice. -/
theorem parked_rpc_returns_ctx_code (b b' : Bool) (s : St) (e : CtxErr) (p : Pos) (h : WF s)
    (hp : s.pc = .parked p) (hc : s.ctx = none) (hw : wake b s = none) (hne : p ≠ .wquota) :
    (step b' s (.ctxFire e)).pc = .returned (codeOfCtx e) := by
  cases p with
  | pick => exact parked_pick e hp hc hw
  | newStream => exact parked_newStream e hp hc hw
  | header => exact parked_header e h hp hc hw
  | recv => exact parked_recv e h hp hc hw
  | wquota => exact absurd rfl hne

/-- In particular in the MIDDLE of a message: the 5-byte message header has been consumed
    (`readMessageHeaderClient`) and the goroutine waits in `readClient` for the rest of the payload
    (`midMsg`). A unary RPC has no watcher goroutine, so this select is the only thing that listens. -/
theorem parked_mid_message_returns_ctx_code (b b' : Bool) (s : St) (e : CtxErr) (h : WF s)
    (hp : s.pc = .parked .recv) (_hm : s.midMsg = true) (hc : s.ctx = none) (hw : wake b s = none) :
    (step b' s (.ctxFire e)).pc = .returned (codeOfCtx e) :=
  parked_rpc_returns_ctx_code b b' s e .recv h hp hc hw (by decide)

/-- Write quota: only a streaming RPC can be parked there (a unary RPC sends one message against
    the initial 65536-byte quota). The watcher finishes the stream: SendMsg returns (io.EOF), the
    status is fixed to the context's code … -/
theorem parked_wquota_unblocked (b b' : Bool) (s : St) (e : CtxErr) (h : WF s)
    (hp : s.pc = .parked .wquota) (hc : s.ctx = none) (hw : wake b s = none) :
    s.streaming = true ∧ (step b' s (.ctxFire e)).pc = .app
      ∧ (step b' s (.ctxFire e)).finished = some (codeOfCtx e)
      ∧ (step b' s (.ctxFire e)).buf = s.buf ++ [.err (codeOfCtx e)] := by
  have := parked_wquota (b := b) (b' := b') e h hp hc hw
  exact ⟨this.1, this.2.1, this.2.2.1, this.2.2.2.2.2⟩

/-- … and the application's following RecvMsg calls drain the k messages that were already buffered
    and then return that code (the documented recv-buffer drain delay: k more calls, no waiting). -/
theorem finished_stream_returns_code (pref : Nat → Bool) (c k n : Nat) (s : St) (hp : s.pc = .app)
    (hs : s.serverStreams = true) (hh : s.hdr = true) (hsd : s.sdone = true)
    (hb : s.buf = List.replicate k Item.msg ++ [.err c]) :
    (run pref n s (List.replicate (k + 1) .appRecv)).pc = .returned c :=
  (drain_returns pref c k n s hp hs hh hsd hb).1

/-- Bounded time: once the context is done the RPC goroutine is never blocked again — at every
    blocking point of every reachable state some select case is ready. -/
theorem ctx_done_never_blocks (b : Bool) (s : St) (e : CtxErr) (p : Pos) (h : WF s) (hc : s.ctx = some e)
    (hp : s.pc = .parked p) : ∃ s', wake b s = some s' :=
  ctx_done_not_blocked h e hc p hp

/-- A unary RPC is never parked on write quota (so the missing ctx case there cannot hang it). -/
theorem unary_never_parked_on_wquota (b : Bool) (s : St) (h : WF s) (hs : s.streaming = false)
    (hp : s.pc = .parked .wquota) : ∃ s', wake b s = some s' := by
  have hq := h.unary_wq hs (Or.inr (Or.inr hp))
  simp [wake, hp, hq, hs]

/-! ## Server deadline ≥ client's remaining time -/

/-- C22, second sentence, first half. The client sends `grpc-timeout = EncodeDuration(deadline - now)`
    (0 < remaining ≤ MaxInt64); the server's handler context gets deadline
    `arrival + decodeTimeout(header)`. Since decode(encode d) ≥ d (C07 `decode_encode_bytes`) and the
    header cannot arrive before it was sent, the handler's deadline is never earlier than the
    client's — and less than one encoding unit later, measured from arrival. -/
theorem server_deadline_ge_client_remaining (now deadline arrival : Nat) (h0 : now < deadline)
    (hmax : deadline - now ≤ GrpcModel.Timeout.maxInt64) (harr : now ≤ arrival) :
    ∃ hdr sd, timeoutHeader now deadline = .ok hdr ∧ serverDeadline arrival hdr = some sd ∧ deadline ≤ sd
      ∧ sd < arrival + (deadline - now) + (GrpcModel.Timeout.encode (deadline - now)).2.ns := by
  have hpos : (0 : Int) < Int.ofNat (deadline - now) := by
    have : 0 < deadline - now := by omega
    exact Int.natCast_pos.mpr this
  have hle : Int.ofNat (deadline - now) ≤ GrpcModel.Timeout.maxInt64 := by
    exact Int.ofNat_le.mpr hmax
  obtain ⟨d', hd, h1, h2⟩ := GrpcProofs.C07.decode_encode_bytes (Int.ofNat (deadline - now)) hpos hle
  refine ⟨GrpcModel.Timeout.encodeBytes (Int.ofNat (deadline - now)), arrival + d', ?_, ?_, ?_, ?_⟩
  · simp only [timeoutHeader]; rw [if_neg (by omega)]
  · show (GrpcModel.Timeout.decodeBytes _).map _ = _
    rw [hd]; rfl
  · simp at h1; omega
  · simp at h2; omega

/-- A deadline that has already passed is not put on the wire: the RPC fails DEADLINE_EXCEEDED. -/
theorem expired_deadline_not_sent (now deadline : Nat) (h : deadline ≤ now) : timeoutHeader now deadline = .error 4 := by
  simp [timeoutHeader, h, codeDeadlineExceeded]

/-! ## The server handler's context is cancelled on RST_STREAM or at the deadline -/

/-- RST_STREAM from the client (sent when the client cancels or its deadline passes) cancels the
    handler's context at once. -/
theorem server_ctx_cancelled_on_rst (s : Srv) : (sstep s .rst).err.isSome = true ∧ (s.err = none → (sstep s .rst).err = some .canceled) := by
  cases h : s.err <;> simp [sstep, h]

/-- The deadline cancels it: in every valid (urgent) timeline, once now > deadline the context is done;
    the expiry itself yields DeadlineExceeded. -/
theorem server_ctx_cancelled_by_deadline : ∀ (es : List SEv) (s : Srv) (dl : Nat), s.deadline = some dl →
    (s.err = none → s.now ≤ dl) → SValid s es = true →
    ((srun s es).err = none → (srun s es).now ≤ dl) ∧ (srun s es).deadline = some dl
  | [], s, dl, hd, h, _ => ⟨h, hd⟩
  | e :: es, s, dl, hd, h, hv => by
    simp only [SValid, Bool.and_eq_true] at hv
    simp only [srun]
    apply server_ctx_cancelled_by_deadline es (sstep s e) dl
    · cases e <;> simp [sstep, hd] <;> (try split) <;> simp [hd]
    · cases e with
      | delay d =>
        have := hv.1
        simp only [SEv.ok, hd] at this
        intro hn
        simp only [sstep] at hn ⊢
        simp [hn] at this
        exact this
      | expire => cases he : s.err <;> simp [sstep, he]
      | rst => cases he : s.err <;> simp [sstep, he]
      | finish => cases he : s.err <;> simp [sstep, he]
    · exact hv.2

theorem server_expiry_is_deadline_exceeded (s : Srv) (h : s.err = none) : (sstep s .expire).err = some .deadlineExceeded := by
  simp [sstep, h]

/-- The first cause wins: a done context never changes its error. -/
theorem server_ctx_err_sticky (s : Srv) (e : CtxErr) (ev : SEv) (h : s.err = some e) : (sstep s ev).err = some e := by
  cases ev <;> simp [sstep, h]

/-! ## Non-vacuity -/

-- a unary-shaped stream made with NewStream (neither ClientStreams nor ServerStreams), request sent, the
-- application not inside any call: cancel closes the stream and sends RST_STREAM
example : let s := run (fun _ => false) 0 (St.init true true 1 1 false) [.pickerReady, .appSend 10, .ctxFire .canceled]
    s.pc = .app ∧ s.sdone = true ∧ s.rstSent = true ∧ s.finished = some 1 := by decide
example : (run (fun _ => false) 0 (St.init true true 1 1 false) [.pickerReady, .appSend 10, .ctxFire .canceled, .appRecv]).pc
    = .returned 1 := by decide

-- a unary RPC with no READY subchannel parks in pick; cancel → CANCELLED
example : (run (fun _ => true) 0 (St.init false false 1) [.ctxFire .canceled]).pc = .returned 1 := by decide
-- stream quota 0: parks in NewStream; deadline → DEADLINE_EXCEEDED
example : (run (fun _ => false) 0 (St.init false false 0) [.pickerReady, .ctxFire .deadlineExceeded]).pc = .returned 4 := by decide
-- silent server: parks in waitOnHeader; then the normal path still works without a context event
example : (run (fun _ => false) 0 (St.init false true 1) [.pickerReady]).pc = .parked .header := by decide
example : (run (fun _ => false) 0 (St.init false true 1) [.pickerReady, .headers, .message, .trailers 0]).pc = .returned 0 := by decide
example : (run (fun _ => false) 0 (St.init false true 1) [.pickerReady, .headers, .ctxFire .canceled]).pc = .returned 1 := by decide
-- unary, header of the response message arrived, payload incomplete: parked mid-message; deadline
example : let s := run (fun _ => false) 0 (St.init false true 1) [.pickerReady, .headers, .partialMsg]
    s.pc = .parked .recv ∧ s.midMsg = true ∧ wake false s = none := by decide
example : (run (fun _ => false) 0 (St.init false true 1) [.pickerReady, .headers, .partialMsg, .ctxFire .deadlineExceeded]).pc
    = .returned 4 := by decide
-- streaming: 200000 bytes against the 65536 quota, second SendMsg parks on write quota; deadline
example : (run (fun _ => false) 0 (St.init true true 1) [.pickerReady, .appSend 200000, .appSend 1]).pc = .parked .wquota := by decide
example : (run (fun _ => false) 0 (St.init true true 1) [.pickerReady, .appSend 200000, .appSend 1, .ctxFire .deadlineExceeded, .appRecv]).pc
    = .returned 4 := by decide
-- 5 s is sent as "5000000u" and decodes exactly; "5S" arriving at instant 7 gives deadline 5 s + 7 ns
example : (match timeoutHeader 0 5000000000 with | .ok h => h == [53, 48, 48, 48, 48, 48, 48, 117] | .error _ => false) = true := by decide
example : serverDeadline 7 [53, 83] = some 5000000007 := by decide

end GrpcProofs.C22
