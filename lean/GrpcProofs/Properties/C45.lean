import GrpcProofs.Lemmas.EDSParse
/-!
# C45  xDS resource parsing is total and accepted resources satisfy invariants — PARTIAL

Proved here (about the models in `GrpcModel/Model/EDSParse.lean`, `GrpcModel/Model/XdsInv.lean`):
the EDS clause of the statement for every ClusterLoadAssignment, and the RDS weighted-cluster clause.
Totality and determinism hold for the models by construction (total Lean functions); for the real code
they are observed by the correspondence run (every input parsed twice, panics reported).
NOT proved (`_partial` in spirit, see props/C45.py LEVEL_NOTE): the RDS route, CDS and LDS validators
are not modelled; their invariants (`XdsInv.rdsInv` …) are evaluated by the monitor on the real
validators' outputs only.

Full statement of the property, for reference: "for any bytes presented as a Listener,
RouteConfiguration, Cluster or ClusterLoadAssignment, unmarshalling returns either an error or an
update, never panics, and gives the same answer every time; every accepted update satisfies the
documented invariants".
-/
namespace GrpcProofs.C45
open GrpcModel.EDSParse GrpcProofs.Lemmas.EDSParse

/-- Every accepted EDS update satisfies `Inv`: priorities contiguous from 0, no repeated address,
    no repeated (locality, priority), locality weights non-zero with per-priority sums ≤ 2^32-1,
    endpoint weights non-zero with per-locality sums ≤ 2^32-1, drop denominators ∈ {100, 10^4, 10^6}.
    For every proto whose uint32 fields are < 2^32 and every setting of the env switches. -/
theorem eds_accept_implies_inv (env : Env) (m : ClusterLoadAssignment) (hty : m.typed) (u : EndpointsUpdate)
    (h : unmarshal env m = .ok u) : GrpcModel.EDSParse.Inv u = true := by
  unfold unmarshal at h
  split at h
  · simp at h
  unfold parseEDSRespProto at h
  cases hd : dropsLoop m.drops with
  | error e => simp [hd] at h
  | ok drops =>
    simp only [hd] at h
    cases hl : localitiesLoop env { priorities := [], sumOfWeights := [], uniq := [], localities := [] } m.endpoints with
    | error e => simp [hl] at h
    | ok acc =>
      simp only [hl] at h
      split at h
      · rename_i hc
        simp only [Except.ok.injEq] at h
        subst h
        exact inv_of_accInv acc drops (localitiesLoop_inv env m.endpoints _ acc accInv_init hty hl) (dropsLoop_ok _ _ hd) hc
      · simp at h

/-- The contiguity clause spelled out: with n distinct priorities in the accepted update, every
    locality's priority is < n and each of 0 … n-1 is the priority of some locality. -/
theorem eds_priorities_contiguous (env : Env) (m : ClusterLoadAssignment) (hty : m.typed) (u : EndpointsUpdate)
    (h : unmarshal env m = .ok u) :
    (∀ l ∈ u.localities, l.priority < (prioritiesOf u).length) ∧
    (∀ i, i < (prioritiesOf u).length → ∃ l ∈ u.localities, l.priority = i) := by
  have hi := eds_accept_implies_inv env m hty u h
  simp only [GrpcModel.EDSParse.Inv, Bool.and_eq_true, List.all_eq_true, decide_eq_true_eq] at hi
  obtain ⟨⟨⟨⟨⟨⟨⟨c1, c2⟩, _⟩, _⟩, _⟩, _⟩, _⟩, _⟩ := hi
  constructor
  · intro l hl
    exact c1 l.priority ((mem_distinct _ _).mpr (List.mem_map_of_mem hl))
  · intro i hi'
    have := c2 i (List.mem_range.mpr hi')
    simp only [List.contains_eq_mem, decide_eq_true_eq] at this
    have := (mem_distinct _ _).mp this
    simpa using this

/-- Nothing is invented or lost: the localities of an accepted update are exactly the input
    localities of non-zero weight, in order, with their id, weight and priority. -/
theorem eds_update_reflects_input (env : Env) (m : ClusterLoadAssignment) (u : EndpointsUpdate)
    (h : unmarshal env m = .ok u) :
    u.localities.map outKey = (m.endpoints.filter (fun l => l.weight ≠ 0)).map inKey := by
  unfold unmarshal at h
  split at h
  · simp at h
  unfold parseEDSRespProto at h
  cases hd : dropsLoop m.drops with
  | error e => simp [hd] at h
  | ok drops =>
    simp only [hd] at h
    cases hl : localitiesLoop env { priorities := [], sumOfWeights := [], uniq := [], localities := [] } m.endpoints with
    | error e => simp [hl] at h
    | ok acc =>
      simp only [hl] at h
      split at h
      · simp only [Except.ok.injEq] at h
        subst h
        simpa using localitiesLoop_keys env m.endpoints _ acc hl
      · simp at h

/-- RDS: an accepted weighted-cluster action keeps exactly the clusters of non-zero weight, there is
    at least one, and their total weight is positive and fits uint32. -/
theorem rds_weighted_clusters_positive_total (ws kept : List Nat) (hty : ∀ w ∈ ws, w ≤ maxUint32)
    (h : GrpcModel.XdsInv.weightedClusters ws = .ok kept) :
    kept = ws.filter (· ≠ 0) ∧ kept ≠ [] ∧ (∀ w ∈ kept, w > 0) ∧ 0 < kept.sum ∧ kept.sum ≤ 4294967295 := by
  unfold GrpcModel.XdsInv.weightedClusters at h
  cases hl : GrpcModel.XdsInv.wcLoop ws 0 [] with
  | error e => simp [hl] at h
  | ok r =>
    obtain ⟨t, acc⟩ := r
    simp only [hl] at h
    split at h
    · simp at h
    · rename_i hne
      simp only [Except.ok.injEq] at h
      subst h
      obtain ⟨a, b, c, d⟩ := wcLoop_ok ws 0 [] hty (by simp) (by simp) (by simp) t acc hl
      refine ⟨by simpa using d, ?_, c, by omega, b⟩
      intro he
      subst he
      simp at a
      exact hne a

/-! ### the error branches are reachable and acceptance is not vacuous -/

def loc (r : String) (w p : Nat) (es : List LbEndpoint) : LocalityLbEndpoints :=
  { hasLocality := true, region := r, zone := "z", subZone := "s", weight := w, priority := p, endpoints := es, mdErr := false }
def env0 : Env := { dualstack := true, httpConnect := false, hashKeyCompat := false }

-- (string concatenation does not reduce in the kernel, so the accepted witness has no endpoints)
example : unmarshal env0 { clusterName := "c", drops := [⟨"x", 5, 2⟩], endpoints := [loc "r" 1 0 [], loc "r" 0 9 [], loc "r2" 7 1 []] }
    = .ok { drops := [⟨"x", 5, 1000000⟩], localities := [⟨"r", "z", "s", [], 1, 0⟩, ⟨"r2", "z", "s", [], 7, 1⟩] } := by decide
example : unmarshal env0 { clusterName := "c", drops := [], endpoints := [loc "r" 1 1 []] } = .error .prio := by decide
example : unmarshal env0 { clusterName := "c", drops := [], endpoints := [loc "r" 1 0 [], loc "r" 1 0 []] } = .error .duploc := by decide
example : unmarshal env0 { clusterName := "c", drops := [], endpoints := [loc "r" 4294967295 0 [], loc "r2" 1 0 []] } = .error .locsum := by decide
example : GrpcModel.XdsInv.weightedClusters [0, 0] = .error .empty := by decide
example : GrpcModel.XdsInv.weightedClusters [4294967295, 0, 1] = .error .sum := by decide
example : GrpcModel.XdsInv.weightedClusters [3, 0, 1] = .ok [3, 1] := by decide

end GrpcProofs.C45
