import GrpcProofs.Lemmas.ServerAdmission
import GrpcProofs.Lemmas.Timeout
/-!
C12 — A misbehaving client cannot reach a handler illegally, and active streams never exceed
MaxConcurrentStreams.

Statements are about `GrpcModel.ServerAdmission`: `serve` = x/net/http2's header validation followed
by `http2Server.operateHeaders` (checks in source order); `step` = the connection as a state machine
over HEADERS (arbitrary header lists, ids, flags), client RST_STREAM / DATA, handler completion and
time. They hold for EVERY server state, header list and op sequence.

Readings (see LEVEL_NOTE of props/C12.py): an id is illegal if it is even or not above the highest id
operateHeaders accepted; the content-type clause proved here is "some content-type field is a gRPC
content type" — the strict clause "every content-type field is valid" is FALSE for the unchanged code
(counterexample below, known finding F20, reproduced on the real server by the correspondence run).
"Never panics" is observed on the real server, not proved.
-/
namespace GrpcProofs.C12
open GrpcModel.ServerAdmission GrpcModel.Generated GrpcProofs.ServerAdmission

theorem method_pseudo : (str ":method").head? = some 58 := by decide
theorem authority_pseudo : (str ":authority").head? = some 58 := by decide

theorem countsAs_host (f : Field) : countsAs (str "host") f = (f.name == str "host") := by
  by_cases h : f.name = str "host"
  · have hk : kindOf f.name = .other := by rw [h]; exact kindOf_host
    have hr : isReservedHeader f.name = false := by rw [h]; decide
    have hm : metadataHeaderOK f = true := by
      unfold metadataHeaderOK
      have : hasSuffix f.name (str "-bin") = false := by rw [h]; decide
      rw [this]; rfl
    unfold countsAs
    rw [hk]
    simp only [hr, hm, Bool.false_and, Bool.not_false, Bool.true_and]
  · have hne : (f.name == str "host") = false := by simpa using h
    unfold countsAs
    cases kindOf f.name <;> simp [hne]

/-- what `operateHeaders = handle` says about the parsed header block -/
theorem operate_handle {s : SrvState} {id : Nat} {fields : List Field} {tr : Bool} {to : Option Nat}
    (h : operateHeaders s id fields tr = .handle to) :
    tr = false ∧ id % 2 = 1 ∧ id > s.maxStreamID ∧ (parse fields).nAuthority ≤ 1 ∧ (parse fields).nHost ≤ 1 ∧
    (parse fields).protocolError = false ∧ (parse fields).isGRPC = true ∧ (parse fields).headerError = false ∧
    s.reachable = true ∧ s.active.length < s.maxStreams ∧ (parse fields).method = some (str "POST") := by
  unfold operateHeaders at h
  split at h; · cases h
  rename_i htr
  split at h; · cases h
  rename_i hid
  simp only at h
  split at h; · cases h
  rename_i hauth
  split at h; · cases h
  rename_i hproto
  split at h; · cases h
  rename_i hgrpc
  split at h; · cases h
  rename_i herr
  split at h; · cases h
  rename_i hreach
  split at h; · cases h
  rename_i hmax
  split at h; · cases h
  rename_i hmeth
  split at h; · cases h
  simp only [Bool.or_eq_true, bne_iff_ne, ne_eq, decide_eq_true_eq, not_or, Decidable.not_not, Nat.not_le] at hid
  simp only [Bool.or_eq_true, decide_eq_true_eq, not_or, Nat.not_lt] at hauth
  refine ⟨by simpa using htr, hid.1, hid.2, hauth.1, hauth.2, by simpa using hproto, by simpa using hgrpc,
    by simpa using herr, by simpa using hreach, by simpa using hmax, by simpa using hmeth⟩

/-- **handle ⇒ legal.** If the transport hands a request to the server's handler machinery then: the
id is odd and above every id accepted before; the header block arrived complete (not truncated) and is
exactly what the client sent; exactly one `:method`, and it is POST; a gRPC content-type is present;
every grpc-timeout is well-formed; at most one `:authority` and at most one `host`; every non-reserved
`-bin` header is valid base64; no `connection` header; the transport is reachable; and strictly fewer
than MaxConcurrentStreams streams were active. -/
theorem handle_implies_legal (s : SrvState) (r : Req) (to : Option Nat) (h : serve s r = .handle to) :
    r.id % 2 = 1 ∧ r.id > s.maxStreamID ∧ framer s.maxHL r.raw = .ok r.raw false ∧ HeaderLegal r.raw ∧
    s.reachable = true ∧ s.active.length < s.maxStreams := by
  unfold serve at h
  split at h; · cases h
  split at h; · cases h
  rename_i fields0 tr hfr
  obtain ⟨htr, hodd, hgt, hauth, hhost, hproto, hgrpc, herr, hreach, hmax, hmeth⟩ := operate_handle h
  subst htr
  obtain ⟨hfields, _, _⟩ := framer_ok_untruncated hfr
  subst hfields
  refine ⟨hodd, hgt, hfr, ?_, hreach, hmax⟩
  generalize r.raw = fields at *
  have hnoerr : ∀ f ∈ fields, setsHeaderError f = false := by
    rw [parse_headerError] at herr
    intro f hf
    cases hs : setsHeaderError f
    · rfl
    · have : fields.any setsHeaderError = true := List.any_eq_true.mpr ⟨f, hf, hs⟩
      rw [this] at herr; cases herr
  constructor
  · -- :method
    have hle : countName fields (str ":method") ≤ 1 := framer_pseudo_unique hfr _ method_pseudo
    have hex : ∃ f ∈ fields, f.name = str ":method" ∧ f.value = str "POST" := by
      unfold parse at hmeth
      rcases foldl_method fields {} _ hmeth with h0 | h1
      · cases h0
      · exact h1
    obtain ⟨f, hf, hn, _⟩ := hex
    have hpos : 0 < countName fields (str ":method") :=
      List.countP_pos_iff.mpr ⟨f, hf, by rw [hn]; exact beq_self_eq_true _⟩
    refine ⟨by omega, ?_⟩
    unfold parse at hmeth
    exact foldl_method_all fields {} _ hmeth hle
  · -- content-type
    rw [parse_isGRPC] at hgrpc
    obtain ⟨f, hf, hs⟩ := List.any_eq_true.mp hgrpc
    unfold setsGRPC at hs
    cases hk : kindOf f.name <;> rw [hk] at hs <;> try (cases hs)
    exact ⟨f, hf, kindOf_eq_contentType hk, hs⟩
  · -- grpc-timeout
    intro f hf hn
    have := hnoerr f hf
    unfold setsHeaderError at this
    rw [hn, kindOf_timeout] at this
    cases hd : GrpcModel.Timeout.decodeBytes f.value
    · rw [hd] at this; cases this
    · rfl
  · -- :authority / host
    refine ⟨framer_pseudo_unique hfr _ authority_pseudo, ?_⟩
    rw [parse_nHost] at hhost
    have : fields.countP (countsAs (str "host")) = countName fields (str "host") := by
      unfold countName
      congr 1
      funext f
      exact countsAs_host f
    omega
  · -- -bin metadata
    intro f hf hsuf hres
    have hk := bin_suffix_other hsuf
    have := hnoerr f hf
    unfold setsHeaderError at this
    rw [hk] at this
    simp only [hres, Bool.not_false, Bool.true_and, Bool.not_eq_false'] at this
    unfold metadataHeaderOK at this
    rw [hsuf] at this
    simpa using this
  · -- connection
    intro f hf hn
    rw [parse_protocolError] at hproto
    have : fields.any setsProtocolError = true := by
      apply List.any_eq_true.mpr
      refine ⟨f, hf, ?_⟩
      unfold setsProtocolError
      rw [hn, kindOf_connection]
    rw [this] at hproto; cases hproto

/-- **handle ⇒ every grpc-timeout is in the wire grammar** `1*8DIGIT ( H / M / S / m / u / n )`: the
admission model judges a timeout with the SAME `decodeBytes` the C07 model is about, whose accepted
language `GrpcProofs.Lemmas.Timeout.decode_accepts_iff` characterises exactly — no sign, no space,
no more than eight digits. -/
theorem handle_implies_timeout_grammar (s : SrvState) (r : Req) (to : Option Nat) (h : serve s r = .handle to) :
    ∀ f ∈ r.raw, f.name = str "grpc-timeout" → GrpcModel.Timeout.wellFormed f.value = true := by
  intro f hf hn
  have hl := (handle_implies_legal s r to h).2.2.2.1
  have := hl.timeout f hf hn
  rw [GrpcProofs.Lemmas.Timeout.decode_accepts_iff] at this
  exact this

/-- the request of the counterexample: a valid request plus a second, invalid content-type -/
def mixedContentType : Req :=
  { id := 1, endStream := false,
    raw := [⟨str ":method", str "POST"⟩, ⟨str ":scheme", str "http"⟩, ⟨str ":path", str "/s/m"⟩,
            ⟨str ":authority", str "a"⟩, ⟨str "content-type", str "application/grpc"⟩,
            ⟨str "te", str "trailers"⟩, ⟨str "content-type", str "text/html"⟩] }

/-- **Counterexample to the strict content-type clause** (known finding F20): a request carrying
`content-type: application/grpc` AND `content-type: text/html` is handed to the handler. -/
theorem handle_implies_all_content_types_valid_counterexample :
    ¬ (∀ (s : SrvState) (r : Req) (to : Option Nat), serve s r = .handle to →
        ∀ f ∈ r.raw, f.name = str "content-type" → validContentType f.value = true) := by
  intro h
  have := h (initState 1 16777216) mixedContentType none (by decide)
    ⟨str "content-type", str "text/html"⟩ (by decide) rfl
  revert this
  decide

/-- **A handler runs only for a registered /service/method**, and only for a request the transport decided to handle. -/
theorem handler_runs_only_for_registered_method (reg : List (Bytes × Bytes)) (s : SrvState) (op : Op) (id : Nat)
    (h : Out.handlerStarted id ∈ (step reg s op).2) :
    ∃ r to, op = .headers r ∧ r.id = id ∧ serve s r = .handle to ∧
      ∃ sm pos, pathOf s r = 47 :: sm ∧ lastSlash sm = some pos ∧ (sm.take pos, sm.drop (pos + 1)) ∈ reg := by
  cases op with
  | headers r =>
    simp only [step, stepHeaders] at h
    split at h
    · simp at h
    · simp at h
    · simp at h
    · split at h <;> simp at h
    · simp at h
    · rename_i to hs
      split at h
      · rename_i hd
        simp only [List.mem_singleton, Out.handlerStarted.injEq] at h
        refine ⟨r, to, rfl, h.symm, hs, ?_⟩
        unfold dispatch at hd
        split at hd
        · rename_i sm hp
          split at hd
          · cases hd
          · rename_i pos hl
            split at hd
            · rename_i hc
              exact ⟨sm, pos, hp, hl, by simpa using hc⟩
            · cases hd
        · cases hd
      · unfold unimplementedOut at h
        split at h <;> simp at h
  | rst id' => simp [step] at h
  | data id' es =>
    simp only [step] at h
    split at h
    · split at h
      · simp at h
      · split at h <;> simp at h
    · simp at h
  | finish id' =>
    simp only [step] at h
    split at h
    · split at h
      · simp at h
      · split at h
        · simp at h
        · split at h <;> simp at h
    · simp at h
  | sleep ns =>
    simp only [step, List.mem_map] at h
    obtain ⟨a, _, ha⟩ := h
    cases ha

/-- an illegal id (even, or not above the highest accepted id) is never handled -/
theorem illegal_id_never_handled (s : SrvState) (r : Req) (hid : r.id % 2 ≠ 1 ∨ r.id ≤ s.maxStreamID) :
    ∀ to, serve s r ≠ .handle to := by
  intro to h
  obtain ⟨h1, h2, _⟩ := handle_implies_legal s r to h
  rcases hid with h | h <;> omega

/-- a header block the framer rejects never reaches operateHeaders: RST_STREAM(PROTOCOL_ERROR) -/
theorem framer_reject_never_handled (s : SrvState) (r : Req) (hid : r.id ≠ 0) (h : framer s.maxHL r.raw = .streamErr) :
    serve s r = .rst 1 := by
  unfold serve
  have : (r.id == 0) = false := by simpa using hid
  rw [this, h]; rfl

/-- **Excess streams get RST_STREAM(REFUSED_STREAM).** A request that passes every earlier check of
operateHeaders while MaxConcurrentStreams streams are active is refused with code 7, whatever its
`:method`, path or timeout. -/
theorem excess_gets_refused_stream (s : SrvState) (r : Req) (fields : List Field)
    (hid0 : r.id ≠ 0) (hfr : framer s.maxHL r.raw = .ok fields false)
    (hodd : r.id % 2 = 1) (hgt : r.id > s.maxStreamID)
    (hauth : (parse fields).nAuthority ≤ 1 ∧ (parse fields).nHost ≤ 1)
    (hproto : (parse fields).protocolError = false) (hgrpc : (parse fields).isGRPC = true)
    (herr : (parse fields).headerError = false) (hreach : s.reachable = true)
    (hfull : s.active.length ≥ s.maxStreams) :
    serve s r = .rst 7 := by
  unfold serve
  have : (r.id == 0) = false := by simpa using hid0
  rw [this, hfr]
  simp only [Bool.false_eq_true, ↓reduceIte]
  unfold operateHeaders
  have h1 : (r.id % 2 != 1 || decide (r.id ≤ s.maxStreamID)) = false := by
    simp only [Bool.or_eq_false_iff, bne_eq_false_iff_eq, decide_eq_false_iff_not, Nat.not_le]
    exact ⟨hodd, hgt⟩
  have h2 : (decide ((parse fields).nAuthority > 1) || decide ((parse fields).nHost > 1)) = false := by
    simp only [Bool.or_eq_false_iff, decide_eq_false_iff_not, Nat.not_lt]
    exact hauth
  simp only [Bool.false_eq_true, ↓reduceIte, h1, h2, hproto, hgrpc, Bool.not_true, herr, hreach]
  simp [hfull]

/-! ### the invariant over all frame sequences -/

@[simp] theorem bumpId_active (s : SrvState) (r : Req) : (bumpId s r).active = s.active := by
  unfold bumpId; split <;> rfl
@[simp] theorem bumpId_maxStreams (s : SrvState) (r : Req) : (bumpId s r).maxStreams = s.maxStreams := by
  unfold bumpId; split <;> rfl
@[simp] theorem removeActive_maxStreams (s : SrvState) (id : Nat) : (removeActive s id).maxStreams = s.maxStreams := rfl
@[simp] theorem updActive_maxStreams (s : SrvState) (id : Nat) (f : Active → Active) :
    (updActive s id f).maxStreams = s.maxStreams := rfl
@[simp] theorem updActive_len (s : SrvState) (id : Nat) (f : Active → Active) :
    (updActive s id f).active.length = s.active.length := by
  unfold updActive; simp
theorem removeActive_len (s : SrvState) (id : Nat) : (removeActive s id).active.length ≤ s.active.length := by
  unfold removeActive; exact List.length_filter_le _ _

theorem stepHeaders_maxStreams (reg : List (Bytes × Bytes)) (s : SrvState) (r : Req) :
    (stepHeaders reg s r).1.maxStreams = s.maxStreams := by
  unfold stepHeaders
  simp only
  split
  · simp
  · simp
  · split
    · simp
    · split <;> simp
  · simp
  · simp
  · split <;> simp

theorem step_maxStreams (reg : List (Bytes × Bytes)) (s : SrvState) (op : Op) :
    (step reg s op).1.maxStreams = s.maxStreams := by
  cases op with
  | headers r => exact stepHeaders_maxStreams reg s r
  | rst id => rfl
  | data id es =>
    simp only [step]
    split
    · split
      · rfl
      · split <;> rfl
    · rfl
  | finish id =>
    simp only [step]
    split
    · split
      · rfl
      · split <;> rfl
    · rfl
  | sleep ns => rfl

/-- one step keeps `|active| ≤ maxStreams` -/
theorem step_active_le (reg : List (Bytes × Bytes)) (s : SrvState) (op : Op)
    (h : s.active.length ≤ s.maxStreams) : (step reg s op).1.active.length ≤ (step reg s op).1.maxStreams := by
  rw [step_maxStreams]
  cases op with
  | headers r =>
    simp only [step]
    unfold stepHeaders
    simp only
    split
    · simp
    · simpa using h
    · split
      · exact Nat.le_trans (removeActive_len _ _) (by simpa using h)
      · split
        · simpa using h
        · simpa using h
    · simpa using h
    · simpa using h
    · rename_i to hs
      have hlt := (handle_implies_legal s r to hs).2.2.2.2.2
      split
      · simp only [bumpId_active, List.length_append, List.length_cons, List.length_nil]; omega
      · simpa using h
  | rst id => exact Nat.le_trans (removeActive_len _ _) h
  | data id es =>
    simp only [step]
    split
    · split
      · exact Nat.le_trans (removeActive_len _ _) h
      · split
        · simpa using h
        · exact h
    · exact h
  | finish id =>
    simp only [step]
    split
    · split
      · exact h
      · split
        · simpa using h
        · exact Nat.le_trans (removeActive_len _ _) h
    · exact h
  | sleep ns =>
    simp only [step]
    exact Nat.le_trans (List.length_filter_le _ _) h

/-- **active ≤ MaxConcurrentStreams over all frame sequences**, for every configured limit
(0 = unlimited = 2^32−1), every MaxHeaderListSize and every set of registered methods. -/
theorem active_le_maxStreams (reg : List (Bytes × Bytes)) (mcs mhl : Nat) (ops : List Op) :
    (run reg (initState mcs mhl) ops).active.length ≤ (if mcs = 0 then 4294967295 else mcs) := by
  have key : ∀ (s : SrvState) (ops : List Op), s.active.length ≤ s.maxStreams →
      (run reg s ops).active.length ≤ (run reg s ops).maxStreams ∧ (run reg s ops).maxStreams = s.maxStreams := by
    intro s ops
    induction ops generalizing s with
    | nil => intro h; exact ⟨h, rfl⟩
    | cons o os ih =>
      intro h
      simp only [run]
      obtain ⟨h1, h2⟩ := ih _ (step_active_le reg s o h)
      exact ⟨h1, by rw [h2, step_maxStreams]⟩
  obtain ⟨h1, h2⟩ := key (initState mcs mhl) ops (by simp [initState])
  rw [h2] at h1
  simpa [initState] using h1

/-- the highest accepted id never decreases, and a handled request raises it to its own id: ids that
reach a handler are strictly increasing -/
theorem maxStreamID_monotone (reg : List (Bytes × Bytes)) (s : SrvState) (op : Op) :
    s.maxStreamID ≤ (step reg s op).1.maxStreamID ∧
    ∀ id, Out.handlerStarted id ∈ (step reg s op).2 → s.maxStreamID < id ∧ (step reg s op).1.maxStreamID = id := by
  have hb : ∀ r, s.maxStreamID ≤ (bumpId s r).maxStreamID := by
    intro r
    unfold bumpId
    split
    · rename_i hp
      unfold passesIdCheck at hp
      simp only [Bool.and_eq_true] at hp
      have h2 := hp.2
      split at h2
      · cases h2
      · simp only [Bool.and_eq_true, decide_eq_true_eq] at h2
        exact Nat.le_of_lt h2.2
    · exact Nat.le_refl _
  constructor
  · cases op with
    | headers r =>
      simp only [step]
      unfold stepHeaders
      simp only
      split
      · exact hb r
      · exact hb r
      · split
        · exact hb r
        · split
          · exact hb r
          · exact hb r
      · exact hb r
      · exact hb r
      · split
        · exact hb r
        · exact hb r
    | rst id => exact Nat.le_refl _
    | data id es =>
      simp only [step]
      split
      · split
        · exact Nat.le_refl _
        · split <;> exact Nat.le_refl _
      · exact Nat.le_refl _
    | finish id =>
      simp only [step]
      split
      · split
        · exact Nat.le_refl _
        · split <;> exact Nat.le_refl _
      · exact Nat.le_refl _
    | sleep ns => exact Nat.le_refl _
  · intro id hid
    obtain ⟨r, to, hop, hrid, hs, _⟩ := handler_runs_only_for_registered_method reg s op id hid
    subst hop
    obtain ⟨hodd, hgt, hfr, _, _, _⟩ := handle_implies_legal s r to hs
    subst hrid
    refine ⟨hgt, ?_⟩
    have hpass : passesIdCheck s r = true := by
      unfold passesIdCheck
      rw [hfr]
      have h0 : r.id ≠ 0 := by omega
      simp [h0, hodd, hgt]
    have hbump : (bumpId s r).maxStreamID = r.id := by unfold bumpId; rw [hpass]; rfl
    simp only [step]
    unfold stepHeaders
    simp only
    rw [hs]
    simp only
    split
    · exact hbump
    · exact hbump


/-- `t.maxStreamID = streamID` happens as soon as the id check is passed — before any of the later
rejections (duplicate host, connection header, content-type, header error, draining, REFUSED_STREAM,
:method, expired deadline): the id of a request that is turned down is used up all the same. -/
theorem accepted_id_recorded (reg : List (Bytes × Bytes)) (s : SrvState) (r : Req)
    (h : passesIdCheck s r = true) : (step reg s (.headers r)).1.maxStreamID = r.id := by
  have hbump : (bumpId s r).maxStreamID = r.id := by unfold bumpId; rw [h]; rfl
  have hnr : framerRejects s r = false := by
    unfold passesIdCheck at h
    unfold framerRejects
    simp only [Bool.and_eq_true] at h
    have h2 := h.2
    split at h2
    · cases h2
    · rfl
  have hnt : isTruncated s r = false := by
    unfold passesIdCheck at h
    unfold isTruncated
    simp only [Bool.and_eq_true] at h
    have h2 := h.2
    split at h2
    · cases h2
    · simp only [Bool.and_eq_true, Bool.not_eq_true'] at h2; exact h2.1.1
  simp only [step]
  unfold stepHeaders
  simp only
  split
  · exact hbump
  · exact hbump
  · simp only [hnr, hnt, Bool.false_eq_true, ↓reduceIte]; exact hbump
  · exact hbump
  · exact hbump
  · split
    · exact hbump
    · exact hbump

theorem run_maxStreamID_monotone (reg : List (Bytes × Bytes)) (s : SrvState) (ops : List Op) :
    s.maxStreamID ≤ (run reg s ops).maxStreamID := by
  induction ops generalizing s with
  | nil => exact Nat.le_refl _
  | cons o os ih => exact Nat.le_trans (maxStreamID_monotone reg s o).1 (ih _)

/-- **A used id is never handled later.** Once a HEADERS frame with a legal id `k` has been received —
whether it was handled, refused with REFUSED_STREAM or answered with an early abort — no request
with an id ≤ k is handed to a handler, after any further sequence of frames. -/
theorem used_id_never_handled_later (reg : List (Bytes × Bytes)) (s : SrvState) (r : Req) (ops : List Op)
    (h : passesIdCheck s r = true) (r' : Req) (hle : r'.id ≤ r.id) :
    ∀ to, serve (run reg (step reg s (.headers r)).1 ops) r' ≠ .handle to := by
  apply illegal_id_never_handled
  right
  have h1 := accepted_id_recorded reg s r h
  have h2 := run_maxStreamID_monotone reg (step reg s (.headers r)).1 ops
  omega

/-! ### non-vacuity -/

def validReq (id : Nat) : Req :=
  { id := id, endStream := false,
    raw := [⟨str ":method", str "POST"⟩, ⟨str ":scheme", str "http"⟩, ⟨str ":path", str "/s/m"⟩,
            ⟨str ":authority", str "a"⟩, ⟨str "content-type", str "application/grpc"⟩, ⟨str "te", str "trailers"⟩] }

/-- a well-formed request is handled and its handler starts -/
example : serve (initState 1 16777216) (validReq 1) = .handle none := by decide

/-- the second request at limit 1 is refused with REFUSED_STREAM; an even id is a connection error;
GET is answered 405; a bad `-bin` value 400 -/
example :
    let reg := [(str "s", str "m")]
    let s1 := (step reg (initState 1 16777216) (.headers (validReq 1))).1
    s1.active.length = 1 ∧ serve s1 (validReq 3) = .rst 7 ∧ serve s1 (validReq 4) = .connError ∧
    serve (initState 2 16777216) { validReq 1 with raw := ⟨str ":method", str "GET"⟩ :: (validReq 1).raw.tail } = .earlyAbort 405 13 ∧
    serve (initState 2 16777216) { validReq 1 with raw := (validReq 1).raw ++ [⟨str "a-bin", str "!!!"⟩] } = .earlyAbort 400 13 := by
  decide

end GrpcProofs.C12
