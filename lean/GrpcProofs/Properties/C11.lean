/-
C11  A misbehaving server can never crash or hang the client transport — the part a model can state.

Model: GrpcModel/Model/ClientConn.lean.  `Frame` is whatever the x/net/http2 framer can hand to the
reader loop (parsed frames with arbitrary fields, `streamErr`, `connErr`), `run s es` ranges over
every sequence of frames interleaved in every way with loopy, the RPC goroutines and `Close`.
Lemmas: GrpcProofs/Lemmas/ClientConn*.lean (`Mono`: what is never undone; `Inv`: the inductive
invariant; both proved for every event).

Partial: panics, goroutine leaks and real blocking are facts about the Go runtime; they are explored
by the correspondence run (every case runs the real transport in a synctest bubble that must be
empty after Close), not proved.
-/
import GrpcProofs.Lemmas.ClientConnInv4
namespace GrpcProofs.C11
open GrpcModel.ClientConn GrpcProofs.Lemmas.ClientConn

/-- the connection goes away (read error / EOF), 5 s pass, `Close` runs to completion -/
def closeSeq : List Ev := [.frame .connErr, .tick 5000, .closeP2, .closeP3]

/-- **At most one status, never changed**: once a stream has its terminal outcome, no event sequence
whatsoever (frames for that stream, GOAWAY, RST, Close, …) changes it. -/
theorem status_never_changes (s : State) (es : List Ev) {i : Nat} {x : Strm} {t : Term}
    (hx : s.streams[i]? = some x) (ht : x.term = some t) :
    ∃ y, (run s es).streams[i]? = some y ∧ y.id = x.id ∧ y.term = some t := by
  obtain ⟨y, hy, hid, _, hterm⟩ := (mono_run s es).str.2 i x hx
  exact ⟨y, hy, hid, hterm t ht⟩

/-- … and a `NewStream` call that has returned keeps its result. -/
theorem newstream_result_never_changes (s : State) (es : List Ev) {k : Nat} {r : Rpc} (hr : s.rpcs[k]? = some r) :
    ∃ r', (run s es).rpcs[k]? = some r' ∧ (∀ c b', r.st = .failed c b' → r'.st = .failed c b') ∧
      (∀ i, r.st = .opened i → r'.st = .opened i) :=
  (mono_run s es).rpc.2 k r hr

/-- Once `Close` has finished, every stream ever opened on the connection has a terminal outcome. -/
theorem every_stream_gets_a_status {s : State} (hr : Reach s) (hd : s.closeP = .done) {i : Nat} {x : Strm}
    (hx : s.streams[i]? = some x) : ∃ t, x.term = some t := by
  have hi := hr.inv
  cases ht : x.term with
  | some t => exact ⟨t, rfl⟩
  | none =>
    have hcl : s.tstate = .closing := hi.cp.mpr (by simp [hd])
    exact absurd hd ((hi.live i x hx ht).2 hcl).2

theorem close_tail {s1 : State} (hi1 : Inv s1) (h1 : s1.readerDone = true ∧ s1.closeP ≠ .none) :
    (({ s1 with now := s1.now + 5000 } : State).closeP2.closeP3).closeP = .done := by
  have h2 : ({ s1 with now := s1.now + 5000 } : State).closeP2.closeP = .waitReader ∨
      ({ s1 with now := s1.now + 5000 } : State).closeP2.closeP = .done := by
    unfold State.closeP2
    cases hp : s1.closeP with
    | none => exact absurd hp h1.2
    | waitWriter t =>
      have := hi1.tm t hp
      simp [hp, this]
    | waitReader => simp [hp]
    | done => simp [hp]
  have h2r : ({ s1 with now := s1.now + 5000 } : State).closeP2.readerDone = true := by
    unfold State.closeP2
    cases hp : s1.closeP <;> simp [hp, h1.1] <;> split <;> simp [h1.1]
  generalize ({ s1 with now := s1.now + 5000 } : State).closeP2 = s3 at h2 h2r
  unfold State.closeP3
  rcases h2 with h2 | h2
  · simp [h2, h2r]
  · simp [h2]

theorem readerExit_facts (s : State) (hn : s.readerDone = false) :
    s.readerExit.readerDone = true ∧ s.readerExit.tstate = .closing := by
  unfold State.readerExit
  simp only [hn, Bool.false_eq_true, if_false]
  exact ⟨by rw [closeP1_readerDone], closeP1_tstate ..⟩

theorem onFrame_connErr (s : State) : s.onFrame .connErr = if s.readerDone then s else s.readerExit := by
  unfold State.onFrame
  split
  · rfl
  · rename_i hn
    simp [hn]

/-- From every reachable state, losing the connection drives `Close` to completion. -/
theorem close_completes {s : State} (hr : Reach s) : (run s closeSeq).closeP = .done := by
  have hi := hr.inv
  have hi1 := inv_onFrame hi .connErr
  -- after the reader has seen the error
  have h1 : (s.onFrame .connErr).readerDone = true ∧ (s.onFrame .connErr).closeP ≠ .none := by
    rw [onFrame_connErr] at hi1 ⊢
    split
    · rename_i hrd
      exact ⟨hrd, hi.cp.mp (hi.rd hrd)⟩
    · rename_i hn
      have hn' : s.readerDone = false := by simpa using hn
      simp only [hn, if_false] at hi1
      obtain ⟨f1, f2⟩ := readerExit_facts s hn'
      exact ⟨f1, hi1.cp.mp f2⟩
  simp only [closeSeq, run, step]
  exact close_tail hi1 h1

/-- **Exactly one status.**  For every reachable state, every further event sequence `es` (any frames in
any order, any interleaving) followed by the connection going away: every stream ever opened ends
with a terminal outcome, that outcome is legal (a code 0…16 chosen by the client, or io.EOF with the
status the trailers carried), and an outcome assigned at any earlier point is the final one. -/
theorem exactly_one_status {s : State} (hr : Reach s) (es : List Ev) :
    let s' := run (run s es) closeSeq
    (∀ (i : Nat) (y : Strm), s'.streams[i]? = some y → ∃ t, y.term = some t ∧ LegalTerm t) ∧
    (∀ (i : Nat) (x : Strm) (t : Term), (run s es).streams[i]? = some x → x.term = some t →
      ∃ y : Strm, s'.streams[i]? = some y ∧ y.term = some t) := by
  intro s'
  have hr1 : Reach (run s es) := hr.run es
  have hr2 : Reach s' := hr1.run closeSeq
  refine ⟨fun i y hy => ?_, fun i x t hx ht => ?_⟩
  · obtain ⟨t, ht⟩ := every_stream_gets_a_status hr2 (close_completes hr1) hy
    exact ⟨t, ht, hr2.inv.lg i y t hy ht⟩
  · obtain ⟨y, hy, _, hterm⟩ := status_never_changes (run s es) closeSeq hx ht
    exact ⟨y, hy, hterm⟩

/-- **Status codes are legal**: in every reachable state, a stream's outcome is either an error the client
chose, with a code in 0…16, or io.EOF together with a recorded status (the grpc-status of the
trailers as a uint32, or the client's own INTERNAL for a stream the server ended without trailers). -/
theorem status_code_legal {s : State} (hr : Reach s) {i : Nat} {x : Strm} {t : Term}
    (hx : s.streams[i]? = some x) (ht : x.term = some t) :
    (∀ c, t.err = some c → c ≤ 16) ∧ (t.err = none → ∃ st, t.status = some st) := by
  obtain ⟨h1, h2⟩ := hr.inv.lg i x t hx ht
  refine ⟨h1, fun hn => ?_⟩
  have := h2 hn
  cases hs : t.status with
  | none => simp [hs] at this
  | some st => exact ⟨st, rfl⟩

/-- **No later than its deadline** (model part): when the RPC's context is done, the RPC goroutine's
reaction terminates the stream at once (DEADLINE_EXCEEDED / CANCELED unless it already had an outcome) … -/
theorem stream_terminates_at_deadline (s : State) {k i : Nat} {r : Rpc} {x : Strm}
    (hr : s.rpcs[k]? = some r) (ho : r.st = .opened i) (hd : r.ctxDone s.now = true) (hx : s.streams[i]? = some x) :
    ∃ y, (s.ctxFire k).streams[i]? = some y ∧ ∃ t, y.term = some t := by
  unfold State.ctxFire
  simp only [hr, hd, Bool.not_true, Bool.false_eq_true, if_false, ho]
  rw [closeStream_streams, List.getElem?_modify, hx]
  refine ⟨closeF (some (if r.cancelled = true then cCanceled else cDeadline)) (if r.cancelled = true then cCanceled else cDeadline) x, by simp, ?_⟩
  unfold closeF
  split
  · rename_i hs
    cases ht : x.term with
    | none => simp [ht] at hs
    | some t => exact ⟨t, rfl⟩
  · exact ⟨_, rfl⟩

/-- … and a `NewStream` still blocked (MAX_CONCURRENT_STREAMS, draining transport) returns with the context's error. -/
theorem blocked_newstream_returns_at_deadline (s : State) {k : Nat} {r : Rpc} {ch : Option Nat}
    (hr : s.rpcs[k]? = some r) (hb : r.st = .blocked ch) (hd : r.ctxDone s.now = true) :
    ∃ r' c, (s.wake k .ctx).rpcs[k]? = some r' ∧ r'.st = .failed c false ∧ (c = cCanceled ∨ c = cDeadline) := by
  unfold State.wake
  simp only [hr, hb, hd, if_true]
  rw [updRpc_rpcs, List.getElem?_modify, hr]
  refine ⟨setSt (.failed (if r.cancelled = true then cCanceled else cDeadline) false) r,
    (if r.cancelled = true then cCanceled else cDeadline), by simp, ?_, ?_⟩
  · simp [setSt, hb]
  · by_cases hc : r.cancelled = true <;> simp [hc]

/-- A blocked `NewStream` also returns (UNAVAILABLE, transparent retry allowed) once the transport is closed. -/
theorem blocked_newstream_returns_on_close (s : State) {k : Nat} {r : Rpc} {ch : Option Nat}
    (hr : s.rpcs[k]? = some r) (hb : r.st = .blocked ch) (hd : s.ctxDone = true) :
    ∃ r', (s.wake k .tctx).rpcs[k]? = some r' ∧ r'.st = .failed cUnavailable true := by
  unfold State.wake
  simp only [hr, hb, hd, if_true]
  rw [updRpc_rpcs, List.getElem?_modify, hr]
  exact ⟨setSt (.failed cUnavailable true) r, by simp, by simp [setSt, hb]⟩

/-- **Nothing after done** (1): a HEADERS / RST_STREAM / framer stream-error for a stream id that is not in
`activeStreams` (never opened, or finished and removed) changes nothing at all. -/
theorem frame_for_unknown_stream_is_ignored (s : State) (sid : Nat) (hn : s.findActive sid = none) :
    (∀ es tr fs, s.onFrame (.headers sid es tr fs) = s) ∧ (∀ c, s.onFrame (.rst sid c) = s) ∧
    (∀ c, s.onFrame (.streamErr sid c) = s) := by
  refine ⟨fun es tr fs => ?_, fun c => ?_, fun c => ?_⟩ <;>
    (unfold State.onFrame; split <;> simp [State.operateHeaders, State.handleRST, hn])

/-- **Nothing after done** (2): DATA for such a stream only moves the connection-level flow-control window. -/
theorem data_for_unknown_stream (s : State) (sid size dl : Nat) (p es : Bool) (hrd : s.readerDone = false)
    (hn : (s.connOnData size).findActive sid = none) :
    s.onFrame (.data sid size dl p es) = s.connOnData size := by
  simp [State.onFrame, hrd, State.handleData, hn]

/-- The outcome is frozen, but the `Unprocessed` flag is not: a GOAWAY (or RST_STREAM(REFUSED_STREAM)) that
arrives after the stream got its final status and before loopy removed it from `activeStreams` still sets
the flag (`stream.unprocessed.Store(true)` is done for every victim, done or not; reproduced on the real
transport by the `hold-*` cases).  Witness: the server ends stream 1 (END_STREAM), then GOAWAY(0) is handled
before loopy's cleanup. -/
theorem unprocessed_can_flip_after_done :
    let w : List Ev := [.newRPC false none, .loopy, .flush, .frame (.data 1 0 0 false true)]
    let s := run (init false 400 none none) w
    (s.streams.map fun x => (x.term, x.unprocessed)) = [(some { err := none, status := some 13 }, false)] ∧
    ((s.onFrame (.goAway 0 0 [])).streams.map fun x => (x.term, x.unprocessed)) = [(some { err := none, status := some 13 }, true)] ∧
    ((s.onFrame (.rst 1 7)).streams.map fun x => (x.term, x.unprocessed)) = [(some { err := none, status := some 13 }, true)] := by
  decide

/-! ### the percent-decoder of `grpc-message` never indexes out of range

`decodeLoop` ports `decodeGrpcMessageUnchecked` with every `msg[i]` / `msg[i+1:i+3]` as a bounds-checked
read (`none` = Go's "index out of range" panic).  The correspondence run compares the decoded message of
every trailers status with the real `Status().Message()`, over the whole escape grammar (all strings of
length ≤ 4 over `%`, hex digits, a non-hex byte; longer random ones with every truncation). -/

theorem decodeLoop_isSome (m : Bytes) : ∀ (fuel i : Nat) (acc : Bytes), (decodeLoop m fuel i acc).isSome = true := by
  intro fuel
  induction fuel with
  | zero => intro i acc; rfl
  | succ fuel ih =>
    intro i acc
    unfold decodeLoop
    split
    · rename_i hi
      have h0 : m[i]? = some m[i] := List.getElem?_eq_getElem hi
      rw [h0]
      simp only []
      split
      · rename_i hc
        have h2 : i + 2 < m.length := by simp at hc; exact hc.2
        have h1 : i + 1 < m.length := by omega
        rw [List.getElem?_eq_getElem h1, List.getElem?_eq_getElem h2]
        simp only []
        split <;> exact ih _ _
      · exact ih _ _
    · rfl

/-- **The client never panics while decoding a server-chosen `grpc-message`** (model part): for every byte
string the decoder's index accesses are in range. -/
theorem decodeGrpcMessage_never_panics (m : Bytes) : ∃ d, decodeGrpcMessage m = some d := by
  unfold decodeGrpcMessage
  split
  · exact ⟨_, rfl⟩
  · split
    · have := decodeLoop_isSome m (m.length + 1) 0 []
      unfold decodeGrpcMessageUnchecked
      cases h : decodeLoop m (m.length + 1) 0 [] with
      | none => simp [h] at this
      | some d => exact ⟨d, rfl⟩
    · exact ⟨_, rfl⟩

/-- the decoded message is never longer than the header value -/
theorem decodeLoop_length (m : Bytes) : ∀ (fuel i : Nat) (acc d : Bytes), decodeLoop m fuel i acc = some d → i ≤ m.length →
    d.length + i ≤ acc.length + m.length := by
  intro fuel
  induction fuel with
  | zero => intro i acc d h hi; simp [decodeLoop] at h; subst h; omega
  | succ fuel ih =>
    intro i acc d h hi
    unfold decodeLoop at h
    split at h
    · rename_i hlt
      rw [List.getElem?_eq_getElem hlt] at h
      simp only [] at h
      split at h
      · rename_i hc
        have h2 : i + 2 < m.length := by simp at hc; exact hc.2
        have h1 : i + 1 < m.length := by omega
        rw [List.getElem?_eq_getElem h1, List.getElem?_eq_getElem h2] at h
        simp only [] at h
        split at h
        · have := ih _ _ _ h (by omega); simp at this; omega
        · have := ih _ _ _ h (by omega); simp at this; omega
      · have := ih _ _ _ h (by omega); simp at this; omega
    · simp at h; subst h; omega

end GrpcProofs.C11
