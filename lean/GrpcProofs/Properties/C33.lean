/-
C33  Switching LB policies is graceful and isolates the old policy.
Model: GrpcModel/Model/GracefulSwitch.lean (full port of the mutex-protected state machine of
internal/balancer/gracefulswitch).  Helper lemmas: GrpcProofs/Lemmas/GracefulSwitch.lean.
A reachable state is `run {} ops` for an arbitrary op list: switches (explicit and automatic), state
reports from ANY child ever built (current, pending, closed, superseded), SubConn traffic, resolver
errors, Close, in any order.
-/
import GrpcProofs.Lemmas.GracefulSwitch
namespace GrpcProofs.C33
open GrpcModel.GracefulSwitch GrpcProofs.Lemmas.GracefulSwitch
open GrpcModel.LbConnState (ConnState)

/-- The swap rule, exactly and in both directions: in every reachable state, when child `id` reports
    state `x`, what the channel and the children observe is what the statement prescribes
    (`specReport`): the pending policy becomes current — its state is pushed, the old policy is closed
    and its SubConns shut down — iff the pending reports anything but CONNECTING, or reports while the
    current is not READY, or the current reports anything but READY while a switch is pending;
    otherwise the current's report goes to the channel and anybody else's report goes nowhere. -/
theorem swap_rule (ops : List Op) (id : Nat) (x : ConnState) :
    (updateState (run {} ops) id x).2 = specReport (run {} ops) id x :=
  report_spec _ (inv_run {} inv_init ops) id x

/-- … and the roles afterwards: swapped ⇒ the old pending is current, nothing is pending, the old
    current is neither; not swapped ⇒ the same policies are current and pending. -/
theorem swap_effect (ops : List Op) (id : Nat) (x : ConnState) :
    (shouldSwap (run {} ops) id x = true →
      (updateState (run {} ops) id x).1.current.map (·.id) = (run {} ops).pending.map (·.id) ∧
      (updateState (run {} ops) id x).1.pending = none ∧
      ∀ c, (run {} ops).current = some c → curOrPend (updateState (run {} ops) id x).1 c.id = false) ∧
    (shouldSwap (run {} ops) id x = false →
      (updateState (run {} ops) id x).1.current.map (·.id) = (run {} ops).current.map (·.id) ∧
      (updateState (run {} ops) id x).1.pending.map (·.id) = (run {} ops).pending.map (·.id)) :=
  report_effect _ (inv_run {} inv_init ops) id x

/-- While the old policy is READY and a new one is pending: the channel holds the OLD policy's latest
    state (its picker), a CONNECTING report of the new policy changes nothing, and a further READY
    report of the old policy is forwarded to the channel. -/
theorem old_picker_used_while_old_ready_and_new_connecting (ops : List Op) (c p : BW)
    (hc : (run {} ops).current = some c) (hp : (run {} ops).pending = some p) (hr : c.last.state = .ready) :
    (run {} ops).pushed = some (c.id, c.last) ∧
    (updateState (run {} ops) p.id .connecting).2 = [] ∧
    (updateState (run {} ops) p.id .connecting).1.current.map (·.id) = some c.id ∧
    (updateState (run {} ops) p.id .connecting).1.pending.map (·.id) = some p.id ∧
    (updateState (run {} ops) c.id .ready).2 = [.push c.id ⟨.ready, (run {} ops).pkSerial + 1⟩] := by
  have hi := inv_run {} inv_init ops
  have hd := hi.distinct c p hc hp
  have hs1 : shouldSwap (run {} ops) p.id .connecting = false := by
    have : isCur (run {} ops) p.id = false := by simp [isCur, hc]; omega
    simp [shouldSwap, this, hc, hr]
  have hs2 : shouldSwap (run {} ops) c.id .ready = false := by
    have : isPend (run {} ops) c.id = false := by simp [isPend, hp]; omega
    simp [shouldSwap, this]
  refine ⟨?_, ?_, ?_, ?_, ?_⟩
  · rcases hi.graceful c hc with h | h
    · rw [h] at hr; cases hr
    · exact h
  · have : isCur (run {} ops) p.id = false := by simp [isCur, hc]; omega
    rw [report_spec _ hi]; simp [specReport, hs1, this]
  · rw [((report_effect _ hi p.id .connecting).2 hs1).1, hc]; rfl
  · rw [((report_effect _ hi p.id .connecting).2 hs1).2, hp]; rfl
  · have : isCur (run {} ops) c.id = true := by simp [isCur, hc]
    rw [report_spec _ hi]; simp [specReport, hs2, this]

/-- In every reachable state the channel has the latest state of the policy in use (a policy that
    never reported has none): the monitor's `gracefulOk`. -/
theorem channel_has_latest_state_of_policy_in_use (ops : List Op) :
    gracefulOk (run {} ops) (run {} ops).pushed = true := by
  have hi := inv_run {} inv_init ops
  unfold gracefulOk
  cases hc : (run {} ops).current with
  | none => rfl
  | some c => rcases hi.graceful c hc with h | h <;> simp [h]

/-- No state update from a policy that is not the current one reaches the channel: for every op in
    every reachable state, every state pushed to the channel while the op runs belongs to the policy
    that is current afterwards (the monitor's `pushesFromCurrent`). -/
theorem no_update_from_closed_or_superseded (ops : List Op) (op : Op) :
    pushesFromCurrent (step (run {} ops) op).1 (step (run {} ops) op).2.1 = true :=
  (pushesFromCurrent_iff _ _).mpr (stepOK_step _ (inv_run {} inv_init ops) op).push

/-- A closed or superseded policy is silent: its state reports, NewSubConn, UpdateAddresses and
    ResolveNow calls reach nobody and change no role. -/
theorem closed_or_superseded_policy_is_silent (ops : List Op) (id : Nat) (x : ConnState) (sc : Nat)
    (h : curOrPend (run {} ops) id = false) :
    (updateState (run {} ops) id x).2 = [] ∧
    (updateState (run {} ops) id x).1.current = (run {} ops).current ∧
    (updateState (run {} ops) id x).1.pending = (run {} ops).pending ∧
    (updateState (run {} ops) id x).1.pushed = (run {} ops).pushed ∧
    (newSubConn (run {} ops) id).2 = [.nscErr id] ∧
    (step (run {} ops) (.ua id sc)).2.1 = [] ∧ (step (run {} ops) (.rn id)).2.1 = [] := by
  have hi := inv_run {} inv_init ops
  have hcp := h
  simp only [curOrPend, isCur, isPend, Bool.or_eq_false_iff] at hcp
  have hl : (latest (run {} ops)).any (fun w => decide (w.id = id)) = false := by
    unfold latest
    cases hp : (run {} ops).pending with
    | some p => simpa [hp] using hcp.2
    | none => simpa [hp] using hcp.1
  have stale : (updateState (run {} ops) id x).1.current = (run {} ops).current ∧
      (updateState (run {} ops) id x).1.pending = (run {} ops).pending ∧
      (updateState (run {} ops) id x).1.pushed = (run {} ops).pushed := by
    cases updateState_report _ hi id x with
    | stale _ _ hc hp hpu => exact ⟨hc, hp, hpu⟩
    | curFwd c hcur hid => simp [hcur, hid] at hcp
    | curSwap c p hcur _ hid => simp [hcur, hid] at hcp
    | pendSwap c p _ hpend hid => simp [hpend, hid] at hcp
    | pendWait c p _ hpend hid => simp [hpend, hid] at hcp
  refine ⟨?_, stale.1, stale.2.1, stale.2.2, ?_, ?_, ?_⟩
  · rw [report_spec _ hi]; simp [specReport, shouldSwap, isCur, isPend, hcp.1, hcp.2]
  · simp [newSubConn, h]
  · simp [step, h]
  · simp only [step, hl]; rfl

/-- SubConns created by a policy are shut down when it is closed: for every op in every reachable
    state, every policy that was current or pending before and is neither afterwards had Close called
    and every SubConn it created (and that was not reported SHUTDOWN) shut down during that op (the
    monitor's `retiredClosed`). -/
theorem subconns_of_closed_child_shut_down (ops : List Op) (op : Op) :
    retiredClosed (run {} ops) (step (run {} ops) op).1 (step (run {} ops) op).2.1 = true :=
  (retiredClosed_iff _ _ _).mpr (stepOK_step _ (inv_run {} inv_init ops) op).retired

/-- A NewSubConn call that is still inside the parent ClientConn (issued from the policy's own
    goroutine) when its policy is swapped out, replaced or closed leaves no SubConn behind: in every
    state, when the call returns for a policy that no longer has a role, the SubConn is shut down, the
    policy gets an error and no role records the SubConn; for a policy that still has a role exactly the
    registration happens (the monitor's `lateSubConnOk`). -/
theorem late_subconn_of_closed_policy_shut_down (s : St) (sc : Nat) :
    lateSubConnOk s sc (step s (.nsce sc)).2.1 = true ∧
    (∀ id, (s.inflight.find? (·.1 = sc)) = some (sc, id) → curOrPend s id = false →
      (step s (.nsce sc)).2.1 = [.sd sc, .nscErr id] ∧
      (step s (.nsce sc)).1.current = s.current ∧ (step s (.nsce sc)).1.pending = s.pending) := by
  constructor
  · simp only [step, lateSubConnOk, nscEnd]
    cases hf : s.inflight.find? (·.1 = sc) with
    | none => rfl
    | some p =>
      obtain ⟨a, id⟩ := p
      have hc : curOrPend { s with inflight := s.inflight.filter (·.1 ≠ sc) } id = curOrPend s id := rfl
      simp only [hc]
      cases curOrPend s id <;> simp
  · intro id hf hcp
    have hc : curOrPend { s with inflight := s.inflight.filter (·.1 ≠ sc) } id = false := hcp
    simp only [step, nscEnd, hf]
    rw [if_neg (by rw [hc]; simp)]
    exact ⟨rfl, rfl, rfl⟩

/-- Repeated switches: a pending policy that is replaced by a new switch is closed on the spot, with
    its SubConns, and no longer has a role. -/
theorem replaced_pending_is_closed (ops : List Op) (name : Nat) (sc : Script) (p : BW)
    (hp : (run {} ops).pending = some p) :
    Ev.closeChild p.id ∈ (switchTo (run {} ops) name sc).2.1 ∧
    (∀ x ∈ p.subconns, Ev.sd x ∈ (switchTo (run {} ops) name sc).2.1) ∧
    curOrPend (switchTo (run {} ops) name sc).1 p.id = false := by
  have hi := inv_run {} inv_init ops
  have hncl : (run {} ops).closed = false := by
    cases hcl : (run {} ops).closed with
    | false => rfl
    | true => have := (hi.closedNone hcl).2; rw [hp] at this; cases this
  have hev : ∀ e ∈ closeBW (some p), e ∈ (switchTo (run {} ops) name sc).2.1 := by
    intro e he
    rw [switchTo_eq]; simp only [hncl, Bool.false_eq_true, if_false, hp]
    split <;> simp [he]
  refine ⟨hev _ (by simp [closeBW]), fun x hx => hev _ (by simp [closeBW, hx]), ?_⟩
  obtain ⟨c, hc⟩ := Option.isSome_iff_exists.mp (hi.pendCur p hp)
  obtain ⟨e1, e2⟩ := install_some _ name c hc
  have hinst := inv_install _ hi hncl name
  have hd := hi.distinct c p hc hp
  have hle := hi.pendLe p hp
  have hinstF : curOrPend (install (run {} ops) name) p.id = false := by
    simp only [curOrPend, isCur, isPend, e1, e2, Option.any_some, Bool.or_eq_false_iff, decide_eq_false_iff_not]
    omega
  rw [switchTo_eq]; simp only [hncl, Bool.false_eq_true, if_false]
  split
  · simp only [e2, Option.isSome_some, if_true]
    simp only [curOrPend, isCur, isPend, e1, Option.any_some, Option.any_none, Bool.or_false, decide_eq_false_iff_not]
    omega
  · cases hcp : curOrPend (runScript (install (run {} ops) name) ((run {} ops).serial + 1) sc).1 p.id with
    | false => rfl
    | true => have := mono_runScript _ hinst _ sc p.id hcp; rw [hinstF] at this; cases this

/-- A pending policy is always CONNECTING (as far as it has told) and never exists without a current. -/
theorem pending_is_connecting_and_has_a_current (ops : List Op) (p : BW) (hp : (run {} ops).pending = some p) :
    p.last.state = .connecting ∧ (run {} ops).current.isSome ∧
    ∀ c, (run {} ops).current = some c → c.id ≠ p.id :=
  let hi := inv_run {} inv_init ops
  ⟨hi.pendConn p hp, hi.pendCur p hp, fun c hc => hi.distinct c p hc hp⟩

/-- Close closes both policies with their SubConns, leaves no role, and the balancer stays closed:
    afterwards no policy ever has a role again and every switch is refused. -/
theorem close_closes_everything (ops more : List Op) (name : Nat) (sc : Script) :
    (step (run {} ops) .close).2.1 = closeBW (run {} ops).current ++ closeBW (run {} ops).pending ∧
    (run (step (run {} ops) .close).1 more).current = none ∧
    (run (step (run {} ops) .close).1 more).pending = none ∧
    (switchTo (run (step (run {} ops) .close).1 more) name sc).2 = ([], .closed) := by
  have hi := inv_run {} inv_init ops
  have hi2 := (stepOK_step _ hi .close).inv
  have hcl : (step (run {} ops) .close).1.closed = true := by simp [step]
  have hcl2 := run_closed _ more hcl
  have hi3 := inv_run _ hi2 more
  refine ⟨by simp [step], (hi3.closedNone hcl2).1, (hi3.closedNone hcl2).2, ?_⟩
  simp [switchTo, hcl2]

-- non-vacuity: the scenario of the statement, step by step
example : (run {} [.switchTo 0 (.st .ready), .switchTo 1 .nothing]).pending.map (·.id) = some 2 := by decide
example : (step (run {} [.switchTo 0 (.st .ready), .nsc 1, .switchTo 1 .nothing]) (.st 2 .connecting)).2.1 = [] := by decide
example : (step (run {} [.switchTo 0 (.st .ready), .nsc 1, .switchTo 1 .nothing]) (.st 2 .ready)).2.1
    = [.push 2 ⟨.ready, 2⟩, .closeChild 1, .sd 1] := by decide
example : (step (run {} [.switchTo 0 (.st .ready), .nsc 1, .switchTo 1 .nothing]) (.st 1 .tf)).2.1
    = [.push 2 ⟨.connecting, 0⟩, .closeChild 1, .sd 1] := by decide
example : (step (run {} [.switchTo 0 (.st .ready), .switchTo 1 .nothing, .st 2 .ready]) (.st 1 .ready)).2.1 = [] := by decide

end GrpcProofs.C33
