/-
C07  grpc-timeout encoding never shortens a deadline and always decodes.
Property theorems only; helper lemmas are in GrpcProofs/Lemmas/Timeout.lean.
-/
import GrpcProofs.Lemmas.Timeout
namespace GrpcProofs.C07
open GrpcModel.Timeout GrpcModel.Generated

/-- Every positive int64 duration: the encoded (value, unit) has at most 8 digits and decodes to
    d' with d ≤ d' < d + unit (the hour clamp to MaxInt64 included). -/
theorem encode_decode (t : Nat) (h0 : 0 < t) (hmax : t ≤ maxInt64) :
    t ≤ decode (encode t).1 (encode t).2 ∧ decode (encode t).1 (encode t).2 < t + (encode t).2.ns
    ∧ 1 ≤ (encode t).1 ∧ (encode t).1 ≤ 99999999 :=
  Lemmas.Timeout.encode_decode t h0 hmax

/-- The header bytes produced for a positive duration are 1–8 ASCII digits plus a unit. -/
theorem encode_wellformed (t : Int) (h0 : 0 < t) (hmax : t ≤ maxInt64) :
    wellFormed (encodeBytes t) = true :=
  Lemmas.Timeout.encode_wellformed t h0 hmax

/-- Byte-level round trip: decoding the produced header yields d' with d ≤ d' < d + unit. -/
theorem decode_encode_bytes (t : Int) (h0 : 0 < t) (hmax : t ≤ maxInt64) :
    ∃ d', decodeBytes (encodeBytes t) = some d' ∧ t.toNat ≤ d' ∧ d' < t.toNat + (encode t.toNat).2.ns :=
  Lemmas.Timeout.decode_encode_bytes t h0 hmax

/-- Non-positive durations are sent as "0n". -/
theorem encode_nonpos (t : Int) (h : t ≤ 0) : encodeBytes t = [48, 110] := by
  simp [encodeBytes, h]

/-- The decoder accepts exactly the strings of 1–8 ASCII digits followed by one of H M S m u n. -/
theorem decode_accepts_iff (bs : List UInt8) : (decodeBytes bs).isSome = wellFormed bs :=
  Lemmas.Timeout.decode_accepts_iff bs

/-- Whatever is accepted decodes to a value that fits int64 (so the Go result is never negative
    and the multiplication never wraps). -/
theorem decode_no_overflow (bs : List UInt8) (d : Nat) (h : decodeBytes bs = some d) : d ≤ maxInt64 :=
  Lemmas.Timeout.decode_no_overflow bs d h

-- non-vacuity: concrete instances of the hypotheses and of both sides of the iff
example : encode 100000000 = (100000, .u) := by decide
example : decodeBytes [49, 50, 83] = some 12000000000 := by decide
example : decodeBytes [57, 57, 57, 57, 57, 57, 57, 57, 72] = some maxInt64 := by decide
example : decodeBytes [49, 50, 51, 52, 53, 54, 55, 56, 57, 110] = none := by decide
example : wellFormed [43, 49, 83] = false := by decide

end GrpcProofs.C07
