/-
C23  Every successful pick's Done callback runs exactly once.
Property theorems only; helper lemmas are in GrpcProofs/Lemmas/RetryLoop.lean (section
"csAttempt.finish exactly once").
Models: GrpcModel/Model/RetryLoop.lean (`Att.finishCalls` counts the csAttempt.finish calls that get
past the `finished` guard, i.e. the calls of pickResult.Done), GrpcModel/Model/PickDone.lean
(pickerWrapper.pick against a scripted picker).
-/
import GrpcProofs.Lemmas.RetryLoop
import GrpcProofs.Properties.C18
import GrpcModel.Model.PickDone
namespace GrpcProofs.C23
open GrpcModel.Retry GrpcModel.RetryLoop GrpcModel.PickDone GrpcProofs.Lemmas.Retry GrpcProofs.Lemmas.RetryLoop
open GrpcProofs.C18 (fresh)

theorem fresh_fo (cstr sstr dis : Bool) (pol : Option Policy) (maxBuf : Int) (thr : Option Throttler) (script : List Beh)
    (ns : List (Option Nat)) (f0 : Nat) :
    FO (fresh cstr sstr dis pol maxBuf thr script ns f0) :=
  opNew_fo f0 _ rfl rfl rfl rfl

/-- `csAttempt.finish` is idempotent with respect to Done: over every run (every policy, server
    script, buffer limit — negative ones included — and application op sequence, cancellation
    included) no attempt's Done has run more than once. -/
theorem finish_runs_done_at_most_once (cstr sstr dis : Bool) (pol : Option Policy) (maxBuf : Int) (thr : Option Throttler)
    (script : List Beh) (ns : List (Option Nat)) (f0 : Nat) (ops : List AppOp) (hops : ∀ o ∈ ops, o ≠ .new) (fuel : Nat) :
    ∀ a ∈ (St.run fuel (fresh cstr sstr dis pol maxBuf thr script ns f0) ops).1.atts, a.finishCalls ≤ 1 :=
  (run_fo fuel ops _ hops (fresh_fo cstr sstr dis pol maxBuf thr script ns f0)).1.most

/-- … and every attempt that is no longer the current one (it was abandoned by a retry) has had its
    Done run exactly once: no path out of `retryLocked` forgets `attempt.finish`. -/
theorem every_attempt_finished_once (cstr sstr dis : Bool) (pol : Option Policy) (maxBuf : Int) (thr : Option Throttler)
    (script : List Beh) (ns : List (Option Nat)) (f0 : Nat) (ops : List AppOp) (hops : ∀ o ∈ ops, o ≠ .new) (fuel : Nat) :
    ∀ a ∈ (St.run fuel (fresh cstr sstr dis pol maxBuf thr script ns f0) ops).1.atts.dropLast, a.finishCalls = 1 :=
  (run_fo fuel ops _ hops (fresh_fo cstr sstr dis pol maxBuf thr script ns f0)).1.older

/-- Once `clientStream.finish` has run (the RPC ended: success, failure, send error or
    cancellation) every attempt — the last one included — has had its Done run exactly once. -/
theorem done_exactly_once_at_end (cstr sstr dis : Bool) (pol : Option Policy) (maxBuf : Int) (thr : Option Throttler)
    (script : List Beh) (ns : List (Option Nat)) (f0 : Nat) (ops : List AppOp) (hops : ∀ o ∈ ops, o ≠ .new) (fuel : Nat)
    (hfin : (St.run fuel (fresh cstr sstr dis pol maxBuf thr script ns f0) ops).1.cs.finished = true) :
    ∀ a ∈ (St.run fuel (fresh cstr sstr dis pol maxBuf thr script ns f0) ops).1.atts, a.finishCalls = 1 :=
  ((run_fo fuel ops _ hops (fresh_fo cstr sstr dis pol maxBuf thr script ns f0)).1.fin hfin).1

/-- `clientStream.finish` does end the bookkeeping: whatever the state, afterwards the RPC is
    finished and every attempt's Done has run exactly once (this is the step taken by RecvMsg on
    io.EOF / error, by SendMsg on a real error, by Header on error and by cancellation). -/
theorem finish_finishes (st : St) (code : Nat) (h : FO st) :
    (st.finish code).cs.finished = true ∧ ∀ a ∈ (st.finish code).atts, a.finishCalls = 1 :=
  ⟨(finish_fo st code h).2.2, (finish_fo st code h).2.1⟩

/-- Cancellation: the operation ends the RPC. -/
theorem cancel_finishes (fuel : Nat) (st : St) (h : FO st) :
    (st.step fuel .cancel).1.cs.finished = true ∧ ∀ a ∈ (st.step fuel .cancel).1.atts, a.finishCalls = 1 := by
  simp only [St.step, St.opCancel]
  obtain ⟨hfo, hall, hf⟩ := finish_fo st 1 h
  have hs := settle_fo _ hfo
  exact ⟨hf, (hs.1.fin hf).1⟩

/-- A retry creates its attempt only after the abandoned one was finished: when `retryLocked` has
    taken its decision every existing attempt's Done has run exactly once. -/
theorem abandoned_attempt_finished_before_retry (st : St) (raw : Raw) (h : FO st) :
    ∀ a ∈ (st.decideRetry raw).1.atts, a.finishCalls = 1 :=
  (decideRetry_finv st raw h.1).2.1

/-- An attempt created by the retry code whose stream creation fails (the pick succeeded, then
    `transport.NewStream` failed) is finished — its Done runs — at the top of the next turn of
    `retryLocked`'s loop, before `shouldRetry` judges it; it never becomes `cs.attempt`, so nothing
    else would finish it. -/
theorem failed_creation_finished_once (st : St) (d : Decision) (c : Nat) :
    (st.failStep d c).1.failedFin = st.failedFin ++ [1] ∧ (st.failStep d c).1.atts = st.atts :=
  ⟨rfl, rfl⟩

/-! ### pickerWrapper.pick -/

/-- in a pick trace: a not-ready pick is followed at once by its own Done(DoneInfo{}); no other Done -/
def wellPaired : List PEv → Bool
  | [] => true
  | .pick id .notready :: .done id' c :: rest => id == id' && c == 0 && wellPaired rest
  | .pick _ .notready :: _ => false
  | .pick id .notreadyCancel :: .done id' c :: rest => id == id' && c == 0 && wellPaired rest
  | .pick _ .notreadyCancel :: _ => false
  | .pick _ _ :: rest => wellPaired rest
  | .done _ _ :: _ => false

/-- The pick loop calls Done exactly once, immediately, on every non-ready result it discards —
    also when the RPC's context ended during that very `Pick` (`notreadyCancel`) — and on nothing
    else: not on ErrNoSubConnAvailable, not on a status error, and not on the result it returns
    (that one is left to `csAttempt.finish`). -/
theorem pick_loop_done (script : List PickBeh) (n : Nat) : wellPaired (pickLoop script n).1 = true := by
  induction script generalizing n with
  | nil => simp [pickLoop, wellPaired]
  | cons b rest ih =>
    cases b with
    | ok => simp [pickLoop, wellPaired]
    | oknd => simp [pickLoop, wellPaired]
    | notready =>
      have := ih (n + 1)
      simp only [pickLoop]
      simp [wellPaired, this]
    | nosc =>
      have := ih (n + 1)
      simp only [pickLoop]
      simp [wellPaired, this]
    | hang => simp [pickLoop, wellPaired]
    | drop c => simp [pickLoop, wellPaired]
    | notreadyCancel => simp [pickLoop, wellPaired]
    | noscCancel => simp [pickLoop, wellPaired]

/-- A pick during which the context ended returns CANCELLED without a pick result, and a discarded
    not-ready result got its Done first. -/
theorem cancelled_pick_done (rest : List PickBeh) (n : Nat) :
    (pickLoop (.notreadyCancel :: rest) n).1 = [.pick (n + 1) .notreadyCancel, .done (n + 1) 0] ∧
    (pickLoop (.notreadyCancel :: rest) n).2.2.2 = .cancelled ∧
    (pickLoop (.noscCancel :: rest) n).1 = [.pick (n + 1) .noscCancel] ∧
    (pickLoop (.noscCancel :: rest) n).2.2.2 = .cancelled := by
  simp [pickLoop]

def evId : PEv → Nat
  | .pick id _ => id
  | .done id _ => id

/-- pick ids are fresh: everything the loop reports lies strictly above the ids used before and at
    or below the new counter, and the returned pick is the last id. -/
theorem pick_loop_fresh_ids (script : List PickBeh) (n : Nat) :
    (∀ e ∈ (pickLoop script n).1, n < evId e ∧ evId e ≤ (pickLoop script n).2.2.1) ∧
    (∀ hd id, (pickLoop script n).2.2.2 = .picked hd id → id = (pickLoop script n).2.2.1) ∧
    n < (pickLoop script n).2.2.1 := by
  induction script generalizing n with
  | nil => simp [pickLoop, evId]
  | cons b rest ih =>
    cases b with
    | ok => simp [pickLoop, evId]
    | oknd => simp [pickLoop, evId]
    | hang => simp [pickLoop, evId]
    | drop c => simp [pickLoop, evId]
    | notreadyCancel => simp [pickLoop, evId]
    | noscCancel => simp [pickLoop, evId]
    | notready =>
      obtain ⟨h1, h2, h3⟩ := ih (n + 1)
      simp only [pickLoop]
      refine ⟨?_, h2, by omega⟩
      intro e he
      simp only [List.mem_cons] at he
      rcases he with he | he | he
      · subst he; simp only [evId]; omega
      · subst he; simp only [evId]; omega
      · have := h1 e he; omega
    | nosc =>
      obtain ⟨h1, h2, h3⟩ := ih (n + 1)
      simp only [pickLoop]
      refine ⟨?_, h2, by omega⟩
      intro e he
      simp only [List.mem_cons] at he
      rcases he with he | he
      · subst he; simp only [evId]; omega
      · have := h1 e he; omega

-- non-vacuity
example : (pickLoop [.notready, .nosc, .ok] 4).1 =
    [.pick 5 .notready, .done 5 0, .pick 6 .nosc, .pick 7 .ok] := by decide
example : (pickLoop [.notready, .drop 7] 0).2.2.2 = .dropped 7 := by decide
example : wellPaired [.pick 1 .notready, .pick 2 .ok] = false := by decide

end GrpcProofs.C23
