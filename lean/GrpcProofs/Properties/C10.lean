import GrpcModel.Model.Status
namespace GrpcProofs.C10
end GrpcProofs.C10
