/-
C10  A handler's status reaches the client unchanged.

Model: GrpcModel/Model/Status.lean (writeStatus → trailer fields → client operateHeaders →
NewWithProto → Err), GrpcModel/Model/StatusMsg.lean (grpc-message percent-encoding, UTF-8),
GrpcModel/Prim/Base64.lean, GrpcModel/Model/Headers.lean (metadata ↔ header fields).
Property theorems only; helper lemmas are in GrpcProofs/Lemmas/{Status,StatusMsg,Base64}.lean.

The statement as given, over the model:

    ∀ hs sub st tr, st.code < 2^32 →
      endToEnd hs sub (.status st) tr = .status ⟨st.code, sanitize st.msg, st.details⟩

is FALSE for the unchanged code (`status_roundtrip_counterexample_code`,
`status_roundtrip_counterexample_details`); what holds is `status_roundtrip_partial`, whose three
side conditions are exactly the excluded inputs, and `code_ge_2p31_malformed` /
`details_lost_when_unmarshalable` say what happens on them.
-/
import GrpcProofs.Lemmas.Status
import GrpcProofs.Lemmas.StatusProto
namespace GrpcProofs.C10
open GrpcModel.Status GrpcModel.Headers GrpcModel
open GrpcModel.Base64 (Bytes)

/-- The status round trip. For every response shape (`hs`: headers frame before the trailers, or
    trailers-only), content-subtype, trailer metadata `tr`, and every status with
    * a code below 2^31 (0…16 and out-of-range codes up to 2147483647),
    * any message bytes when there are no details; valid UTF-8 message and detail type URLs when
      there are (a proto3 string cannot hold anything else),
    * whose google.rpc.Status encoding is shorter than 2^64 bytes (`hsz`; any Go slice is — the
      protobuf round trip itself is proved for the Lean port of the wire format, `proto_roundtrip`),
    * and a handler that does not put `grpc-status-details-bin` into the trailer itself when it
      returns no details (`hu`),
    the client ends with exactly that code, the message with invalid UTF-8 replaced by U+FFFD, and
    the same details. -/
theorem status_roundtrip_partial (hs : Bool) (sub : Bytes) (st : Status) (tr : MD)
    (hc : st.code < 2147483648)
    (hv : st.details ≠ [] → StatusMsg.validUtf8 st.msg = true ∧ ∀ a ∈ st.details, StatusMsg.validUtf8 a.typeUrl = true)
    (hsz : (marshalBody st).length < 2 ^ 64)
    (hu : st.details = [] → ∀ kv ∈ tr, kv.1 ≠ hDetailsBin) :
    endToEnd hs sub (.status st) tr = .status ⟨st.code, StatusMsg.sanitize st.msg, st.details⟩ :=
  Lemmas.Status.endToEnd_roundtrip hs sub st tr hc hv
    (fun hd => Lemmas.StatusProto.unmarshal_marshal st (by omega) (hv hd).1 (hv hd).2 hsz) hu

/-- The full statement fails on codes ≥ 2^31 (suspected defect F11): written with
    `Itoa(int(uint32))`, parsed with `ParseInt(…, 10, 32)`. -/
theorem status_roundtrip_counterexample_code :
    ¬ (∀ (hs : Bool) (sub : Bytes) (st : Status) (tr : MD), st.code < 4294967296 →
        endToEnd hs sub (.status st) tr = .status ⟨st.code, StatusMsg.sanitize st.msg, st.details⟩) := by
  intro h
  have h1 := h true [] ⟨2147483648, [109], []⟩ [] (by decide)
  rw [Lemmas.Status.code_ge_2p31_malformed true [] ⟨2147483648, [109], []⟩ [] (by decide)] at h1
  cases h1

/-- …and on a message that is not valid UTF-8 when details are attached (finding F25): the
    details are dropped. -/
theorem status_roundtrip_counterexample_details :
    ¬ (∀ (hs : Bool) (sub : Bytes) (st : Status) (tr : MD), st.code < 2147483648 →
        endToEnd hs sub (.status st) tr = .status ⟨st.code, StatusMsg.sanitize st.msg, st.details⟩) := by
  intro h
  have h1 := h true [] ⟨3, [0xff], [⟨[116], [1]⟩]⟩ [] (by decide)
  have hm : marshal ⟨3, [0xff], [⟨[116], [1]⟩]⟩ = none := by decide
  unfold endToEnd appStatus at h1
  simp only at h1
  rw [Lemmas.Status.writeStatus_marshal_fails true [] _ [] (by simp) hm] at h1
  have h2 := Lemmas.Status.endToEnd_roundtrip true [] ⟨3, [0xff], []⟩ (mdDelete [] hDetailsBin) (by decide)
    (fun h => absurd rfl h) (fun h => absurd rfl h) (fun _ kv hkv => by simp [mdDelete] at hkv)
  unfold endToEnd appStatus at h2
  simp only at h2
  rw [h2] at h1
  simp at h1

/-- What happens on every code ≥ 2^31: the RPC ends with UNKNOWN "transport: malformed
    grpc-status: … value out of range" (never with the code sent, never with nil). -/
theorem code_ge_2p31_malformed (hs : Bool) (sub : Bytes) (st : Status) (tr : MD) (hc : 2147483648 ≤ st.code) :
    endToEnd hs sub (.status st) tr = .malformedStatus true (itoa st.code) :=
  Lemmas.Status.code_ge_2p31_malformed hs sub st tr hc

/-- What happens when the status cannot be marshalled: code and sanitised message arrive, the
    details are lost (and so is a handler-supplied grpc-status-details-bin). -/
theorem details_lost_when_unmarshalable (hs : Bool) (sub : Bytes) (st : Status) (tr : MD)
    (hc : st.code < 2147483648) (hd : st.details ≠ []) (hm : marshal st = none) :
    endToEnd hs sub (.status st) tr = .status ⟨st.code, StatusMsg.sanitize st.msg, []⟩ := by
  have h2 := Lemmas.Status.endToEnd_roundtrip hs sub ⟨st.code, st.msg, []⟩ (mdDelete tr hDetailsBin) hc
    (fun h => absurd rfl h) (fun h => absurd rfl h) (fun _ => Lemmas.Status.mdDelete_keys tr hDetailsBin)
  unfold endToEnd appStatus at h2 ⊢
  simp only at h2 ⊢
  rw [Lemmas.Status.writeStatus_marshal_fails hs sub st tr hd hm]
  exact h2

/-- A handler returning nil yields a nil client error (OK status, empty message, no details). -/
theorem handler_nil_client_nil (hs : Bool) (sub : Bytes) (tr : MD) (hu : ∀ kv ∈ tr, kv.1 ≠ hDetailsBin) :
    endToEnd hs sub .nil tr = .status ⟨0, [], []⟩ ∧ (endToEnd hs sub .nil tr).isNil = true := by
  have h := Lemmas.Status.endToEnd_roundtrip hs sub ⟨0, [], []⟩ tr (by decide)
    (fun h => absurd rfl h) (fun h => absurd rfl h) (fun _ => hu)
  have e : endToEnd hs sub .nil tr = endToEnd hs sub (.status ⟨0, [], []⟩) tr := rfl
  rw [e, h]
  exact ⟨by simp [StatusMsg.sanitize, StatusMsg.runes, StatusMsg.runesAux], by simp [ClientEnd.isNil, ClientEnd.code]⟩

/-- A non-OK status never becomes a nil error: every code ≠ 0 (in or out of range, even ≥ 2^31),
    every message, every detail list, every trailer metadata, both response shapes. -/
theorem nonok_never_nil (hs : Bool) (sub : Bytes) (st : Status) (tr : MD) (hc : st.code ≠ 0) :
    (endToEnd hs sub (.status st) tr).isNil = false :=
  Lemmas.Status.nonok_never_nil hs sub st tr hc

/-- A handler error that is not a status arrives as UNKNOWN with its (sanitised) text, never nil. -/
theorem plain_error_unknown (hs : Bool) (sub : Bytes) (m : Bytes) (tr : MD) (hu : ∀ kv ∈ tr, kv.1 ≠ hDetailsBin) :
    endToEnd hs sub (.plain m) tr = .status ⟨2, StatusMsg.sanitize m, []⟩ :=
  Lemmas.Status.endToEnd_roundtrip hs sub ⟨2, m, []⟩ tr (by show 2 < 2147483648; decide)
    (fun h => absurd rfl h) (fun h => absurd rfl h) (fun _ => hu)

/-- Trailers-only and headers+trailers responses give the client the same status. -/
theorem paths_agree (sub : Bytes) (st : Status) (tr : MD)
    (hc : st.code < 2147483648)
    (hv : st.details ≠ [] → StatusMsg.validUtf8 st.msg = true ∧ ∀ a ∈ st.details, StatusMsg.validUtf8 a.typeUrl = true)
    (hsz : (marshalBody st).length < 2 ^ 64)
    (hu : st.details = [] → ∀ kv ∈ tr, kv.1 ≠ hDetailsBin) :
    endToEnd true sub (.status st) tr = endToEnd false sub (.status st) tr := by
  rw [status_roundtrip_partial true sub st tr hc hv hsz hu, status_roundtrip_partial false sub st tr hc hv hsz hu]

/-- grpc-message: what the client decodes is the handler's text with every invalid UTF-8 byte
    replaced by U+FFFD — for every byte string (fast paths of both functions included). -/
theorem message_roundtrip (m : Bytes) : StatusMsg.decode (StatusMsg.encode m) = StatusMsg.sanitize m :=
  Lemmas.StatusMsg.decode_encode m

/-- …and valid UTF-8 is not changed at all. -/
theorem message_roundtrip_valid (m : Bytes) (h : StatusMsg.validUtf8 m = true) :
    StatusMsg.decode (StatusMsg.encode m) = m := by
  rw [message_roundtrip, Lemmas.StatusMsg.sanitize_valid m h]

/-- grpc-status: `ParseInt(Itoa(c), 10, 32)` gives back c exactly when c < 2^31 and is a range
    error otherwise. -/
theorem grpc_status_decimal (c : Nat) :
    parseInt32 (itoa c) = if c < 2147483648 then .ok c else .rangeErr := by
  split
  · rename_i h; exact Lemmas.Status.parseInt32_itoa c h
  · rename_i h; exact Lemmas.Status.parseInt32_itoa_big c (by omega)

/-- grpc-status-details-bin: `decodeBinHeader(encodeBinHeader(b)) = b` for all bytes. -/
theorem details_bin_roundtrip (b : Bytes) : Base64.decodeBinHeader (Base64.encodeBinHeader b) = some b :=
  Lemmas.Base64.decodeBinHeader_encodeBinHeader b

/-- google.rpc.Status survives proto.Marshal / proto.Unmarshal (as ported): every code (uint32
    view, so negative int32 values included), valid-UTF-8 message and type URLs, any detail
    values, any number of details. -/
theorem proto_roundtrip (st : Status) (hc : st.code < 4294967296) (hm : StatusMsg.validUtf8 st.msg = true)
    (hd : ∀ d ∈ st.details, StatusMsg.validUtf8 d.typeUrl = true) (hsz : (marshalBody st).length < 2 ^ 64) :
    marshal st = some (marshalBody st) ∧ unmarshal (marshalBody st) = some st := by
  refine ⟨?_, Lemmas.StatusProto.unmarshal_marshal st hc hm hd hsz⟩
  unfold marshal
  have : st.details.all (fun a => StatusMsg.validUtf8 a.typeUrl) = true := by rw [List.all_eq_true]; exact hd
  simp [hm, this]

/-- The literal header names the client's switch knows (regenerated from operateHeaders; a new
    `case` there breaks this and therefore the model's `scanField`). -/
theorem client_switch_names :
    Generated.mdwClientSwitchHeaders = ["content-type", "grpc-encoding", "grpc-status", "grpc-message", ":status"] := by
  decide

-- non-vacuity: concrete end-to-end instances (hypotheses of the partial theorem are satisfiable,
-- details really travel, both sides of the 2^31 boundary)
example : endToEnd false (asciiBytes "proto") (.status ⟨5, [104, 105], [⟨[116], [1, 2]⟩]⟩) [] =
    .status ⟨5, [104, 105], [⟨[116], [1, 2]⟩]⟩ := by decide
example : unmarshal (marshalBody ⟨5, [104, 105], [⟨[116], [1, 2]⟩]⟩) = some ⟨5, [104, 105], [⟨[116], [1, 2]⟩]⟩ := by decide
example : endToEnd true [] (.status ⟨16, [0xff], []⟩) [] = .status ⟨16, [0xEF, 0xBF, 0xBD], []⟩ := by decide
example : endToEnd true [] (.status ⟨2147483648, [], []⟩) [] = .malformedStatus true (itoa 2147483648) :=
  code_ge_2p31_malformed true [] _ [] (by decide)
-- a handler that sets grpc-status-details-bin itself changes what the client sees (outside `hu`)
example : endToEnd true [] (.status ⟨5, [97], []⟩) [(hDetailsBin, [marshalBody ⟨5, [98], []⟩])] = .status ⟨5, [98], []⟩ := by decide

end GrpcProofs.C10
