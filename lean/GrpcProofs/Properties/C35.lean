/-
C35  Aggregated state and endpoint round robin follow the precedence rule.
Models: GrpcModel/Model/LbConnState.lean (ConnectivityStateEvaluator),
        GrpcModel/Model/EpShard.lean (endpointsharding balancer + its round-robin picker).
Property theorems only; helper lemmas are in GrpcProofs/Lemmas/{LbConnState,EpShard,EpShardCount}.lean.
-/
import GrpcProofs.Lemmas.LbConnState
import GrpcProofs.Lemmas.EpShard
import GrpcProofs.Lemmas.WAgg
namespace GrpcProofs.C35
open GrpcModel.LbConnState GrpcModel.EpShard GrpcModel.Generated

/-- T4: the model's numeric view of `connectivity.State` is the const block as it is in the source
    today, and the zero value of a `balancer.State` (a child that never reported) is IDLE. -/
theorem state_order_pinned :
    lbConnStateNames = ["Idle", "Connecting", "Ready", "TransientFailure", "Shutdown"] ∧
    ConnState.ofCode 0 = .idle ∧ ConnState.idle.code = 0 ∧ ConnState.shutdown.code = 4 := by decide

/-- The precedence rule is a function of the MULTISET of child states: READY if any child is READY,
    else CONNECTING if any is CONNECTING, else IDLE if any is IDLE, else TRANSIENT_FAILURE — also
    for no children. -/
theorem prec_multiset (l₁ l₂ : List ConnState) (h : l₁.Perm l₂) :
    prec l₁ = prec l₂ ∧ prec [] = .tf ∧
    (prec l₁ = .ready ↔ .ready ∈ l₁) ∧
    (prec l₁ = .connecting ↔ .ready ∉ l₁ ∧ .connecting ∈ l₁) ∧
    (prec l₁ = .idle ↔ .ready ∉ l₁ ∧ .connecting ∉ l₁ ∧ .idle ∈ l₁) ∧
    (prec l₁ = .tf ↔ .ready ∉ l₁ ∧ .connecting ∉ l₁ ∧ .idle ∉ l₁) := by
  refine ⟨?_, rfl, ?_, ?_, ?_, ?_⟩
  · simp only [prec, h.mem_iff]
  all_goals
    simp only [prec]
    by_cases h1 : ConnState.ready ∈ l₁ <;> by_cases h2 : ConnState.connecting ∈ l₁ <;>
      by_cases h3 : ConnState.idle ∈ l₁ <;> simp [h1, h2, h3]

/-- ConnectivityStateEvaluator, every legal history (children added / changing state / removed in
    any order, any number of them): each uint64 counter is the number of children in that state
    modulo 2^64, and no child is recorded as SHUTDOWN. -/
theorem cse_counters_track_multiset (evs : List Ev) :
    (runTrack evs).1.numReady = BitVec.ofNat 64 ((runTrack evs).2.count .ready) ∧
    (runTrack evs).1.numConnecting = BitVec.ofNat 64 ((runTrack evs).2.count .connecting) ∧
    (runTrack evs).1.numTransientFailure = BitVec.ofNat 64 ((runTrack evs).2.count .tf) ∧
    (runTrack evs).1.numIdle = BitVec.ofNat 64 ((runTrack evs).2.count .idle) ∧
    .shutdown ∉ (runTrack evs).2 := by
  obtain ⟨h, hn⟩ := Lemmas.LbConnState.tracks_run evs
  exact ⟨h .ready (by decide), h .connecting (by decide), h .tf (by decide), h .idle (by decide), hn⟩

/-- … hence (fewer than 2^64 children) `CurrentState`, which is also what `RecordTransition`
    returns, is the precedence-rule state of the current multiset of child states. -/
theorem cse_aggregate_precedence (evs : List Ev) (hl : (runTrack evs).2.length < 2 ^ 64) :
    (runTrack evs).1.currentState = prec (runTrack evs).2 ∧
    ∀ old new, ((runTrack evs).1.recordTransition old new).2
      = ((runTrack evs).1.recordTransition old new).1.currentState :=
  ⟨Lemmas.LbConnState.current_of_tracks _ _ (Lemmas.LbConnState.tracks_run evs) hl, fun _ _ => rfl⟩

/-- The legality hypothesis is needed: told about a transition of a child it never saw, the
    evaluator underflows a counter and reports READY with no children (the `uint64(idx)*2-1` trick is
    only subtraction while the counter is positive). Exercised on the real code by raw `rt` ops. -/
theorem cse_underflow_counterexample :
    ¬ (∀ old new : ConnState, (({} : CSE).recordTransition old new).2 = prec ([new].filter (· ≠ .shutdown))) := by
  intro h
  exact absurd (h .ready .shutdown) (by decide)

/-- endpointsharding `updateStateLocked`, any children in any map order: the aggregate state is
    the precedence-rule state of the children's states (TRANSIENT_FAILURE for none). -/
theorem epshard_aggregate_precedence (cs : List Child) :
    (build cs).1 = prec (cs.map (·.state)) ∧ (build []).1 = .tf :=
  ⟨Lemmas.EpShard.build_agg cs, rfl⟩

/-- Every state the balancer hands to the channel, from any state, for any op (resolver update,
    child report, ResolverError, ExitIdle) and any map iteration order: the aggregate state follows
    the rule, the picker holds exactly the children that are in the aggregate state (the error
    picker when there is none), and its start index is in range. -/
theorem epshard_every_push_ok (s : St) (op : Op) (oracle : List Del) (p : Pushed)
    (h : (step s op oracle).2.push = some p) : pushOk p = true := by
  obtain ⟨cs, r, rfl⟩ := Lemmas.EpShard.step_push s op oracle p h
  exact Lemmas.EpShard.pushOk_pushOf cs r oracle

/-- All histories: whenever child updates are not inhibited (i.e. the balancer is not closed), the
    state last given to the channel is the aggregate of the CURRENT children — the channel never
    works with a stale aggregate. -/
theorem epshard_channel_view_current (b : Bool) (ops : List (Op × List Del)) (p : Pushed)
    (hl : (run (init b) ops).last = some p) (hi : (run (init b) ops).inhibit = false) :
    p.agg = prec ((run (init b) ops).endpoints.map (·.state)) ∧
    p.childStates = (run (init b) ops).endpoints.map Child.cstate :=
  (Lemmas.EpShard.inv_run _ (Lemmas.EpShard.inv_init b) ops).cur hi p hl

/-- All histories, all pick counts, any index (wrapped or not): every Pick on the channel's picker
    delegates to a child that is in the aggregate state (or to the error picker when no child is). -/
theorem picker_only_delegates_to_children_in_aggregate_state (b : Bool) (ops : List (Op × List Del))
    (p : Pushed) (hl : (run (init b) ops).last = some p) (next : BitVec 32) (k : Nat) (d : Del)
    (hd : d ∈ (pickSeq p.pickers next k).2) : delegateOk p d = true :=
  Lemmas.EpShard.picks_delegate_ok p
    ((Lemmas.EpShard.inv_run _ (Lemmas.EpShard.inv_init b) ops).last p hl).1 next k d hd

/- Full statement wanted:  ∀ pickers next k, every delegate is chosen ⌊k/n⌋ or ⌈k/n⌉ times.
   It is FALSE across the uint32 wrap (rr_wrap_counterexample); proved under the no-wrap hypothesis
   `next + k < 2^32`, hence `_partial`. -/

/-- Round robin, index level: k consecutive picks that do not wrap the uint32 index choose a
    delegate that occurs once in the list ⌊k/n⌋ or ⌈k/n⌉ times. -/
theorem rr_fair_partial (pickers : List Del) (d : Del) (h1 : pickers.count d = 1) (next : BitVec 32)
    (k : Nat) (hw : next.toNat + k < 4294967296) :
    let c := (pickSeq pickers next k).2.count d
    c = k / pickers.length ∨ (c = k / pickers.length + 1 ∧ k % pickers.length ≠ 0) := by
  have h := Lemmas.EpShard.fair_of_count_one pickers d h1 next k hw
  simp only [fair, Bool.or_eq_true, Bool.and_eq_true, beq_iff_eq, bne_iff_ne] at h
  exact h

/-- All histories: on the channel's picker, any k consecutive picks starting at any index that
    does not wrap give EVERY child in the aggregate state ⌊k/n⌋ or ⌈k/n⌉ picks (the monitor's
    `windowFair`). -/
theorem rr_fair_children_partial (b : Bool) (ops : List (Op × List Del)) (p : Pushed)
    (hl : (run (init b) ops).last = some p) (next : BitVec 32) (k : Nat)
    (hw : next.toNat + k < 4294967296) :
    windowFair p (pickSeq p.pickers next k).2 = true :=
  let i := (Lemmas.EpShard.inv_run _ (Lemmas.EpShard.inv_init b) ops).last p hl
  Lemmas.EpShard.windowFair_of_inv p i.1 i.2 next k hw

/-- … and the same for every SUPERSEDED picker the channel may still be picking on (RPCs that fetched
    it before a picker update): each picker generation has its own position, so in every history any k
    consecutive picks on the g-th most recently superseded picker — whatever was picked on other
    generations in between — give each of ITS children ⌊k/n⌋ or ⌈k/n⌉ picks (no index wrap). -/
theorem rr_fair_superseded_partial (b : Bool) (ops : List (Op × List Del)) (g : Nat) (p : Pushed) (w : List Del)
    (hg : (run (init b) ops).olds[g]? = some (p, w)) (k : Nat) (hw : p.next.toNat + k < 4294967296) :
    windowFair p (pickSeq p.pickers p.next k).2 = true ∧
    (step (run (init b) ops) (.pickold g k) []).2.picks = some (pickSeq p.pickers p.next k).2 := by
  have ho := (Lemmas.EpShard.inv_olds_run _ (Lemmas.EpShard.inv_init b) (by intro pw h; simp [init] at h) ops).2
  have hm := ho (p, w) (List.mem_of_getElem? hg)
  exact ⟨Lemmas.EpShard.windowFair_of_inv p hm.1 hm.2 p.next k hw, by simp [step, doPickOld, hg]⟩

/-- F8: without the no-wrap hypothesis the statement is false — three READY children, index
    2^32−3, three picks: one child is picked twice, one never. -/
theorem rr_wrap_counterexample :
    ¬ (∀ (p : Pushed) (k : Nat), pickersOk p = true → (p.childStates.map (·.ep)).Nodup →
        windowFair p (pickSeq p.pickers p.next k).2 = true) := by
  intro h
  have := h { agg := .ready, pickers := [.child 1 0, .child 2 1, .child 3 2], next := 4294967293#32,
              childStates := [⟨1, 0, .ready, true⟩, ⟨2, 1, .ready, true⟩, ⟨3, 2, .ready, true⟩] } 3
            (by decide) (by decide)
  revert this
  decide

/-! ### weighted_target's aggregator (balancer/weightedtarget/weightedaggregator) -/

/-- Every history of Add / Remove / UpdateState / UpdateWeight / Pause / Resume / Start in which an id
    is added once until removed and the aggregator is not used after Stop (`WAgg.RunOk`): the
    evaluator's counters are the numbers of children whose COUNTED state (`stateToAggregate`: the
    reported state, except that TRANSIENT_FAILURE → CONNECTING still counts as TRANSIENT_FAILURE)
    is READY / CONNECTING / TRANSIENT_FAILURE / IDLE — in particular what Remove takes out is what
    was counted. -/
theorem wagg_counters_track_children (ops : List GrpcModel.WAgg.Op) (hok : GrpcModel.WAgg.RunOk {} ops)
    (hns : (GrpcModel.WAgg.run {} ops).stopped = false) :
    let s := GrpcModel.WAgg.run {} ops
    s.cse.numReady = BitVec.ofNat 64 ((s.entries.map (·.agg)).count .ready) ∧
    s.cse.numConnecting = BitVec.ofNat 64 ((s.entries.map (·.agg)).count .connecting) ∧
    s.cse.numTransientFailure = BitVec.ofNat 64 ((s.entries.map (·.agg)).count .tf) ∧
    s.cse.numIdle = BitVec.ofNat 64 ((s.entries.map (·.agg)).count .idle) := by
  have h := Lemmas.WAgg.tracksW_run {} ops Lemmas.WAgg.tracksW_init hok hns
  exact ⟨h .ready (by decide), h .connecting (by decide), h .tf (by decide), h .idle (by decide)⟩

/-- … hence every state the aggregator gives to its parent follows the precedence rule over the
    children's counted states, TRANSIENT_FAILURE when there are no children (the monitor's `pushOk`;
    fewer than 2^64 children). -/
theorem wagg_aggregate_precedence (ops : List GrpcModel.WAgg.Op) (op : GrpcModel.WAgg.Op)
    (hok : GrpcModel.WAgg.RunOk {} (ops ++ [op]))
    (hns : (GrpcModel.WAgg.step (GrpcModel.WAgg.run {} ops) op).1.stopped = false)
    (hlen : (GrpcModel.WAgg.step (GrpcModel.WAgg.run {} ops) op).1.entries.length < 2 ^ 64)
    (p : GrpcModel.WAgg.Push) (hp : (GrpcModel.WAgg.step (GrpcModel.WAgg.run {} ops) op).2 = some p) :
    GrpcModel.WAgg.pushOk ((GrpcModel.WAgg.step (GrpcModel.WAgg.run {} ops) op).1.entries.map (·.agg)) p = true := by
  have split_ok : ∀ (s : GrpcModel.WAgg.St) (l : List GrpcModel.WAgg.Op), GrpcModel.WAgg.RunOk s (l ++ [op]) →
      GrpcModel.WAgg.RunOk s l ∧ GrpcModel.WAgg.opOk (GrpcModel.WAgg.run s l) op = true := by
    intro s l
    induction l generalizing s with
    | nil => intro h; exact ⟨trivial, h.1⟩
    | cons o t ih => intro h; obtain ⟨a, b⟩ := ih _ h.2; exact ⟨⟨h.1, a⟩, b⟩
  obtain ⟨h1, h2⟩ := split_ok {} ops hok
  have ht := Lemmas.WAgg.tracksW_step _ op (Lemmas.WAgg.tracksW_run {} ops Lemmas.WAgg.tracksW_init h1) h2
  exact Lemmas.WAgg.push_ok _ op p hp (ht hns) hlen

-- non-vacuity
example : (pickSeq [.child 1 0, .child 2 1, .child 3 2] 4294967293#32 3).2 = [.child 3 2, .child 1 0, .child 1 0] := by decide
example : (pickSeq [.child 1 0, .child 2 1, .child 3 2] 4294967289#32 3).2 = [.child 2 1, .child 3 2, .child 1 0] := by decide
example : (runTrack [.add .tf, .add .idle, .change 0 .connecting, .remove 1]).2 = [.connecting] := by decide
example : (runTrack [.add .tf, .add .idle, .change 0 .connecting, .remove 1]).1.currentState = .connecting := by decide
example : (build [{ id := 1, ep := 0, state := .tf, hasPicker := true }, { id := 2, ep := 1 }]) = (.idle, [.nilp]) := by decide
example : ((step (init false) (.update 1 [⟨0, some .ready, false⟩, ⟨1, some .tf, true⟩, ⟨0, none, false⟩]) []).2.push.map (·.agg)) = some .idle := by decide  -- rotated by 1: e0's first occurrence reports nothing (zero value IDLE)

example : (GrpcModel.WAgg.step (GrpcModel.WAgg.run {} [.start, .add 1 1, .add 2 1, .upd 2 .tf, .upd 1 .tf, .upd 1 .connecting]) (.remove 1)).2
    = some ⟨.tf, .group [(2, 1, 1)]⟩ := by decide
example : (GrpcModel.WAgg.run {} [.start, .add 1 1, .upd 1 .tf, .upd 1 .connecting]).entries.map (fun e => (e.reported, e.agg))
    = [(.connecting, .tf)] := by decide

end GrpcProofs.C35
