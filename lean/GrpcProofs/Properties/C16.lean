/-
C16  Control-frame throttling never deadlocks and close releases everything.

"The connection reader is blocked by control-frame throttling only while at least the configured
number of peer-triggered control frames are queued, and it is released as soon as the queue drops
below that number or the connection closes. After the control buffer is closed no item is accepted,
and every queued stream-creation request is failed exactly once."

Model: GrpcModel/Model/ControlBuf.lean (atomic steps of executeAndPut / get / throttle's load and
wait / finish / done).  Helper lemmas: GrpcProofs/Lemmas/ControlBuf.lean.  Every theorem is for an
arbitrary op list = every interleaving of any number of producers, the writer, any number of
reader goroutines (each split into its two atomic halves) and close, and for every limit ≥ 1.
-/
import GrpcProofs.Lemmas.ControlBuf
namespace GrpcProofs.C16
open GrpcModel.ControlBuf

private theorem reach (limit : Nat) (hl : 1 ≤ limit) (ops : List Op) :
    Lemmas.ControlBuf.Inv (run (init limit) ops).1 :=
  Lemmas.ControlBuf.run_inv ops _ (Lemmas.ControlBuf.inv_init limit hl)

/-- While the buffer is open the throttling channel exists iff at least `limit` throttled items are
    queued (and `transportResponseFrames` is exactly that number); once closed it is nil. -/
theorem chan_set_iff_trf_ge_limit (limit : Nat) (hl : 1 ≤ limit) (ops : List Op) :
    let s := (run (init limit) ops).1
    (s.closed = false → (s.chan.isSome = true ↔ limit ≤ throttledCount s.list) ∧ s.trf = throttledCount s.list) ∧
    (s.closed = true → s.chan = none) := by
  have h := reach limit hl ops
  have hlim : (run (init limit) ops).1.limit = limit := by
    have : ∀ (ops : List Op) (s : St), (run s ops).1.limit = s.limit := by
      intro ops
      induction ops with
      | nil => intro s; rfl
      | cons o os ih =>
        intro s
        simp only [run]
        rw [ih]
        cases o <;> simp only [step] <;> repeat' split
        all_goals first | rfl | simp
    simpa [init] using this ops (init limit)
  intro s
  refine ⟨fun hc => ⟨?_, h.trfEq hc⟩, fun hc => (h.closedClean hc).1⟩
  have := h.chanIff hc
  rw [h.trfEq hc, hlim] at this
  exact this

/-- A reader is blocked inside `throttle()` only while the buffer is open, `done` is open and at
    least `limit` throttled items are queued — whatever generation of the channel it loaded and
    however its load and its wait interleave with puts, gets and close. -/
theorem reader_blocked_only_if_ge_limit (limit : Nat) (hl : 1 ≤ limit) (ops : List Op) (r : Nat)
    (hb : readerBlocked (run (init limit) ops).1 r = true) :
    (run (init limit) ops).1.closed = false ∧ (run (init limit) ops).1.done = false ∧
    (run (init limit) ops).1.limit ≤ throttledCount (run (init limit) ops).1.list := by
  obtain ⟨a, b, c, _⟩ := Lemmas.ControlBuf.blocked_facts _ (reach limit hl ops) r hb
  exact ⟨a, b, c⟩

/-- No lost wake-up, every interleaving: as soon as fewer than `limit` throttled items are queued,
    or the buffer has been closed, or `done` is closed, NO reader is blocked: each reader's wait
    (`thr2`) passes — including readers that loaded the channel pointer before it was closed and
    replaced. -/
theorem released_when_below_or_closed (limit : Nat) (hl : 1 ≤ limit) (ops : List Op) (r : Nat)
    (h : throttledCount (run (init limit) ops).1.list < (run (init limit) ops).1.limit ∨
         (run (init limit) ops).1.closed = true ∨ (run (init limit) ops).1.done = true) :
    readerBlocked (run (init limit) ops).1 r = false ∧
    ((run (init limit) ops).1.readers.lookup r ≠ none → (step (run (init limit) ops).1 (.thr2 r)).2 = .pass) := by
  have hr := Lemmas.ControlBuf.released _ (reach limit hl ops) h r
  refine ⟨hr, ?_⟩
  intro hne
  generalize (run (init limit) ops).1 = s at *
  simp only [readerBlocked] at hr
  simp only [step]
  split
  · rename_i hn; exact absurd hn hne
  · rename_i g hg
    rw [hg] at hr
    simp at hr
    split
    · rfl
    · rename_i hcond
      simp at hcond
      exact absurd (hr hcond.1) (by simp [hcond.2])

/-- After `finish`, whatever happens in between, every put is rejected and changes nothing. -/
theorem put_after_close_rejected (limit : Nat) (ops : List Op) (it : Item)
    (hc : (run (init limit) ops).1.closed = true) :
    step (run (init limit) ops).1 (.put it) = ((run (init limit) ops).1, .putErr) := by
  simp [step, hc]

/-- `closed` is permanent, and `finish` sets it. -/
theorem closed_is_permanent (s : St) (o : Op) (hc : s.closed = true) : (step s o).1.closed = true := by
  cases o <;> simp only [step] <;> repeat' split
  all_goals simp_all

theorem finish_closes (limit : Nat) (hl : 1 ≤ limit) (ops : List Op) :
    (step (run (init limit) ops).1 .finish).1.closed = true := by
  have h := reach limit hl ops
  generalize (run (init limit) ops).1 = s at *
  cases hc : s.closed
  · cases hch : s.chan with
    | none => simp [step, hc, hch]
    | some g =>
      have := (h.curOpen g hch).2
      simp [step, hc, hch, closeGen, this]
  · simp [step, hc]

/-- Every queued item is accounted for exactly once: what the writer took (`deliveredOf`) followed
    by what is still queued is exactly what was accepted, in order; at `finish` the queue is
    dropped as a whole and the clientHeaders among the dropped items — those and no others — are
    orphaned, each exactly once (list equality, so multiplicities are exact); after that nothing is
    queued, taken or orphaned any more. -/
theorem each_queued_clientHeaders_orphaned_exactly_once (limit : Nat) (ops : List Op) :
    let s := (run (init limit) ops).1
    let tr := (run (init limit) ops).2
    (s.closed = false → deliveredOf tr ++ s.list = acceptedOf tr ∧ orphanedOf tr = []) ∧
    (s.closed = true → ∃ dropped, deliveredOf tr ++ dropped = acceptedOf tr ∧
        orphanedOf tr = (dropped.filter (·.hdr)).map (·.id) ∧ s.list = []) := by
  have h := Lemmas.ControlBuf.run_ledger ops (init limit) [] [] []
    (by simp [Lemmas.ControlBuf.Ledger, init])
  simpa [Lemmas.ControlBuf.Ledger, Lemmas.ControlBuf.hdrIds] using h

/-- Consequence, in the form "no stream-creation request is accepted and then forgotten": once the
    buffer is closed, every accepted clientHeaders item was either handed to the writer or orphaned —
    whatever the interleaving of puts, gets and finish. (A put that is concurrent with finish is
    ordered by `c.mu` either before it — accepted, then orphaned — or after it — rejected.) -/
theorem accepted_clientHeaders_delivered_or_orphaned (limit : Nat) (ops : List Op) (it : Item)
    (hc : (run (init limit) ops).1.closed = true) (ha : it ∈ acceptedOf (run (init limit) ops).2)
    (hh : it.hdr = true) :
    it ∈ deliveredOf (run (init limit) ops).2 ∨ it.id ∈ orphanedOf (run (init limit) ops).2 := by
  obtain ⟨dropped, h1, h2, _⟩ := (each_queued_clientHeaders_orphaned_exactly_once limit ops).2 hc
  rw [← h1] at ha
  rcases List.mem_append.mp ha with hd | hd
  · exact Or.inl hd
  · refine Or.inr ?_
    rw [h2]
    exact List.mem_map.mpr ⟨it, List.mem_filter.mpr ⟨hd, by simpa using hh⟩, rfl⟩

/-- The code never dereferences a nil throttling channel and never closes one twice. -/
theorem no_panic (limit : Nat) (hl : 1 ≤ limit) (ops : List Op) (o : Op) :
    (step (run (init limit) ops).1 o).2 ≠ .panic := by
  have h := reach limit hl ops
  have hm := Lemmas.ControlBuf.step_mc _ (Mon.mk (run (init limit) ops).1.limit (run (init limit) ops).1.list
      (run (init limit) ops).1.closed (run (init limit) ops).1.done) o h (by simp [Lemmas.ControlBuf.MC])
  intro hp
  have := hm.2.1 9
  simp [hp, Mon.step] at this

/-- The writer's blocking `get` is never left parked while items are queued: if the single consumer
    sits in the select and the list is non-empty, a token is in `wakeupCh`. -/
theorem consumer_no_lost_wakeup (limit : Nat) (hl : 1 ≤ limit) (ops : List Op)
    (hp : (run (init limit) ops).1.parked = true) (hne : (run (init limit) ops).1.list ≠ []) :
    (run (init limit) ops).1.wakeup = true := by
  have h := reach limit hl ops
  cases hw : (run (init limit) ops).1.wakeup
  · exact absurd (h.consumer hp hw).2 hne
  · rfl

/-- The executable monitor run on the implementation (per op: accepted iff open, FIFO to the
    writer, `finish` orphans exactly the queued clientHeaders; per quiescent state: a blocked reader
    implies open ∧ ≥ limit throttled items queued) never fires on the model, in any interleaving. -/
theorem monitor_ok (limit : Nat) (hl : 1 ≤ limit) (ops : List Op) :
    ∀ v ∈ verdicts (init limit) (Mon.init limit) ops, ∀ c, v ≠ .viol c :=
  Lemmas.ControlBuf.verdicts_ok ops _ _ (Lemmas.ControlBuf.inv_init limit hl) (Lemmas.ControlBuf.mc_init limit)

-- non-vacuity
-- limit 2: two throttled items create the channel; a reader loads it; one get closes it; reader passes
example : ((run (init 2) [.put ⟨1, true, false⟩, .thr1 7, .put ⟨2, true, false⟩, .thr1 8, .thr2 8,
      .get false, .thr2 8, .put ⟨3, true, false⟩, .thr1 9, .thr2 9, .put ⟨4, false, true⟩, .finish,
      .thr2 9, .put ⟨5, false, false⟩]).2.map (·.2))
    = [.putOk, .pass, .putOk, .loaded 0, .blocked, .got ⟨1, true, false⟩, .pass, .putOk, .loaded 1,
       .blocked, .putOk, .orphaned [4], .pass, .putErr] := by decide
-- the lost-wake-up window: reader loads generation 0, the queue drops and rises again (generation 1):
-- the reader is NOT stuck on the dead generation
example : readerBlocked (run (init 1) [.put ⟨1, true, false⟩, .thr1 7, .get false, .put ⟨2, true, false⟩]).1 7 = false := by
  decide
example : (Mon.readers ⟨2, [⟨1, true, false⟩], false, false⟩ true) = .viol 7 := by decide
example : (Mon.step ⟨2, [⟨1, false, true⟩], false, false⟩ .finish (.orphaned [])).2 = .viol 6 := by decide

end GrpcProofs.C16
