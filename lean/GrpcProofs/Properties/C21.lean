/-
C21  Effective message size limits are the minimum of all configured limits.
Property theorems only (they are direct; no helper lemma file is needed).
-/
import GrpcModel.Model.MsgSize
namespace GrpcProofs.C21
open GrpcModel.MsgSize GrpcModel.Generated

/-- effective = min: `getMaxSize` is the default when neither limit is set, the one that is set when
    only one is, and the smaller of the two when both are — for all values (negative included). -/
theorem effective_is_min (a b d : Int) :
    getMaxSize none none d = d ∧ getMaxSize (some a) none d = a ∧ getMaxSize none (some b) d = b ∧
    getMaxSize (some a) (some b) d = min a b := by
  refine ⟨rfl, rfl, rfl, ?_⟩
  simp only [getMaxSize, minPointers]
  split <;> omega

/-- The client's limits for one RPC: the option limit is the per-call option when given, else the
    dial default; the effective limit is the smaller of that and the service-config value, or the
    documented default (send: MaxInt32, receive: 4 MiB) when nothing is set. The service-config value
    is taken as is (the clamp to maxInt is the identity on int64 values). -/
theorem client_limits_are_min_or_default (c : ClientCfg) :
    clientSendLimit c =
      (match c.scReq, (match c.callSend with | some v => some v | none => c.dialSend) with
       | none, none => 2147483647
       | some a, none => scClamp a
       | none, some b => b
       | some a, some b => min (scClamp a) b) ∧
    clientRecvLimit c =
      (match c.scResp, (match c.callRecv with | some v => some v | none => c.dialRecv) with
       | none, none => 4194304
       | some a, none => scClamp a
       | none, some b => b
       | some a, some b => min (scClamp a) b) ∧
    (∀ x : Int, x ≤ 9223372036854775807 → scClamp x = x) := by
  refine ⟨?_, ?_, ?_⟩
  · unfold clientSendLimit optLimit
    cases c.scReq <;> cases c.callSend <;> cases c.dialSend <;>
      simp [getMaxSize, minPointers, msDefaultClientMaxSend] <;> (try split) <;> omega
  · unfold clientRecvLimit optLimit
    cases c.scResp <;> cases c.callRecv <;> cases c.dialRecv <;>
      simp [getMaxSize, minPointers, msDefaultClientMaxRecv] <;> (try split) <;> omega
  · intro x hx
    unfold scClamp
    rw [if_neg (by simp only [maxInt]; omega)]

/-- On the server the limits are the server options (defaults 4 MiB receive, MaxInt32 send). -/
theorem server_limits_are_options (s : ServerCfg) :
    serverRecvLimit s = s.recv.getD 4194304 ∧ serverSendLimit s = s.send.getD 2147483647 := by
  simp [serverRecvLimit, serverSendLimit, msDefaultServerMaxRecv, msDefaultServerMaxSend]

/-- A message whose encoded (post-compression) size exceeds the sender's limit is never transmitted
    and the RPC fails with RESOURCE_EXHAUSTED: the request on the client, the reply on the server. -/
theorem oversend_never_transmitted (c : ClientCfg) (s : ServerCfg) (comp : Option Comp) (req resp : Nat) :
    ((wireLen comp req : Int) > clientSendLimit c →
      (rpc c s comp req resp).code = .resourceExhausted ∧ (rpc c s comp req resp).transmittedReq = false ∧
      (rpc c s comp req resp).serverGot = none ∧ (rpc c s comp req resp).clientGot = none) ∧
    ((rpc c s comp req resp).serverGot = some req → (wireLen comp resp : Int) > serverSendLimit s →
      (rpc c s comp req resp).code = .resourceExhausted ∧ (rpc c s comp req resp).transmittedResp = false ∧
      (rpc c s comp req resp).clientGot = none) := by
  constructor
  · intro h
    simp [rpc, sendOk, h]
  · intro hg h
    have e3 : sendOk (wireLen comp resp) (serverSendLimit s) = false := by simp [sendOk, h]
    unfold rpc at hg ⊢
    cases h1 : sendOk (wireLen comp req) (clientSendLimit c) <;>
    cases h2 : recvOk (wireLen comp req) (isCompressed comp req) req (serverRecvLimit s) <;>
    simp [h1, h2, e3] at hg ⊢

/-- The send check does not depend on how the message was handed over: a `*grpc.PreparedMsg` encoded on
    the stream is checked (post-compression size against the limit) exactly like the plain message, and
    is handed to the transport only when it fits. -/
theorem prepared_msg_is_checked (comp : Option Comp) (limit : Int) (n : Nat) :
    sendMsg comp limit (.prepared (encodePrepared comp n)) = sendMsg comp limit (.plain n) ∧
    (∀ m : Msg, sendMsg comp limit m = none ↔ (payloadLenOf comp m : Int) > limit) ∧
    (∀ m k, sendMsg comp limit m = some k → k = payloadLenOf comp m ∧ (k : Int) ≤ limit) := by
  refine ⟨rfl, ?_, ?_⟩
  · intro m
    unfold sendMsg sendOk
    by_cases h : (payloadLenOf comp m : Int) > limit <;> simp [h]
  · intro m k h
    unfold sendMsg sendOk at h
    by_cases hg : (payloadLenOf comp m : Int) > limit
    · simp [hg] at h
    · simp [hg] at h
      exact ⟨h.symm, by omega⟩

/-- A received message whose wire size or decompressed size exceeds the receiver's limit is not
    delivered and the RPC fails with RESOURCE_EXHAUSTED: the request at the server (when the client
    let it out), the reply at the client (when the server let it out). -/
theorem overrecv_resource_exhausted (c : ClientCfg) (s : ServerCfg) (comp : Option Comp) (req resp : Nat) :
    ((rpc c s comp req resp).transmittedReq = true →
      ((wireLen comp req : Int) > serverRecvLimit s ∨ (isCompressed comp req = true ∧ (req : Int) > serverRecvLimit s)) →
      (rpc c s comp req resp).code = .resourceExhausted ∧ (rpc c s comp req resp).serverGot = none ∧
      (rpc c s comp req resp).clientGot = none) ∧
    ((rpc c s comp req resp).transmittedResp = true →
      ((wireLen comp resp : Int) > clientRecvLimit c ∨ (isCompressed comp resp = true ∧ (resp : Int) > clientRecvLimit c)) →
      (rpc c s comp req resp).code = .resourceExhausted ∧ (rpc c s comp req resp).clientGot = none) := by
  constructor
  · intro ht h
    have hr : recvOk (wireLen comp req) (isCompressed comp req) req (serverRecvLimit s) = false := by
      unfold recvOk recvCheck
      rcases h with h | ⟨h1, h2⟩
      · simp [h]
      · by_cases hw : (wireLen comp req : Int) > serverRecvLimit s
        · simp [hw]
        · simp [hw, h1, h2]
    unfold rpc at ht ⊢
    cases h1 : sendOk (wireLen comp req) (clientSendLimit c) <;> simp [h1, hr] at ht ⊢
  · intro ht h
    have hr : recvOk (wireLen comp resp) (isCompressed comp resp) resp (clientRecvLimit c) = false := by
      unfold recvOk recvCheck
      rcases h with h | ⟨h1, h2⟩
      · simp [h]
      · by_cases hw : (wireLen comp resp : Int) > clientRecvLimit c
        · simp [hw]
        · simp [hw, h1, h2]
    unfold rpc at ht ⊢
    cases h1 : sendOk (wireLen comp req) (clientSendLimit c) <;>
    cases h2 : recvOk (wireLen comp req) (isCompressed comp req) req (serverRecvLimit s) <;>
    cases h3 : sendOk (wireLen comp resp) (serverSendLimit s) <;>
    simp [h1, h2, h3, hr] at ht ⊢

/-- Messages within all four limits are delivered with their exact sizes and the RPC succeeds. -/
theorem within_limits_intact (c : ClientCfg) (s : ServerCfg) (comp : Option Comp) (req resp : Nat)
    (h1 : (wireLen comp req : Int) ≤ clientSendLimit c)
    (h2 : (wireLen comp req : Int) ≤ serverRecvLimit s ∧ (isCompressed comp req = true → (req : Int) ≤ serverRecvLimit s))
    (h3 : (wireLen comp resp : Int) ≤ serverSendLimit s)
    (h4 : (wireLen comp resp : Int) ≤ clientRecvLimit c ∧ (isCompressed comp resp = true → (resp : Int) ≤ clientRecvLimit c)) :
    rpc c s comp req resp = ⟨.ok, .none, true, some req, true, some resp⟩ := by
  have e1 : sendOk (wireLen comp req) (clientSendLimit c) = true := by simp [sendOk]; omega
  have e3 : sendOk (wireLen comp resp) (serverSendLimit s) = true := by simp [sendOk]; omega
  have e2 : recvOk (wireLen comp req) (isCompressed comp req) req (serverRecvLimit s) = true := by
    unfold recvOk recvCheck
    rw [if_neg (by omega)]
    cases hc : isCompressed comp req
    · simp
    · have := h2.2 hc; simp; omega
  have e4 : recvOk (wireLen comp resp) (isCompressed comp resp) resp (clientRecvLimit c) = true := by
    unfold recvOk recvCheck
    rw [if_neg (by omega)]
    cases hc : isCompressed comp resp
    · simp
    · have := h4.2 hc; simp; omega
  simp [rpc, e1, e2, e3, e4]

/-- The outcomes are exhaustive: the RPC succeeds iff all four checks pass, and otherwise it fails
    with RESOURCE_EXHAUSTED and the application receives no reply. -/
theorem rpc_outcome_complete (c : ClientCfg) (s : ServerCfg) (comp : Option Comp) (req resp : Nat) :
    ((rpc c s comp req resp).code = .ok ↔
      (sendOk (wireLen comp req) (clientSendLimit c) = true ∧
       recvOk (wireLen comp req) (isCompressed comp req) req (serverRecvLimit s) = true ∧
       sendOk (wireLen comp resp) (serverSendLimit s) = true ∧
       recvOk (wireLen comp resp) (isCompressed comp resp) resp (clientRecvLimit c) = true)) ∧
    ((rpc c s comp req resp).code ≠ .ok →
      (rpc c s comp req resp).code = .resourceExhausted ∧ (rpc c s comp req resp).clientGot = none) := by
  unfold rpc
  cases h1 : sendOk (wireLen comp req) (clientSendLimit c) <;>
  cases h2 : recvOk (wireLen comp req) (isCompressed comp req) req (serverRecvLimit s) <;>
  cases h3 : sendOk (wireLen comp resp) (serverSendLimit s) <;>
  cases h4 : recvOk (wireLen comp resp) (isCompressed comp resp) resp (clientRecvLimit c) <;> simp

-- non-vacuity
example : getMaxSize (some 100) (some 50) 4194304 = 50 := by decide
example : getMaxSize (some 5000000) none 4194304 = 5000000 := by decide
example : clientRecvLimit { scResp := some 100, dialRecv := some 50, callRecv := some 200 } = 100 := by decide
example : (rpc {} { recv := some 10 } none 11 0).code = .resourceExhausted := by decide
example : (rpc {} { recv := some 10 } none 10 3).clientGot = some 3 := by decide
example : (rpc { callRecv := some 20 } {} (some ⟨fun _ => 9⟩) 5 21).why = .recvPlain := by decide

end GrpcProofs.C21
