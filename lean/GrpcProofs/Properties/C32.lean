/-
C32  RPCs are only sent on READY subchannels via the latest picker.

Model: GrpcModel/Model/PickerWrapper.lean (`pick`, `updatePicker`, `reset`, `close` of
picker_wrapper.go and `addrConn.getReadyTransport`; program points of the pick loop; any number of
concurrent picks).  Invariant: GrpcProofs/Lemmas/PickerWrapper.lean.

`run acts` is the (state, trace) after ANY finite sequence of actions — picker updates, idle
resets, close, SubConn state changes, context expiry, Pick results and single steps of any pick
goroutine, in any order: every interleaving is such a sequence.  Trace events are stamped by
`step`: `started tid c` / `blocked tid c` carry the generation c that is current at that moment
(`stamps_are_current`), `pickCalled tid g p` the generation g and picker p on which Pick is called.
-/
import GrpcProofs.Lemmas.PickerWrapper
namespace GrpcProofs.C32
open GrpcModel.PickerWrapper GrpcProofs.Lemmas.PickerWrapper GrpcModel.Generated

/-- The stamps on `started` / `blocked` events are the generation current at that moment, and a
    pick blocks only on the current generation of a wrapper that is not closed. -/
theorem stamps_are_current (s : Sys) (a : Act) (tid c : Nat) :
    ((step s a).2 = some (Obs.started tid c) → c = s.sh.cur) ∧
    ((step s a).2 = some (Obs.blocked tid c) → c = s.sh.cur ∧ s.sh.closed = false) := by
  constructor
  · intro h
    rcases step_obs_cases h with ⟨p, _, _, he⟩ | ⟨_, _, he⟩ | ⟨_, _, he⟩ | ⟨i, ff, _, _, he⟩ |
      ⟨i, b, t, t', _, _, hs, _⟩ | ⟨i, r, t, g, _, _, _, hp, _⟩
    · cases he
    · cases he
    · cases he
    · cases he; rfl
    · rcases tstep_obs_cases hs with ⟨_, _, he⟩ | ⟨_, _, he⟩ | ⟨_, _, p, he⟩ | ⟨g, _, _, he⟩ | ⟨sc, hd, tr, _, _, he⟩ | ⟨sc, _, _, he⟩ <;>
        cases he
    · rcases pickReturn_obs_cases hp with ⟨c', _, he⟩ | ⟨x, _, _, he⟩ <;> cases he
  · intro h
    rcases step_obs_cases h with ⟨p, _, _, he⟩ | ⟨_, _, he⟩ | ⟨_, _, he⟩ | ⟨i, ff, _, _, he⟩ |
      ⟨i, b, t, t', _, _, hs, _⟩ | ⟨i, r, t, g, _, _, _, hp, _⟩
    · cases he
    · cases he
    · cases he
    · cases he
    · rcases tstep_obs_cases hs with ⟨_, _, he⟩ | ⟨_, hcl, he⟩ | ⟨_, _, p, he⟩ | ⟨g, _, _, he⟩ | ⟨sc, hd, tr, _, _, he⟩ | ⟨sc, _, _, he⟩ <;>
        cases he
      exact ⟨rfl, hcl⟩
    · rcases pickReturn_obs_cases hp with ⟨c', _, he⟩ | ⟨x, _, _, he⟩ <;> cases he

/-- **A pick never uses a picker older than the one that was current when the pick started or last
    blocked.**  In every trace of every interleaving: when pick `tid` calls `Pick` on generation g,
    every earlier `started`/`blocked` event of that pick (hence in particular the latest one) is
    stamped with a generation c ≤ g. -/
theorem picker_used_ge_gen_at_start_or_last_block (acts : List Act) (l1 l2 : List Obs) (tid g p : Nat)
    (h : (run acts).2 = l1 ++ Obs.pickCalled tid g p :: l2) :
    (∀ c, Obs.started tid c ∈ l1 → c ≤ g) ∧ (∀ c, Obs.blocked tid c ∈ l1 → c ≤ g) := by
  have := (reach_inv (run_reach acts)).2 l1 l2 tid g p h
  exact ⟨this.1, fun c hc => Nat.le_of_lt (this.2.1 c hc)⟩

/-- The picker on which Pick is called is exactly the (non-nil) picker that was published as
    generation g, and that publication precedes the call in the trace. -/
theorem picker_used_is_published_picker (acts : List Act) (l1 l2 : List Obs) (tid g p : Nat)
    (h : (run acts).2 = l1 ++ Obs.pickCalled tid g p :: l2) :
    Obs.published g (some p) ∈ l1 := by
  obtain ⟨s0, a, hr, he⟩ := reach_split (run_reach acts) l1 _ l2 h
  have hinv := (reach_inv hr).1
  have hc : s0.sh.pickers[g]? = some (some p) := by
    rcases step_obs_cases he with ⟨p, _, _, he⟩ | ⟨_, _, he⟩ | ⟨_, _, he⟩ | ⟨i, ff, _, _, he⟩ |
      ⟨i, b, t, t', _, ht, hs, _⟩ | ⟨i, r, t, g, _, _, _, hp, _⟩
    · cases he
    · cases he
    · cases he
    · cases he
    · have := (tstep_facts hinv ht hs).2.2.1 _ rfl
      exact this.2.2
    · rcases pickReturn_obs_cases hp with ⟨c', _, he⟩ | ⟨x, _, _, he⟩ <;> cases he
  have hg : 0 < g := by
    cases g with
    | zero =>
      have h0 := hinv.head0
      rw [List.head?_eq_getElem?, hc] at h0
      simp at h0
    | succ n => omega
  exact hinv.pub g (some p) hg hc

/-- **Picks that had to wait only continue on a newer picker**: a Pick call uses a generation
    strictly newer than every generation this pick blocked on, and strictly newer than every
    generation it already called Pick on (it never re-picks on the same or an older picker). -/
theorem repick_only_on_newer_picker (acts : List Act) (l1 l2 : List Obs) (tid g p : Nat)
    (h : (run acts).2 = l1 ++ Obs.pickCalled tid g p :: l2) :
    (∀ c, Obs.blocked tid c ∈ l1 → c < g) ∧ (∀ c p', Obs.pickCalled tid c p' ∈ l1 → c < g) :=
  ((reach_inv (run_reach acts)).2 l1 l2 tid g p h).2

/-- **A transport is returned only for a SubConn that is READY when the pick returns** (at the
    `getReadyTransport` linearisation point, the last shared access before `return`): in ANY state,
    a step that makes pick `tid` return transport `tr` of SubConn `sc` is a step of that pick from
    program point `check sc` (i.e. `sc` is what the picker returned), and in that very state
    `ac.state == READY` and `ac.transport == tr`. -/
theorem returns_transport_only_if_ready_at_return (s : Sys) (a : Act) (tid sc tr : Nat) (b : Bool)
    (h : (step s a).2 = some (Obs.returned tid (Outcome.transport sc tr b))) :
    (s.sh.sc sc).state = ConnState.ready ∧ (s.sh.sc sc).transport = some tr ∧
    ∃ t hd, s.thr tid = some t ∧ t.pc = Pc.check sc hd ∧ b = t.pickBlocked := by
  rcases step_obs_cases h with ⟨p, _, _, he⟩ | ⟨_, _, he⟩ | ⟨_, _, he⟩ | ⟨i, ff, _, _, he⟩ |
    ⟨i, b', t, t', _, ht, hs, _⟩ | ⟨i, r, t, g, _, _, _, hp, _⟩
  · cases he
  · cases he
  · cases he
  · cases he
  · rcases tstep_obs_cases hs with ⟨_, _, he⟩ | ⟨_, _, he⟩ | ⟨_, _, p, he⟩ | ⟨g, _, _, he⟩ | ⟨sc', hd, tr', hpc, hrt, he⟩ | ⟨sc', _, _, he⟩
    · cases he
    · cases he
    · cases he
    · cases he
    · cases he
      unfold getReadyTransport at hrt
      split at hrt
      · rename_i hst
        exact ⟨hst, hrt, t, hd, ht, hpc, rfl⟩
      · simp at hrt
    · cases he
  · rcases pickReturn_obs_cases hp with ⟨c', _, he⟩ | ⟨x, _, _, he⟩
    · split at he <;> cases he
    · cases he

/-- The trace form: in every interleaving, at the moment a pick returns a transport the picked
    SubConn is READY with that transport (s0 is the state at that moment, reached by the prefix). -/
theorem returned_transport_was_ready (acts : List Act) (l1 l2 : List Obs) (tid sc tr : Nat) (b : Bool)
    (h : (run acts).2 = l1 ++ Obs.returned tid (Outcome.transport sc tr b) :: l2) :
    ∃ s0, Reach s0 l1 ∧ (s0.sh.sc sc).state = ConnState.ready ∧ (s0.sh.sc sc).transport = some tr := by
  obtain ⟨s0, a, hr, he⟩ := reach_split (run_reach acts) l1 _ l2 h
  have := returns_transport_only_if_ready_at_return s0 a tid sc tr b he
  exact ⟨s0, hr, this.1, this.2.1⟩

/-- the gRFC A54 codes, as literals -/
def a54 : List Nat := [3, 5, 6, 9, 10, 11, 15]

/-- The model's restricted-code set and status codes (regenerated from codes/codes.go on every run)
    are the literals of gRFC A54 / the statement. -/
theorem restricted_codes_are_a54 :
    restrictedCodes = a54 ∧ pwCodeInternal = 13 ∧ pwCodeUnavailable = 14 ∧ pwCodeCanceled = 1 ∧
    pwCodeDeadlineExceeded = 4 := by decide

/-- **Picks block rather than fail**: the ONLY ways a pick returns an error are
    * `ErrClientConnClosing`, and then the wrapper is closed;
    * a context error, and then the pick was in the select with an expired context (code
      DEADLINE_EXCEEDED / CANCELLED according to the context);
    * a drop, and then the picker just returned a status error (code mapped through A54);
    * UNAVAILABLE, and then the picker just returned a non-status error for a fail-fast RPC.
    In particular ErrNoSubConnAvailable, a non-READY or foreign SubConn, and a non-status error
    on a wait-for-ready RPC never make the pick fail. -/
theorem blocks_rather_than_fails (s : Sys) (a : Act) (tid : Nat) (o : Outcome)
    (h : (step s a).2 = some (Obs.returned tid o)) :
    match o with
    | .transport _ _ _ => True
    | .closing => s.sh.closed = true
    | .ctxErr code lpe => ∃ t g, s.thr tid = some t ∧ t.pc = Pc.block g ∧ t.ctx ≠ CtxState.live ∧
        code = (if t.ctx = CtxState.deadlineExceeded then 4 else 1) ∧ lpe = t.lastPickErr
    | .drop code rw => ∃ c, a = Act.pickRet tid (PickResult.statusErr c) ∧
        code = (if c ∈ a54 then 13 else c) ∧ rw = decide (c ∈ a54)
    | .unavailable e => a = Act.pickRet tid (PickResult.otherErr e) ∧ ∃ t, s.thr tid = some t ∧ t.failfast = true := by
  rcases step_obs_cases h with ⟨p, _, _, he⟩ | ⟨_, _, he⟩ | ⟨_, _, he⟩ | ⟨i, ff, _, _, he⟩ |
    ⟨i, b', t, t', _, ht, hs, _⟩ | ⟨i, r, t, g, ha, ht, _, hp, _⟩
  · cases he
  · cases he
  · cases he
  · cases he
  · rcases tstep_obs_cases hs with ⟨_, hcl, he⟩ | ⟨_, _, he⟩ | ⟨_, _, p, he⟩ | ⟨g, hpc, hctx, he⟩ | ⟨sc', hd, tr', hpc, hrt, he⟩ | ⟨sc', _, _, he⟩
    · cases he; exact hcl
    · cases he
    · cases he
    · cases he
      refine ⟨t, g, ht, hpc, hctx, ?_, rfl⟩
      split <;> rfl
    · cases he; trivial
    · cases he
  · rcases pickReturn_obs_cases hp with ⟨c, hr, he⟩ | ⟨x, hr, hff, he⟩
    · have hres : isRestricted c = decide (c ∈ a54) := by
        simp [isRestricted, restricted_codes_are_a54.1]
      subst hr
      by_cases hc : c ∈ a54
      · simp only [hres, hc, decide_true, if_true] at he
        cases he
        exact ⟨c, ha, by simp [hc, pwCodeInternal], by simp [hc]⟩
      · simp only [hres, hc, decide_false, Bool.false_eq_true, if_false] at he
        cases he
        exact ⟨c, ha, by simp [hc], by simp [hc]⟩
    · cases he
      subst hr
      exact ⟨ha, t, ht, hff⟩

/-- The results after which a pick must wait for a newer picker. -/
def BlockingResult (t : Thread) (r : PickResult) : Prop :=
  r = PickResult.noSubConn ∨ r = PickResult.foreignSubConn ∨ (∃ e, r = PickResult.otherErr e ∧ t.failfast = false)

/-- **…block until a newer picker is published**: after ErrNoSubConnAvailable, a foreign SubConn or
    a non-status error on a wait-for-ready RPC, returned by the picker of generation g, the pick does
    not return; it is back at the top of its loop still holding generation g's channel, and from
    there, as long as g is still the current generation (no newer picker) and the wrapper is not
    closed, its next step is to block on generation g, where it stays while its context is live.
    (With `repick_only_on_newer_picker`: the next Pick call, if any, is on a newer generation.) -/
theorem blocking_result_blocks_until_newer_picker {s : Sys} {log : List Obs} (hr : Reach s log)
    {tid g : Nat} {t : Thread} (ht : s.thr tid = some t) (hpc : t.pc = Pc.inPick g) (r : PickResult)
    (hb : BlockingResult t r) :
    (step s (Act.pickRet tid r)).2 = none ∧
    ∃ t1, (step s (Act.pickRet tid r)).1.thr tid = some t1 ∧ t1.pc = Pc.load ∧ t1.ch = some g ∧ t1.ctx = t.ctx ∧
      (∀ (sh : Shared) (b : Bool), sh.closed = false → sh.cur = g →
        tstep sh tid t1 b = some ({ t1 with pc := Pc.block g, ch := some g }, some (Obs.blocked tid g))) ∧
      (∀ (sh : Shared) (b : Bool), sh.closed = false → sh.cur = g → t1.ctx = CtxState.live →
        tstep sh tid { t1 with pc := Pc.block g, ch := some g } b = none) := by
  have hch := ((reach_inv hr).1.pcCh tid t ht).2 g hpc
  have hload : ∀ (t1 : Thread), t1.pc = Pc.load → t1.ch = some g →
      (∀ (sh : Shared) (b : Bool), sh.closed = false → sh.cur = g →
        tstep sh tid t1 b = some ({ t1 with pc := Pc.block g, ch := some g }, some (Obs.blocked tid g))) ∧
      (∀ (sh : Shared) (b : Bool), sh.closed = false → sh.cur = g → t1.ctx = CtxState.live →
        tstep sh tid { t1 with pc := Pc.block g, ch := some g } b = none) := by
    intro t1 h1 h2
    constructor
    · intro sh b hcl hcur
      have := tstep_load_block (tid := tid) b h1 hcl (Or.inr (by rw [hcur]; exact h2))
      rw [hcur] at this
      exact this
    · intro sh b hcl hcur hctx
      exact tstep_block_stuck (t := { t1 with pc := Pc.block g, ch := some g }) (g := g) b rfl
        (by simp [Shared.chClosed, hcl, hcur]) hctx
  rcases hb with hb | hb | ⟨e, hb, hff⟩ <;> subst hb
  · refine ⟨by simp [step, ht, hpc, pickReturn], { t with pc := Pc.load }, by simp [step, ht, hpc, pickReturn, setThr_thr],
      rfl, hch, rfl, hload _ rfl hch⟩
  · refine ⟨by simp [step, ht, hpc, pickReturn], { t with pc := Pc.load }, by simp [step, ht, hpc, pickReturn, setThr_thr],
      rfl, hch, rfl, hload _ rfl hch⟩
  · refine ⟨by simp [step, ht, hpc, pickReturn, hff], { t with pc := Pc.load, lastPickErr := some e },
      by simp [step, ht, hpc, pickReturn, hff, setThr_thr], rfl, hch, rfl, hload _ rfl hch⟩

/-- **…or a non-ready subchannel**: when the picked SubConn is not READY at the ready check (or
    READY with a nil transport), the pick does not return; it calls `Done(DoneInfo{})` if one was
    given, and goes back to the top of the loop with `ch` unchanged (so, by the previous theorem's
    second half, it blocks until a newer picker is published). -/
theorem not_ready_subconn_blocks (s : Sys) (tid sc : Nat) (hd b : Bool) (t : Thread) (ht : s.thr tid = some t)
    (hpc : t.pc = Pc.check sc hd) (hnr : (s.sh.sc sc).state ≠ ConnState.ready ∨ (s.sh.sc sc).transport = none) :
    (∀ o, (step s (Act.step tid b)).2 ≠ some (Obs.returned tid o)) ∧
    ∃ t1, (step s (Act.step tid b)).1.thr tid = some t1 ∧ t1.pc = Pc.load ∧ t1.ch = t.ch ∧
      t1.dones = t.dones + (if hd then 1 else 0) := by
  have hg : getReadyTransport (s.sh.sc sc) = none := by
    unfold getReadyTransport
    rcases hnr with h | h
    · simp [h]
    · split <;> simp [h]
  cases hd <;> simp [step, ht, tstep, hpc, hg, setThr_thr]

/-- **Fail-fast RPC + non-status picker error ⇒ UNAVAILABLE** with the error's text, at once. -/
theorem failfast_nonstatus_is_unavailable (s : Sys) (tid g e : Nat) (t : Thread) (ht : s.thr tid = some t)
    (hpc : t.pc = Pc.inPick g) (hff : t.failfast = true) :
    (step s (Act.pickRet tid (PickResult.otherErr e))).2 = some (Obs.returned tid (Outcome.unavailable e)) ∧
    (step s (Act.pickRet tid (PickResult.otherErr e))).1.thr tid = some { t with pc := Pc.done (Outcome.unavailable e) } := by
  simp [step, ht, hpc, pickReturn, hff, setThr_thr]

/-- **A status error from the picker ends the RPC unconditionally** (fail-fast or not) with that
    status, except that the gRFC A54 restricted codes are replaced by INTERNAL (13). -/
theorem status_error_ends_rpc (s : Sys) (tid g c : Nat) (t : Thread) (ht : s.thr tid = some t)
    (hpc : t.pc = Pc.inPick g) :
    (step s (Act.pickRet tid (PickResult.statusErr c))).2 =
      some (Obs.returned tid (Outcome.drop (if c ∈ a54 then 13 else c) (decide (c ∈ a54)))) := by
  have hr : isRestricted c = decide (c ∈ a54) := by
    simp [isRestricted, restricted_codes_are_a54.1]
  by_cases hc : c ∈ a54 <;> simp [step, ht, hpc, pickReturn, hr, hc, pwCodeInternal]

/-- **Every update wakes every blocked pick**: if pick `tid` sits in the select on generation g and
    the wrapper is open, then after `updatePicker(p)`, `reset()` or `close()` generation g's channel
    is closed and the pick's next step leaves the select (with a live context: back to the top of
    the loop; it then returns ErrClientConnClosing after close, calls Pick on the new generation
    after `updatePicker(non-nil)`, or blocks on the new generation after reset / nil picker). -/
theorem woken_by_every_update {s : Sys} {log : List Obs} (hr : Reach s log) {tid g : Nat} {t : Thread}
    (ht : s.thr tid = some t) (hpc : t.pc = Pc.block g) (hopen : s.sh.closed = false) (a : Act)
    (ha : (∃ p, a = Act.update p) ∨ a = Act.idle ∨ a = Act.close) (b : Bool) :
    (step s a).1.thr tid = some t ∧ (step s a).1.sh.chClosed g = true ∧
    (t.ctx = CtxState.live → tstep (step s a).1.sh tid t b = some ({ t with pc := Pc.load }, none)) ∧
    (∀ q, a = Act.update (some q) → tstep (step s a).1.sh tid { t with pc := Pc.load } b =
        some ({ t with pc := Pc.inPick (s.sh.cur + 1), pickBlocked := true, ch := some (s.sh.cur + 1), calls := t.calls + 1 },
              some (Obs.pickCalled tid (s.sh.cur + 1) q))) ∧
    ((a = Act.idle ∨ a = Act.update none) → tstep (step s a).1.sh tid { t with pc := Pc.load } b =
        some ({ t with pc := Pc.block (s.sh.cur + 1), ch := some (s.sh.cur + 1) }, some (Obs.blocked tid (s.sh.cur + 1)))) ∧
    (a = Act.close → tstep (step s a).1.sh tid { t with pc := Pc.load } b =
        some ({ t with pc := Pc.done Outcome.closing }, some (Obs.returned tid Outcome.closing))) := by
  have hinv := (reach_inv hr).1
  have hch := (hinv.pcCh tid t ht).1 g hpc
  have hle := hinv.chLe tid t g ht hch
  -- the three actions: a new generation with picker p, or close
  have publish : ∀ (p : Option Nat) (s' : Sys), s'.thr = s.thr → s'.sh.pickers = s.sh.pickers ++ [p] → s'.sh.closed = false →
      s'.thr tid = some t ∧ s'.sh.chClosed g = true ∧
      (t.ctx = CtxState.live → tstep s'.sh tid t b = some ({ t with pc := Pc.load }, none)) ∧
      (∀ q, p = some q → tstep s'.sh tid { t with pc := Pc.load } b =
        some ({ t with pc := Pc.inPick (s.sh.cur + 1), pickBlocked := true, ch := some (s.sh.cur + 1), calls := t.calls + 1 },
              some (Obs.pickCalled tid (s.sh.cur + 1) q))) ∧
      (p = none → tstep s'.sh tid { t with pc := Pc.load } b =
        some ({ t with pc := Pc.block (s.sh.cur + 1), ch := some (s.sh.cur + 1) }, some (Obs.blocked tid (s.sh.cur + 1)))) := by
    intro p s' hthr hpk hcl
    obtain ⟨hcur, hpa⟩ := cur_append hinv.head0 hpk
    have hclosed : s'.sh.chClosed g = true := by simp [Shared.chClosed, hcur]; left; omega
    refine ⟨by rw [hthr]; exact ht, hclosed, fun hctx => tstep_block_wake b hpc hclosed hctx, ?_, ?_⟩
    · intro q hq
      subst hq
      have hne : ({ t with pc := Pc.load } : Thread).ch ≠ some s'.sh.cur := by
        show t.ch ≠ _; rw [hch, hcur]; simp; omega
      have := tstep_load_pick (tid := tid) (t := { t with pc := Pc.load }) b rfl hcl (by rw [hcur]; exact hpa) hne
      rw [this, hcur]
      simp [hch]
    · intro hq
      subst hq
      have := tstep_load_block (tid := tid) (t := { t with pc := Pc.load }) b rfl hcl (Or.inl (by rw [hcur]; exact hpa))
      rw [this, hcur]
  rcases ha with ⟨p, rfl⟩ | rfl | rfl
  · obtain ⟨h1, h2, h3, h4, h5⟩ := publish p (step s (Act.update p)).1 (by simp [step, hopen]) (by simp [step, hopen]) (by simp [step, hopen])
    refine ⟨h1, h2, h3, ?_, ?_, by simp⟩
    · intro q hq; simp at hq; exact h4 q hq
    · intro hq; simp at hq; exact h5 hq
  · obtain ⟨h1, h2, h3, h4, h5⟩ := publish none (step s Act.idle).1 (by simp [step, hopen]) (by simp [step, hopen]) (by simp [step, hopen])
    exact ⟨h1, h2, h3, by simp, fun _ => h5 rfl, by simp⟩
  · have hclosed : (step s Act.close).1.sh.chClosed g = true := by simp [step, hopen, Shared.chClosed]
    refine ⟨by simp [step, hopen, ht], hclosed, fun hctx => tstep_block_wake b hpc hclosed hctx, by simp, by simp, ?_⟩
    intro _
    exact tstep_load_closed b rfl (by simp [step, hopen])

/-- **No lost wake-up, no spurious blocking**: in every reachable state, a pick sitting in the select
    on generation g is unable to move exactly when g is still the current generation, the wrapper
    is open and its context is live. As soon as a newer generation exists it can leave. -/
theorem blocked_only_without_newer_picker {s : Sys} {log : List Obs} (hr : Reach s log) {tid g : Nat} {t : Thread}
    (ht : s.thr tid = some t) (hpc : t.pc = Pc.block g) (b : Bool) :
    tstep s.sh tid t b = none ↔ (g = s.sh.cur ∧ s.sh.closed = false ∧ t.ctx = CtxState.live) := by
  have hinv := (reach_inv hr).1
  have hch := (hinv.pcCh tid t ht).1 g hpc
  have hle := hinv.chLe tid t g ht hch
  constructor
  · intro h
    by_cases hctx : t.ctx = CtxState.live
    · by_cases hcl : s.sh.chClosed g = true
      · rw [tstep_block_wake b hpc hcl hctx] at h; simp at h
      · simp [Shared.chClosed] at hcl
        exact ⟨by omega, hcl.2, hctx⟩
    · exfalso
      unfold tstep at h
      simp only [hpc] at h
      by_cases hcl : s.sh.chClosed g = true
      · by_cases hb : b = true <;> simp [hctx, hcl, hb] at h
      · simp [hctx, hcl] at h
  · rintro ⟨h1, h2, h3⟩
    apply tstep_block_stuck b hpc _ h3
    simp [Shared.chClosed, h2, h1]

/-! ### which RPCs are fail-fast: the call site `csAttempt.getTransport` -/

/-- **Every attempt of an RPC picks with the RPC's own fail-fast flag**: the pick started by
    `getTransport` for an RPC in call state `cs` gets `failfast = cs.callInfo.failFast`, whatever
    `numRetries` and `firstAttempt` are (first attempt, transparent retry, policy retry alike). -/
theorem attempt_pick_failfast_is_rpc_failfast (s : Sys) (tid : Nat) (cs : CallState) (hnew : s.thr tid = none) :
    (step s (attemptStart tid cs)).1.thr tid = some (newThread cs.failFast) ∧
    (step s (attemptStart tid cs)).2 = some (Obs.started tid s.sh.cur) := by
  simp [attemptStart, attemptFailfast, step, hnew, setThr_thr]

/-- **No attempt of a wait-for-ready RPC ever fails because the picker returned a non-status
    error**: after `getTransport` started the pick of an attempt of an RPC with
    `callInfo.failFast = false` — for ANY `numRetries` / `firstAttempt` — no continuation of the
    interleaving makes that pick return UNAVAILABLE. (By `blocks_rather_than_fails` its only error
    returns are closing, context expiry and a picker status error; otherwise it blocks until a
    newer picker: `blocking_result_blocks_until_newer_picker`.) -/
theorem wait_for_ready_attempt_never_fails_on_picker_error (s : Sys) (tid : Nat) (cs : CallState)
    (hnew : s.thr tid = none) (hwfr : cs.failFast = false) (acts : List Act) (log0 : List Obs) (e : Nat)
    (h : Obs.returned tid (Outcome.unavailable e) ∈ (runFrom (step s (attemptStart tid cs)).1 log0 acts).2) :
    Obs.returned tid (Outcome.unavailable e) ∈ log0 := by
  have key : ∀ (acts : List Act) (s1 : Sys) (log : List Obs), (∃ t, s1.thr tid = some t ∧ t.failfast = false) →
      Obs.returned tid (Outcome.unavailable e) ∈ (runFrom s1 log acts).2 → Obs.returned tid (Outcome.unavailable e) ∈ log := by
    intro acts
    induction acts with
    | nil => intro s1 log _ hm; exact hm
    | cons a as ih =>
      intro s1 log hP hm
      obtain ⟨t, ht, hf⟩ := hP
      obtain ⟨t', ht', hf'⟩ := step_failfast a ht
      have := ih (step s1 a).1 (log ++ (step s1 a).2.toList) ⟨t', ht', by rw [hf', hf]⟩ hm
      rcases List.mem_append.mp this with h1 | h1
      · exact h1
      · exfalso
        cases ho : (step s1 a).2 with
        | none => rw [ho] at h1; simp at h1
        | some ev =>
          rw [ho] at h1; simp at h1
          have hb := blocks_rather_than_fails s1 a tid (Outcome.unavailable e) (by rw [ho, h1])
          obtain ⟨_, u, hu, hff⟩ := hb
          rw [ht] at hu; simp at hu; subst hu
          rw [hf] at hff; cases hff
  apply key acts _ log0 _ h
  exact ⟨newThread cs.failFast, (attempt_pick_failfast_is_rpc_failfast s tid cs hnew).1, by simp [newThread, hwfr]⟩

/-- a retry attempt (numRetries = 1) of a wait-for-ready RPC whose picker returns a plain error
    blocks on that generation and re-picks on the next picker -/
example : (run [.update (some 1), attemptStart 1 { failFast := false, numRetries := 1, firstAttempt := false }, .step 1 false,
                .pickRet 1 (.otherErr 7), .step 1 false, .update (some 2), .step 1 false, .step 1 false]).2 =
    [.published 1 (some 1), .started 1 1, .pickCalled 1 1 1, .blocked 1 1, .published 2 (some 2), .pickCalled 1 2 2] := by
  decide

/-! ### non-vacuity: concrete interleavings (evaluated by the kernel) -/

/-- pick 1 starts with no picker and blocks on generation 0; `updatePicker` publishes generation 1;
    the pick wakes up, calls Pick on generation 1, gets a READY SubConn and returns its transport
    with `blocked = true`. -/
example : (run [.start 1 false, .step 1 false, .update (some 7), .setSc 3 ⟨.ready, some 9⟩, .step 1 false, .step 1 false,
                .pickRet 1 (.subConn 3 true), .step 1 false]).2 =
    [.started 1 0, .blocked 1 0, .published 1 (some 7), .pickCalled 1 1 7, .returned 1 (.transport 3 9 true)] := by
  decide

/-- the stale-picker window: two updates arrive while pick 1 is inside Pick of generation 1; after
    ErrNoSubConnAvailable it re-picks on generation 3 directly (never on 1 or 2 again). A second,
    fail-fast pick gets UNAVAILABLE for a non-status error; a restricted status code becomes 13. -/
example : (run [.update (some 1), .start 1 false, .step 1 false, .update (some 2), .update (some 3),
                .pickRet 1 .noSubConn, .step 1 false, .start 2 true, .step 2 false, .pickRet 2 (.otherErr 5),
                .pickRet 1 (.statusErr 5)]).2 =
    [.published 1 (some 1), .started 1 1, .pickCalled 1 1 1, .published 2 (some 2), .published 3 (some 3),
     .pickCalled 1 3 3, .started 2 3, .pickCalled 2 3 3, .returned 2 (.unavailable 5), .returned 1 (.drop 13 true)] := by
  decide

/-- a SubConn that is not READY at the ready check: Done is called, the pick blocks on the same
    generation and is not woken by the SubConn becoming READY — only by the next picker. -/
example : (run [.update (some 1), .start 1 true, .step 1 false, .pickRet 1 (.subConn 2 true), .step 1 false, .step 1 false,
                .setSc 2 ⟨.ready, some 4⟩, .step 1 false, .update (some 2), .step 1 false, .step 1 false,
                .pickRet 1 (.subConn 2 true), .step 1 false]).2 =
    [.published 1 (some 1), .started 1 1, .pickCalled 1 1 1, .doneCalled 1 2, .blocked 1 1, .published 2 (some 2),
     .pickCalled 1 2 2, .returned 1 (.transport 2 4 true)] := by
  decide

end GrpcProofs.C32
