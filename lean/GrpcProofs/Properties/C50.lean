import GrpcProofs.Lemmas.LoadStore
/-!
# C50  Load reports neither lose nor double count load

Model: `GrpcModel/Model/LoadStore.lean` (one `PerClusterReporter`; one rule per atomic access /
critical section / sync.Map entry creation / Range choice of load_store.go; any number of threads).
`run ops` is the state after ANY sequence of `spawn` (a goroutine invokes CallStarted /
CallFinished / CallDropped / CallServerLoad / stats) and `step` (one thread performs its next
action, with an arbitrary Range choice) operations: the theorems quantify over every interleaving,
every number of threads and every Range order.

`reported s k`  = Σ over all reports returned so far of what they say about counter `k`
`inflight s k`  = values running stats() calls have swapped out of `k` and not returned yet
`s.sh.mem k`    = residual in the store;  `s.sh.applied k` = total added to `k` so far (ghost)
`s.sh.invoked k` = total the invoked calls intend to add (the recorded events; ghost)
`s.sh.abandoned k` = part of it dropped because the locality had no entry (ghost; 0 for well-formed use)

uint64 wrap-around is modelled; each statement carries the hypothesis that fewer than 2^64 units
were added to the counter concerned (18446744073709551616 = 2^64).
-/
namespace GrpcProofs.C50
open GrpcModel.LoadStore GrpcProofs.Lemmas.LoadStore

/-- Per-counter conservation in EVERY reachable state: issued / succeeded / errored per locality,
    drops per (non-empty) category, server-load count per (locality, name). -/
theorem conservation (ops : List Op) (k : Key) (hk : k.harvested = true) (hns : ∀ l n, k ≠ .ldSum l n)
    (hw : (run ops).sh.applied k < 18446744073709551616) :
    reported (run ops) k + inflight (run ops) k + (run ops).sh.mem k = (run ops).sh.applied k :=
  (ledger_run ops).main k hk hns hw

/-- … and for server-load sums (needs the matching count not to wrap: `count == 0` decides whether
    a sum is reported). -/
theorem conservation_load_sum (ops : List Op) (l n : Nat)
    (hw : (run ops).sh.applied (.ldCount l n) < 18446744073709551616) :
    reported (run ops) (.ldSum l n) + inflight (run ops) (.ldSum l n) + (run ops).sh.mem (.ldSum l n)
      = (run ops).sh.applied (.ldSum l n) :=
  ((ledger_run ops).sum l n hw).1

/-- Total drops (all categories, including the uncategorised one that has no per-category entry):
    Σ totalDrops of reports + totals held by running snapshots + Σ residual = number of drops added. -/
theorem conservation_total_drops (ops : List Op) (hw : (run ops).sh.dropsApplied < 18446744073709551616) :
    reportedTotal (run ops) + inflightTotal (run ops) + residualDrops (run ops) = (run ops).sh.dropsApplied :=
  (total_run ops).led hw

/-- Every invoked call has added its amount once it has returned: with no call in flight,
    applied + abandoned = invoked for every counter. -/
theorem events_all_applied (ops : List Op) (hq : quiescent (run ops)) (k : Key) (hk : ∀ l, k ≠ .inprog l) :
    (run ops).sh.applied k + (run ops).sh.abandoned k = (run ops).sh.invoked k := by
  have h := event_run ops k hk
  have hz : sumBy (fun t => pending t.pc k) (run ops).threads = 0 :=
    sumBy_eq_zero _ _ (fun t ht => by rw [hq t ht]; rfl)
  omega

/-- The property's first clause: whenever no call is in flight, for every counter,
    Σ over all reports + residual (+ what calls on unknown localities dropped) = Σ recorded events. -/
theorem conservation_quiescent (ops : List Op) (hq : quiescent (run ops)) (k : Key) (hk : k.harvested = true)
    (hw : (run ops).sh.invoked k < 18446744073709551616)
    (hw' : ∀ l n, k = .ldSum l n → (run ops).sh.invoked (.ldCount l n) < 18446744073709551616) :
    reported (run ops) k + (run ops).sh.mem k + (run ops).sh.abandoned k = (run ops).sh.invoked k := by
  have hne : ∀ l, k ≠ .inprog l := by intro l e; subst e; simp [Key.harvested] at hk
  have he := events_all_applied ops hq k hne
  have hi := inflight_quiescent (rep_run ops) hq k
  by_cases hs : ∃ l n, k = .ldSum l n
  · obtain ⟨l, n, rfl⟩ := hs
    have he2 := events_all_applied ops hq (.ldCount l n) (by intro _ e; cases e)
    have := conservation_load_sum ops l n (by have := hw' l n rfl; omega)
    omega
  · have := conservation ops k hk (fun l n e => hs ⟨l, n, e⟩) (by omega)
    omega

/-- … and for total drops. -/
theorem conservation_total_drops_quiescent (ops : List Op) (hq : quiescent (run ops))
    (hw : (run ops).sh.dropsApplied < 18446744073709551616) :
    reportedTotal (run ops) + residualDrops (run ops) = (run ops).sh.dropsApplied := by
  have := conservation_total_drops ops hw
  have := inflightTotal_quiescent (rep_run ops) hq
  omega

/-- The property's second clause: every in-progress value in every report is the value the
    in-progress counter of that locality had in some state of the run in which the stats() call that
    produced the report had been invoked and had not returned. -/
theorem in_progress_is_value_at_some_instant_within_snapshot (ops : List Op) (r : Report) (lr : LocRep)
    (hr : r ∈ (run ops).reports) (hl : lr ∈ r.locs) :
    ∃ ops₁ ops₂, ops = ops₁ ++ ops₂ ∧ liveSnap (run ops₁) r.tid ∧
      lr.inprog = (run ops₁).sh.mem (.inprog lr.loc) :=
  (wit_run ops).reps r hr lr hl

/-- … and in every state that counter is (increments − decrements) mod 2^64, i.e. exactly
    started − finished when no more CallFinished than CallStarted have touched it. -/
theorem in_progress_counter_is_started_minus_finished (ops : List Op) (l : Nat)
    (hd : (run ops).sh.decs l ≤ (run ops).sh.applied (.inprog l))
    (hw : (run ops).sh.applied (.inprog l) - (run ops).sh.decs l < 18446744073709551616) :
    (run ops).sh.mem (.inprog l) = (run ops).sh.applied (.inprog l) - (run ops).sh.decs l := by
  have h := inprog_run ops l
  simp only [u64] at h
  omega

/-- increments / decrements are bracketed by returned and invoked calls: a CallStarted has
    incremented in-progress before it returns (its last action adds to `issued`), and not before it
    is invoked; likewise for CallFinished. -/
theorem in_progress_counter_bounds (ops : List Op) (l : Nat) :
    (run ops).sh.applied (.issued l) ≤ (run ops).sh.applied (.inprog l) ∧
    (run ops).sh.applied (.inprog l) ≤ (run ops).sh.invoked (.issued l) ∧
    (run ops).sh.applied (.succ l) + (run ops).sh.applied (.err l) ≤ (run ops).sh.decs l ∧
    (run ops).sh.decs l ≤ (run ops).sh.invoked (.succ l) + (run ops).sh.invoked (.err l) := by
  have hc := count_run ops l
  have e1 := event_run ops (.issued l) (by intro _ e; cases e)
  have e2 := event_run ops (.succ l) (by intro _ e; cases e)
  have e3 := event_run ops (.err l) (by intro _ e; cases e)
  have l1 := sumBy_le (fun t => pendingInc t.pc l) (fun t => pending t.pc (.issued l)) (run ops).threads
    (fun t => pendingInc_le t.pc l)
  have l2 := sumBy_le (fun t => pendingDec t.pc l) (fun t => pending t.pc (.succ l) + pending t.pc (.err l))
    (run ops).threads (fun t => pendingDec_le t.pc l)
  have l3 : sumBy (fun t => pending t.pc (.succ l) + pending t.pc (.err l)) (run ops).threads
      = sumBy (fun t => pending t.pc (.succ l)) (run ops).threads + sumBy (fun t => pending t.pc (.err l)) (run ops).threads := by
    induction (run ops).threads with
    | nil => simp
    | cons a ts ih => simp only [sumBy_cons, ih]; omega
  omega

/-- Nothing is abandoned when CallFinished / CallServerLoad are only invoked for localities that
    already have an entry (i.e. after a CallStarted for that locality has begun). -/
theorem abandoned_zero_of_wellformed (ops : List Op) (hwf : WellFormed ops) (k : Key) :
    (run ops).sh.abandoned k = 0 :=
  (ab_run ops hwf).zero k

/-! ### non-vacuity: a concrete interleaving in which a snapshot overlaps two calls -/

def demo : List Op :=
  [.spawn 1 (.start 1), .step 1 none, .step 1 none, .step 1 none,     -- CallStarted(1) returns
   .spawn 2 .stats, .step 2 none, .step 2 (some 1), .step 2 none,       -- stats(): swapped succeeded
   .spawn 3 (.finish 1 true), .step 3 none, .step 3 none, .step 3 none, -- CallFinished(1) runs through
   .step 2 none, .step 2 none, .step 2 none,                            -- load in-progress (0), swap errored, issued
   .step 2 none, .step 2 none, .step 2 none,                            -- loads range ends, locality range ends, return
   .spawn 4 .stats, .step 4 none, .step 4 (some 1), .step 4 none, .step 4 none, .step 4 none, .step 4 none,
   .step 4 none, .step 4 none, .step 4 none]

example : (run demo).reports.map (fun r => r.locs.map (fun lr => (lr.succ, lr.inprog, lr.issued)))
    = [[(0, 0, 1)], [(1, 0, 0)]] := by decide
example : (run demo).threads.all (fun t => t.pc == .done) = true := by decide

end GrpcProofs.C50
