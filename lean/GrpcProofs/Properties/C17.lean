/-
C17  Blocked writers and stream waiters are always woken.

"A sender blocked because its stream exceeded the write quota is released once the writer has sent
enough of its data or the stream ends, and its quota returns to the initial value after all its data
has been written. A NewStream call waiting for stream quota is woken whenever quota becomes
available, so it never waits while quota is free."

Models: GrpcModel/Model/WriteQuota.lean (lock-free writeQuota: every atomic op / channel op is a
step; one getter — the documented caller contract — and any number of replenishers) and
GrpcModel/Model/QuotaWait.lean (stream-quota waiters: the critical sections under controlBuf.mu and
each waiter's select are the steps). Lemmas: GrpcProofs/Lemmas/{WriteQuota,QuotaWait}.lean.
All theorems are for arbitrary op lists = every interleaving.
-/
import GrpcProofs.Lemmas.WriteQuota
import GrpcProofs.Lemmas.QuotaWait
namespace GrpcProofs.C17

/-! ## 1. writeQuota -/
section writequota
open GrpcModel.WriteQuota

private theorem reach (q : Nat) (ops : List Op) : Lemmas.WriteQuota.Inv (run (init q) ops).1 :=
  Lemmas.WriteQuota.run_inv ops _ (Lemmas.WriteQuota.inv_init q)

/-- No lost wake-up (single getter, any number of replenishers, any interleaving of the individual
    atomic operations): whenever the getter sits in its select while the quota is positive, either
    the token is in the one-slot channel or a replenisher that made the quota cross from ≤ 0 to > 0
    is still about to send it. -/
theorem writequota_no_lost_wakeup (q : Nat) (ops : List Op) (sz : Nat)
    (hw : (run (init q) ops).1.gpc = .wait sz) (hq : (run (init q) ops).1.quota > 0) :
    (run (init q) ops).1.token = true ∨ (run (init q) ops).1.pend > 0 :=
  (reach q ops).waitSig sz hw hq

/-- Hence a sender that is really stuck (in the select, nothing ready, no send in flight) is stuck
    only while the quota is exhausted and the stream is not done. -/
theorem writequota_blocked_only_if_exhausted (q : Nat) (ops : List Op)
    (hs : stuck (run (init q) ops).1 = true) :
    (run (init q) ops).1.quota ≤ 0 ∧ (run (init q) ops).1.done = false :=
  Lemmas.WriteQuota.stuck_exhausted _ (reach q ops) hs

/-- Released once enough has been written: with positive quota and no send in flight, the waiting
    getter's next three atomic steps are: take the token, see quota > 0, subtract — `get` returns nil. -/
theorem writequota_released_when_replenished (q : Nat) (ops : List Op) (sz : Nat)
    (hw : (run (init q) ops).1.gpc = .wait sz) (hq : (run (init q) ops).1.quota > 0)
    (hp : (run (init q) ops).1.pend = 0) :
    (run (run (init q) ops).1 [.gstep, .gstep, .gstep]).2.map (·.2) = [.none, .none, .granted sz] := by
  have h := writequota_no_lost_wakeup q ops sz hw hq
  generalize (run (init q) ops).1 = s at *
  obtain ⟨quota, token, done, gpc, pend⟩ := s
  simp only at hw hq hp
  subst hw hp
  have ht : token = true := by simpa using h
  subst ht
  simp [run, step, hq]

/-- Released when the stream ends: with `done` closed the waiting getter's select has a ready case
    and `get` returns errStreamDone. -/
theorem writequota_released_on_done (q : Nat) (ops : List Op) (sz : Nat)
    (hw : (run (init q) ops).1.gpc = .wait sz) (hd : (run (init q) ops).1.done = true) :
    (step (run (init q) ops).1 .gdone).2 = .failed ∧ (step (run (init q) ops).1 .gstep).2 ≠ .blocked := by
  generalize (run (init q) ops).1 = s at *
  obtain ⟨quota, token, done, gpc, pend⟩ := s
  simp only at hw hd
  subst hw hd
  cases token <;> simp [step]

/-- Ledger, every interleaving: quota = initial − granted + replenished; so once everything granted
    has been replenished (all data written) the quota is back at its initial value. -/
theorem writequota_quota_restored (q : Nat) (ops : List Op) :
    (run (init q) ops).1.quota = q - grantedSum (run (init q) ops).2 + replSum (run (init q) ops).2 ∧
    (grantedSum (run (init q) ops).2 = replSum (run (init q) ops).2 → (run (init q) ops).1.quota = q) := by
  have h := Lemmas.WriteQuota.run_ledger ops (init q)
  simp only [init] at h ⊢
  exact ⟨h, fun he => by omega⟩

/-- Quota is only ever granted while it is positive. -/
theorem writequota_granted_only_if_positive (q : Nat) (ops : List Op) (sz : Nat)
    (h : (step (run (init q) ops).1 .gstep).2 = .granted sz) : (run (init q) ops).1.quota > 0 := by
  have hi := reach q ops
  generalize (run (init q) ops).1 = s at *
  obtain ⟨quota, token, done, gpc, pend⟩ := s
  cases gpc
  case idle => simp [step] at h
  case check z => simp only [step] at h; split at h <;> simp at h
  case sub z => exact hi.subPos z rfl
  case wait z => simp only [step] at h; split at h <;> (try split at h) <;> simp at h

/-- The executable monitor run on the implementation never fires on the model. -/
theorem writequota_monitor_ok (q : Nat) (ops : List Op) :
    ∀ v ∈ verdicts (init q) (Mon.init q) ops, ∀ c, v ≠ .viol c :=
  Lemmas.WriteQuota.verdicts_ok ops _ _ (Lemmas.WriteQuota.inv_init q) (Lemmas.WriteQuota.mc_init q)

/-- The single-getter hypothesis is needed: in the two-getter extension `step2` of the same state
    machine the no-lost-wake-up statement is FALSE. Quota 1; getter 0 is granted 5 (quota −4); both
    getters then see quota ≤ 0 and park; one replenish of 10 crosses and sends ONE token; getter 0
    takes it and is granted; getter 1 stays parked with quota 5 > 0, no token, nothing in flight. -/
theorem writequota_two_getters_counterexample :
    ¬ ∀ (ops : List Op2) (sz : Nat),
        (run2 ⟨init 1, .idle⟩ ops).gpc1 = .wait sz → (run2 ⟨init 1, .idle⟩ ops).base.quota > 0 →
        (run2 ⟨init 1, .idle⟩ ops).base.token = true ∨ (run2 ⟨init 1, .idle⟩ ops).base.pend > 0 := by
  intro h
  have := h [.g0 (.get 5), .g0 .gstep, .g0 .gstep, .g0 (.get 1), .g0 .gstep, .get1 1, .gstep1,
             .g0 (.repl 10), .g0 .sig, .g0 .gstep, .g0 .gstep, .g0 .gstep] 1 (by decide) (by decide)
  revert this
  decide

end writequota

/-! ## 2. stream-quota waiters -/
section quotawait
open GrpcModel.QuotaWait

private theorem reachQ (n : Nat) (ops : List Op) : Lemmas.QuotaWait.Inv (run (init n) ops).1 :=
  Lemmas.QuotaWait.run_inv ops _ (Lemmas.QuotaWait.inv_init n)

/-- Woken whenever quota becomes available (every interleaving of NewStream attempts, waiters'
    selects, give-ups, stream closes and SETTINGS changes): if quota is free and some waiter is
    parked on the current channel, then the token is in that channel or an already-woken waiter is
    about to retry (and will pass the baton on). Waiters parked on an older channel are always
    runnable (that channel was closed). -/
theorem streamquota_no_lost_wakeup (n : Nat) (ops : List Op)
    (hq : (run (init n) ops).1.quota > 0)
    (hp : ∃ p ∈ (run (init n) ops).1.waiters, p.2 = .parked (run (init n) ops).1.gen) :
    (run (init n) ops).1.token = true ∨ ∃ p ∈ (run (init n) ops).1.waiters, p.2 = .retry :=
  (reachQ n ops).sig hq hp

/-- It never waits while quota is free: in any reachable state in which someone waits and no
    waiter can take a step, the stream quota is ≤ 0. -/
theorem streamquota_never_waits_while_quota_free (n : Nat) (ops : List Op)
    (hs : stuck (run (init n) ops).1 = true) : (run (init n) ops).1.quota ≤ 0 :=
  Lemmas.QuotaWait.stuck_no_quota _ (reachQ n ops) hs

/-- `waitingStreams` never under-counts the NewStream calls that are waiting (it may over-count
    after a waiter gave up — the code does not decrement there), so the baton/broadcast conditions
    `waitingStreams > 0` are true whenever someone waits; and every remembered channel is the
    current one or a closed older one. -/
theorem streamquota_waiting_counts (n : Nat) (ops : List Op) :
    (run (init n) ops).1.waiters.length ≤ (run (init n) ops).1.waiting ∧
    ∀ p ∈ (run (init n) ops).1.waiters, ∀ g, p.2 = .parked g → g ≤ (run (init n) ops).1.gen :=
  ⟨(reachQ n ops).cnt, (reachQ n ops).old⟩

/-- A SETTINGS increase while someone waits wakes every parked waiter (broadcast by close). -/
theorem streamquota_settings_broadcast (n : Nat) (ops : List Op) (d : Int) (hd : d > 0)
    (hw : (run (init n) ops).1.waiting > 0) (w : Nat) (g : Nat)
    (hl : (run (init n) ops).1.waiters.lookup w = some (.parked g)) :
    (step (step (run (init n) ops).1 (.settings d)).1 (.wake w)).2 = .woken := by
  have hi := reachQ n ops
  generalize (run (init n) ops).1 = s at *
  have hold := hi.old (w, .parked g) (Lemmas.QuotaWait.lookup_mem _ _ _ hl) g rfl
  have hne : g ≠ s.gen + 1 := by omega
  simp [step, hd, hw, hl, hne]

/-- The executable monitor run on the implementation never fires on the model. -/
theorem streamquota_monitor_ok (n : Nat) (ops : List Op) :
    ∀ v ∈ verdicts (init n) (Mon.init n) ops, ∀ c, v ≠ .viol c :=
  Lemmas.QuotaWait.verdicts_ok ops _ _ (Lemmas.QuotaWait.inv_init n) (by simp [Lemmas.QuotaWait.MC, init, Mon.init])

end quotawait

/-! ## non-vacuity -/
section examples
open GrpcModel.WriteQuota in
-- quota 4: get 10 granted (quota −6); get 3 parks; repl 4 (no crossing); repl 5 crosses → pending send;
-- the getter is not stuck; after sig it takes the token and is granted
example : ((run (init 4) [.get 10, .gstep, .gstep, .get 3, .gstep, .gstep, .repl 4, .repl 5, .gstep, .sig,
      .gstep, .gstep, .gstep]).2.map (·.2))
    = [.none, .none, .granted 10, .none, .parked, .blocked, .none, .none, .blocked, .none, .none, .none, .granted 3] := by
  decide
open GrpcModel.WriteQuota in
example : (Mon.quiescent ⟨3, false⟩ true) = .viol 3 := by decide
open GrpcModel.QuotaWait in
-- max 1: second and third NewStream park; a close passes one token: waiter 2 wakes and succeeds;
-- waiter 3 keeps waiting with quota 0; a SETTINGS +1 broadcast wakes it
example : ((run (init 1) [.newStream 1, .newStream 2, .newStream 3, .closeStream, .wake 3, .retry 3, .wake 2,
      .settings 1, .wake 2, .retry 2]).2.map (·.2))
    = [.created, .parked, .parked, .none, .woken, .created, .blocked, .none, .woken, .created] := by decide
open GrpcModel.QuotaWait in
example : (Mon.quiescent ⟨1⟩ true) = .viol 2 := by decide
end examples

end GrpcProofs.C17
