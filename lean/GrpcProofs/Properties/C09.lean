import GrpcModel.Model.MdWire
namespace GrpcProofs.C09
end GrpcProofs.C09
