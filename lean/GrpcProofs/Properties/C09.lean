/-
C09  User metadata crosses the wire unchanged and reserved headers never leak.

Model: GrpcModel/Model/MdWire.lean (validation, createHeaderFields metadata part, server and client
operateHeaders, writeHeaderLocked, the framer's name/value checks), GrpcModel/Model/Headers.lean,
GrpcModel/Prim/Base64.lean, trailers via GrpcModel/Model/Status.lean.
Property theorems only; helper lemmas are in GrpcProofs/Lemmas/{MdWire,Status,Base64}.lean.

The statement as given is false of the unchanged code in three places, each proved below on a
concrete witness, with the `_partial` theorem stating what does hold:
  * user keys "host" / "connection" (valid per the statement) do not reach the handler
    (`md_roundtrip_counterexample_host`, `md_roundtrip_counterexample_connection`);
  * content-type IS surfaced as user metadata on both sides (`content_type_surfaced_*`, F17);
  * grpc-accept-encoding, which the client transport adds whenever a compressor is registered in its
    process, is surfaced to the handler like user metadata and is not even in the reserved table
    (`accept_encoding_surfaced_counterexample`, F30).
-/
import GrpcProofs.Lemmas.MdWire
namespace GrpcProofs.C09
open GrpcModel.Status GrpcModel.Headers GrpcModel.MdWire GrpcModel
open GrpcModel.Base64 (Bytes)
open GrpcProofs.Lemmas.MdWire (sentPairs valsFor baseMD ctMD Surfaceable)

/-- Client → server. Full statement: for all `md`, `added` with `validOutgoing md added` the
    handler runs and sees, for EVERY key, the transport's values for that key followed by the
    user's. Proved with the side condition `hs` (no user key "host" / "connection" is sent); the
    two excluded keys are genuine counterexamples (below).
    `md` is the MD given to NewOutgoingContext, `added` the pairs appended with
    AppendToOutgoingContext (`appendToOutgoing` lower-cases their keys). -/
theorem md_roundtrip_partial (c : CallCfg) (md : MD) (kv : List (Bytes × Bytes))
    (hv : validOutgoing md (appendToOutgoing kv) = true)
    (hs : ∀ p ∈ sentPairs md (appendToOutgoing kv), p.1 ≠ hConnection ∧ p.1 ≠ hHost) :
    ∃ F m, clientSend c md (appendToOutgoing kv) = some F ∧ serverRecv F = .handler m ∧
      ∀ key, mdGet m key = mdGet (baseMD c) key ++ valsFor (sentPairs md (appendToOutgoing kv)) key :=
  Lemmas.MdWire.md_roundtrip c md (appendToOutgoing kv) hv hs

/-- Per-key value order: a user (non-reserved) key receives the base MD's values for it, then the
    appended pairs' values for it, each in the order given; reserved keys receive nothing. -/
theorem per_key_order (md : MD) (added : List (Bytes × Bytes)) (key : Bytes) (hk : isReservedHeader key = false) :
    valsFor (sentPairs md added) key =
      (md.filter fun kv => kv.1 = key).flatMap (·.2) ++ ((added.filter fun p => lower p.1 = key).map (·.2)) :=
  Lemmas.MdWire.valsFor_sentPairs md added key hk

/-- The transport contributes exactly :authority, content-type (F17), user-agent and, when
    compressors are registered in the client process, grpc-accept-encoding (F30). -/
theorem transport_added_keys (c : CallCfg) :
    baseMD c = [(hAuthority, [c.authority]), (hContentType, [contentTypeOf c.subtype]), (hUserAgent, [c.userAgent])] ++
      (if c.acceptEncoding.isEmpty then [] else [(hAcceptEncoding, [c.acceptEncoding])]) := rfl

def demoCfg : CallCfg :=
  { scheme := asciiBytes "http", path := asciiBytes "/s/m", authority := asciiBytes "a", subtype := [], userAgent := asciiBytes "ua" }

/-- the same client with a compressor registered (e.g. after importing encoding/gzip) -/
def demoCfgGzip : CallCfg := { demoCfg with acceptEncoding := asciiBytes "gzip" }

/-- F30: with a compressor registered the handler sees `grpc-accept-encoding` although the user
    sent no metadata at all — a header the transport adds is surfaced as user metadata — and the
    name is not in `isReservedHeader`, so user metadata may carry it as well (its values are then
    appended after the transport's). -/
theorem accept_encoding_surfaced_counterexample :
    isReservedHeader hAcceptEncoding = false ∧
    ∃ F m, clientSend demoCfgGzip [] [] = some F ∧ serverRecv F = .handler m ∧
      mdGet m hAcceptEncoding = [asciiBytes "gzip"] := by
  refine ⟨by decide, _, baseMD demoCfgGzip, rfl, by decide, by decide⟩

/-- "host" is valid user metadata, is sent, and is discarded by the server (A41 Host rules). -/
theorem md_roundtrip_counterexample_host :
    validOutgoing [(hHost, [[120]])] [] = true ∧
    ∃ F m, clientSend demoCfg [(hHost, [[120]])] [] = some F ∧ serverRecv F = .handler m ∧ mdGet m hHost = [] := by
  refine ⟨by decide, _, baseMD demoCfg, rfl, by decide, by decide⟩

/-- "connection" is valid user metadata, is sent, and makes the server reset the stream. -/
theorem md_roundtrip_counterexample_connection :
    validOutgoing [(hConnection, [[120]])] [] = true ∧
    ∃ F, clientSend demoCfg [(hConnection, [[120]])] [] = some F ∧ serverRecv F = .rstProtocol := by
  refine ⟨by decide, _, rfl, by decide⟩

/-- Invalid user metadata fails in `newClientStream` (INTERNAL) and nothing is handed to the
    transport. -/
theorem invalid_md_fails_before_send (c : CallCfg) (md : MD) (added : List (Bytes × Bytes))
    (h : validOutgoing md added = false) : clientSend c md added = none := by
  simp [clientSend, h]

/-- `ValidatePair` accepts exactly the statement's domain: non-empty lowercase key of
    [0-9a-z-_.] (or a pseudo-header name, which is then never sent), and printable-ASCII values
    unless the key ends in "-bin". -/
theorem validate_pair_iff (k : Bytes) (vs : List Bytes) :
    validatePair k vs = true ↔
      (k ≠ [] ∧ (k.head? = some 58 ∨ ∀ b ∈ k, validKeyChar b = true)) ∧
      (isBinKey k = true ∨ ∀ v ∈ vs, ∀ b ∈ v, ¬ (b < 0x20 ∨ b > 0x7E)) := by
  unfold validatePair validateKey hasNotPrintable
  cases k with
  | nil => simp
  | cons c rest =>
    by_cases hc : c = 58
    · subst hc; simp
    · simp [hc, List.all_eq_true]

/-- Reserved names are never sent from user metadata, by the client … -/
theorem reserved_never_sent_client (md : MD) (added : List (Bytes × Bytes)) :
    ∀ f ∈ userFields md added, isReservedHeader f.1 = false := by
  intro f hf
  rw [Lemmas.MdWire.userFields_eq] at hf
  obtain ⟨p, hp, rfl⟩ := List.mem_map.mp hf
  exact Lemmas.MdWire.sentPairs_nonreserved md added p hp

/-- … or by the server (headers and trailers both go through appendHeaderFieldsFromMD). -/
theorem reserved_never_sent_server (md : MD) : ∀ f ∈ fieldsFromMD md, isReservedHeader f.1 = false :=
  Lemmas.Status.fieldsFromMD_names md

/-- Whatever field list a peer sends, the handler's metadata contains no reserved name other than
    the whitelisted ones (:authority, user-agent) and content-type. -/
theorem reserved_never_surfaced_server_partial (fields : List Field) (m : MD) (h : serverRecv fields = .handler m) :
    ∀ kv ∈ m, isReservedHeader kv.1 = false ∨ isWhitelistedHeader kv.1 = true ∨ kv.1 = hContentType :=
  Lemmas.MdWire.server_surfaces_only fields m h

/-- The same for the client's `Header()` … -/
theorem reserved_never_surfaced_header_partial (fields : List Field) (m : MD) (h : clientHeaders fields = .md m) :
    ∀ kv ∈ m, isReservedHeader kv.1 = false ∨ isWhitelistedHeader kv.1 = true ∨ kv.1 = hContentType :=
  Lemmas.MdWire.client_header_surfaces_only fields m h

/-- … and `Trailer()`. -/
theorem reserved_never_surfaced_trailer_partial (initialHeader : Bool) (fields : List Field) :
    ∀ kv ∈ (clientTrailers initialHeader fields).2, isReservedHeader kv.1 = false ∨ isWhitelistedHeader kv.1 = true ∨ kv.1 = hContentType :=
  Lemmas.MdWire.client_trailer_surfaces_only initialHeader fields

/-- F17: without the content-type exception the statement is false — a plain RPC without any user
    metadata already shows content-type to the handler … -/
theorem content_type_surfaced_counterexample_server :
    ¬ (∀ (fields : List Field) (m : MD), serverRecv fields = .handler m →
        ∀ kv ∈ m, isReservedHeader kv.1 = false ∨ isWhitelistedHeader kv.1 = true) := by
  intro h
  have e : serverRecv (baseFields demoCfg) = .handler (baseMD demoCfg) := by decide
  have := h _ _ e (hContentType, [contentTypeOf []]) (by simp [baseMD, demoCfg])
  revert this; decide

/-- … and to the client's Header(). -/
theorem content_type_surfaced_counterexample_client :
    ¬ (∀ (fields : List Field) (m : MD), clientHeaders fields = .md m →
        ∀ kv ∈ m, isReservedHeader kv.1 = false ∨ isWhitelistedHeader kv.1 = true) := by
  intro h
  have e : clientHeaders (headerFrame [] []) = .md (ctMD []) := by decide
  have := h _ _ e (hContentType, [contentTypeOf []]) (by simp [ctMD])
  revert this; decide

/-- Server → client, headers: when the frame passes the framer (`hw`; guaranteed for validated
    metadata by `valid_md_wire_ok`) the client's Header() has, for EVERY key, content-type's value
    under that key followed by exactly the server's values in order. -/
theorem header_roundtrip (sub : Bytes) (header : MD) (hw : wireOK (headerFrame sub header) = true) :
    ∃ m, clientHeaders (headerFrame sub header) = .md m ∧
      ∀ key, mdGet m key = mdGet (ctMD sub) key ++ valsFor (sentPairs header []) key :=
  Lemmas.MdWire.header_roundtrip sub header hw

/-- Server → client, trailers (status without details, code < 2^31 — see C10 for the rest). -/
theorem trailer_roundtrip (hs : Bool) (sub : Bytes) (st : Status) (tr : MD)
    (hc : st.code < 2147483648) (hd : st.details = []) :
    ∀ key, mdGet (clientTrailers (!hs) (writeStatus hs sub st tr)).2 key =
      mdGet (if hs then [] else ctMD sub) key ++ valsFor (sentPairs tr []) key :=
  Lemmas.MdWire.trailer_roundtrip hs sub st tr hc hd

/-- Several header calls in one handler (SetHeader / SendHeader through either API, `hdrRun`): the
    client's Header() has, for every non-reserved key, exactly the values of the calls that
    SUCCEEDED, in call order — `metadata.Join` semantics; a call that failed (validation, or after
    the HEADERS frame went out) contributes nothing. The handler's metadata values are only read:
    in the model no call can change what a later call, or a later RPC, contributes. -/
theorem header_calls_roundtrip (sub : Bytes) (calls : List (HdrApi × MD))
    (hw : wireOK (headerFrame sub (Lemmas.MdWire.hdrRun calls {}).1.header) = true) (key : Bytes) (hk : isReservedHeader key = false) :
    ∃ m, clientHeaders (headerFrame sub (Lemmas.MdWire.hdrRun calls {}).1.header) = .md m ∧
      mdGet m key = mdGet (ctMD sub) key ++ (Lemmas.MdWire.accepted calls {}).flatMap (Lemmas.MdWire.valsAll · key) :=
  Lemmas.MdWire.header_calls_roundtrip sub calls hw key hk

/-- Several SetTrailer calls (status without details, code < 2^31): the same for Trailer(). -/
theorem trailer_calls_roundtrip (hs : Bool) (sub : Bytes) (st : Status) (mds : List MD)
    (hc : st.code < 2147483648) (hd : st.details = []) (key : Bytes) (hk : isReservedHeader key = false) :
    mdGet (clientTrailers (!hs) (writeStatus hs sub st (mds.foldl trlCall []))).2 key =
      mdGet (if hs then [] else ctMD sub) key ++ mds.flatMap (Lemmas.MdWire.valsAll · key) :=
  Lemmas.MdWire.trailer_calls_roundtrip hs sub st mds hc hd key hk

/-- `metadata.Join` on maps: per key, the first argument's values then the second's; the result
    is a proper map again. -/
theorem join_per_key (a b : MD) (ha : Lemmas.MdWire.Distinct a) (key : Bytes) :
    Lemmas.MdWire.Distinct (mdJoin a b) ∧ mdGet (mdJoin a b) key = mdGet a key ++ Lemmas.MdWire.valsAll b key :=
  Lemmas.MdWire.mdJoin_spec a b ha key

/-- Validated metadata only produces header fields the HTTP/2 framer of the peer accepts (legal
    lowercase token names; values without control bytes: printable ASCII, or base64 text). -/
theorem valid_md_wire_ok (md : MD) (h : validate md = true) : wireOK (fieldsFromMD md) = true :=
  Lemmas.MdWire.valid_wire_ok md h

/-- Binary values: any bytes survive `encodeMetadataHeader`/`decodeMetadataHeader` … -/
theorem bin_value_roundtrip (k v : Bytes) : decodeMetadataHeader k (encodeMetadataHeader k v) = some v :=
  Lemmas.Status.decode_encode_md k v

/-- … and a peer that pads its base64 is understood as well. -/
theorem bin_value_padded_peer (k v : Bytes) (hk : isBinKey k = true) :
    decodeMetadataHeader k (Base64.encodeStd v) = some v := by
  simp only [decodeMetadataHeader, hk, if_true]
  exact Lemmas.Base64.decodeBinHeader_encodeStd v

/-- AppendToOutgoingContext lower-cases keys (ASCII), once and for all. -/
theorem append_lowercases (kv : List (Bytes × Bytes)) :
    ∀ p ∈ appendToOutgoing kv, lower p.1 = p.1 := by
  intro p hp
  simp only [appendToOutgoing, List.mem_map] at hp
  obtain ⟨q, _, rfl⟩ := hp
  exact Lemmas.MdWire.lower_idem q.1

/-- The reserved / whitelisted tables of the Go source (regenerated on every run). -/
theorem reserved_table :
    Generated.mdwReservedHeaders = ["content-type", "user-agent", "grpc-message-type", "grpc-encoding", "grpc-message",
      "grpc-status", "grpc-timeout", "te"] ∧
    Generated.mdwWhitelistedHeaders = [":authority", "user-agent"] := by decide

/-- The literal names of the server's field switch (a new `case` breaks `srvField`'s port). -/
theorem server_switch_names :
    Generated.mdwServerSwitchHeaders = ["content-type", "grpc-accept-encoding", "grpc-encoding", ":method", ":path",
      "grpc-timeout", "connection"] := by decide

-- non-vacuity
example : (Lemmas.MdWire.hdrRun [(.ctxSet, [([104], [[49]])]), (.ssSend, [([104], [[50]]), ([105], [])]), (.ctxSet, [([104], [[51]])])] {}).1.header
    = [([104], [[49], [50]]), ([105], [])] := by decide
example : validOutgoing [([107], [[118]]), ([107, 45, 98, 105, 110], [[0, 255]])] (appendToOutgoing [([70, 111, 111], [120])]) = true := by decide
example : ∃ m, serverRecv (baseFields demoCfg ++ userFields [([107], [[118], [119]])] (appendToOutgoing [([75], [120])])) = .handler m ∧
    mdGet m [107] = [[118], [119], [120]] := ⟨baseMD demoCfg ++ [([107], [[118], [119], [120]])], by decide, by decide⟩
example : validOutgoing [([75], [[118]])] [] = false := by decide
example : clientHeaders (headerFrame [] [([104], [[1, 2]])]) = .fail 13 := by decide   -- control byte in a value: framer rejects

end GrpcProofs.C09
