/-
C26  Requests are dispatched only to the registered method.
Property theorems only; helper lemmas are in GrpcProofs/Lemmas/Dispatch.lean.
-/
import GrpcProofs.Lemmas.Dispatch
namespace GrpcProofs.C26
open GrpcModel.Dispatch GrpcProofs.Lemmas.Dispatch

/-- The path splits in exactly one way: `parse p = (s, m)` iff `p = "/" ++ s ++ "/" ++ m` with no
    slash in `m` (split on the LAST slash; `s` may contain slashes, either part may be empty). -/
theorem parse_spec (p s m : Bytes) : parse p = some (s, m) ↔ p = slash :: (s ++ slash :: m) ∧ slash ∉ m :=
  parse_some p s m

/-- dispatch_spec (iff): the request runs registered entry `e` of service number `i` exactly when the
    path is "/" ++ s ++ "/" ++ m (m without slash), `i` is the service registered under the name `s`
    and `e` is the entry the registration table holds for `m`. -/
theorem dispatch_spec (reg : List Service) (unk : Bool) (p : Bytes) (i : Nat) (e : Entry) :
    dispatch reg unk p = .run i e ↔
      ∃ s m svc, p = slash :: (s ++ slash :: m) ∧ slash ∉ m ∧ findService reg s = some (i, svc) ∧
        lookupMethod svc m = some e := by
  constructor
  · intro h
    unfold dispatch at h
    cases hp : parse p with
    | none => rw [hp] at h; cases h
    | some sm =>
      obtain ⟨s, m⟩ := sm
      rw [hp] at h
      simp only at h
      cases hf : findService reg s with
      | none => rw [hf] at h; simp only at h; split at h <;> cases h
      | some isvc =>
        obtain ⟨i', svc⟩ := isvc
        rw [hf] at h
        simp only at h
        cases hl : lookupMethod svc m with
        | none => rw [hl] at h; simp only at h; split at h <;> cases h
        | some e' =>
          rw [hl] at h
          simp only [Outcome.run.injEq] at h
          obtain ⟨rfl, rfl⟩ := h
          obtain ⟨h1, h2⟩ := (parse_some p s m).mp hp
          exact ⟨s, m, svc, h1, h2, hf, hl⟩
  · rintro ⟨s, m, svc, h1, h2, hf, hl⟩
    have hp := (parse_some p s m).mpr ⟨h1, h2⟩
    unfold dispatch
    rw [hp]; simp only [hf, hl]

/-- Soundness in registry terms: whatever handler runs is registered under exactly this path. -/
theorem reaches_only_the_registered_handler (reg : List Service) (unk : Bool) (p : Bytes) (i : Nat) (e : Entry)
    (h : dispatch reg unk p = .run i e) :
    ∃ svc m, reg[i]? = some svc ∧ entryName svc e = some m ∧ p = slash :: (svc.name ++ slash :: m) ∧ slash ∉ m := by
  obtain ⟨s, m, svc, h1, h2, hf, hl⟩ := (dispatch_spec reg unk p i e).mp h
  obtain ⟨hi, hn⟩ := findService_some reg s i svc hf
  exact ⟨svc, m, hi, lookupMethod_some svc m e hl, by rw [hn]; exact h1, h2⟩

/-- Completeness: a path naming a registered service and one of its methods/streams (names without a
    slash in the method part) runs a handler of THAT service registered under THAT name. -/
theorem registered_is_dispatched (reg : List Service) (unk : Bool) (j : Nat) (svc : Service) (m : Bytes)
    (hnd : NoDupNames reg) (hj : reg[j]? = some svc) (hm : m ∈ svc.methods ++ svc.streams) (hs : slash ∉ m) :
    ∃ e, dispatch reg unk (slash :: (svc.name ++ slash :: m)) = .run j e ∧ entryName svc e = some m := by
  have hf := findService_of_mem reg j svc hnd hj
  cases hl : lookupMethod svc m with
  | none => exact absurd hm ((lookupMethod_none svc m).mp hl)
  | some e =>
    refine ⟨e, ?_, lookupMethod_some svc m e hl⟩
    exact (dispatch_spec reg unk _ j e).mpr ⟨svc.name, m, svc, rfl, hs, hf, hl⟩

/-- A malformed path (no leading slash, or no second slash) never reaches any handler, whether or
    not an unknown-service handler is installed; and only malformed paths get that answer. -/
theorem malformed_reaches_nothing (reg : List Service) (unk : Bool) (p : Bytes) :
    (¬ wellFormed p ↔ dispatch reg unk p = .malformed) ∧
    (¬ wellFormed p → (dispatch reg unk p).reachesHandler = false) := by
  have key : ¬ wellFormed p ↔ dispatch reg unk p = .malformed := by
    rw [wellFormed_iff_parse]
    unfold dispatch
    cases hp : parse p with
    | none => simp
    | some sm =>
      obtain ⟨s, m⟩ := sm
      simp only [Option.isSome_some, not_true_eq_false, false_iff]
      cases findService reg s with
      | none => simp only; split <;> simp
      | some isvc =>
        obtain ⟨i, svc⟩ := isvc
        simp only
        cases lookupMethod svc m with
        | none => simp only; split <;> simp
        | some e => simp
  refine ⟨key, fun h => ?_⟩
  rw [key.mp h]; rfl

/-- Any other well-formed path (no registered service/method matches) yields UNIMPLEMENTED, or the
    unknown-service handler when one is installed — never a registered handler. -/
theorem else_unimplemented_or_unknown_handler (reg : List Service) (unk : Bool) (p : Bytes)
    (hw : wellFormed p) (hnr : ∀ i e, dispatch reg unk p ≠ .run i e) :
    (unk = true → dispatch reg unk p = .unknownHandler) ∧
    (unk = false → dispatch reg unk p = .unimplService ∨ dispatch reg unk p = .unimplMethod) := by
  have hm : dispatch reg unk p ≠ .malformed := fun h => ((malformed_reaches_nothing reg unk p).1.mpr h) hw
  revert hnr hm
  unfold dispatch
  cases parse p with
  | none => intro _ hm; exact absurd rfl hm
  | some sm =>
    obtain ⟨s, m⟩ := sm
    simp only
    cases findService reg s with
    | none => cases unk <;> simp
    | some isvc =>
      obtain ⟨i, svc⟩ := isvc
      simp only
      cases lookupMethod svc m with
      | none => cases unk <;> simp
      | some e => intro hnr _; exact absurd rfl (hnr i e)

-- non-vacuity ("/a/b/c" splits at the LAST slash; "/a" is malformed; "//" is service "" method "")
example : parse [47, 97, 47, 98, 47, 99] = some ([97, 47, 98], [99]) := by decide
example : parse [47, 97] = none := by decide
example : parse [47, 47] = some ([], []) := by decide
example : parse [97, 47, 98] = none := by decide
example : dispatch [{ name := [97], methods := [[98], [98]], streams := [[98], [99]] }] false [47, 97, 47, 98] = .run 0 (.method 1) := by decide
example : dispatch [{ name := [97], methods := [[98]], streams := [[99]] }] false [47, 97, 47, 99] = .run 0 (.stream 0) := by decide
example : dispatch [{ name := [97], methods := [[98, 47, 99]], streams := [] }] true [47, 97, 47, 98, 47, 99] = .unknownHandler := by decide
example : dispatch [{ name := [97], methods := [[98]], streams := [] }] false [47, 97, 47, 100] = .unimplMethod := by decide

end GrpcProofs.C26
