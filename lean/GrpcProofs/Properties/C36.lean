/-
C36  Weighted round robin picks in proportion to weights.
Property theorems only; helper lemmas are in GrpcProofs/Lemmas/WRRStride.lean (integers) and
GrpcProofs/Lemmas/WRRScale.lean (exact rationals, endpointWeight histories).

Vocabulary (all from GrpcModel/Model/WRRStride.lean, which ports scheduler.go / balancer.go):
  edfTry ws idx        one loop iteration of edfScheduler.nextIndex on sequence number idx
  edfNext fuel ws v    the whole call from counter value v (uint32, wraps at seqMod = 2^32)
  chosenCount ws i s L how many sequence numbers in [s, s+L) choose backend i
  chosenSeq ws v L     the backends chosen at the L sequence numbers after counter value v
  newScheduler ep      picker.newScheduler on endpoint weights ep (here over exact rationals)
-/
import GrpcProofs.Lemmas.WRRStride
import GrpcProofs.Lemmas.WRRScale
namespace GrpcProofs.C36
open GrpcModel.WRRStride GrpcModel.Generated
open GrpcProofs.Lemmas.WRRStride GrpcProofs.Lemmas.WRRScale

/-! ## 1. each pick terminates after at most n sequence numbers

Full statement: for every weight vector containing the scaled maximum 65535 (which newScheduler
guarantees, `scaled_has_max`) and EVERY counter value v, `nextIndex` consumes at most n sequence
numbers. That is FALSE for the code as it is when the uint32 counter wraps inside the pick and
n ∤ 2^32 (`pick_terminates_within_n_counterexample`, known finding F8b). Proved instead:
`_partial` (no wrap inside the next n numbers: at most n) and `pick_terminates_within_2n`
(every v: fewer than 2n). -/

/-- No wrap within the next n sequence numbers: the call returns after k ≤ n of them. -/
theorem pick_terminates_within_n_partial (ws : List Nat) (i v fuel : Nat)
    (hi : i < ws.length) (hmax : ws.getD i 0 = 65535)
    (hv : v + ws.length < seqMod) (hfuel : ws.length ≤ fuel) :
    ∃ j k, 1 ≤ k ∧ k ≤ ws.length ∧ edfNext fuel ws v = some (j, v + k) := by
  obtain ⟨d, hd, hres⟩ := exists_residue (v + 1) ws.length i hi
  have hidx : (v + (d + 1)) % seqMod = v + 1 + d := by
    rw [Nat.mod_eq_of_lt (by omega)]; omega
  have hsome : (edfTry ws ((v + (d + 1)) % seqMod)).isSome := by
    rw [hidx, edfTry_max ws _ (by rw [hres]; exact hmax)]; rfl
  obtain ⟨j, k, hk1, hk2, hnext, _, _⟩ := edfNext_first ws (d + 1) (by omega) v fuel (by omega) hsome
  refine ⟨j, k, hk1, by omega, ?_⟩
  rw [hnext, Nat.mod_eq_of_lt (by omega)]

/-- The literal "at most n" fails across the uint32 wrap: weights [1,1,65535], counter 2^32-2:
    the pick needs 4 > n = 3 sequence numbers (2^32-1, 0, 1, 2). -/
theorem pick_terminates_within_n_counterexample :
    ¬ (∀ (ws : List Nat) (i v : Nat), i < ws.length → ws.getD i 0 = 65535 → v < seqMod →
        ∃ j v', edfNext ws.length ws v = some (j, v')) := by
  intro h
  obtain ⟨j, v', hjv⟩ := h [1, 1, 65535] 2 4294967294 (by decide) (by decide) (by decide)
  have : edfNext 3 [1, 1, 65535] 4294967294 = none := by decide
  rw [show [1, 1, 65535].length = 3 from rfl, this] at hjv
  cases hjv

/-- Every counter value (wrap included): the call returns after k ≤ 2n-1 sequence numbers. -/
theorem pick_terminates_within_2n (ws : List Nat) (i v fuel : Nat)
    (hi : i < ws.length) (hmax : ws.getD i 0 = 65535) (hn : ws.length ≤ seqMod)
    (hv : v < seqMod) (hfuel : 2 * ws.length - 1 ≤ fuel) :
    ∃ j k, 1 ≤ k ∧ k ≤ 2 * ws.length - 1 ∧ edfNext fuel ws v = some (j, (v + k) % seqMod) := by
  by_cases hw : v + ws.length < seqMod
  · obtain ⟨j, k, hk1, hk2, hnext⟩ := pick_terminates_within_n_partial ws i v fuel hi hmax hw (by omega)
    exact ⟨j, k, hk1, by omega, by rw [hnext, Nat.mod_eq_of_lt (by omega)]⟩
  · -- the wrap: sequence number i itself (index i, generation 0) is reached after 2^32 - v + i steps
    have hk0 : (v + (seqMod - v + i)) % seqMod = i := by
      have : v + (seqMod - v + i) = i + seqMod := by omega
      rw [this, Nat.add_mod_right, Nat.mod_eq_of_lt (by omega)]
    have hsome : (edfTry ws ((v + (seqMod - v + i)) % seqMod)).isSome := by
      rw [hk0, edfTry_max ws i (by rw [Nat.mod_eq_of_lt hi]; exact hmax)]; rfl
    obtain ⟨j, k, hk1, hk2, hnext, _, _⟩ :=
      edfNext_first ws (seqMod - v + i) (by omega) v fuel (by omega) hsome
    exact ⟨j, k, hk1, by omega, hnext⟩

/-- What a call returns is the first sequence number after v (wrapping order) that chooses a
    backend, and that backend. -/
theorem next_is_first_chosen (ws : List Nat) (fuel v j v' : Nat) (h : edfNext fuel ws v = some (j, v')) :
    ∃ k, 1 ≤ k ∧ v' = (v + k) % seqMod ∧ edfTry ws ((v + k) % seqMod) = some j
      ∧ ∀ k', 1 ≤ k' → k' < k → edfTry ws ((v + k') % seqMod) = none := by
  obtain ⟨k, h1, _, h3, h4, h5⟩ := edfNext_sound ws fuel v j v' h
  exact ⟨k, h1, h3, h4, h5⟩

/-- The indices returned by k consecutive calls are exactly the backends chosen at the sequence
    numbers those calls consumed, in order (so counting picks = counting chosen numbers). -/
theorem calls_are_the_chosen_sequence_numbers (fuel : Nat) (ws : List Nat) (k v : Nat) (is : List Nat)
    (v' : Nat) (hv : v < seqMod) (h : edfCalls fuel ws k v = some (is, v')) :
    ∃ L, k ≤ L ∧ v' = (v + L) % seqMod ∧ is = chosenSeq ws v L ∧ is.length = k :=
  edfCalls_sound fuel ws k v is v' hv h

/-! ## 2. exact proportion over any window of 65535·n sequence numbers -/

/-- In ANY window [s, s + 65535·n) of sequence numbers backend i is chosen exactly `ws[i]` times
    (every weight vector with entries ≤ 65535 = every `[]uint16`; every start s). -/
theorem exact_proportion (ws : List Nat) (i s : Nat) (hi : i < ws.length) (hw : ws.getD i 0 ≤ 65535) :
    chosenCount ws i s (65535 * ws.length) = ws.getD i 0 :=
  chosenCount_window ws i s hi hw

/-- Counter form. Full statement: for every counter value v the next 65535·n values of the uint32
    counter choose backend i exactly ws[i] times. Proved for windows that do not contain the wrap
    (v + 65535·n < 2^32); across the wrap the generation restarts at 0 and the count can be off
    (same root cause as F8b, observed on the real code by the monitor). -/
theorem exact_proportion_counter_partial (ws : List Nat) (i v : Nat) (hi : i < ws.length)
    (hw : ws.getD i 0 ≤ 65535) (hv : v + 65535 * ws.length < seqMod) :
    (chosenSeq ws v (65535 * ws.length)).count i = ws.getD i 0 := by
  rw [chosenSeq_count ws v i _ hv]
  exact chosenCount_window ws i (v + 1) hi hw

/-- The window contains exactly Σ ws picks in total, so backend i gets the share ws[i] / Σ ws. -/
theorem window_total (ws : List Nat) (s : Nat) (hn : 0 < ws.length)
    (hw : ∀ i, i < ws.length → ws.getD i 0 ≤ 65535) :
    chosenTotal ws s (65535 * ws.length) = sumFirst ws ws.length := by
  rw [chosenTotal_eq_sum ws hn]
  exact sumCounts_window ws s ws.length (Nat.le_refl _) hw

/-- The model's `Nat` arithmetic is the code's uint64 arithmetic: nothing can wrap. -/
theorem no_uint64_overflow (ws : List Nat) (idx : Nat) (hidx : idx < seqMod)
    (hw : ∀ i, ws.getD i 0 ≤ 65535) :
    ws.getD (idx % ws.length) 0 * (idx / ws.length) + (idx % ws.length) * offset < 2 ^ 64 :=
  Lemmas.WRRStride.no_uint64_overflow ws idx hidx hw

/-- Plain round robin: without a wrap the k-th pick is (v+k) mod n, and any n consecutive picks
    hit every backend. -/
theorem rr_round_robin (n v : Nat) (hv : v + n < seqMod) :
    (∀ k, k < n → rrNext n (v + k) = ((v + k + 1) % n, v + k + 1)) ∧
    (∀ i, i < n → ∃ k, k < n ∧ (rrNext n (v + k)).1 = i) := by
  have hstep : ∀ k, k < n → rrNext n (v + k) = ((v + k + 1) % n, v + k + 1) := by
    intro k hk
    have : inc (v + k) = v + k + 1 := by unfold inc; exact Nat.mod_eq_of_lt (by omega)
    simp [rrNext, this]
  refine ⟨hstep, ?_⟩
  intro i hi
  obtain ⟨d, hd, hres⟩ := exists_residue (v + 1) n i hi
  refine ⟨d, hd, ?_⟩
  rw [hstep d hd]
  have : v + d + 1 = v + 1 + d := by omega
  simp only [this, hres]

/-! ## 3. newScheduler: scaling, mean for zero weights, round-robin fallbacks (exact arithmetic) -/

/-- The EDF scheduler built from non-negative weights has one weight per endpoint and a backend
    whose scaled weight is exactly 65535 (the one with the largest weight). -/
theorem scaled_has_max (ep : List ℚ) (h0 : ∀ w ∈ ep, 0 ≤ w) (ws : List Nat)
    (h : newScheduler ep = some (.edf ws)) :
    ws.length = ep.length ∧ ∃ i, i < ws.length ∧ ws.getD i 0 = 65535 := by
  obtain ⟨rfl, hn, hz, _⟩ := newScheduler_edf ep ws h
  have hlen : (scaledWeights ep).length = ep.length := by simp [scaledWeights]
  have hz' : numZero ep < ep.length := by omega
  have hpos := maxW_pos ep h0 hz'
  refine ⟨hlen, ?_⟩
  rcases maxW_mem ep with h1 | h1
  · linarith
  · obtain ⟨i, hi, hget⟩ := List.getElem_of_mem h1
    have hget' : ep[i]? = some (maxW ep) := by rw [List.getElem?_eq_getElem hi, hget]
    have := scaledWeights_get ep i (maxW ep) hget'
    rw [if_neg (ne_of_gt hpos), scaled_max ep hpos] at this
    exact ⟨i, by omega, by simp [List.getD_eq_getElem?_getD, this]⟩

/-- Every scaled weight fits the stride bound (≤ 65535). -/
theorem scaled_le_max (ep : List ℚ) (h0 : ∀ w ∈ ep, 0 ≤ w) (ws : List Nat)
    (h : newScheduler ep = some (.edf ws)) (i : Nat) : ws.getD i 0 ≤ 65535 := by
  obtain ⟨rfl, hn, hz, _⟩ := newScheduler_edf ep ws h
  have hz' : numZero ep < ep.length := by omega
  have hpos := maxW_pos ep h0 hz'
  cases hget : ep[i]? with
  | none =>
    have : (scaledWeights ep)[i]? = none := by
      unfold scaledWeights; rw [List.getElem?_map, hget]; rfl
    simp [List.getD_eq_getElem?_getD, this]
  | some w =>
    have hmem : w ∈ ep := List.mem_of_getElem? hget
    have := scaledWeights_get ep i w hget
    simp only [List.getD_eq_getElem?_getD, this, Option.getD_some]
    split
    · exact meanW_le ep h0 hz'
    · exact scaled_le ep w hpos (maxW_ge ep w hmem)

/-- A non-zero weight w scales to round(65535·w / max): within 1/2 of the exact proportion. -/
theorem scaled_weight_formula (ep : List ℚ) (h0 : ∀ w ∈ ep, 0 ≤ w) (ws : List Nat)
    (h : newScheduler ep = some (.edf ws)) (i : Nat) (w : ℚ) (hget : ep[i]? = some w) (hne : w ≠ 0) :
    (∀ u ∈ ep, u ≤ maxW ep) ∧ maxW ep ∈ ep ∧
    ((ws.getD i 0 : ℕ) : ℚ) ≤ 65535 * w / maxW ep + 1 / 2 ∧
    65535 * w / maxW ep - 1 / 2 < ((ws.getD i 0 : ℕ) : ℚ) := by
  obtain ⟨rfl, hn, hz, _⟩ := newScheduler_edf ep ws h
  have hz' : numZero ep < ep.length := by omega
  have hpos := maxW_pos ep h0 hz'
  have hmem : w ∈ ep := List.mem_of_getElem? hget
  have hmaxmem : maxW ep ∈ ep := by
    rcases maxW_mem ep with h1 | h1
    · linarith
    · exact h1
  have := scaledWeights_get ep i w hget
  rw [if_neg hne] at this
  have hval : (scaledWeights ep).getD i 0 = rnd (65535 * w / maxW ep) := by
    simp only [List.getD_eq_getElem?_getD, this, Option.getD_some, scaled_eq, maxWeight_cast]
    congr 1; ring
  have hx : (0 : ℚ) ≤ 65535 * w / maxW ep := by
    have := h0 w hmem; positivity
  rw [hval]
  exact ⟨maxW_ge ep, hmaxmem, (rnd_bounds _ hx).1, (rnd_bounds _ hx).2⟩

/-- An endpoint without a usable weight (0) gets the rounded scaled mean of the non-zero weights. -/
theorem zero_weight_gets_mean (ep : List ℚ) (h0 : ∀ w ∈ ep, 0 ≤ w) (ws : List Nat)
    (h : newScheduler ep = some (.edf ws)) (i : Nat) (hget : ep[i]? = some 0) :
    let mean : ℚ := ep.sum / ((ep.countP (fun w => decide (w ≠ 0)) : ℕ) : ℚ)
    ((ws.getD i 0 : ℕ) : ℚ) ≤ 65535 * mean / maxW ep + 1 / 2 ∧
    65535 * mean / maxW ep - 1 / 2 < ((ws.getD i 0 : ℕ) : ℚ) := by
  obtain ⟨rfl, hn, hz, _⟩ := newScheduler_edf ep ws h
  have hz' : numZero ep < ep.length := by omega
  have hpos := maxW_pos ep h0 hz'
  have hcount : ep.countP (fun w => decide (w ≠ 0)) = ep.length - numZero ep := by
    have := count_nonzero_add ep; omega
  have := scaledWeights_get ep i 0 hget
  rw [if_pos rfl] at this
  intro mean
  have hval : (scaledWeights ep).getD i 0 = rnd (65535 * mean / maxW ep) := by
    simp only [List.getD_eq_getElem?_getD, this, Option.getD_some, meanW_eq, maxWeight_cast, mean, hcount]
    congr 1; ring
  have hs : (0 : ℚ) ≤ ep.sum := List.sum_nonneg h0
  have hx : (0 : ℚ) ≤ 65535 * mean / maxW ep := by
    have : (0 : ℚ) ≤ mean := by simp only [mean]; positivity
    positivity
  rw [hval]
  exact rnd_bounds _ hx

/-- Round robin is returned in exactly these cases: a single endpoint, at most one non-zero
    weight, or all (scaled) weights equal. -/
theorem rr_fallback_iff (ep : List ℚ) (k : Nat) :
    newScheduler ep = some (.rr k) ↔
      ep ≠ [] ∧ k = ep.length ∧
        (ep.length = 1 ∨ ep.countP (fun w => decide (w ≠ 0)) < 2 ∨ allEqual ep = true) := by
  rw [newScheduler_rr_iff]
  have hcount := count_nonzero_add ep
  constructor
  · rintro ⟨h1, h2, h3⟩
    refine ⟨h1, h2, ?_⟩
    rcases h3 with h | h | h
    · exact Or.inl h
    · exact Or.inr (Or.inl (by omega))
    · exact Or.inr (Or.inr h)
  · rintro ⟨h1, h2, h3⟩
    refine ⟨h1, h2, ?_⟩
    rcases h3 with h | h | h
    · exact Or.inl h
    · exact Or.inr (Or.inl (by omega))
    · exact Or.inr (Or.inr h)

/-- Fewer than two non-zero weights ⇒ plain round robin over all n endpoints. -/
theorem rr_when_fewer_than_two_nonzero (ep : List ℚ) (hne : ep ≠ [])
    (h : ep.countP (fun w => decide (w ≠ 0)) < 2) : newScheduler ep = some (.rr ep.length) :=
  (rr_fallback_iff ep ep.length).mpr ⟨hne, rfl, Or.inr (Or.inl h)⟩

/-- All usable weights equal ⇒ plain round robin (endpoints without a weight get the same mean). -/
theorem rr_when_all_equal (ep : List ℚ) (hne : ep ≠ []) (c : ℚ) (hc : 0 < c)
    (h : ∀ w ∈ ep, w = 0 ∨ w = c) : newScheduler ep = some (.rr ep.length) := by
  rw [newScheduler_rr_iff]
  refine ⟨hne, rfl, ?_⟩
  by_cases hz : numZero ep ≥ ep.length - 1
  · exact Or.inr (Or.inl hz)
  · exact Or.inr (Or.inr (allEqual_of_two_valued ep c hc h (by omega)))

/-! ## 4. the two halves together -/

/-- Whatever EDF scheduler newScheduler builds from non-negative weights, every pick from a counter
    value with no wrap inside the next n numbers ends within n sequence numbers. -/
theorem wrr_pick_terminates (ep : List ℚ) (h0 : ∀ w ∈ ep, 0 ≤ w) (ws : List Nat)
    (h : newScheduler ep = some (.edf ws)) (v fuel : Nat)
    (hv : v + ws.length < seqMod) (hfuel : ws.length ≤ fuel) :
    ∃ j k, 1 ≤ k ∧ k ≤ ep.length ∧ edfNext fuel ws v = some (j, v + k) := by
  obtain ⟨hlen, i, hi, hmax⟩ := scaled_has_max ep h0 ws h
  obtain ⟨j, k, h1, h2, h3⟩ := pick_terminates_within_n_partial ws i v fuel hi hmax hv hfuel
  exact ⟨j, k, h1, by omega, h3⟩

/-- … and every window of 65535·n sequence numbers chooses endpoint i exactly (scaled weight)
    times. -/
theorem wrr_exact_proportion (ep : List ℚ) (h0 : ∀ w ∈ ep, 0 ≤ w) (ws : List Nat)
    (h : newScheduler ep = some (.edf ws)) (i s : Nat) (hi : i < ep.length) :
    chosenCount ws i s (65535 * ep.length) = ws.getD i 0 := by
  obtain ⟨hlen, _⟩ := scaled_has_max ep h0 ws h
  rw [← hlen]
  exact chosenCount_window ws i s (by omega) (scaled_le_max ep h0 ws h i)

/-! ## 5. endpointWeight: the weight of an endpoint along any history of load reports -/

/-- A non-empty report stores qps / (utilization + eps/qps · penalty), utilization being the
    application utilization or, when that is 0, the CPU utilization. -/
theorem weight_formula (penalty : ℚ) (now : Int) (w : EW ℚ) (r : Report ℚ) (h : r.empty = false) :
    (onLoadReport penalty now w r).weightVal =
      r.rps / ((if r.appUtil = 0 then r.cpuUtil else r.appUtil) + r.eps / r.rps * penalty)
    ∧ (onLoadReport penalty now w r).lastUpdated = some now := by
  simp only [onLoadReport, h, Report.weight, Report.utilization, div_rat, add_rat, mul_rat, eq_rat, zero_rat]
  simp

/-- A report with utilization 0 (both fields) or qps 0 is ignored. -/
theorem report_ignored_when_empty {α : Type} [Arith α] (penalty : α) (now : Int) (w : EW α) (r : Report α)
    (h : r.empty = true) : onLoadReport penalty now w r = w := by
  simp [onLoadReport, h]

/-- Before the first (non-empty) load report the weight is 0, whatever else happened. -/
theorem weight_zero_before_first_report {α : Type} [Arith α] (penalty : α) (evs : List (Ev α))
    (h : ∀ e ∈ evs, e.nonEmptyReport = false) (now exp blackout : Int) :
    (weight now exp blackout (runEv penalty EW.init evs)).2 = Arith.zero := by
  have := (runEv_quiet penalty evs EW.init h).1
  unfold weight
  rw [this]; rfl

/-- After the expiration period since the latest non-empty report the weight is 0. -/
theorem weight_zero_after_expiry {α : Type} [Arith α] (penalty : α) (pre post : List (Ev α)) (t : Int)
    (r : Report α) (hr : r.empty = false) (hpost : ∀ e ∈ post, e.nonEmptyReport = false)
    (now exp blackout : Int) (hexp : now - t ≥ exp) :
    (weight now exp blackout (runEv penalty EW.init (pre ++ [Ev.report t r] ++ post))).2 = Arith.zero := by
  rw [runEv_append, runEv_append]
  have h1 := (runEv_quiet penalty post (runEv penalty (runEv penalty EW.init pre) [Ev.report t r]) hpost).1
  have h2 : (runEv penalty (runEv penalty EW.init pre) [Ev.report t r]).lastUpdated = some t := by
    simp [runEv, applyEv, onLoadReport, hr]
  unfold weight
  rw [h1, h2]
  simp [hexp]

/-- During the blackout period — less than `blackout` since every non-empty report so far — the
    weight is 0. -/
theorem weight_zero_in_blackout {α : Type} [Arith α] (penalty : α) (evs : List (Ev α)) (t0 : Int)
    (hall : ∀ t r, Ev.report t r ∈ evs → r.empty = false → t0 ≤ t)
    (now exp blackout : Int) (hb : blackout ≠ 0) (hnow : now - t0 < blackout) :
    (weight now exp blackout (runEv penalty EW.init evs)).2 = Arith.zero := by
  have hs := runEv_since penalty evs EW.init
  unfold weight
  cases hlu : (runEv penalty EW.init evs).lastUpdated with
  | none => rfl
  | some lu =>
    simp only
    split
    · rfl
    · cases hne : (runEv penalty EW.init evs).nonEmptySince with
      | none => simp [hb]
      | some ne =>
        have hge : t0 ≤ ne := by
          rcases hs ne hne with h1 | ⟨r, hr, hre⟩
          · cases h1
          · exact hall ne r hr hre
        have : now - ne < blackout := by omega
        simp [hb, this]

/-- Otherwise the weight is the one of the latest non-empty report: if that report (time t) is
    younger than the expiration period, and the blackout period is 0 or has elapsed since
    `nonEmptySince`, the result is exactly that report's formula; in any case it is that or 0. -/
theorem weight_is_latest_report_otherwise {α : Type} [Arith α] (penalty : α) (pre post : List (Ev α))
    (t : Int) (r : Report α) (hr : r.empty = false) (hpost : ∀ e ∈ post, e.nonEmptyReport = false)
    (now exp blackout : Int) :
    let st := runEv penalty EW.init (pre ++ [Ev.report t r] ++ post)
    ((weight now exp blackout st).2 = Arith.zero ∨ (weight now exp blackout st).2 = r.weight penalty) ∧
    (now - t < exp → (blackout = 0 ∨ ∃ ne, st.nonEmptySince = some ne ∧ blackout ≤ now - ne) →
      (weight now exp blackout st).2 = r.weight penalty) := by
  intro st
  have hst : st = runEv penalty (runEv penalty (runEv penalty EW.init pre) [Ev.report t r]) post := by
    simp only [st]; rw [runEv_append, runEv_append]
  have h1 := runEv_quiet penalty post (runEv penalty (runEv penalty EW.init pre) [Ev.report t r]) hpost
  have h2 : (runEv penalty (runEv penalty EW.init pre) [Ev.report t r]).lastUpdated = some t ∧
      (runEv penalty (runEv penalty EW.init pre) [Ev.report t r]).weightVal = r.weight penalty := by
    simp [runEv, applyEv, onLoadReport, hr]
  have hlu : st.lastUpdated = some t := by rw [hst, h1.1, h2.1]
  have hwv : st.weightVal = r.weight penalty := by rw [hst, h1.2, h2.2]
  constructor
  · unfold weight
    rw [hlu]
    simp only
    (repeat' split) <;> simp [hwv]
  · intro hexp hbl
    unfold weight
    rw [hlu]
    have : ¬ (now - t ≥ exp) := by omega
    simp only [this, if_false]
    rcases hbl with hb0 | ⟨ne, hne, hge⟩
    · simp [hb0, hwv]
    · have : ¬ (now - ne < blackout) := by omega
      simp [hne, this, hwv]

/-- Once a query has seen the data expired, `nonEmptySince` is cleared, so the next non-empty
    report (time t') restarts the blackout period: a query less than `blackout` later gives 0. -/
theorem blackout_reapplied_after_expiry {α : Type} [Arith α] (penalty : α) (w : EW α) (lu : Int)
    (hlu : w.lastUpdated = some lu) (nowq exp blackout : Int) (hexp : nowq - lu ≥ exp)
    (t' : Int) (r : Report α) (hr : r.empty = false) (now : Int) (hb : blackout ≠ 0)
    (hnow : now - t' < blackout) :
    let w1 := (weight nowq exp blackout w).1
    w1.nonEmptySince = none ∧
    (onLoadReport penalty t' w1 r).nonEmptySince = some t' ∧
    (weight now exp blackout (onLoadReport penalty t' w1 r)).2 = Arith.zero := by
  intro w1
  have h1 : w1.nonEmptySince = none := by
    simp only [w1, weight, hlu, hexp, if_true]
  have h2 : (onLoadReport penalty t' w1 r).nonEmptySince = some t' := by
    simp [onLoadReport, hr, h1]
  refine ⟨h1, h2, ?_⟩
  have h3 : (onLoadReport penalty t' w1 r).lastUpdated = some t' := by
    simp [onLoadReport, hr]
  unfold weight
  rw [h3]
  simp only
  split
  · rfl
  · simp [h2, hb, hnow]

/-! ## non-vacuity -/

example : edfNext 4 [1, 1, 65535] 4294967294 = some (2, 2) := by decide
example : edfNext 3 [1, 1, 65535] 10 = some (2, 11) := by decide
example : edfTry [21845, 43690, 65535] 7 = some 1 := by decide
example : newScheduler ([1, 2, 3] : List ℚ) = some (.edf [21845, 43690, 65535]) := by
  have hm : maxW ([1, 2, 3] : List ℚ) = 3 := by
    simp [maxW, lt_rat, zero_rat]; norm_num
  have hnz : numZero ([1, 2, 3] : List ℚ) = 0 := by simp [numZero, eq_rat, zero_rat]
  have hmean : meanW ([1, 2, 3] : List ℚ) = 43690 := by
    rw [meanW_eq, hm, hnz, maxWeight_cast]; apply rnd_val <;> norm_num
  have s1 : scaled ([1, 2, 3] : List ℚ) 1 = 21845 := by
    rw [scaled_eq, hm, maxWeight_cast]; apply rnd_val <;> norm_num
  have s2 : scaled ([1, 2, 3] : List ℚ) 2 = 43690 := by
    rw [scaled_eq, hm, maxWeight_cast]; apply rnd_val <;> norm_num
  have s3 : scaled ([1, 2, 3] : List ℚ) 3 = 65535 := by
    rw [scaled_eq, hm, maxWeight_cast]; apply rnd_val <;> norm_num
  simp [newScheduler, hnz, allEqual, scaledWeights, hmean, s1, s2, s3, eq_rat, zero_rat]
example : newScheduler ([0, 0, 3] : List ℚ) = some (.rr 3) :=
  rr_when_fewer_than_two_nonzero _ (by simp) (by simp [List.countP_cons])
example : newScheduler ([5, 0, 5] : List ℚ) = some (.rr 3) :=
  rr_when_all_equal _ (by simp) 5 (by norm_num) (by simp)
example : newScheduler ([] : List ℚ) = none := rfl

end GrpcProofs.C36
