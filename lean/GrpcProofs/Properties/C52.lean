/-
C52  ALTS records round-trip exactly and tampering is always detected (under an ideal AEAD).
Model: GrpcModel/Model/Alts.lean (framing, chunking, reassembly, counter; AES-GCM idealised as stated
there).  Helper lemmas: GrpcProofs/Lemmas/Alts.lean.
-/
import GrpcProofs.Lemmas.Alts
namespace GrpcProofs.C52
open GrpcModel.Alts GrpcModel.Generated GrpcProofs.Lemmas.Alts

/-- all cells handed to the receiver by a sequence of ops, in order -/
def feedsOf : List Op → List Cell
  | [] => []
  | .feed cs :: ops => cs ++ feedsOf ops
  | .read _ :: ops => feedsOf ops

/-- TAMPERING / DROPPING / REORDERING: whatever cells the network delivers, in whatever
    segmentation, with whatever Read sizes, the bytes returned by Read are a PREFIX of the bytes the
    peer wrote — a Read fails (or blocks) rather than return wrong plaintext. -/
theorem tamper_detected (sent : List (List UInt8)) (cmax : Nat) (ops : List Op) :
    (run (R.init sent cmax) ops).2 <+: sent.flatten := by
  have h := run_safe ops (R.init sent cmax) [] (by simp [R.init])
  obtain ⟨h1, h2⟩ := h
  simp only [List.nil_append] at h1
  rw [h2] at h1
  have hs : (R.init sent cmax).sent = sent := rfl
  rw [hs] at h1
  refine ⟨(run (R.init sent cmax) ops).1.buf ++ (sent.drop (run (R.init sent cmax) ops).1.ctr).flatten, ?_⟩
  rw [← List.append_assoc, h1, ← List.flatten_append, List.take_append_drop]

theorem run_clean (ops : List Op) (r : R) (tail : List Cell) (h : Clean r (feedsOf ops ++ tail)) :
    Clean (run r ops).1 tail := by
  induction ops generalizing r with
  | nil => simpa [run, feedsOf] using h
  | cons o ops ih =>
    cases o with
    | feed cs =>
      simp only [run]
      apply ih
      apply clean_feed
      simpa [feedsOf, List.append_assoc] using h
    | read n =>
      simp only [run]
      apply ih
      exact (clean_read r _ n (by simpa [feedsOf] using h)).1

/-- ROUND TRIP for ANY segmentation of the ciphertext stream and ANY Read sizes: if what the
    network delivered is exactly the peer's records (cut into arbitrary pieces, interleaved with
    Reads arbitrarily), no Read fails, and as soon as a Read would block, everything the peer wrote
    has been returned, in order, exactly once. -/
theorem roundtrip_any_segmentation (sent : List (List UInt8)) (cmax : Nat) (ops : List Op) (n : Nat)
    (hfeeds : feedsOf ops = cellsFrom 0 sent)
    (hsmall : ∀ p ∈ sent, p.length + 20 ≤ 1048576) (hctr : sent.length ≤ cmax) :
    let r := (run (R.init sent cmax) ops).1
    r.err = none ∧ (∀ e, (GrpcModel.Alts.read r n).2 ≠ .fail e) ∧
    ((GrpcModel.Alts.read r n).2 = .block → (run (R.init sent cmax) ops).2 = sent.flatten) := by
  intro r
  have c0 : Clean (R.init sent cmax) (feedsOf ops ++ []) := by
    refine ⟨rfl, ?_, hsmall, hctr⟩
    simp [R.init, hfeeds]
  have c := run_clean ops (R.init sent cmax) [] c0
  have cr := clean_read r [] n c
  refine ⟨c.noErr, cr.2.1, ?_⟩
  intro hb
  obtain ⟨hbuf, hall⟩ := cr.2.2 hb rfl
  have h := run_safe ops (R.init sent cmax) [] (by simp [R.init])
  obtain ⟨h1, h2⟩ := h
  simp only [List.nil_append] at h1
  change (run (R.init sent cmax) ops).2 ++ r.buf = (r.sent.take r.ctr).flatten at h1
  rw [hbuf, List.append_nil, List.take_of_length_le hall] at h1
  rw [h1]
  show r.sent.flatten = sent.flatten
  rw [show r.sent = (R.init sent cmax).sent from h2]; rfl

/-- conn.Write cuts the plaintext into payloads of at most payloadLengthLimit bytes whose
    concatenation is the plaintext (so, with the two theorems above, the peer reads exactly the
    written bytes). -/
theorem write_chunks (neg : Nat) (b : List UInt8) :
    (chunks (payloadLimit neg) b.length b).flatten = b ∧
    ∀ c ∈ chunks (payloadLimit neg) b.length b, c.length ≤ payloadLimit neg ∧ c ≠ [] :=
  chunks_spec (payloadLimit neg) (by simp [payloadLimit, altsRecordDefaultLength, overhead, msgLenFieldSize, msgTypeFieldSize, tagSize, gcmTagSize]; omega)
    b.length b (Nat.le_refl _)

/-- Every record on the wire respects the frame size limit max(4 KiB, negotiated). -/
theorem record_le_frame_limit (neg k : Nat) (p : List UInt8) (h : p.length ≤ payloadLimit neg) :
    (recordCells k p).length ≤ max 4096 neg := by
  rw [recordCells_length]
  simp [payloadLimit, altsRecordDefaultLength, overhead, msgLenFieldSize, msgTypeFieldSize, tagSize, gcmTagSize] at h
  omega

/-- and for every negotiated size up to 1 MiB the receiver's length check accepts it -/
theorem record_accepted_by_length_check (neg : Nat) (hn : neg ≤ 1048576) (p : List UInt8)
    (h : p.length ≤ payloadLimit neg) : p.length + 20 ≤ 1048576 := by
  simp [payloadLimit, altsRecordDefaultLength, overhead, msgLenFieldSize, msgTypeFieldSize, tagSize, gcmTagSize] at h
  omega

/-- The record counter (12 bytes, little-endian, the first `n` = overflowLen bytes carry): Inc adds
    one to the n-byte value, leaves the other bytes alone, and turns invalid exactly when the value
    would wrap — so no counter value (nonce) repeats, and sealing fails once it would. -/
theorem counter_inc (bs : List Nat) (n : Nat) (hb : ∀ b ∈ bs, b < 256) (hn : n ≤ bs.length) :
    ((incBytes bs n).2 = false → leVal (incBytes bs n).1 n = leVal bs n + 1) ∧
    ((incBytes bs n).2 = true ↔ leVal bs n + 1 = 256 ^ n) ∧
    (incBytes bs n).1.drop n = bs.drop n := by
  have := incBytes_spec bs n hb hn
  exact ⟨this.1, this.2.1, this.2.2.1⟩

/-- the receiver refuses every record once its counter is exhausted -/
theorem seal_fails_after_wrap (r : R) (msg : List Cell) (h : r.ctrMax ≤ r.ctr) (p : List UInt8) :
    openFrame r msg ≠ .ok p := by
  intro ho
  have := (openFrame_ok r msg p ho).2
  omega

-- non-vacuity: two records, fed in three odd pieces, read with small buffers
example :
    let sent : List (List UInt8) := [[1, 2, 3], [4, 5]]
    let w := cellsFrom 0 sent
    (run (R.init sent 10) [.feed (w.take 5), .read 2, .feed ((w.drop 5).take 30), .read 2, .read 2,
      .feed (w.drop 35), .read 2, .read 2]).2 = [1, 2, 3, 4, 5] := by decide
-- a flipped ciphertext byte: the first record still comes out, the second Read fails
example :
    let sent : List (List UInt8) := [[1, 2, 3], [4, 5]]
    let w := cellsFrom 0 sent
    (run (R.init sent 10) [.feed ((w.take 40).set 36 (.junk 7)), .feed (w.drop 40), .read 8, .read 8]).2
      = [1, 2, 3] := by decide
example : (incBytes [255, 255, 7, 0] 2) = ([0, 0, 7, 0], true) := by decide
example : (incBytes [255, 3, 7, 0] 2) = ([0, 4, 7, 0], false) := by decide

end GrpcProofs.C52
