/-
C20  Connection backoff stays within the documented bounds.
Property theorems only; helper lemmas are in GrpcProofs/Lemmas/Backoff.lean.

`backoffSat` is `Exponential.Backoff` read over the reals, with the saturating conversion the code
performs since /repo commit 8a2d107 (`if backoff >= math.MaxInt64 { return math.MaxInt64 }`).
-/
import GrpcProofs.Lemmas.Backoff
namespace GrpcProofs.C20
open GrpcModel.Backoff

/-- For retry count 0 the backoff is the base delay (any conversion, any configuration). -/
theorem retries0_is_base (conv : Rat → Int) (c : Config) (r : Rat) : backoffWith conv c 0 r = c.base :=
  Lemmas.Backoff.backoffWith_zero conv c r

/-- Never negative: for every configuration (jitter > 1, multiplier < 1, negative or huge delays
    included), every retry count n ≠ 0 and every draw; for n = 0 it is the base delay, so
    non-negative iff the configured BaseDelay is. -/
theorem nonneg (c : Config) (n : Int) (r : Rat) (h : n = 0 → 0 ≤ c.base) : 0 ≤ backoffSat c n r := by
  by_cases hn : n = 0
  · subst hn; rw [show backoffSat c 0 r = c.base from Lemmas.Backoff.backoffWith_zero _ c r]; exact h rfl
  · exact Lemmas.Backoff.backoffSat_nonneg_of_ne c n r hn

/-- The band: n ≥ 1, multiplier ≥ 1, jitter ∈ [0,1], draw r ∈ [0,1] (Go draws from [0,1)):
    conv((1-j)·m) ≤ Backoff(n) ≤ conv((1+j)·m) with m = min(base·mult^n, maxDelay) and conv the
    truncating, saturating conversion characterised by `saturates`. -/
theorem band (c : Config) (n : Nat) (r : Rat) (hb : 0 ≤ c.base) (hx : 0 ≤ c.maxDelay) (hm : 1 ≤ c.mult)
    (hj0 : 0 ≤ c.jitter) (hj1 : c.jitter ≤ 1) (hn : 1 ≤ n) (hr0 : 0 ≤ r) (hr1 : r ≤ 1) :
    satConv ((1 - c.jitter) * target c n) ≤ backoffSat c n r ∧
    backoffSat c n r ≤ satConv ((1 + c.jitter) * target c n) :=
  Lemmas.Backoff.band c n r hb hx hm hj0 hj1 hn hr0 hr1

/-- Saturating rather than wrapping: on non-negative reals the conversion is monotone, stays in
    [0, MaxInt64], truncates below 2^63 and is MaxInt64 from 2^63 on. -/
theorem saturates (x y : Rat) (hx : 0 ≤ x) (hxy : x ≤ y) :
    0 ≤ satConv x ∧ satConv x ≤ satConv y ∧ satConv y ≤ maxInt64 ∧
    (x < two63 → (satConv x : Rat) ≤ x ∧ x < ((satConv x + 1 : Int) : Rat)) ∧
    (two63 ≤ x → satConv x = maxInt64) := by
  refine ⟨Lemmas.Backoff.satConv_nonneg hx, Lemmas.Backoff.satConv_mono hxy, Lemmas.Backoff.satConv_le_max y, ?_, ?_⟩
  · intro h
    rw [Lemmas.Backoff.satConv_of_lt h]
    exact ⟨Rat.floor_le x, Rat.lt_floor_add_one x⟩
  · exact Lemmas.Backoff.satConv_of_ge

/-- The loop-and-clamp of the code computes the property's `min(base·mult^n, maxDelay)`
    (multiplier ≥ 1, base ≥ 0; any maxDelay). -/
theorem grow_is_min (c : Config) (n : Nat) (hb : 0 ≤ c.base) (hm : 1 ≤ c.mult) :
    core c n = min (c.base * c.mult ^ n) c.maxDelay :=
  Lemmas.Backoff.core_eq_target c n hb hm

-- (Finding F1 — the float→int64 conversion wrapping to MinInt64 — was documented here by
-- `go_conversion_negative_counterexample` / `go_agrees_below_2_63` until /repo commit 8a2d107 added the
-- saturation; `backoffSat` is now the code itself and `nonneg` / `band` / `saturates` hold of it in full.)

/-- A subchannel whose attempt failed at t with backoff b starts no attempt before t + b unless
    ResetConnectBackoff intervenes: for every sequence of connect / dial-failed / dial-ok / timer /
    reset / connection-lost events with non-decreasing timestamps (any strategy answers, negative
    ones included). `paced` is the predicate the monitor evaluates on the real event log. -/
theorem waits_at_least_backoff_unless_reset (ins : List In) (t0 : Int) (h : Mono t0 ins) :
    paced (trace {} ins) = true :=
  Lemmas.Backoff.paced_trace ins {} t0 h

/-- The index handed to the strategy is always the number of failed attempts since the last
    successful connection or reset (so it restarts at 0 after a success). -/
theorem idx_counts_failures_since_success_or_reset (ins : List In) : idxOk 0 (trace {} ins) = true :=
  Lemmas.Backoff.idxOk_trace ins {}

/-- "Success; reset backoff." -/
theorem idx_resets_on_success (s : AC) (b now : Int) (h : s.phase = .connecting b) :
    (acStep s (.dialOk now)).1.idx = 0 ∧ (acStep s (.dialOk now)).1.phase = .ready := by
  simp [acStep, h]

/-- ResetConnectBackoff zeroes the index in every state and cuts a running backoff short. -/
theorem idx_resets_on_reset (s : AC) (now : Int) :
    (acStep s (.resetBackoff now)).1.idx = 0 ∧
    (∀ u b, s.phase = .backoff u b → (acStep s (.resetBackoff now)).1.phase = .idle) := by
  unfold acStep
  cases hp : s.phase <;> simp

-- non-vacuity
example : paced [.fail 10 5, .dial 14] = false := by decide
example : paced [.fail 10 5, .reset, .dial 11] = true := by decide
example : idxOk 0 [.ask 0, .dial 0, .fail 0 1, .ask 1, .dial 1, .ok, .ask 0] = true := by decide
example : idxOk 0 [.ask 0, .dial 0, .fail 0 1, .ask 0] = false := by decide
example : trace {} [.connect 0 7, .dialFailed 2, .timer 8, .timer 9, .connect 9 3] =
    [.ask 0, .dial 0, .fail 2 7, .ask 1, .dial 9] := by decide
example : Mono 0 [.connect 0 7, .dialFailed 2, .timer 9] := by simp [Mono, In.time]

end GrpcProofs.C20
