import GrpcProofs.Lemmas.LoopyC02Trace
/-!
# C02  Outbound per-stream byte order, completeness and END_STREAM placement

Model: `GrpcModel/Model/Loopy.lean`; property predicate: `GrpcModel.Loopy.C02` in `GrpcModel/Model/LoopySpec.lean`
(read its header: byte identity = offset in the stream's application byte stream; what is demanded of the frames; what is
demanded of the environment, on whose breach a stream is marked `wild` and no longer judged).

All theorems quantify over the side and over EVERY finite history of control items and `processData` calls.
-/
namespace GrpcProofs.C02
open GrpcModel.Loopy GrpcModel.Loopy.C02 GrpcProofs.Loopy

/-- **C02.** The trace of every history satisfies the executable C02 predicate (the one the monitor evaluates on the real
writer's frames): per stream, DATA frames carry consecutive byte ranges of what the application wrote, never more; END_STREAM sits
on the frame that ends the stream and nothing follows it; trailers come only after all DATA written before them; no frame follows
trailers, RST_STREAM or `cleanupStream` (except the RST_STREAM belonging to the same close). -/
theorem c02_holds (side : Side) (ops : List Op) : C02.holds (trace side ops) = true := by
  have := (runFrom_ord (wf_init side) (ord_init side) ops).1
  simp only [holds, trace, run, this, Option.isNone_none]

/-- The refinement invariant behind it, at the end of every history: unless `run()` has returned, every stream the spec still
judges is established in the writer iff it is open in the spec, and then the writer's queue is exactly the unsent suffix of the
application byte stream: ghost offsets consecutive from `sent`, `sent + queued = written`, trailers and END_STREAM queued at the
positions where the application asked for them. -/
theorem refinement_invariant (side : Side) (ops : List Op) :
    let s := final side ops
    let m := (runMon Mon.init (trace side ops)).1
    s.closed = true ∨ ∀ id, (m.str id).wild = true ∨
      (((m.str id).phase = .open ↔ id ∈ s.keys) ∧ (id ∈ s.keys → QInv (s.str id) (m.str id))) :=
  (runFrom_ord (wf_init side) (ord_init side) ops).2

/-- Completeness: whenever the queue of an established, judged stream is empty, everything the application wrote has been put on the
wire (`sent = written`: no loss), including the END_STREAM it asked for. -/
theorem drained_complete (side : Side) (ops : List Op) (id : Nat) :
    let s := final side ops
    let m := (runMon Mon.init (trace side ops)).1
    s.closed = false → id ∈ s.keys → (m.str id).wild = false → (s.str id).items = [] →
      (m.str id).sent = (m.str id).written ∧ ((m.str id).esAt.isSome → (m.str id).esSent = true) := by
  intro s m hc hk hw hnil
  rcases refinement_invariant side ops with h | h
  · rw [hc] at h; cases h
  · rcases h id with h | ⟨_, h2⟩
    · rw [hw] at h; cases h
    · have q := h2 hk
      have hlen := q.len
      have hes := q.es
      rw [hnil] at hlen hes
      simp only [pend, ePos] at hlen hes
      refine ⟨by rw [q.wr]; omega, ?_⟩
      intro hsome
      cases hb : (m.str id).esSent
      · rw [hb] at hes; simp only [Bool.false_eq_true, if_false] at hes; rw [hes] at hsome; cases hsome
      · rfl

/-- `processData` never hits its unchecked `str.itl.peek().(*dataFrame)` on an empty queue or on trailers, and the model never
leaves its domain on its own: no step of any history panics. -/
theorem no_panic (side : Side) (ops : List Op) : Wf (final side ops) := wf_reachable side ops

/-- Order, no loss, no duplication, END_STREAM placement, read off the wire: for every stream that is judged to the end of the
history, the DATA frames (`wire id` = their `(offset, size, END_STREAM)` in wire order) carry consecutive byte ranges of the
application byte stream starting at offset 0, and only the last of them may carry END_STREAM. -/
theorem data_frames_consecutive (side : Side) (ops : List Op) (id : Nat)
    (hw : ((runMon Mon.init (trace side ops)).1.str id).wild = false) : Seq 0 (wire id (trace side ops)) := by
  have h := c02_holds side ops
  simp only [holds, Option.isNone_iff_eq_none] at h
  have := (runMon_exp h hw).2
  simpa [Exp, Mon.init] using this

/-- The same in bytes: whatever the content `c` of the stream's application byte stream (the concatenation of the 5-byte-prefixed
messages the application wrote), the concatenated DATA payloads on the wire are exactly its first `total` bytes. -/
theorem wire_bytes_are_prefix {α : Type} (c : List α) (side : Side) (ops : List Op) (id : Nat)
    (hw : ((runMon Mon.init (trace side ops)).1.str id).wild = false) :
    payload c (wire id (trace side ops)) = c.take (total (wire id (trace side ops))) := by
  have := seq_payload c (data_frames_consecutive side ops id hw)
  simpa using this

/-- A stream carries END_STREAM at most once and only on its last DATA frame. -/
theorem end_stream_once_and_last (side : Side) (ops : List Op) (id : Nat)
    (hw : ((runMon Mon.init (trace side ops)).1.str id).wild = false) (a b : List (Nat × Nat × Bool)) (o n : Nat)
    (h : wire id (trace side ops) = a ++ (o, n, true) :: b) : b = [] :=
  seq_es_last (data_frames_consecutive side ops id hw) a b o n h

/-! ### non-vacuity: the predicate is falsifiable -/

/-- duplicated bytes -/
example : C02.holds [(.register 1, []), (.data 1 5 10 false, []), (.tick 0, [.data 1 0 5 false]), (.tick 0, [.data 1 0 10 false])] = false := by
  decide
/-- lost bytes -/
example : C02.holds [(.register 1, []), (.data 1 5 10 false, []), (.tick 0, [.data 1 5 10 false])] = false := by decide
/-- END_STREAM before the end -/
example : C02.holds [(.register 1, []), (.data 1 5 10 true, []), (.tick 0, [.data 1 0 5 true])] = false := by decide
/-- DATA after END_STREAM -/
example : C02.holds [(.register 1, []), (.data 1 5 10 true, []), (.tick 0, [.data 1 0 15 true]), (.tick 0, [.data 1 15 0 false])] = false := by
  decide
/-- trailers before all DATA -/
example : C02.holds [(.register 1, []), (.data 1 5 10 false, []), (.serverHeaders 1 true 3 true 0, [.headers 1 true [3], .rst 1 0])] = false := by
  decide
/-- a frame after trailers -/
example : C02.holds [(.register 1, []), (.serverHeaders 1 true 3 false 0, [.headers 1 true [3]]), (.tick 0, [.data 1 0 0 false])] = false := by
  decide
/-- the good case: data, then trailers with their RST_STREAM -/
example : C02.holds [(.register 1, []), (.data 1 5 10 false, []), (.serverHeaders 1 true 3 true 0, []),
    (.tick 0, [.data 1 0 15 false, .headers 1 true [3], .cb .cleanupOnWrite 1, .rst 1 0])] = true := by decide
/-- the model does it: two messages, the second split by the stream window, END_STREAM on the very last frame -/
example : (trace .client [.register 1, .settings [(4, 20)] [], .data 1 5 10 false, .data 1 5 10 true, .tick 0, .tick 0,
      .winUpdate 1 100, .tick 0]).map (·.2) =
    [[], [.settingsAck], [], [], [.cb .onEachWrite 1, .data 1 0 15 false], [.cb .onEachWrite 1, .data 1 15 5 false], [],
     [.cb .onEachWrite 1, .data 1 20 10 true]] := by
  decide

/-- … and that stream is judged to the end (the hypothesis of the three theorems above is satisfiable), with everything sent -/
example : let m := (runMon Mon.init (trace .client [.register 1, .settings [(4, 20)] [], .data 1 5 10 false, .data 1 5 10 true,
      .tick 0, .tick 0, .winUpdate 1 100, .tick 0])).1
    (m.str 1).wild = false ∧ (m.str 1).sent = 30 ∧ (m.str 1).written = 30 ∧ (m.str 1).esSent = true := by
  decide

end GrpcProofs.C02
