import GrpcModel.Model.LoopySpec
namespace GrpcProofs.C02
open GrpcModel.Loopy
theorem placeholder : C02.holds [] = true := by decide
end GrpcProofs.C02
