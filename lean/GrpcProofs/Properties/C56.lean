/-
C56  DNS resolution is paced and targets are parsed correctly.
Model: GrpcModel/Model/Dns.lean.  Helper lemmas: GrpcProofs/Lemmas/Dns.lean.
-/
import GrpcProofs.Lemmas.Dns
namespace GrpcProofs.C56
open GrpcModel.Dns GrpcProofs.Lemmas.Dns

/-! ### pacing (watcher loop), for every event sequence -/

theorem run_inv (D : Nat) (es : List Ev) (w : W) (h : Inv D w) (hd : ∀ e ∈ es, evDelayOk D e) :
    Inv D (run w es) := by
  induction es generalizing w with
  | nil => exact h
  | cons e es ih =>
    simp only [run]
    exact ih _ (step_inv D w e h (hd e (by simp))) (fun e' he' => hd e' (by simp [he']))

theorem doLookup_minI (w : W) (ok : Bool) (d dur : Nat) : (doLookup w ok d dur).minI = w.minI := by
  unfold doLookup; cases ok <;> simp <;> split <;> rfl

theorem doLookup_lookups (w : W) (ok : Bool) (d dur : Nat) :
    (doLookup w ok d dur).lookups = (w.now, ok) :: w.lookups := by
  unfold doLookup; cases ok <;> simp <;> split <;> rfl

theorem step_minI (w : W) (e : Ev) : (step w e).minI = w.minI := by
  cases e with
  | build ok d dur => simp only [step]; split <;> first | rfl | rw [doLookup_minI]
  | resolveNow => simp only [step]; split <;> rfl
  | tick to ok d dur =>
    simp only [step]; split
    · split
      · rfl
      · split
        · rfl
        · rw [doLookup_minI]
    · split <;> rfl
  | close => rfl

theorem run_minI (es : List Ev) (w : W) : (run w es).minI = w.minI := by
  induction es generalizing w with
  | nil => rfl
  | cons x xs ih => simp only [run]; rw [ih, step_minI]

/-- A step that STARTS a lookup at time `t2` directly after a SUCCESSFUL lookup (started at `t1`, returned at
    `lastDone ≥ t1`) satisfies `lastDone + MinResolutionInterval ≤ t2` — the interval is counted from the moment the
    previous lookup RETURNED, however long it took; directly after a FAILED one, `lastDone + D ≤ t2` where D is any
    lower bound of the backoff delays the code drew. For every reachable state. -/
theorem lookup_spacing (D m : Nat) (es : List Ev) (e : Ev) (hd : ∀ x ∈ es, evDelayOk D x)
    (t1 t2 : Nat) (b1 b2 : Bool) (r : List (Nat × Bool))
    (hprev : (run (W.init m) es).lookups = (t1, b1) :: r)
    (hnew : (step (run (W.init m) es) e).lookups = (t2, b2) :: (t1, b1) :: r) :
    (b1 = true → (run (W.init m) es).lastDone + m ≤ t2 ∧ t1 + m ≤ t2) ∧
    (b1 = false → (run (W.init m) es).lastDone + D ≤ t2 ∧ t1 + D ≤ t2) := by
  have i := run_inv D es (W.init m) (inv_init D m) hd
  have hm : (run (W.init m) es).minI = m := run_minI es (W.init m)
  generalize run (W.init m) es = w at *
  obtain ⟨_, _, _, _, _, h5, _, h7, h8, h9, h10, h11, h12⟩ := i
  cases e with
  | build ok d dur =>
    simp only [step] at hnew; split at hnew
    · rename_i hmode; have := (h5 hmode).1; simp [this] at hprev
    all_goals (rw [hprev] at hnew; simp at hnew)
  | resolveNow =>
    simp only [step] at hnew; split at hnew <;> (rw [hprev] at hnew; simp at hnew)
  | close => simp only [step] at hnew; rw [hprev] at hnew; simp at hnew
  | tick to ok d dur =>
    simp only [step] at hnew
    split at hnew
    · rename_i due hmode
      split at hnew
      · rw [hprev] at hnew; simp at hnew
      · split at hnew
        · rw [hprev] at hnew; simp at hnew
        · have e2 : t2 = max w.now due := by
            rw [doLookup_lookups] at hnew
            simp at hnew
            omega
          constructor
          · intro hb; subst hb
            have a := h7 due t1 hmode (by rw [hprev]; rfl)
            have b := h10 due t1 hmode (by rw [hprev]; rfl)
            constructor <;> omega
          · intro hb; subst hb
            have a := h8 due t1 hmode (by rw [hprev]; rfl)
            have b := h11 due t1 hmode (by rw [hprev]; rfl)
            constructor <;> omega
    · split at hnew <;> (rw [hprev] at hnew; simp at hnew)

/-- Every successful lookup that was followed by another lookup was paid for by a distinct
    ResolveNow call: (#successful lookups other than the newest) ≤ #ResolveNow calls. -/
theorem relookups_le_resolveNow (m : Nat) (es : List Ev) :
    countOk (run (W.init m) es).lookups.tail ≤ (run (W.init m) es).rnCalls := by
  have i := run_inv 0 es (W.init m) (inv_init 0 m) (fun e _ => by cases e <;> simp [evDelayOk])
  generalize run (W.init m) es = w at *
  have h1 := i.tokens
  have h2 := i.tailOk
  split at h1 <;> omega

/-- After Close nothing happens any more: no event causes a lookup. -/
theorem stops_when_closed (w : W) (hc : w.mode = .closed) (es : List Ev) :
    (run w es).lookups = w.lookups ∧ (run w es).mode = .closed := by
  induction es generalizing w with
  | nil => exact ⟨rfl, hc⟩
  | cons e es ih =>
    simp only [run]
    have hs : (step w e).lookups = w.lookups ∧ (step w e).mode = .closed := by
      cases e <;> simp only [step, hc] <;> (try split) <;> simp [hc]
    have := ih (step w e) hs.2
    exact ⟨this.1.trans hs.1, this.2⟩

/-- The backoff index counts consecutive failures and resets on success. -/
theorem backoff_index (w : W) (ok : Bool) (d dur : Nat) :
    (doLookup w ok d dur).idx = if ok then 1 else w.idx + 1 := by
  unfold doLookup; cases ok <;> simp <;> split <;> rfl

/-! ### target parsing -/

theorem parse_empty (ip : Bool) (d : List UInt8) : parseTarget ip [] d = .error .missingAddr := rfl

/-- IPv4 / bare IPv6 literal: default port -/
theorem parse_ip (t d : List UInt8) (ne : t ≠ []) : parseTarget true t d = .ok (t, d) := by
  unfold parseTarget; simp [ne]


/-- host:port -/
theorem parse_host_port (hst p d : List UInt8) (h1 : colon ∉ hst) (h2 : lbr ∉ hst) (h3 : rbr ∉ hst)
    (p1 : colon ∉ p) (p2 : lbr ∉ p) (p3 : rbr ∉ p) (pne : p ≠ []) :
    parseTarget false (hst ++ colon :: p) d = .ok (if hst = [] then localhost else hst, p) := by
  unfold parseTarget
  simp [split_plain hst p h1 h2 h3 p1 p2 p3, pne]

/-- host: (trailing colon) is rejected -/
theorem parse_trailing_colon (hst d : List UInt8) (h1 : colon ∉ hst) (h2 : lbr ∉ hst) (h3 : rbr ∉ hst) :
    parseTarget false (hst ++ [colon]) d = .error .endsWithColon := by
  unfold parseTarget
  simp [split_plain hst [] h1 h2 h3 (by simp) (by simp) (by simp)]

/-- [host]:port (host may contain colons: IPv6 literal with a port) -/
theorem parse_bracket_port (hst p d : List UInt8) (h2 : lbr ∉ hst) (h3 : rbr ∉ hst)
    (p1 : colon ∉ p) (p2 : lbr ∉ p) (p3 : rbr ∉ p) (pne : p ≠ []) :
    parseTarget false (lbr :: hst ++ rbr :: colon :: p) d = .ok (if hst = [] then localhost else hst, p) := by
  unfold parseTarget
  simp [split_bracket hst p h2 h3 p1 p2 p3, pne]

/-- [host]: is rejected -/
theorem parse_bracket_trailing_colon (hst d : List UInt8) (h2 : lbr ∉ hst) (h3 : rbr ∉ hst) :
    parseTarget false (lbr :: hst ++ [rbr, colon]) d = .error .endsWithColon := by
  unfold parseTarget
  have := split_bracket hst [] h2 h3 (by simp) (by simp) (by simp)
  simp [this]

/-- [host] gets the default port -/
theorem parse_bracket_default (hst d : List UInt8) (h2 : lbr ∉ hst) (h3 : rbr ∉ hst)
    (d1 : colon ∉ d) (d2 : lbr ∉ d) (d3 : rbr ∉ d) :
    parseTarget false (lbr :: hst ++ [rbr]) d = .ok (hst, d) := by
  unfold parseTarget
  obtain ⟨e, he⟩ := split_bracket_noport hst h3
  have s2 := split_bracket hst d h2 h3 d1 d2 d3
  simp [he, s2]

/-- a host without colon or brackets gets the default port -/
theorem parse_host_default (t d : List UInt8) (ne : t ≠ []) (h1 : colon ∉ t) (h2 : lbr ∉ t) (h3 : rbr ∉ t)
    (d1 : colon ∉ d) (d2 : lbr ∉ d) (d3 : rbr ∉ d) :
    parseTarget false t d = .ok (t, d) := by
  unfold parseTarget
  simp [ne, split_nocolon t h1, split_plain t d h1 h2 h3 d1 d2 d3]

/-- resolved addresses: IPv4 as is, IPv6 bracketed -/
theorem format_ip (a : List UInt8) :
    formatIP 4 a = some a ∧ formatIP 6 a = some (lbr :: a ++ [rbr]) ∧ formatIP 0 a = none := by
  simp [formatIP]

-- non-vacuity
-- "[::1]:80" → ("::1", "80");  ":80" → ("localhost", "80");  "a:b:c" is invalid
example : (parseTarget false [91, 58, 58, 49, 93, 58, 56, 48] [52, 52, 51]).toOption = some ([58, 58, 49], [56, 48]) := by decide
example : (parseTarget false [58, 56, 48] [52, 52, 51]).toOption = some (localhost, [56, 48]) := by decide
example : (parseTarget false [97, 58, 98, 58, 99] [52, 52, 51]).toOption = none := by decide
example : (run (W.init 30) [.build true 0 0, .resolveNow, .tick 10 true 0 0, .tick 30 false 7 0, .tick 37 true 0 0]).lookups
    = [(37, true), (30, false), (0, true)] := by decide
-- a lookup that takes 5: the next one waits MinResolutionInterval from its RETURN (35), not from its start
example : (run (W.init 30) [.build true 0 5, .resolveNow, .tick 34 true 0 0, .tick 35 true 0 0]).lookups
    = [(35, true), (0, true)] := by decide

end GrpcProofs.C56
