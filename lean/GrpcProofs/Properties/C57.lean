/-
C57  Expiring cache and one-shot primitives fire exactly once.

Models: GrpcModel/Model/TimeoutCache.lean (critical sections of Add/Remove/Clear are rules, the
timer goroutine and Clear's callback loop are split into their non-atomic steps),
GrpcModel/Model/Event.lean and GrpcModel/Model/RefCounted.lean (one rule per atomic access;
counting abstraction = any number of goroutines).  Invariants and their preservation:
GrpcProofs/Lemmas/{TimeoutCache,Event,RefCounted}.lean.
All statements are about EVERY reachable state of EVERY interleaving.
-/
import GrpcProofs.Lemmas.TimeoutCache
import GrpcProofs.Lemmas.Event
import GrpcProofs.Lemmas.RefCounted
namespace GrpcProofs.C57

/-! ## TimeoutCache -/
section Cache
open GrpcModel.TimeoutCache GrpcProofs.Lemmas.TimeoutCache

/-- The expiry callback of an entry runs at most once — counting the runs that have happened, the
    run a timer goroutine is about to make (`tm = cb`) and the runs Clear(true) callers still owe. -/
theorem callback_at_most_once {s : St} (h : Reach s) (id : Nat) (hid : id < s.n) :
    (s.ent id).cbRuns + (s.ent id).owed + b2n ((s.ent id).tm = .cb) ≤ 1 := by
  obtain ⟨a1, a2, a3, a4, a5⟩ := (reach_inv h).ent id
  have a2 := a2 hid; have a4 := a4 hid
  grind [b2n, evicted]

/-- An entry that a Remove call returned never has its callback run: not now, not pending, and in
    no continuation of the schedule (even when the timer had already fired and its goroutine was
    waiting for the lock when Remove ran — the `deleted` flag). -/
theorem never_if_removed_first {s : St} (h : Reach s) (id : Nat) (hid : id < s.n)
    (hr : (s.ent id).removed ≥ 1) (rs : List Rule) :
    ((run s rs).ent id).cbRuns = 0 ∧ ((run s rs).ent id).owed = 0 ∧ ((run s rs).ent id).tm ≠ .cb := by
  induction rs generalizing s with
  | nil =>
    simp only [run]
    obtain ⟨a1, a2, a3, a4, a5⟩ := (reach_inv h).ent id
    have a2 := a2 hid; have a4 := a4 hid
    grind [b2n, evicted]
  | cons r rs ih =>
    simp only [run]
    cases st : apply s r with
    | none => exact ih h hid hr
    | some t =>
      have m := step_mono r st id hid
      exact ih (Reach.step r h st) m.1 (by omega)

/-- Exactly once if it expired or was cleared with callbacks:
    (1) the timer goroutine got past its `deleted` check and has finished → the callback ran once;
    (2) the timer fired, no Remove/Clear ever took the entry, goroutine finished → ran once;
    (3) taken by Clear(true) and that caller's loop is through with it → ran once;
    (4) taken by Clear(false) → never;
    (5) nothing can get stuck: a fired timer can always take the lock, a pending callback can
        always run, an owed callback can always be paid. -/
theorem exactly_once_if_expired_or_cleared {s : St} (h : Reach s) (id : Nat) (hid : id < s.n) :
    ((s.ent id).tm = .done → (s.ent id).deleted = false → (s.ent id).cbRuns = 1) ∧
    ((s.ent id).tm = .done → (s.ent id).removed = 0 → (s.ent id).cleared = 0 → (s.ent id).cbRuns = 1) ∧
    ((s.ent id).clearedCb ≥ 1 → (s.ent id).owed = 0 → (s.ent id).cbRuns = 1) ∧
    ((s.ent id).cleared ≥ 1 → (s.ent id).clearedCb = 0 → (s.ent id).cbRuns = 0 ∧ (s.ent id).tm ≠ .cb) ∧
    ((s.ent id).tm = .fired → (apply s (.timerLock id)).isSome) ∧
    ((s.ent id).tm = .cb → (apply s (.timerCall id)).isSome) ∧
    ((s.ent id).owed > 0 → (apply s (.clearCall id)).isSome) := by
  obtain ⟨a1, a2, a3, a4, a5⟩ := (reach_inv h).ent id
  have a2 := a2 hid; have a4 := a4 hid
  refine ⟨?_, ?_, ?_, ?_, ?_, ?_, ?_⟩
  · grind [b2n, evicted]
  · grind [b2n, evicted]
  · grind [b2n, evicted]
  · grind [b2n, evicted]
  · intro ht; simp only [apply]; rw [if_pos ⟨hid, ht⟩]; split <;> rfl
  · intro ht; simp only [apply]; simp_all
  · intro ht; simp only [apply]; simp_all

/-- A removal returns the entry to exactly one caller: over the whole history at most one Remove
    call got this entry, and then no Clear did. -/
theorem remove_returns_to_exactly_one_caller {s : St} (h : Reach s) (id : Nat) (hid : id < s.n) :
    (s.ent id).removed + (s.ent id).cleared ≤ 1 := by
  obtain ⟨a1, a2, a3, a4, a5⟩ := (reach_inv h).ent id
  have a2 := a2 hid
  grind [b2n]

/-- … and the Remove call itself: it returns an item iff the key is mapped; it then credits exactly
    that entry, unmaps the key, and a second Remove of the key (before a new Add) returns nothing. -/
theorem remove_step {s t : St} (h : Reach s) (k : Nat) (st : apply s (.remove k) = some t) :
    (∀ id, s.cache k = some id →
        removeResult s k = some (s.ent id).item ∧ (t.ent id).removed = (s.ent id).removed + 1 ∧
        (s.ent id).removed = 0 ∧ (s.ent id).key = k) ∧
    (s.cache k = none → removeResult s k = none ∧ t = s) ∧
    removeResult t k = none := by
  have hk := (reach_inv h).keyOf
  have i1 := fun id => ((reach_inv h).ent id).inMap
  have i2 := fun id => ((reach_inv h).ent id).taken
  simp only [apply] at st
  split at st <;> simp at st <;> subst st <;> simp only [removeResult]
  · grind
  · grind [setEnt, setKey, stopTimer, b2n]

/-- Entries are told apart by identity, not by key: the timer goroutine of an entry that Remove or
    Clear has already taken (its timer had fired, so it is still queued on the mutex) changes nothing
    in the map when it finally gets the lock — in particular it does not evict a NEW entry that was
    added under the same key in the meantime — and it runs no callback. -/
theorem stale_timer_spares_readded_key {s t : St} (h : Reach s) (id : Nat) (hid : id < s.n)
    (hf : (s.ent id).tm = .fired) (htaken : (s.ent id).removed + (s.ent id).cleared ≥ 1)
    (st : apply s (.timerLock id) = some t) :
    t.cache = s.cache ∧ (t.ent id).tm = .done ∧ (t.ent id).cbRuns = (s.ent id).cbRuns ∧
    (∀ j, j ≠ id → t.ent j = s.ent j) := by
  obtain ⟨a1, a2, a3, a4, a5⟩ := (reach_inv h).ent id
  have a2 := a2 hid
  have hd : (s.ent id).deleted = true := by
    cases hdel : (s.ent id).deleted with
    | true => rfl
    | false => simp [b2n, hf, hdel] at a2; omega
  simp only [apply] at st
  rw [if_pos ⟨hid, hf⟩, if_pos hd] at st
  simp at st; subst st
  refine ⟨rfl, by simp [setEnt], by simp [setEnt], ?_⟩
  intro j hj; simp [setEnt, hj]

/-- Clear's loop `for key := range c.cache` visits entry `id` iff the key stored in the entry maps
    to it (justifies the pointwise form of rule `clear`). -/
theorem clear_visits_iff {s : St} (h : Reach s) (id : Nat) :
    (∃ k, s.cache k = some id) ↔ s.cache (s.ent id).key = some id := by
  constructor
  · rintro ⟨k, hk⟩
    have := ((reach_inv h).keyOf k id hk).2
    rw [this]; exact hk
  · intro h; exact ⟨_, h⟩

/-- Add returns `(existing item, false)` and changes nothing when the key is mapped, else creates
    a fresh armed entry. -/
theorem add_step {s t : St} (k item : Nat) (st : apply s (.add k item) = some t) :
    (s.cache k ≠ none → t = s ∧ (addResult s k item).2 = false) ∧
    (s.cache k = none → (addResult s k item) = (item, true) ∧ t.n = s.n + 1 ∧ t.cache k = some s.n ∧
        (t.ent s.n).tm = .armed ∧ (t.ent s.n).cbRuns = 0) := by
  simp only [apply] at st
  split at st <;> simp at st <;> subst st <;> simp_all [addResult, setEnt, setKey]

-- non-vacuity: expiry runs the callback; Remove after the timer fired suppresses it; Clear(true) runs it
example : ((run init [.add 7 1, .timerFire 0, .timerLock 0, .timerCall 0]).ent 0).cbRuns = 1 := by decide
example : ((run init [.add 7 1, .timerFire 0, .remove 7, .timerLock 0, .timerCall 0]).ent 0).cbRuns = 0 := by decide
example : ((run init [.add 7 1, .timerFire 0, .remove 7, .timerLock 0]).ent 0).tm = .done := by decide
example : ((run init [.add 7 1, .timerFire 0, .clear true, .timerLock 0, .clearCall 0, .clearCall 0]).ent 0).cbRuns = 1 := by decide
example : ((run init [.add 7 1, .remove 7, .add 7 2, .timerFire 1, .timerLock 1]).cache 7) = none := by decide
-- the key is re-added while the removed entry's timer goroutine is still queued: the new entry survives
example : ((run init [.add 7 1, .timerFire 0, .remove 7, .add 7 2, .timerLock 0, .timerCall 0]).cache 7) = some 1 := by decide
example : ((run init [.add 7 1, .timerFire 0, .remove 7, .add 7 2, .timerLock 0, .timerCall 0]).ent 0).cbRuns = 0 := by decide
example : ((run init [.add 7 1, .timerFire 0, .clear true, .clearCall 0, .add 7 2, .timerLock 0, .timerCall 0]).ent 0).cbRuns = 1 := by decide
end Cache

/-! ## Event -/
section Ev
open GrpcModel.Event GrpcProofs.Lemmas.Event

theorem event_reach_inv {s : St} (h : Reach s) : Inv s := by
  induction h with
  | init => exact inv_init
  | step r _ st ih => exact step_inv r ih st

/-- Of any number of concurrent firers exactly one is told `true`:
    at most one ever (counting the one that has won the CAS and not yet returned), and as soon as
    the event is fired there is exactly one such winner; when all calls have returned and there was
    at least one, exactly one `true` has been returned.  The channel is closed exactly once, by the
    winner, before it returns. -/
theorem fire_true_for_exactly_one {s : St} (h : Reach s) :
    s.trues + s.f1 ≤ 1 ∧
    (s.fired = true → s.trues + s.f1 = 1) ∧
    (s.f0 = 0 → s.f1 = 0 → s.trues + s.falses ≥ 1 → s.trues = 1) ∧
    s.closed = s.trues ∧
    (s.falses ≥ 1 → s.fired = true) := by
  obtain ⟨h1, h2, h3⟩ := event_reach_inv h
  grind

/-- a firer that is at its CAS can always take the step (no blocking) and the winner can close -/
theorem fire_progress (s : St) : (s.f0 > 0 → (apply s .casOk).isSome ∨ (apply s .casFail).isSome) ∧
    (s.f1 > 0 → (apply s .close).isSome) := by
  simp only [apply]
  cases hf : s.fired <;> simp_all

example : (run init [.fireStart, .fireStart, .fireStart, .casOk, .casFail, .close, .casFail]).trues = 1 := by decide
example : (run init [.fireStart, .fireStart, .casOk, .casOk, .close, .close]).closed = 1 := by decide
end Ev

/-! ## RefCounted -/
section RC
open GrpcModel.RefCounted GrpcProofs.Lemmas.RefCounted

theorem refcounted_reach_inv {s : St} (h : Reach s) : Inv s := by
  induction h with
  | init => exact inv_init
  | step r _ st ih => exact step_inv r ih st

/-- The cleanup runs exactly once when the count reaches zero: while the count has never been 0 it
    has not run and is not pending; from the moment the count has reached 0 there is exactly one
    cleanup (pending in the goroutine whose Decrement returned 0 — which can always proceed — or
    done), however many more Decrement / TryIncrement calls race with it.  The count has reached 0
    iff it is ≤ 0 now, and until then it equals the number of live references. -/
theorem cleanup_exactly_once_at_zero {s : St} (h : Reach s) (hm : s.misuse = false) :
    s.zeros + s.z = (if s.dead then 1 else 0) ∧
    (s.dead = true ↔ s.cnt ≤ 0) ∧
    (s.dead = false → s.cnt = s.held) ∧
    (s.z > 0 → (apply s .onZero).isSome) := by
  obtain ⟨hp, hl, hg⟩ := refcounted_reach_inv h
  refine ⟨?_, ?_, ?_, ?_⟩
  · cases hd : s.dead <;> grind
  · cases hd : s.dead <;> grind
  · grind
  · intro hz; simp [apply, hz]

/-- the Decrement that takes the count from 1 to 0 is the one that gets the cleanup -/
theorem decrement_to_zero_schedules_cleanup {s t : St} (st : apply s .decr = some t) (h1 : s.cnt = 1) :
    t.z = s.z + 1 ∧ t.dead = true := by
  simp only [apply] at st
  split at st <;> simp at st
  subst st; simp [h1]

/-- No resurrection: once the count has reached 0, no TryIncrement ever returns true again, the
    count stays ≤ 0 and no second cleanup appears — in every continuation of the schedule in which
    Increment's contract (caller holds a live reference) is respected.  Extra Decrement calls and
    TryIncrement goroutines that loaded a positive count before the death are covered. -/
theorem no_resurrection {s : St} (h : Reach s) (hd : s.dead = true) (rs : List Rule)
    (hm : (run s rs).misuse = false) :
    (run s rs).trues = s.trues ∧ (run s rs).cnt ≤ 0 ∧ (run s rs).dead = true ∧
    (run s rs).zeros + (run s rs).z = 1 := by
  induction rs generalizing s with
  | nil =>
    simp only [run] at hm ⊢
    obtain ⟨hp, hl, hg⟩ := refcounted_reach_inv h
    grind
  | cons r rs ih =>
    simp only [run] at hm ⊢
    cases st : apply s r with
    | none => rw [st] at hm; exact ih h hd hm
    | some t =>
      rw [st] at hm
      simp only [] at hm ⊢
      have ht := Reach.step r h st
      -- misuse is sticky, so it is false in s and t as well
      have sticky : ∀ (u : St) (l : List Rule), u.misuse = true → (run u l).misuse = true := by
        intro u l
        induction l generalizing u with
        | nil => intro hu; exact hu
        | cons q l ihl =>
          intro hu
          simp only [run]
          cases sq : apply u q with
          | none => exact ihl u hu
          | some v =>
            apply ihl v
            cases q <;> simp only [apply] at sq <;> (try split at sq) <;> simp at sq <;> subst sq <;> simp [hu]
      have hmt : t.misuse = false := by
        cases hx : t.misuse with
        | false => rfl
        | true => have := sticky t rs hx; simp [this] at hm
      obtain ⟨hp, hl, hg⟩ := refcounted_reach_inv h
      have one : t.trues = s.trues ∧ t.dead = true := by
        cases r <;> simp only [apply] at st <;> (try split at st) <;> simp at st <;> subst st <;> grind
      have := ih ht one.2 hm
      refine ⟨?_, this.2.1, this.2.2.1, this.2.2.2⟩
      rw [this.1, one.1]

/-- TryIncrement on a dead resource: the Load branch returns false, the CAS of a goroutine that
    loaded a positive count earlier cannot succeed. -/
theorem try_increment_fails_when_dead {s : St} (h : Reach s) (hm : s.misuse = false) (hd : s.dead = true)
    (c : Int) : apply s (.casOk c) = none ∧ apply s .tryLoadLive = none := by
  obtain ⟨hp, hl, hg⟩ := refcounted_reach_inv h
  have := hg hm hd
  constructor
  · simp only [apply]; split
    · rename_i hc; have := hp c hc.1; omega
    · rfl
  · simp only [apply]; split
    · omega
    · rfl

-- non-vacuity: a TryIncrement that loaded 1 loses against the Decrement to 0 and then reports false
example : (run init [.tryStart, .tryLoadLive, .decr, .casFail 1, .tryLoadDead, .onZero]).falses = 1 := by decide
example : (run init [.tryStart, .tryLoadLive, .decr, .casFail 1, .tryLoadDead, .onZero]).zeros = 1 := by decide
example : (run init [.tryStart, .tryLoadLive, .casOk 1, .decr, .decr, .onZero]).zeros = 1 := by decide
example : (run init [.tryStart, .tryLoadLive, .casOk 1, .decr]).zeros = 0 := by decide
end RC

end GrpcProofs.C57
