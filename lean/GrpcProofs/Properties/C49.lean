/-
C49  Server filter chain selection is the most specific match.
Property theorems only; helper lemmas are in GrpcProofs/Lemmas/FilterChain.lean.
-/
import GrpcProofs.Lemmas.FilterChain
namespace GrpcProofs.C49
open GrpcModel.FilterChain GrpcModel.Generated GrpcProofs.Lemmas.FilterChain

/-- **Lookup is the most-specific match.**  For every listener that validation accepts and every connection,
    `filterChainManager.lookup` answers what stage-wise narrowing (`Spec.select`: destination prefix — on a
    listener bound to the wildcard address —, source type, source prefix, source port; the default chain when
    nothing is left) answers; the only other possibility, and only on a listener NOT bound to the wildcard
    address, is the error "multiple matching filter chains". -/
theorem lookup_is_most_specific (hasDefault : Bool) (cs : List ChainCfg) (t : Table) (c : Conn)
    (h : build hasDefault cs = .ok t) :
    (c.wild = true → lookup t hasDefault c = Spec.select t hasDefault c)
    ∧ (lookup t hasDefault c = Spec.select t hasDefault c ∨ (c.wild = false ∧ lookup t hasDefault c = .multiple)) := by
  have hw := build_wf hasDefault cs t h
  have := lookup_eq_select t hasDefault c hw
  refine ⟨fun hwild => ?_, this⟩
  rcases this with h1 | ⟨h2, _⟩
  · exact h1
  · rw [hwild] at h2; exact absurd h2 (by simp)

/-- What the narrowing stages keep, stated without any algorithm: a candidate survives a stage iff it survived
    the previous one, matches the connection at this stage, and no other survivor of the previous stage matches
    more specifically (longer prefix; the connection's own source type before ANY; the exact port before the
    port wildcard). The source type of a connection is SAME_IP_OR_LOOPBACK (1) when source = destination address
    or the source is a loopback address, else EXTERNAL (2). -/
theorem select_spec (t : Table) (hasDefault : Bool) (c : Conn) :
    (∀ s, s ∈ Spec.stage1 t c ↔ s ∈ t.slots ∧ (c.wild = true →
        ∃ m, matchSize s.dst c.dst = some m ∧ ∀ s' ∈ t.slots, ∀ k, matchSize s'.dst c.dst = some k → k ≤ m))
    ∧ (∀ s, s ∈ Spec.stage2 t c ↔ s ∈ Spec.stage1 t c ∧
        (s.st = srcTypeOf c ∨ (s.st = 0 ∧ ∀ s' ∈ Spec.stage1 t c, s'.st ≠ srcTypeOf c)))
    ∧ (∀ s, s ∈ Spec.stage3 t c ↔ s ∈ Spec.stage2 t c ∧
        ∃ m, matchSize s.src c.src = some m ∧ ∀ s' ∈ Spec.stage2 t c, ∀ k, matchSize s'.src c.src = some k → k ≤ m)
    ∧ (∀ s, s ∈ Spec.stage4 t c ↔ s ∈ Spec.stage3 t c ∧
        (s.port = c.port ∨ (s.port = 0 ∧ ∀ s' ∈ Spec.stage3 t c, s'.port ≠ c.port)))
    ∧ (srcTypeOf c = if c.src = c.dst ∨ c.src.isLoopback = true then 1 else 2)
    ∧ (∀ id, Spec.select t hasDefault c = .chain id → ∃ s ∈ Spec.stage4 t c, s.chain = id)
    ∧ (Spec.select t hasDefault c = (if hasDefault then .dflt else .none) ↔ Spec.stage4 t c = []) := by
  refine ⟨fun s => ?_, fun s => ?_, fun s => ?_, fun s => ?_, ?_, fun id hid => ?_, ?_⟩
  · unfold Spec.stage1
    cases hw : c.wild
    · simp
    · simp only [↓reduceIte, forall_const]
      exact mem_mostSpecific _ _ s
  · unfold Spec.stage2
    simp only [List.mem_filter, Bool.or_eq_true, beq_iff_eq, Bool.and_eq_true, List.all_eq_true, bne_iff_ne, ne_eq,
      stAny_eq]
  · exact mem_mostSpecific _ _ s
  · unfold Spec.stage4
    simp only [List.mem_filter, Bool.or_eq_true, beq_iff_eq, Bool.and_eq_true, List.all_eq_true, bne_iff_ne, ne_eq]
  · unfold srcTypeOf; rw [stSame_eq, stExternal_eq]
  · unfold Spec.select at hid
    split at hid
    · split at hid <;> simp at hid
    · rename_i s hs
      simp only [Res.chain.injEq] at hid
      exact ⟨s, by rw [hs]; simp, hid⟩
    · simp at hid
  · unfold Spec.select
    split
    · simp [*]
    · rename_i s hs; rw [hs]; cases hasDefault <;> simp
    · rename_i hne1 hne2
      cases hl : Spec.stage4 t c with
      | nil => exact absurd hl hne1
      | cons a tl => cases hasDefault <;> simp

/-- The default filter chain (or, without one, the "no matching filter chain" error) is used only when
    narrowing leaves no filter chain; on a listener bound to the wildcard address also conversely. -/
theorem default_only_if_none_match (hasDefault : Bool) (cs : List ChainCfg) (t : Table) (c : Conn)
    (h : build hasDefault cs = .ok t) :
    (lookup t hasDefault c = .dflt → hasDefault = true ∧ Spec.stage4 t c = [])
    ∧ (lookup t hasDefault c = .none → hasDefault = false ∧ Spec.stage4 t c = [])
    ∧ (c.wild = true → Spec.stage4 t c = [] → lookup t hasDefault c = if hasDefault then .dflt else .none) := by
  obtain ⟨hwild, hdis⟩ := lookup_is_most_specific hasDefault cs t c h
  have hsel : ∀ r, (r = Res.dflt ∨ r = Res.none) → Spec.select t hasDefault c = r →
      Spec.stage4 t c = [] ∧ r = (if hasDefault then .dflt else .none) := by
    intro r hr hs
    unfold Spec.select at hs
    split at hs
    · rename_i h4; exact ⟨h4, hs.symm⟩
    · rcases hr with rfl | rfl <;> simp at hs
    · rcases hr with rfl | rfl <;> simp at hs
  refine ⟨fun hl => ?_, fun hl => ?_, fun hw h4 => ?_⟩
  · rcases hdis with h1 | ⟨_, h2⟩
    · obtain ⟨a, b⟩ := hsel .dflt (Or.inl rfl) (by rw [← h1, hl])
      refine ⟨?_, a⟩
      cases hasDefault <;> simp at b ⊢
    · rw [hl] at h2; simp at h2
  · rcases hdis with h1 | ⟨_, h2⟩
    · obtain ⟨a, b⟩ := hsel .none (Or.inr rfl) (by rw [← h1, hl])
      refine ⟨?_, a⟩
      cases hasDefault <;> simp at b ⊢
    · rw [hl] at h2; simp at h2
  · rw [hwild hw]
    simp [Spec.select, h4]

/-- Validation leaves no ties: in a validated table no two leaves share a (destination prefix, source type,
    source prefix, port) key and every prefix is masked … -/
theorem build_wellformed (hasDefault : Bool) (cs : List ChainCfg) (t : Table) (h : build hasDefault cs = .ok t) :
    t.slots.Pairwise (fun a b => ¬ (a.dst = b.dst ∧ a.st = b.st ∧ a.src = b.src ∧ a.port = b.port))
    ∧ (∀ s ∈ t.slots, Masked s.dst ∧ Masked s.src) :=
  build_wf hasDefault cs t h

/-- … hence, on a listener bound to the wildcard address, narrowing never ends with two filter chains and
    lookup never fails with "multiple matching filter chains". -/
theorem validated_config_has_unique_winner (hasDefault : Bool) (cs : List ChainCfg) (t : Table) (c : Conn)
    (h : build hasDefault cs = .ok t) (hwild : c.wild = true) :
    (Spec.stage4 t c).length ≤ 1 ∧ Spec.select t hasDefault c ≠ .multiple ∧ lookup t hasDefault c ≠ .multiple := by
  have hw := build_wf hasDefault cs t h
  have hlen : (Spec.stage4 t c).length ≤ 1 := by
    have hkd : KeysDistinct (Spec.stage4 t c) := by
      unfold Spec.stage4
      exact List.Pairwise.filter _ (keysDistinct_stage3 t c hw.1)
    have hmem : ∀ s, s ∈ Spec.stage4 t c → s ∈ Spec.stage3 t c ∧
        (s.port = c.port ∨ (s.port = 0 ∧ ∀ s' ∈ Spec.stage3 t c, s'.port ≠ c.port)) :=
      fun s hs => ((select_spec t hasDefault c).2.2.2.1 s).mp hs
    cases h4 : Spec.stage4 t c with
    | nil => simp
    | cons a tl =>
      cases tl with
      | nil => simp
      | cons b tl' =>
        exfalso
        rw [h4] at hkd
        have hab : ¬ SameKey a b := by
          have := (List.pairwise_cons.mp hkd).1 b (by simp)
          exact this
        have ha := hmem a (by rw [h4]; simp)
        have hb := hmem b (by rw [h4]; simp)
        apply hab
        refine ⟨?_, ?_, ?_, ?_⟩
        · exact stage1_same_dst t c hw.2 hwild a b (stage2_sub t c a (stage3_sub t c a ha.1))
            (stage2_sub t c b (stage3_sub t c b hb.1))
        · exact stage2_same_st t c a b (stage3_sub t c a ha.1) (stage3_sub t c b hb.1)
        · exact stage3_same_src t c hw.2 a b ha.1 hb.1
        · rcases ha.2 with ha2 | ⟨ha2, ha3⟩ <;> rcases hb.2 with hb2 | ⟨hb2, hb3⟩
          · rw [ha2, hb2]
          · exact absurd ha2 (hb3 a ha.1)
          · exact absurd hb2 (ha3 b hb.1)
          · rw [ha2, hb2]
  have hsel : Spec.select t hasDefault c ≠ .multiple := by
    unfold Spec.select
    split
    · cases hasDefault <;> simp
    · simp
    · rename_i h1 h2
      exfalso
      cases h4 : Spec.stage4 t c with
      | nil => exact h1 h4
      | cons a tl =>
        cases tl with
        | nil => exact h2 a h4
        | cons b tl' => rw [h4] at hlen; simp at hlen
  refine ⟨hlen, hsel, ?_⟩
  rw [(lookup_is_most_specific hasDefault cs t c h).1 hwild]
  exact hsel

/-- Every leaf of a validated table is one (destination prefix, source type, source prefix, source port)
    combination of the filter chain it points to, and that chain uses no unsupported match field; an empty
    prefix list stands for the unspecified prefix, an empty port list for the port wildcard (key 0). -/
theorem build_slots_sound (hasDefault : Bool) (cs : List ChainCfg) (t : Table) (h : build hasDefault cs = .ok t) :
    ∀ x ∈ t.slots, ∃ c, cs[x.chain]? = some c ∧
      c.dstPort = false ∧ c.serverNames = false ∧ c.tp < 2 ∧ c.alpn = false ∧ c.srcType < 3 ∧ x.st = c.srcType ∧
      (∃ ds, parsePrefixes c.dst = some ds ∧ x.dst ∈ ds) ∧ (∃ ss, parsePrefixes c.src = some ss ∧ x.src ∈ ss) ∧
      x.port ∈ (if c.ports.isEmpty then [0] else c.ports) :=
  build_sound hasDefault cs t h

/-- The running-maximum loops of filterByDestinationPrefixes / filterBySourcePrefixes (start value
    noPrefixMatch = -2, unspecified prefix = -1) keep exactly the candidates whose match size is defined and not
    exceeded by any other candidate. -/
theorem best_is_most_specific (f : Slot → Option Int) (l : List Slot) (hf : ∀ s m, f s = some m → -1 ≤ m) :
    fcNoPrefixMatch = -2 ∧ fcUnspecifiedPrefixMatch = -1 ∧
    ∀ s, s ∈ best f l ↔ s ∈ l ∧ ∃ m, f s = some m ∧ ∀ s' ∈ l, ∀ k, f s' = some k → k ≤ m := by
  refine ⟨noPrefixMatch_eq, unspecifiedPrefixMatch_eq, fun s => ?_⟩
  rw [best_eq_mostSpecific f l hf]
  exact mem_mostSpecific f l s

/-- Prefix matching: the unspecified prefix matches everything with size -1; a /n prefix matches exactly the
    addresses of its family whose n most significant bits agree, with size n; masking the configured address
    (`Prefix.Masked`) does not change what it matches. -/
theorem prefix_match_spec :
    (∀ ip, matchSize .unspec ip = some (-1))
    ∧ (∀ (a b : BitVec 32) n, n ≤ 32 →
        (matchSize (.v4 a n) (.v4 b) = some (n : Int) ↔ ∀ i, i < n → a.getMsbD i = b.getMsbD i)
        ∧ (matchSize (.v4 a n) (.v4 b) = none ↔ ¬ ∀ i, i < n → a.getMsbD i = b.getMsbD i)
        ∧ matchSize (.v4 (maskTop a n) n) (.v4 b) = matchSize (.v4 a n) (.v4 b))
    ∧ (∀ (a b : BitVec 128) n, n ≤ 128 →
        (matchSize (.v6 a n) (.v6 b) = some (n : Int) ↔ ∀ i, i < n → a.getMsbD i = b.getMsbD i)
        ∧ (matchSize (.v6 a n) (.v6 b) = none ↔ ¬ ∀ i, i < n → a.getMsbD i = b.getMsbD i)
        ∧ matchSize (.v6 (maskTop a n) n) (.v6 b) = matchSize (.v6 a n) (.v6 b))
    ∧ (∀ a n b, matchSize (.v4 a n) (.v6 b) = none) ∧ (∀ a n b, matchSize (.v6 a n) (.v4 b) = none) := by
  refine ⟨fun ip => by simp [matchSize, unspecifiedPrefixMatch_eq], fun a b n hn => ?_, fun a b n hn => ?_,
    fun a n b => by simp [matchSize, Pfx.contains], fun a n b => by simp [matchSize, Pfx.contains]⟩
  · have hspec := GrpcProofs.Lemmas.RBAC.shift_xor_zero_iff a b n hn
    have hmask : Pfx.contains (.v4 (maskTop a n) n) (.v4 b) = Pfx.contains (.v4 a n) (.v4 b) := by
      simp only [Pfx.contains]
      rw [Bool.eq_iff_iff]
      refine (contains_iff_shr (maskTop a n) b _).trans (Iff.trans ?_ (contains_iff_shr a b _).symm)
      unfold maskTop
      rw [shl_shr_cancel]
    refine ⟨?_, ?_, ?_⟩
    · simp only [matchSize, Pfx.contains]
      rw [← hspec]
      exact (ite_some_iff _ _).1
    · simp only [matchSize, Pfx.contains]
      rw [← hspec]
      exact (ite_some_iff _ _).2
    · simp only [matchSize, hmask]
  · have hspec := GrpcProofs.Lemmas.RBAC.shift_xor_zero_iff a b n hn
    have hmask : Pfx.contains (.v6 (maskTop a n) n) (.v6 b) = Pfx.contains (.v6 a n) (.v6 b) := by
      simp only [Pfx.contains]
      rw [Bool.eq_iff_iff]
      refine (contains_iff_shr (maskTop a n) b _).trans (Iff.trans ?_ (contains_iff_shr a b _).symm)
      unfold maskTop
      rw [shl_shr_cancel]
    refine ⟨?_, ?_, ?_⟩
    · simp only [matchSize, Pfx.contains]
      rw [← hspec]
      exact (ite_some_iff _ _).1
    · simp only [matchSize, Pfx.contains]
      rw [← hspec]
      exact (ite_some_iff _ _).2
    · simp only [matchSize, hmask]

/-! ### F16: a listener not bound to the wildcard address

Full statement (FALSE for the unchanged code):
    ∀ hasDefault cs t c, build hasDefault cs = .ok t → lookup t hasDefault c ≠ .multiple
i.e. "configurations in which two chains would tie are rejected during validation".  Proved above
(`validated_config_has_unique_winner`) for listeners bound to the wildcard address.  Witness, taken from the
pinned test TestLookup_Failures/multiple_matching_filter_chains: chains {source_ports 1,2,3} and
{prefix_ranges 192.168.1.1/16, source_ports 1} validate, and a connection from 192.168.100.1:1 to 192.168.100.1
on a listener bound to a specific address gets "multiple matching filter chains" — also from port 2, where
narrowing singles out the first chain. -/
def f16Chains : List ChainCfg :=
  [⟨false, false, 0, false, 0, [], [], [1, 2, 3]⟩,
   ⟨false, false, 0, false, 0, [.v4 0xc0a80101#32 16], [], [1]⟩]

def f16Conn (port : Nat) : Conn := ⟨false, .v4 0xc0a86401#32, .v4 0xc0a86401#32, port⟩

theorem nonwildcard_unique_winner_counterexample :
    ¬ ∀ (hasDefault : Bool) (cs : List ChainCfg) (t : Table) (c : Conn),
        build hasDefault cs = .ok t → lookup t hasDefault c ≠ .multiple := by
  intro h
  have hb : ∃ t, build false f16Chains = .ok t ∧ lookup t false (f16Conn 1) = .multiple
      ∧ lookup t false (f16Conn 2) = .multiple ∧ Spec.select t false (f16Conn 2) = .chain 0 := by
    refine ⟨_, rfl, ?_, ?_, ?_⟩ <;> decide
  obtain ⟨t, h1, h2, _, _⟩ := hb
  exact h false f16Chains t (f16Conn 1) h1 h2

-- non-vacuity
example : ∃ t, build false f16Chains = .ok t ∧ lookup t false { f16Conn 1 with wild := true } = .chain 1 :=
  ⟨_, rfl, by decide⟩
example : ∃ t, build true f16Chains = .ok t ∧
    lookup t true ⟨true, .v4 0x0a000001#32, .v4 0x0a000002#32, 9⟩ = .dflt := ⟨_, rfl, by decide⟩
example : build false (f16Chains ++ [⟨false, false, 0, false, 0, [], [], [3]⟩]) = .error .overlap := by rfl
example : build false [⟨false, false, 0, false, 0, [.v4 0#32 33], [], []⟩] = .error .prefix := by rfl
example : build false [⟨true, false, 0, false, 0, [], [], []⟩] = .error .empty := by rfl

end GrpcProofs.C49
