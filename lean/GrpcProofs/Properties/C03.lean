import GrpcProofs.Lemmas.LoopyC03
/-!
# C03  A stream with data and window credit is always eventually written

Model: `GrpcModel/Model/Loopy.lean`; property predicate: `GrpcModel.Loopy.C03` in `GrpcModel/Model/LoopySpec.lean`
(`stateOk`: no lost wake-up as a state predicate; `tickOk`: progress + rotation of one `processData` call; `orderOk`: every other
control item keeps the order of the active list). "Eventually" is made a bound: `served_within`.

`loopyWriter.run` is a single goroutine that alternates `handle(item)` and `processData()`; a history is any finite sequence of
those two kinds of steps, so no fairness assumption about the Go scheduler is involved. All theorems quantify over the side and over
EVERY history (any order of data arrival, window exhaustion, WINDOW_UPDATEs — including ones that arrive while the stream is not
yet waiting — SETTINGS changes in both directions, stream closes, and any map iteration order in `applySettings`).
-/
namespace GrpcProofs.C03
open GrpcModel.Loopy GrpcModel.Loopy.C03 GrpcProofs.Loopy

/-- **C03 (executable predicate).** In every history every step satisfies the predicate the monitor evaluates on the real
writer: the state after the step is well-formed (`stateOk`, which contains the no-lost-wake-up clause), a `processData` call serves
or parks the head of the active list with exactly `min(16384, stream quota, sendQuota, head item)` bytes and rotates the list, and
any other control item leaves the order of the list alone. -/
theorem c03_holds (side : Side) (ops : List Op) : C03.holds (C03.vrunFrom (init side) ops) = true :=
  vrunFrom_holds (wf_init side) ops

/-- **No lost wake-up.** In every reachable state, an established stream with queued items and positive stream quota
(`oiws − bytesOutStanding > 0`) is on the active list — whatever the order in which the data, the WINDOW_UPDATEs and the SETTINGS
that produced that quota arrived. -/
theorem no_lost_wakeup (side : Side) (ops : List Op) (id : Nat) :
    let s := final side ops
    id ∈ s.keys → (s.str id).items ≠ [] → 0 < s.quota id → id ∈ s.active := by
  intro s hk hne hq
  have h := wf_reachable side ops
  have hne' : (s.str id).state ≠ .empty := fun e => hne ((h.emptyIff id hk).mp e)
  have hnw : (s.str id).state ≠ .waiting := fun e => absurd (h.waitQuota id hk e) (Int.not_le.mpr hq)
  apply h.actAll id hk
  cases hst : (s.str id).state <;> simp_all

/-- A stream is `waitingOnStreamQuota` only while it really has no stream quota (and it has data): the peer raising the window by
WINDOW_UPDATE or by SETTINGS_INITIAL_WINDOW_SIZE takes it out of that state in the very step that handles the frame. -/
theorem waiting_only_without_quota (side : Side) (ops : List Op) (id : Nat) :
    let s := final side ops
    id ∈ s.keys → (s.str id).state = .waiting → s.quota id ≤ 0 ∧ (s.str id).items ≠ [] := by
  intro s hk hw
  have h := wf_reachable side ops
  exact ⟨h.waitQuota id hk hw, h.items_ne_nil hk (by rw [hw]; decide)⟩

/-- The active list is exactly the set of established streams in state `active`, without duplicates, and each of them has a data
item at the head of its queue. -/
theorem active_list_exact (side : Side) (ops : List Op) :
    let s := final side ops
    s.active.Nodup ∧ (∀ id, id ∈ s.active ↔ (id ∈ s.keys ∧ (s.str id).state = .active)) ∧
    ∀ id ∈ s.active, ∃ off h d es tl, (s.str id).items = .data off h d es :: tl := by
  intro s
  have h := wf_reachable side ops
  refine ⟨h.actNodup, fun id => ⟨h.actKeys id, fun hh => h.actAll id hh.1 hh.2⟩, ?_⟩
  intro id hi
  obtain ⟨hk, ha⟩ := h.actKeys id hi
  have hne := h.items_ne_nil hk (by rw [ha]; decide)
  have hhd := h.headData id hk
  cases hit : (s.str id).items with
  | nil => exact absurd hit hne
  | cons a t =>
    cases a with
    | data off hh d es => exact ⟨off, hh, d, es, t, rfl⟩
    | trailers r c => rw [hit] at hhd; exact absurd trivial hhd

/-- **Progress.** In a reachable, running state with connection quota, `processData` serves the stream at the head of the active
list: it writes `min(16384, stream quota, sendQuota, head item)` bytes of it (an empty item gives an empty frame), or — only if that
stream has no stream quota — parks it; every other stream is left untouched. -/
theorem head_served (side : Side) (ops : List Op) (hb : Nat) (id : Nat) (rest : List Nat) :
    let s := final side ops
    s.closed = false → s.sendQuota ≠ 0 → s.active = id :: rest →
    ∃ off hl d es tl, (s.str id).items = .data off hl d es :: tl ∧
      (if s.quota id ≤ 0 ∧ ¬ (hl = 0 ∧ d = 0) then (step s (.tick hb)).outs = [] ∧ (step s (.tick hb)).st.active = rest
       else (∃ es' extra, (step s (.tick hb)).outs =
                [.cb .onEachWrite id, .data id off (min (min (min 16384 (s.quota id).toNat) s.sendQuota) (hl + d)) es'] ++ extra ∧
              ∀ o ∈ extra, ¬ isData o) ∧
            ((step s (.tick hb)).st.active = rest ∨ (step s (.tick hb)).st.active = rest ++ [id])) := by
  intro s hc hq hact
  obtain ⟨off, hl, d, es, tl, hitems, hcase, _⟩ := processData_head (wf_reachable side ops) hq hact hb
  obtain ⟨ho, ha, _⟩ := step_open hc (.tick hb)
  have hh : handle s (.tick hb) = processData s hb := by simp [handle, Op.outside, handleItem]
  rw [hh] at ho ha
  exact ⟨off, hl, d, es, tl, hitems, by rw [ho, ha]; exact hcase⟩

/-- **Round robin.** A `processData` call that finds connection quota moves every stream behind the head exactly one place forward
and changes neither its queue nor its quota: nobody is overtaken. -/
theorem round_robin (side : Side) (ops : List Op) (hb : Nat) (hd : Nat) (rest : List Nat) (id : Nat) :
    let s := final side ops
    s.closed = false → s.sendQuota ≠ 0 → s.active = hd :: rest → id ∈ rest →
    id ∈ (step s (.tick hb)).st.active ∧ (step s (.tick hb)).st.active.idxOf id + 1 = s.active.idxOf id ∧
    (step s (.tick hb)).st.str id = s.str id ∧ (step s (.tick hb)).st.quota id = s.quota id := by
  intro s hc hq hact hid
  exact tick_position (wf_reachable side ops) hc hq hact hid hb

/-- **Eventually = within `k + 1` writer iterations.** From any reachable state, the stream at position `k` of the active list is
served by the `(k+1)`-th of any consecutive `processData` calls (`hbs` = their HPACK oracles), as long as the writer is running and
has connection quota at each of them: it gets `min(16384, its stream quota, sendQuota, head item)` bytes. The other streams cannot
starve it: each of them delays it by at most one frame. -/
theorem served_within (side : Side) (ops : List Op) (id : Nat) (k : Nat) (hbs : List Nat) :
    let s := final side ops
    hbs.length = k + 1 → id ∈ s.active → s.active.idxOf id = k →
    (∀ j, j ≤ k → (runFrom s (ticks (hbs.take j))).1.closed = false ∧ (runFrom s (ticks (hbs.take j))).1.sendQuota ≠ 0) →
    ∃ off hl d es tl, (s.str id).items = .data off hl d es :: tl ∧
      let sk := (runFrom s (ticks (hbs.take k))).1
      let r := step sk (.tick (hbs.getD k 0))
      if s.quota id ≤ 0 ∧ ¬ (hl = 0 ∧ d = 0) then r.outs = []
      else ∃ es' extra, r.outs = [.cb .onEachWrite id, .data id off (min (min (min 16384 (s.quota id).toNat) sk.sendQuota) (hl + d)) es'] ++ extra ∧
        ∀ o ∈ extra, ¬ isData o := by
  intro s hlen hmem hk hlive
  exact GrpcProofs.Loopy.served_within (wf_reachable side ops) id k hbs hlen hmem hk hlive

/-- **Idle means nothing can be sent.** `run()` stops calling `processData` (and blocks for the next control item) only when
`processData` reports isEmpty, and it reports that only when `sendQuota = 0` or the active list is empty — by `no_lost_wakeup` the
latter means that no established stream has both queued data and stream quota. (The T2 component `s_loopyrun` checks this idle
condition on the real `run()` goroutine.) -/
theorem idle_means_nothing_sendable (s : St) (hb : Nat) (r : Res) (hr : r = processData s hb) (hidle : r.ret = .tick true) :
    s.sendQuota = 0 ∨ s.active = [] := by
  subst hr
  by_cases hq : s.sendQuota = 0
  · exact Or.inl hq
  · right
    cases hact : s.active with
    | nil => rfl
    | cons id rest =>
      exfalso
      unfold processData at hidle
      simp only [hq, if_false, hact] at hidle
      split at hidle
      · simp at hidle
      · simp at hidle
      · split at hidle
        · simp at hidle
        · exact writeChunk_ret_ne _ _ _ _ _ _ _ _ _ _ hidle

/-! ### non-vacuity -/

/-- a lost wake-up is rejected: stream 1 has data and stream quota 5 but is not on the active list -/
example : C03.stateOk ⟨false, 100, [], [⟨1, .waiting, 5, 1, true, 10⟩]⟩ = false := by decide
/-- starving the head is rejected: processData served stream 3 although stream 1 was at the head -/
example : C03.tickOk
    ⟨false, 100, [1, 3], [⟨1, .active, 50, 1, true, 10⟩, ⟨3, .active, 50, 1, true, 10⟩]⟩
    ⟨false, 90, [1], [⟨1, .active, 50, 1, true, 10⟩, ⟨3, .empty, 40, 0, false, 0⟩]⟩
    [.data 3 0 10 false] = false := by decide
/-- the model: two starved streams, the window update for stream 3 arrives BEFORE stream 3 has started waiting; both get served in order -/
example : ((C03.vrunFrom (init .server) [.register 1, .register 3, .settings [(4, 4)] [], .data 1 5 5 false, .data 3 5 5 false,
      .tick 0, .winUpdate 3 100, .tick 0, .tick 0, .winUpdate 1 100, .tick 0]).map fun x => (dataFor 1 x.2.2.1, dataFor 3 x.2.2.1, x.2.2.2.active)) =
    [([], [], []), ([], [], []), ([], [], []), ([], [], [1]), ([], [], [1, 3]),
     ([4], [], [3]), ([], [], [3]), ([], [10], []), ([], [], []), ([], [], [1]), ([6], [], [])] := by
  decide

end GrpcProofs.C03
