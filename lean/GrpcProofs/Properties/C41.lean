/-
C41  RLS keys are faithful and the RLS cache is consistent.

Models: GrpcModel/Model/RLSKeys.lean (MakeBuilderMap, RLSKey, mapToString), RLSCache.lean (lru +
dataCache), RLSAdaptive.lean (lookback, Throttler).  Lemmas: GrpcProofs/Lemmas/RLS{Keys,Cache,Adaptive}.lean.
-/
import GrpcProofs.Lemmas.RLSKeys
import GrpcProofs.Lemmas.RLSCache
import GrpcProofs.Lemmas.RLSAdaptive
namespace GrpcProofs.C41

/-! ## keys -/
section Keys
open GrpcModel.RLSKeys GrpcProofs.Lemmas.RLSKeys

/-- RLSKey returns no key map exactly when neither the full path nor "/service/" has a key builder. -/
theorem key_none_iff_no_builder (bm : List (Str × Builder)) (md : List (Str × List Str)) (host path : Str) :
    rlsKey bm md host path = none ↔ findBuilder bm path = none := by
  unfold rlsKey findBuilder
  simp only
  cases ((List.find? (fun x => decide (x.1 = path)) bm).map (·.2)).orElse fun _ =>
      (List.find? (fun x => decide (x.1 = path.take (afterLastSlash path))) bm).map (·.2) <;> simp

/-- The RLS key of a request: for the key builder `b` that serves the path, the key map is, as a function
    of the key,  constant keys, else the method / service / host extra keys (configured = non-empty),
    else — only when the request has metadata at all — for a header key builder with that key the
    comma-joined values of the FIRST configured header name that is present.  Nothing else is in the map. -/
theorem key_contents_spec (bm : List (Str × Builder)) (md : List (Str × List Str)) (host path : Str)
    (b : Builder) (hb : findBuilder bm path = some b) :
    ∃ kv, rlsKey bm md host path = some kv ∧
      ∀ k, mget kv k = keySpec b md host (path.take (afterLastSlash path)) (path.drop (afterLastSlash path)) k := by
  unfold findBuilder at hb
  simp only at hb
  unfold rlsKey
  simp only [hb]
  refine ⟨_, rfl, ?_⟩
  intro k
  rw [const_fold]
  unfold keySpec
  cases constSpec b.constantKeys k with
  | some v => simp
  | none =>
    simp only [Option.orElse_none]
    by_cases h1 : b.methodKey = [] <;> by_cases h2 : b.serviceKey = [] <;> by_cases h3 : b.hostKey = [] <;>
      simp only [h1, h2, h3, ne_eq, not_true_eq_false, not_false_eq_true, if_true, if_false, false_and, true_and,
        get_put, buildHeaderKeys_get] <;>
      (repeat' split) <;> simp_all

/-- F6: mapToString is not injective. -/
theorem map_to_string_not_injective_counterexample :
    ¬ (∀ m1 m2 : List (Str × Str), mapToString m1 = mapToString m2 → sortKV m1 = sortKV m2) := by
  intro h
  have := h [([97], [49, 44, 98, 61, 50])] [([97], [49]), ([98], [50])] (by decide)
  revert this
  decide

/-- F6 end to end in the model: one key builder (key "a" from header "ha", key "b" from header "hb",
    service "s"), two requests on "/s/m" whose key maps differ ({a:"1,b=2"} vs {a:"1", b:"2"}) get the
    same `Str`, i.e. the same data-cache key.  So "two requests with different key maps never share a
    cache entry" does NOT hold of the code as written. -/
theorem distinct_key_maps_distinct_cache_keys_counterexample :
    ¬ (∀ (cfg : List KB) (bm : List (Str × Builder)) (md1 md2 : List (Str × List Str)) (host path : Str)
        (k1 k2 : List (Str × Str)), makeBuilderMap cfg = some bm →
        rlsKey bm md1 host path = some k1 → rlsKey bm md2 host path = some k2 →
        sortKV k1 ≠ sortKV k2 → mapToString k1 ≠ mapToString k2) := by
  intro h
  let cfg : List KB := [{ names := [{ service := [115], method := [] }],
                          headers := [{ key := [97], names := [[104, 97]], requiredMatch := false },
                                      { key := [98], names := [[104, 98]], requiredMatch := false }],
                          constantKeys := [], host := [], service := [], method := [] }]
  let b : Builder := { headerKeys := [{ key := [97], names := [[104, 97]] }, { key := [98], names := [[104, 98]] }],
                       constantKeys := [], hostKey := [], serviceKey := [], methodKey := [] }
  have := h cfg [([47, 115, 47], b)]
    [([104, 97], [[49, 44, 98, 61, 50]])] [([104, 97], [[49]]), ([104, 98], [[50]])] [104] [47, 115, 47, 109]
    [([97], [49, 44, 98, 61, 50])] [([97], [49]), ([98], [50])]
    (by decide) (by decide) (by decide) (by decide)
  revert this
  decide

/-- FULL STATEMENT (false of the code, see the counterexamples above):
      ∀ key maps k1 k2,  sortKV k1 ≠ sortKV k2 → mapToString k1 ≠ mapToString k2
    i.e. requests with different key maps get different data-cache keys.
    PROVED PART: it holds whenever no key and no value contains ',' or '=' (the two bytes mapToString
    uses as separators).  What is missing is exactly the escaping of those bytes. -/
theorem distinct_key_maps_distinct_cache_keys_partial (k1 k2 : List (Str × Str))
    (h1 : SepFree k1) (h2 : SepFree k2) (hne : sortKV k1 ≠ sortKV k2) : mapToString k1 ≠ mapToString k2 :=
  fun h => hne (mapToString_inj_sepfree k1 k2 h1 h2 h)

end Keys

/-! ## data cache -/
section Cache
open GrpcModel.RLSCache GrpcProofs.Lemmas.RLSCache

/-- The accounted size always equals the sum of the entries' sizes — after any sequence of
    add / get / resize / evictExpired / updateEntrySize / remove / resetBackoffState / stop calls at any
    clock readings, provided addEntry is only called for keys that are not in the cache (the picker
    checks getEntry == nil first).  The LRU list then holds exactly the keys of the entries, once each. -/
theorem cache_size_is_sum (max : Int) (ops : List COp) (ok : runOK (newDataCache max) ops) :
    let dc := ops.foldl cstep (newDataCache max)
    dc.currentSize = sumSizes dc ∧ dc.lru.Nodup ∧ ∀ k, (dc.entries k).isSome ↔ k ∈ dc.lru := by
  have h := run_wf ops (wf_new max) ok
  exact ⟨h.size, h.nodup, h.keys⟩

/-- the contract is needed: adding a present key double-counts -/
theorem cache_size_needs_contract :
    let e : Entry := { size := 1, earliestEvict := 0, expiry := 0, backoffExpiry := 0, hasBackoff := false, timerAt := none }
    let dc := (addEntry (addEntry (newDataCache 10) 0 7 e).1 0 7 e).1
    dc.currentSize = 2 ∧ sumSizes dc = 2 ∧ dc.lru = [7, 7] := by decide

/-- resize evicts least-recently-used entries first and stops at entries that are not yet evictable:
    on a consistent cache that is not shut down, the surviving LRU order is the old one minus a prefix
    of `k` keys; each of those was evictable (earliestEvictTime not in the future) and is gone, every
    other entry is untouched; the accounted size dropped by exactly their sizes; the loop stopped
    because the cache is small enough, or it is empty, or the now least recently used entry is not
    evictable yet; and no shorter prefix would have been enough. -/
theorem evicts_lru_first_stops_at_unevictable (dc : DC) (now : Nat) (size : Int) (h : WF dc)
    (hs : dc.shutdown = false) :
    let r := (resize dc now size).1
    ∃ k, k ≤ dc.lru.length ∧ r.lru = dc.lru.drop k ∧
      (∀ x ∈ dc.lru.take k, (∃ e, dc.entries x = some e ∧ e.earliestEvict ≤ now) ∧ r.entries x = none) ∧
      (∀ x, x ∉ dc.lru.take k → r.entries x = dc.entries x) ∧
      r.currentSize = dc.currentSize - sumOver (sizeAt dc.entries) (dc.lru.take k) ∧
      (r.currentSize ≤ size ∨ r.lru = [] ∨ ∃ hd e, r.lru.head? = some hd ∧ r.entries hd = some e ∧ e.earliestEvict > now) ∧
      (∀ j, j < k → dc.currentSize - sumOver (sizeAt dc.entries) (dc.lru.take j) > size) ∧
      r.maxSize = size := by
  obtain ⟨k, sp⟩ := resizeLoop_spec now size (dc.lru.length + 1) dc false h (by omega)
  simp only [resize, hs]
  exact ⟨k, sp.kle, sp.lru, sp.gone, sp.kept, sp.cur, sp.stop, sp.minimal, rfl⟩

end Cache

/-! ## adaptive throttler -/
section Adaptive
open GrpcModel.RLSAdaptive GrpcProofs.Lemmas.RLSAdaptive GrpcModel.Generated

/-- A lookback's running total is the sum of the values added to the bins in (head − bins, head], where
    head is the largest bin index any add/sum call has mentioned — for EVERY timeline of calls: clock
    standing still, jumping far ahead, or going backwards (adds behind the window are dropped, adds
    inside it are counted in their own bin).  `sum t` returns exactly that total. -/
theorem lookback_sum_is_window_sum (bins duration : Nat) (hb : 0 < bins) (ops : List Op) (t : Nat) :
    let w := duration / bins
    (run (newLookback bins duration) ops).total = windowSum (hist w ops) (maxBin w ops) bins ∧
    (run (newLookback bins duration) ops).head = maxBin w ops ∧
    (sum (run (newLookback bins duration) ops) t).2 =
      windowSum (hist w (ops ++ [.sum t])) (maxBin w (ops ++ [.sum t])) bins := by
  have h1 := run_new bins duration hb ops
  have h2 := run_new bins duration hb (ops ++ [.sum t])
  refine ⟨h1.1, h1.2.1, ?_⟩
  have : run (newLookback bins duration) (ops ++ [.sum t]) = (sum (run (newLookback bins duration) ops) t).1 := by
    simp [run, List.foldl_append, step]
  rw [← h2.1, this]
  rfl

/-- the default throttler looks back over 100 bins of 300 ms: 30 s -/
theorem window_is_30_seconds :
    rlsDefaultBins = 100 ∧ rlsDefaultDuration / rlsDefaultBins = 300000000 ∧
    rlsDefaultBins * (rlsDefaultDuration / rlsDefaultBins) = 30 * 1000000000 ∧
    newThrottler.accepts.bins = 100 ∧ newThrottler.accepts.width = 300000000 ∧
    newThrottler.throttles.bins = 100 ∧ newThrottler.throttles.width = 300000000 := by decide

/-- calls made on a Throttler, with the clock reading and the random draw they see -/
inductive TOp
  | should (now : Nat) (r : Rat)
  | resp (now : Nat) (throttled : Bool)

/-- a Throttler together with the call histories of its two lookbacks -/
structure TSt where
  t : Thr
  acc : List Op
  thr : List Op

def tinit : TSt := { t := newThrottler, acc := [], thr := [] }

def tstep (s : TSt) : TOp → TSt
  | .should now r =>
    let res := shouldThrottle s.t now r
    { t := res.1, acc := s.acc ++ [.sum now],
      thr := if res.2 then s.thr ++ [.sum now] ++ [.add now 1] else s.thr ++ [.sum now] }
  | .resp now throttled =>
    { t := registerBackendResponse s.t now throttled,
      acc := if throttled then s.acc else s.acc ++ [.add now 1],
      thr := if throttled then s.thr ++ [.add now 1] else s.thr }

theorem run_snoc (l : LB) (ops : List Op) (o : Op) : run l (ops ++ [o]) = step (run l ops) o := by
  simp [run, List.foldl_append]

theorem tstep_tracks (s : TSt) (o : TOp)
    (ha : s.t.accepts = run (newLookback rlsDefaultBins rlsDefaultDuration) s.acc)
    (ht : s.t.throttles = run (newLookback rlsDefaultBins rlsDefaultDuration) s.thr) :
    (tstep s o).t.accepts = run (newLookback rlsDefaultBins rlsDefaultDuration) (tstep s o).acc ∧
    (tstep s o).t.throttles = run (newLookback rlsDefaultBins rlsDefaultDuration) (tstep s o).thr := by
  cases o with
  | should now r =>
    simp only [tstep, shouldThrottle]
    split
    · simp only [Bool.false_eq_true, if_false, run_snoc, step, ← ha, ← ht, and_self]
    · simp only [if_true, run_snoc, step, ← ha, ← ht, and_self]
  | resp now throttled =>
    cases throttled <;> simp [tstep, registerBackendResponse, run_snoc, step, ← ha, ← ht]

theorem trun_tracks (ops : List TOp) (s : TSt)
    (ha : s.t.accepts = run (newLookback rlsDefaultBins rlsDefaultDuration) s.acc)
    (ht : s.t.throttles = run (newLookback rlsDefaultBins rlsDefaultDuration) s.thr) :
    (ops.foldl tstep s).t.accepts = run (newLookback rlsDefaultBins rlsDefaultDuration) (ops.foldl tstep s).acc ∧
    (ops.foldl tstep s).t.throttles = run (newLookback rlsDefaultBins rlsDefaultDuration) (ops.foldl tstep s).thr := by
  induction ops generalizing s with
  | nil => exact ⟨ha, ht⟩
  | cons o t ih =>
    obtain ⟨a, b⟩ := tstep_tracks s o ha ht
    exact ih (tstep s o) a b

/-- ShouldThrottle after ANY history of ShouldThrottle / RegisterBackendResponse calls (any clock
    readings, including backwards) answers true exactly when
    (requests − 2·accepts)/(requests + 8) > r,  requests = accepts + throttles, where accepts and
    throttles are the numbers of accepts / throttles (server- and client-side) recorded in the bins of
    the last 100 × 300 ms ending at the latest clock reading, and r is the random draw. -/
theorem probability_formula (ops : List TOp) (now : Nat) (r : Rat) :
    let s := ops.foldl tstep tinit
    let w := rlsDefaultDuration / rlsDefaultBins
    let accepts := windowSum (hist w (s.acc ++ [.sum now])) (maxBin w (s.acc ++ [.sum now])) rlsDefaultBins
    let throttles := windowSum (hist w (s.thr ++ [.sum now])) (maxBin w (s.thr ++ [.sum now])) rlsDefaultBins
    (shouldThrottle s.t now r).2 = decide (probability accepts throttles > r) ∧
    probability accepts throttles =
      (((accepts : Rat) + (throttles : Rat)) - 2 * (accepts : Rat)) / (((accepts : Rat) + (throttles : Rat)) + 8) := by
  intro s w accepts throttles
  obtain ⟨ha, ht⟩ := trun_tracks ops tinit rfl rfl
  have hb : 0 < rlsDefaultBins := by decide
  have e1 := (lookback_sum_is_window_sum rlsDefaultBins rlsDefaultDuration hb s.acc now).2.2
  have e2 := (lookback_sum_is_window_sum rlsDefaultBins rlsDefaultDuration hb s.thr now).2.2
  refine ⟨?_, rfl⟩
  have ha' : s.t.accepts = run (newLookback rlsDefaultBins rlsDefaultDuration) s.acc := ha
  have ht' : s.t.throttles = run (newLookback rlsDefaultBins rlsDefaultDuration) s.thr := ht
  simp only [shouldThrottle]
  rw [ha', ht', e1, e2]
  split
  · rename_i hle
    simp only [gt_iff_lt]
    exact (decide_eq_false (Rat.not_lt.mpr hle)).symm
  · rename_i hnle
    simp only [gt_iff_lt]
    exact (decide_eq_true (Rat.not_le.mp hnle)).symm

-- non-vacuity: with 3 throttles and no accepts in the window the probability is 3/11
example : probability 0 3 = (3 : Rat) / 11 := by
  unfold probability ratioForAccepts requestsPadding
  grind
example : (run (newLookback 4 400) [.add 100 1, .add 250 2, .sum 450, .add 120 5, .sum 900]).total = 0 := by decide
example : (run (newLookback 4 400) [.add 100 1, .add 250 2, .sum 450, .add 120 5]).total = 8 := by decide

end Adaptive

end GrpcProofs.C41
