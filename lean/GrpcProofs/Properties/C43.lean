/-
C43  xDS watchers see the latest valid resource and correct errors.
Model: GrpcModel/Model/XdsAuth.lean, layer A (the authority's serializer callbacks, ported from
internal/xds/clients/xdsclient/authority.go). Helper lemmas: GrpcProofs/Lemmas/XdsAuth.lean.

All statements quantify over every authority state or every event history (`Auth.run (Auth.init n ign) hist`:
arbitrary interleavings of watch / unwatch calls, responses from any server with valid, invalid and missing
resources, watch-expiry events and stream failures), with no bound on lengths or on the number of servers,
resources and watchers.
-/
import GrpcProofs.Lemmas.XdsAuth
namespace GrpcProofs.C43
open GrpcModel.XdsAuth GrpcModel.XdsAuth.Spec GrpcProofs.Lemmas.XdsAuth

/-! ### ResourceChanged only with a resource the client accepted -/

/-- the decoder accepted content `c` for resource `k` in some response of the history -/
def Accepted (hist : List AEv) (k : Key) (c : String) : Prop :=
  ∃ srv gen ver es, AEv.update srv gen k.typ ver es ∈ hist ∧ entLookup es k.name = some (.ok c)

theorem cacheAcc_run (es : List AEv) (a : Auth) (hist : List AEv)
    (h : ∀ p ∈ a.res, ∀ c, p.2.cache = some c → Accepted hist p.1 c) :
    ∀ p ∈ (Auth.run a es).res, ∀ c, p.2.cache = some c → Accepted (hist ++ es) p.1 c := by
  induction es generalizing a hist with
  | nil => simpa [Auth.run] using h
  | cons e es ih =>
    simp only [Auth.run]
    have := ih (a.step e).auth (hist ++ [e]) (by
      intro p hp c hc
      rcases cache_step hp hc with ⟨srv, gen, ver, es', rfl, he⟩ | ⟨q, hq, hk, hqc⟩
      · exact ⟨srv, gen, ver, es', by simp, he⟩
      · obtain ⟨srv, gen, ver, es', hm, he⟩ := h q hq c hqc
        rw [hk] at hm he
        exact ⟨srv, gen, ver, es', by simp [hm], he⟩)
    simpa using this

/-- **C43, clause 1.** In every history, a ResourceChanged(c) callback goes to a watcher `w` only for a
    resource `w` watches, with a content `c` that the decoder accepted for that resource in some response of
    the history (this one included), and `c` is what the client caches for the resource afterwards. -/
theorem changed_only_with_accepted (n : Nat) (ign : List Bool) (hist : List AEv) (e : AEv) (w : Nat) (c : String)
    (h : (⟨w, .changed c⟩ : Cb) ∈ ((Auth.run (Auth.init n ign) hist).step e).cbs) :
    ∃ p ∈ ((Auth.run (Auth.init n ign) hist).step e).auth.res,
      w ∈ p.2.watchers ∧ p.2.cache = some c ∧ Accepted (hist ++ [e]) p.1 c := by
  obtain ⟨p, hp, hw, hc⟩ := changed_step h
  refine ⟨p, hp, hw, hc, ?_⟩
  have := cacheAcc_run (hist ++ [e]) (Auth.init n ign) [] (by simp [Auth.init])
  rw [run_snoc] at this
  simpa using this p hp c hc

/-! ### never ResourceChanged for an update identical to the one the watcher holds, unless a NACK intervened -/

/-- histories in which every `watch` call brings a new watcher (as `WatchResource` does: the returned cancel
    function is tied to that registration) -/
def FreshRun : Auth → List AEv → Prop
  | _, [] => True
  | a, e :: es => Fresh a e ∧ FreshRun (a.step e).auth es

/-- along a history, feed every watcher's callbacks (in order) to `Spec.okSeq`: the per-watcher record
    `WG` remembers the content of the last ResourceChanged (forgotten on a ResourceError) and whether a NACK
    was reported since; `okSeq` is false iff some ResourceChanged repeats the held content without a NACK in
    between. The same `okSeq` / `WG.apply` run in the monitor on the implementation's callback log. -/
def NoDupRun : Auth → (Nat → WG) → List AEv → Prop
  | _, _, [] => True
  | a, G, e :: es =>
    (∀ w, okSeq (ghost0 G e w) (cbsFor w (a.step e).cbs) = true) ∧
    NoDupRun (a.step e).auth (ghostStep G e (a.step e).cbs) es

theorem noDupRun_of_inv (es : List AEv) (a : Auth) (G : Nat → WG) (hi : AInv a) (hg : Agree a G)
    (hf : FreshRun a es) : NoDupRun a G es := by
  induction es generalizing a G with
  | nil => trivial
  | cons e es ih =>
    obtain ⟨hfe, hfr⟩ := hf
    have := ghost_step hi hg hfe
    exact ⟨this.1, ih _ _ (inv_step hi hfe) this.2 hfr⟩

/-- **C43, clause 2.** In every history (any interleaving of watches, unwatches, responses of any server,
    expiries and stream failures) no watcher ever receives ResourceChanged with the content it already holds
    unless a NACK was reported to it since it received that content. -/
theorem no_duplicate_changed_unless_nack_intervened (n : Nat) (ign : List Bool) (hist : List AEv)
    (hf : FreshRun (Auth.init n ign) hist) : NoDupRun (Auth.init n ign) (fun _ => {}) hist :=
  noDupRun_of_inv hist _ _ (inv_init n ign) (by intro p hp; simp [Auth.init] at hp) hf

/-- the predicate is not vacuous: it rejects a repeated ResourceChanged … -/
example : okSeq {} [.changed "c", .changed "c"] = false := by decide
/-- … accepts the repetition after a NACK (the code re-notifies because `md.ErrState != nil`) … -/
example : okSeq {} [.changed "c", .ambErr (.nack "e"), .changed "c"] = true := by decide
/-- … and the model does produce that sequence: accept c, reject, accept c again. -/
example :
    let a0 := (Auth.init 1 [false]).step (.watch ⟨"T", "r"⟩ 1)
    let a1 := a0.auth.step (.update 0 1 "T" "v1" [("r", .ok "c")])
    let a2 := a1.auth.step (.update 0 1 "T" "v2" [("r", .bad "e")])
    let a3 := a2.auth.step (.update 0 1 "T" "v3" [("r", .ok "c")])
    let a4 := a3.auth.step (.update 0 1 "T" "v4" [("r", .ok "c")])
    (a1.cbs, a2.cbs, a3.cbs, a4.cbs) =
      ([⟨1, .changed "c"⟩], [⟨1, .ambErr (.nack "e")⟩], [⟨1, .changed "c"⟩], []) := by decide

end GrpcProofs.C43
