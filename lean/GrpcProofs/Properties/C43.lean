/-
C43  xDS watchers see the latest valid resource and correct errors.
Model: GrpcModel/Model/XdsAuth.lean, layer A (the authority's serializer callbacks, ported from
internal/xds/clients/xdsclient/authority.go). Helper lemmas: GrpcProofs/Lemmas/XdsAuth.lean.

All statements quantify over every authority state or every event history (`Auth.run (Auth.init n ign) hist`:
arbitrary interleavings of watch / unwatch calls, responses from any server with valid, invalid and missing
resources, watch-expiry events and stream failures), with no bound on lengths or on the number of servers,
resources and watchers.
-/
/-
Vocabulary (defined next to their induction lemmas in GrpcProofs/Lemmas/XdsAuth.lean):
* `FreshRun a hist`    every `watch` event of the history brings a watcher that is not registered at that moment
* `Accepted hist k c`  some response in `hist` carried resource `k` with content `c` and the decoder accepted it
* `NoDupRun a G hist`  along `hist`, every watcher's callbacks (in order) pass `Spec.okSeq` starting from its
                       record in `G` (`Spec.WG`: content of the last ResourceChanged unless a ResourceError came
                       after it, and the error of the last NACK reported since) — the same `okSeq`/`WG.apply` the
                       monitor runs on the implementation's callback log
* `ghostRun a G hist`  those per-watcher records after the history
* `ledgerRun a L hist` the (server, resource) subscriptions the authority holds after the history: its
                       subscribe / unsubscribe / release commands applied to a ledger
-/
import GrpcProofs.Lemmas.XdsAuth
namespace GrpcProofs.C43
open GrpcModel.XdsAuth GrpcModel.XdsAuth.Spec GrpcProofs.Lemmas.XdsAuth

/-! ### ResourceChanged only with a resource the client accepted -/

/-- **C43, clause 1.** In every history, a ResourceChanged(c) callback goes to a watcher `w` only for a
    resource `w` watches, with a content `c` that the decoder accepted for that resource in some response of
    the history (this one included), and `c` is what the client caches for the resource afterwards. -/
theorem changed_only_with_accepted (n : Nat) (ign : List Bool) (hist : List AEv) (e : AEv) (w : Nat) (c : String)
    (h : (⟨w, .changed c⟩ : Cb) ∈ ((Auth.run (Auth.init n ign) hist).step e).cbs) :
    ∃ p ∈ ((Auth.run (Auth.init n ign) hist).step e).auth.res,
      w ∈ p.2.watchers ∧ p.2.cache = some c ∧ Accepted (hist ++ [e]) p.1 c := by
  obtain ⟨p, hp, hw, hc⟩ := changed_step h
  refine ⟨p, hp, hw, hc, ?_⟩
  have := cacheAcc_run (hist ++ [e]) (Auth.init n ign) [] (by simp [Auth.init])
  rw [run_snoc] at this
  simpa using this p hp c hc

/-! ### never ResourceChanged for an update identical to the one the watcher holds, unless a NACK intervened -/

/- `FreshRun a hist` (GrpcProofs/Lemmas/XdsAuth.lean): histories in which every `watch` call brings a new watcher
   (as `WatchResource` does: the returned cancel function is tied to that registration). -/

/-- **C43, clause 2.** In every history (any interleaving of watches, unwatches, responses of any server,
    expiries and stream failures) no watcher ever receives ResourceChanged with the content it already holds
    unless a NACK was reported to it since it received that content. -/
theorem no_duplicate_changed_unless_nack_intervened (n : Nat) (ign : List Bool) (hist : List AEv)
    (hf : FreshRun (Auth.init n ign) hist) : NoDupRun (Auth.init n ign) (fun _ => {}) hist :=
  noDupRun_of_inv hist _ _ (inv_init n ign) (by intro p hp; simp [Auth.init] at hp) hf

/-- the predicate is not vacuous: it rejects a repeated ResourceChanged … -/
example : okSeq {} [.changed "c", .changed "c"] = false := by decide
/-- … accepts the repetition after a NACK (the code re-notifies because `md.ErrState != nil`) … -/
example : okSeq {} [.changed "c", .ambErr (.nack "e"), .changed "c"] = true := by decide
/-- … and the model does produce that sequence: accept c, reject, accept c again. -/
example :
    let a0 := (Auth.init 1 [false]).step (.watch ⟨"T", "r"⟩ 1)
    let a1 := a0.auth.step (.update 0 1 "T" "v1" [("r", .ok "c")])
    let a2 := a1.auth.step (.update 0 1 "T" "v2" [("r", .bad "e")])
    let a3 := a2.auth.step (.update 0 1 "T" "v3" [("r", .ok "c")])
    let a4 := a3.auth.step (.update 0 1 "T" "v4" [("r", .ok "c")])
    (a1.cbs, a2.cbs, a3.cbs, a4.cbs) =
      ([⟨1, .changed "c"⟩], [⟨1, .ambErr (.nack "e")⟩], [⟨1, .changed "c"⟩], []) := by decide

/-! ### AmbientError / ResourceError exactly when the statement says -/

/-- A watch that cannot even start (no channel yet and the transport to the first server cannot be created) tells
    the watcher the error and registers nothing; `hns` in the two characterisations below excludes exactly this
    event. -/
theorem failed_watch_reports_error (a : Auth) (k : Key) (w : Nat) (h : cannotStart a = true) :
    a.step (.watch k w) = { auth := a, cbs := [⟨w, .resErr .other⟩] } := by
  simp [Auth.step, watchResource, h]

/-- **C43, clause 3.** For every state and event: watcher `w` receives AmbientError(er) iff it watches a resource
    with a cached value and (a) an update that is processed (from the active or a higher-priority server) rejects
    that resource with an error string different from the one recorded by the previous rejection (DESIGN section 7
    reading: the code de-duplicates by `Err.Error()`; see `rejected_duplicate_already_reported` below), or (b) a
    stream fails before any response and no fallback server is tried (it is not the active server's stream, or no
    server is left, or nothing is uncached), or (c) `w` is a new watcher and the last
    update of the cached resource was NACKed. -/
theorem ambient_iff_cached_and_rejected_or_stream_failed (a : Auth) (e : AEv) (w : Nat) (er : Err)
    (hns : ∀ k w', e = .watch k w' → cannotStart a = false) :
    (⟨w, .ambErr er⟩ : Cb) ∈ (a.step e).cbs ↔
      (∃ p ∈ a.res, w ∈ p.2.watchers ∧ p.2.cache.isSome = true ∧
        ((∃ srv gen ver es t, e = .update srv gen p.1.typ ver es ∧ (revert a srv).2.2 = true ∧
            entLookup es p.1.name = some (.bad t) ∧ er = .nack t ∧ p.2.err.map (·.1) ≠ some t) ∨
         (∃ srv, e = .failure srv false ∧ er = .conn ∧ (uncachedWatch a = false ∨ fallbackTarget a srv = none)))) ∨
      (∃ k r t v, e = .watch k w ∧ lookup a.res k = some r ∧ r.cache.isSome = true ∧ r.status = .nacked ∧
          r.err = some (t, v) ∧ er = .nack t) := by
  cases e with
  | update srv gen typ ver es =>
    simp only [Auth.step, handleUpdate_cbs_iff, amb_mem_updKinds]
    constructor
    · rintro ⟨hc, p, hp, hw, ht, hcache, t, he, rfl, hd⟩
      exact Or.inl ⟨p, hp, hw, hcache, Or.inl ⟨srv, gen, ver, es, t, by rw [ht], hc, he, rfl, hd⟩⟩
    · rintro (⟨p, hp, hw, hcache, ⟨srv', gen', ver', es', t, heq, hc, he, rfl, hd⟩ | ⟨_, h, _⟩⟩ | ⟨_, _, _, _, h, _⟩)
      · simp only [AEv.update.injEq] at heq
        obtain ⟨rfl, rfl, rfl, rfl, rfl⟩ := heq
        exact ⟨hc, p, hp, hw, rfl, hcache, t, he, rfl, hd⟩
      · simp at h
      · simp at h
  | dne k =>
    simp only [Auth.step, handleDNE, List.mem_flatMap, mem_bcast]
    constructor
    · rintro ⟨p, _, _, hk⟩; split at hk <;> simp at hk
    · rintro (⟨_, _, _, _, ⟨_, _, _, _, _, h, _⟩ | ⟨_, h, _⟩⟩ | ⟨_, _, _, _, h, _⟩) <;> simp at h
  | failure srv after =>
    simp only [Auth.step, handleFailure_cbs]
    constructor
    · intro h
      split at h
      · rename_i hc
        obtain ⟨p, hp, hw, hcache, rfl⟩ := amb_mem_propagate.mp h
        exact Or.inl ⟨p, hp, hw, hcache, Or.inr ⟨srv, by rw [hc.1], rfl, hc.2⟩⟩
      · simp at h
    · rintro (⟨p, hp, hw, hcache, ⟨_, _, _, _, _, h, _⟩ | ⟨srv', heq, rfl, hc⟩⟩ | ⟨_, _, _, _, h, _⟩)
      · simp at h
      · simp only [AEv.failure.injEq] at heq
        obtain ⟨rfl, rfl⟩ := heq
        rw [if_pos ⟨rfl, hc⟩]
        exact amb_mem_propagate.mpr ⟨p, hp, hw, hcache, rfl⟩
      · simp at h
  | watch k w' =>
    have hwr : watchResource a k w' = watch a k w' := by simp [watchResource, hns k w' rfl]
    simp only [Auth.step, hwr, watch]
    constructor
    · intro h
      split at h
      · simp [initialCbs, initialKinds, newRState] at h
      · rename_i r hl
        simp only [initialCbs, List.mem_map, Cb.mk.injEq] at h
        obtain ⟨kk, hkk, rfl, rfl⟩ := h
        obtain ⟨hc, hs, t, v, he, rfl⟩ := mem_initialKinds_amb.mp hkk
        exact Or.inr ⟨k, r, t, v, rfl, hl, hc, hs, he, rfl⟩
    · rintro (⟨_, _, _, _, ⟨_, _, _, _, _, h, _⟩ | ⟨_, h, _⟩⟩ | ⟨k', r, t, v, heq, hl, hc, hs, he, rfl⟩)
      · simp at h
      · simp at h
      · simp only [AEv.watch.injEq] at heq
        obtain ⟨rfl, rfl⟩ := heq
        simp only [hl, initialCbs, List.mem_map, Cb.mk.injEq]
        exact ⟨_, mem_initialKinds_amb.mpr ⟨hc, hs, t, v, he, rfl⟩, trivial, rfl⟩
  | unwatch k w' =>
    simp only [Auth.step, unwatch]
    constructor
    · intro h
      split at h
      · simp at h
      · split at h
        · simp at h
        · split at h <;> simp at h
    · rintro (⟨_, _, _, _, ⟨_, _, _, _, _, h, _⟩ | ⟨_, h, _⟩⟩ | ⟨_, _, _, _, h, _⟩) <;> simp at h
  | env l =>
    simp only [Auth.step]
    constructor
    · intro h; simp at h
    · rintro (⟨_, _, _, _, ⟨_, _, _, _, _, h, _⟩ | ⟨_, h, _⟩⟩ | ⟨_, _, _, _, h, _⟩) <;> simp at h


/-- **C43, clause 4.** For every state and event: watcher `w` receives ResourceError(er) iff it watches a resource
    and (a) a processed update rejects it while nothing is cached (same de-duplication), (b) a processed
    state-of-the-world response of a type with AllResourcesRequiredInSotW omits it while it is cached and the
    server does not have ignore_resource_deletion, (c) its watch expiry timer fired, (d) a stream fails before any
    response, nothing is cached and no fallback server is tried, or (e) `w` is a new watcher of a resource that is
    NACKed without cache or marked non-existent. -/
theorem resource_error_iff_no_valid (a : Auth) (e : AEv) (w : Nat) (er : Err)
    (hns : ∀ k w', e = .watch k w' → cannotStart a = false) :
    (⟨w, .resErr er⟩ : Cb) ∈ (a.step e).cbs ↔
      (∃ p ∈ a.res, w ∈ p.2.watchers ∧
        ((∃ srv gen ver es t, e = .update srv gen p.1.typ ver es ∧ (revert a srv).2.2 = true ∧ p.2.cache = none ∧
            entLookup es p.1.name = some (.bad t) ∧ er = .nack t ∧ p.2.err.map (·.1) ≠ some t) ∨
         (∃ srv gen ver es, e = .update srv gen p.1.typ ver es ∧ (revert a srv).2.2 = true ∧ er = .notFound ∧
            entLookup es p.1.name = none ∧ sotw p.1.typ = true ∧ p.2.cache.isSome = true ∧
            p.2.status ≠ .notExist ∧ ignOf a srv = false) ∨
         (e = .dne p.1 ∧ er = .notFound) ∨
         (∃ srv, e = .failure srv false ∧ er = .conn ∧ p.2.cache = none ∧
            (uncachedWatch a = false ∨ fallbackTarget a srv = none)))) ∨
      (∃ k r, e = .watch k w ∧ lookup a.res k = some r ∧
        ((r.status = .nacked ∧ r.cache = none ∧ ∃ t v, r.err = some (t, v) ∧ er = .nack t) ∨
         (r.status = .notExist ∧ er = .notFound))) := by
  cases e with
  | update srv gen typ ver es =>
    simp only [Auth.step, handleUpdate_cbs_iff, res_mem_updKinds]
    constructor
    · rintro ⟨hc, p, hp, hw, ht, ⟨hcache, t, he, rfl, hd⟩ | ⟨rfl, he, hs, hcache, hst, hi⟩⟩
      · exact Or.inl ⟨p, hp, hw, Or.inl ⟨srv, gen, ver, es, t, by rw [ht], hc, hcache, he, rfl, hd⟩⟩
      · exact Or.inl ⟨p, hp, hw, Or.inr (Or.inl ⟨srv, gen, ver, es, by rw [ht], hc, rfl, he, by rw [ht]; exact hs, hcache, hst, hi⟩)⟩
    · rintro (⟨p, hp, hw, ⟨srv', gen', ver', es', t, heq, hc, hcache, he, rfl, hd⟩ |
          ⟨srv', gen', ver', es', heq, hc, rfl, he, hs, hcache, hst, hi⟩ | ⟨h, _⟩ | ⟨_, h, _⟩⟩ | ⟨_, _, h, _⟩)
      · simp only [AEv.update.injEq] at heq
        obtain ⟨rfl, rfl, rfl, rfl, rfl⟩ := heq
        exact ⟨hc, p, hp, hw, rfl, Or.inl ⟨hcache, t, he, rfl, hd⟩⟩
      · simp only [AEv.update.injEq] at heq
        obtain ⟨rfl, rfl, rfl, rfl, rfl⟩ := heq
        exact ⟨hc, p, hp, hw, rfl, Or.inr ⟨rfl, he, hs, hcache, hst, hi⟩⟩
      · simp at h
      · simp at h
      · simp at h
  | dne k =>
    simp only [Auth.step, handleDNE, List.mem_flatMap, mem_bcast]
    constructor
    · rintro ⟨p, hp, hw, hk⟩
      split at hk
      · rename_i hpk
        simp only [List.mem_singleton, CbKind.resErr.injEq] at hk
        exact Or.inl ⟨p, hp, hw, Or.inr (Or.inr (Or.inl ⟨by rw [hpk], hk⟩))⟩
      · simp at hk
    · rintro (⟨p, hp, hw, ⟨_, _, _, _, _, h, _⟩ | ⟨_, _, _, _, h, _⟩ | ⟨heq, rfl⟩ | ⟨_, h, _⟩⟩ | ⟨_, _, h, _⟩)
      · simp at h
      · simp at h
      · simp only [AEv.dne.injEq] at heq
        exact ⟨p, hp, hw, by simp [heq]⟩
      · simp at h
      · simp at h
  | failure srv after =>
    simp only [Auth.step, handleFailure_cbs]
    constructor
    · intro h
      split at h
      · rename_i hc
        obtain ⟨p, hp, hw, hcache, rfl⟩ := res_mem_propagate.mp h
        exact Or.inl ⟨p, hp, hw, Or.inr (Or.inr (Or.inr ⟨srv, by rw [hc.1], rfl, hcache, hc.2⟩))⟩
      · simp at h
    · rintro (⟨p, hp, hw, ⟨_, _, _, _, _, h, _⟩ | ⟨_, _, _, _, h, _⟩ | ⟨h, _⟩ | ⟨srv', heq, rfl, hcache, hc⟩⟩ | ⟨_, _, h, _⟩)
      · simp at h
      · simp at h
      · simp at h
      · simp only [AEv.failure.injEq] at heq
        obtain ⟨rfl, rfl⟩ := heq
        rw [if_pos ⟨rfl, hc⟩]
        exact res_mem_propagate.mpr ⟨p, hp, hw, hcache, rfl⟩
      · simp at h
  | watch k w' =>
    have hwr : watchResource a k w' = watch a k w' := by simp [watchResource, hns k w' rfl]
    simp only [Auth.step, hwr, watch]
    constructor
    · intro h
      split at h
      · simp [initialCbs, initialKinds, newRState] at h
      · rename_i r hl
        simp only [initialCbs, List.mem_map, Cb.mk.injEq] at h
        obtain ⟨kk, hkk, rfl, rfl⟩ := h
        exact Or.inr ⟨k, r, rfl, hl, mem_initialKinds_res.mp hkk⟩
    · rintro (⟨_, _, _, ⟨_, _, _, _, _, h, _⟩ | ⟨_, _, _, _, h, _⟩ | ⟨h, _⟩ | ⟨_, h, _⟩⟩ | ⟨k', r, heq, hl, hcase⟩)
      · simp at h
      · simp at h
      · simp at h
      · simp at h
      · simp only [AEv.watch.injEq] at heq
        obtain ⟨rfl, rfl⟩ := heq
        simp only [hl, initialCbs, List.mem_map, Cb.mk.injEq]
        exact ⟨_, mem_initialKinds_res.mpr hcase, trivial, rfl⟩
  | unwatch k w' =>
    simp only [Auth.step, unwatch]
    constructor
    · intro h
      split at h
      · simp at h
      · split at h
        · simp at h
        · split at h <;> simp at h
    · rintro (⟨_, _, _, ⟨_, _, _, _, _, h, _⟩ | ⟨_, _, _, _, h, _⟩ | ⟨h, _⟩ | ⟨_, h, _⟩⟩ | ⟨_, _, h, _⟩) <;> simp at h
  | env l =>
    simp only [Auth.step]
    constructor
    · intro h; simp at h
    · rintro (⟨_, _, _, ⟨_, _, _, _, _, h, _⟩ | ⟨_, _, _, _, h, _⟩ | ⟨h, _⟩ | ⟨_, h, _⟩⟩ | ⟨_, _, h, _⟩) <;> simp at h


/-- **C43, clauses 3+4 (which callback).** In every reachable state: after ResourceError the watcher's resource has
    no cached value ("no valid resource exists"), after AmbientError it still has one. -/
theorem error_kind_matches_cache (n : Nat) (ign : List Bool) (hist : List AEv) (hf : FreshRun (Auth.init n ign) hist)
    (e : AEv) (w : Nat) (er : Err)
    (hns : ∀ k w', e = .watch k w' → cannotStart (Auth.run (Auth.init n ign) hist) = false) :
    let a := Auth.run (Auth.init n ign) hist
    ((⟨w, .resErr er⟩ : Cb) ∈ (a.step e).cbs → ∃ p ∈ (a.step e).auth.res, w ∈ p.2.watchers ∧ p.2.cache = none) ∧
    ((⟨w, .ambErr er⟩ : Cb) ∈ (a.step e).cbs → ∃ p ∈ (a.step e).auth.res, w ∈ p.2.watchers ∧ p.2.cache.isSome = true) :=
  error_step (inv_run hist _ (inv_init n ign) hf) hns

/-- **C43, clause 3, the de-duplication reading.** In every reachable state, if a resource's recorded error is
    `t` (so that a further rejection with the same error string is NOT re-delivered), then every watcher of the
    resource has already been told exactly this error: its last NACK callback carried `t` and it received no
    ResourceChanged since. Also: what each watcher holds is exactly the cached value. -/
theorem rejected_duplicate_already_reported (n : Nat) (ign : List Bool) (hist : List AEv)
    (hf : FreshRun (Auth.init n ign) hist) :
    ∀ p ∈ (Auth.run (Auth.init n ign) hist).res, ∀ w ∈ p.2.watchers,
      (ghostRun (Auth.init n ign) (fun _ => {}) hist w).holds = p.2.cache ∧
      ∀ t v, p.2.err = some (t, v) → (ghostRun (Auth.init n ign) (fun _ => {}) hist w).nack = some t :=
  agree_run hist _ _ (inv_init n ign) (by intro p hp; simp [Auth.init] at hp) hf

/-! ### a new watcher immediately receives the cached resource and the current error state -/

/-- **C43, clause 5.** A watch on a resource that already has a state delivers to the new watcher, at once and in
    this order: ResourceChanged(cached value) if there is one; the recorded NACK error if the last update was
    rejected (AmbientError if something is cached, ResourceError otherwise); ResourceError(not found) if the
    resource is marked non-existent. Under the state invariant these are exactly the five listed cases. The
    watcher is registered, and the first watch of a resource subscribes it on the active server. -/
theorem new_watcher_gets_cache_and_error_state (a : Auth) (k : Key) (w : Nat) :
    (∀ r, lookup a.res k = some r → RInv r →
      (watch a k w).cbs = (initialKinds r).map (fun kd => ⟨w, kd⟩) ∧
      ((∃ c, r.cache = some c ∧ r.status = .acked ∧ initialKinds r = [.changed c]) ∨
       (∃ c t v, r.cache = some c ∧ r.status = .nacked ∧ r.err = some (t, v) ∧
          initialKinds r = [.changed c, .ambErr (.nack t)]) ∨
       (r.cache = none ∧ r.status = .requested ∧ initialKinds r = []) ∨
       (∃ t v, r.cache = none ∧ r.status = .nacked ∧ r.err = some (t, v) ∧ initialKinds r = [.resErr (.nack t)]) ∨
       (r.cache = none ∧ r.status = .notExist ∧ initialKinds r = [.resErr .notFound])) ∧
      (k, { r with watchers := r.watchers ++ [w] }) ∈ (watch a k w).auth.res) ∧
    (lookup a.res k = none →
      (watch a k w).cbs = [] ∧ Cmd.sub (channelToUse a).2.2 k ∈ (watch a k w).cmds ∧
      (k, newRState w (channelToUse a).2.2) ∈ (watch a k w).auth.res) := by
  constructor
  · intro r hl hr
    obtain ⟨h1, h2, h3, h4⟩ := hr
    refine ⟨by simp [watch, hl, initialCbs], ?_, ?_⟩
    · unfold initialKinds
      cases hc : r.cache <;> cases hs : r.status <;> cases he : r.err <;> simp_all
      all_goals exact ⟨_, rfl⟩
    · simp only [watch, hl]
      have := List.mem_map_of_mem (f := addWatcher k w) (lookup_mem hl)
      simpa [addWatcher] using this
  · intro hl
    simp [watch, hl, initialCbs, initialKinds, newRState]

/-! ### after all watchers are removed the resource is unsubscribed -/

/-- removing the last watcher of a resource unsubscribes it on every server it was subscribed on and deletes
    its state -/
theorem last_unwatch_unsubscribes (a : Auth) (k : Key) (w : Nat) (r : RState) (hl : lookup a.res k = some r)
    (hlast : r.watchers.filter (· ≠ w) = []) :
    (∀ i ∈ r.chans, Cmd.unsub i k ∈ (unwatch a k w).cmds) ∧ ∀ p ∈ (unwatch a k w).auth.res, p.1 ≠ k := by
  simp only [unwatch, hl, hlast, ne_eq, not_true_eq_false, ↓reduceIte]
  split
  · refine ⟨fun i hi => ?_, by simp⟩
    simp only [List.mem_append, List.mem_map]
    exact Or.inl ⟨i, hi, rfl⟩
  · refine ⟨fun i hi => ?_, ?_⟩
    · simp only [List.mem_map]; exact ⟨i, hi, rfl⟩
    · intro p hp; simp only [List.mem_filter, decide_eq_true_eq] at hp; simpa using hp.2

/-- the commands of the last unwatch, in order: first the unsubscriptions on every channel the resource was
    subscribed on, only then (if it was the authority's last resource) the release of the channel references -/
theorem last_unwatch_unsubscribes_before_release (a : Auth) (k : Key) (w : Nat) (r : RState)
    (hl : lookup a.res k = some r) (hlast : r.watchers.filter (· ≠ w) = []) :
    (unwatch a k w).cmds =
      (r.chans.map fun i => Cmd.unsub i k) ++ (if a.res.filter (·.1 ≠ k) = [] then a.opened.map Cmd.release else []) := by
  simp only [unwatch, hl, hlast, ne_eq, not_true_eq_false, ↓reduceIte]
  split <;> simp [*]

/-- layer B: whatever else a channel is used for (it may be shared with another authority and stay open), after
    the unsubscribe command the resource is no longer in its subscription set, and the request that goes out on a
    live stream lists the remaining names only -/
theorem chanUnsub_forgets (c : Chan) (now : Nat) (k : Key) (ho : c.opened = true) (ht : c.types.contains k.typ = true) :
    k ∉ (chanUnsub c now k).subs.map (·.1) := by
  unfold chanUnsub
  simp only [ho, Bool.not_true, Bool.false_eq_true, ↓reduceIte, ht]
  by_cases hs : c.subs.any (·.1 = k) = true
  · simp only [hs, Bool.not_true, Bool.false_eq_true, ↓reduceIte]
    unfold sendReq
    split
    · simp only [startTimers_keys]
      simp
    · simp
  · simp only [hs, Bool.not_false, ↓reduceIte]
    simp only [List.any_eq_true, decide_eq_true_eq, not_exists, not_and] at hs
    simp only [List.mem_map, not_exists, not_and]
    intro p hp hpk
    exact hs p hp hpk

/-- **C43, clause 6.** In every history over a client with at least one server: the set of (server, resource)
    subscriptions the authority holds (subscribe / unsubscribe / release commands it issued, accumulated) is at
    every moment exactly {(i, k) | resource k has a state and i ∈ its channel set}, and a resource has a state
    only while it has at least one watcher. Hence once all watchers of a resource are removed it is subscribed
    nowhere. -/
theorem unsubscribed_when_no_watchers (n : Nat) (ign : List Bool) (hn : 0 < n) (hist : List AEv)
    (hf : FreshRun (Auth.init n ign) hist) (i : Nat) (k : Key) :
    ((i, k) ∈ ledgerRun (Auth.init n ign) [] hist ↔
      ∃ r, (k, r) ∈ (Auth.run (Auth.init n ign) hist).res ∧ i ∈ r.chans) ∧
    ∀ p ∈ (Auth.run (Auth.init n ign) hist).res, p.2.watchers ≠ [] := by
  have := ledger_run hist (Auth.init n ign) [] (inv_init n ign)
    ⟨hn, by simp [Auth.init], by simp [Auth.init]⟩ (by intro p hp; simp [Auth.init] at hp)
    (by intro i k; simp [Auth.init]) hf
  exact ⟨this.1 i k, this.2⟩

end GrpcProofs.C43
