/-
C43  xDS watchers see the latest valid resource and correct errors.
Model: GrpcModel/Model/XdsAuth.lean, layer A (the authority's serializer callbacks, ported from
internal/xds/clients/xdsclient/authority.go). Helper lemmas: GrpcProofs/Lemmas/XdsAuth.lean.

All statements quantify over every authority state or every event history (`Auth.run (Auth.init n ign) hist`:
arbitrary interleavings of watch / unwatch calls, responses from any server with valid, invalid and missing
resources, watch-expiry events and stream failures), with no bound on lengths or on the number of servers,
resources and watchers.
-/
import GrpcProofs.Lemmas.XdsAuth
namespace GrpcProofs.C43
open GrpcModel.XdsAuth GrpcProofs.Lemmas.XdsAuth

/-! ### ResourceChanged only with a resource the client accepted -/

/-- the decoder accepted content `c` for resource `k` in some response of the history -/
def Accepted (hist : List AEv) (k : Key) (c : String) : Prop :=
  ∃ srv gen ver es, AEv.update srv gen k.typ ver es ∈ hist ∧ entLookup es k.name = some (.ok c)

theorem cacheAcc_run (es : List AEv) (a : Auth) (hist : List AEv)
    (h : ∀ p ∈ a.res, ∀ c, p.2.cache = some c → Accepted hist p.1 c) :
    ∀ p ∈ (Auth.run a es).res, ∀ c, p.2.cache = some c → Accepted (hist ++ es) p.1 c := by
  induction es generalizing a hist with
  | nil => simpa [Auth.run] using h
  | cons e es ih =>
    simp only [Auth.run]
    have := ih (a.step e).auth (hist ++ [e]) (by
      intro p hp c hc
      rcases cache_step hp hc with ⟨srv, gen, ver, es', rfl, he⟩ | ⟨q, hq, hk, hqc⟩
      · exact ⟨srv, gen, ver, es', by simp, he⟩
      · obtain ⟨srv, gen, ver, es', hm, he⟩ := h q hq c hqc
        rw [hk] at hm he
        exact ⟨srv, gen, ver, es', by simp [hm], he⟩)
    simpa using this

/-- **C43, clause 1.** In every history, a ResourceChanged(c) callback goes to a watcher `w` only for a
    resource `w` watches, with a content `c` that the decoder accepted for that resource in some response of
    the history (this one included), and `c` is what the client caches for the resource afterwards. -/
theorem changed_only_with_accepted (n : Nat) (ign : List Bool) (hist : List AEv) (e : AEv) (w : Nat) (c : String)
    (h : (⟨w, .changed c⟩ : Cb) ∈ ((Auth.run (Auth.init n ign) hist).step e).cbs) :
    ∃ p ∈ ((Auth.run (Auth.init n ign) hist).step e).auth.res,
      w ∈ p.2.watchers ∧ p.2.cache = some c ∧ Accepted (hist ++ [e]) p.1 c := by
  obtain ⟨p, hp, hw, hc⟩ := changed_step h
  refine ⟨p, hp, hw, hc, ?_⟩
  have := cacheAcc_run (hist ++ [e]) (Auth.init n ign) [] (by simp [Auth.init])
  rw [run_snoc] at this
  simpa using this p hp c hc

end GrpcProofs.C43
