/-
C18  Retries are bounded, policy-driven and replay the exact request.
Property theorems only; helper lemmas are in GrpcProofs/Lemmas/Retry.lean (shouldRetry) and
GrpcProofs/Lemmas/RetryLoop.lean (withRetry / replay buffer / attempts).
Models: GrpcModel/Model/Retry.lean (csAttempt.shouldRetry), GrpcModel/Model/RetryLoop.lean
(clientStream.withRetry, retryLocked, bufferForRetryLocked, commitAttemptLocked, SendMsg, CloseSend,
RecvMsg, Header against a scripted server that answers at quiescent points).
-/
import GrpcProofs.Lemmas.RetryLoop
import GrpcProofs.Properties.C19
namespace GrpcProofs.C18
open GrpcModel.Retry GrpcModel.RetryLoop GrpcProofs.Lemmas.Retry GrpcProofs.Lemmas.RetryLoop

/-! ### the decision -/

/-- A timed (non-transparent) retry is decided only while the RPC is neither finished nor committed
    nor dropped, with retries enabled, when the failed attempt received no response headers
    (no stream at all, or a Trailers-Only / header-less end), its status code is in the retry
    policy, the server's pushback does not forbid it, the throttler allows it, and the attempt
    limit is not reached. -/
theorem retry_only_if (dis : Bool) (pol : Option Policy) (cs : CS) (a : Attempt) (r : ℚ) (dur : Int) (fp : Bool)
    (h : (shouldRetry dis pol cs a r).2 = .backoff dur fp) :
    cs.finished = false ∧ cs.committed = false ∧ a.drop = false ∧ dis = false ∧
    (a.hasStream = true → a.trailersOnly = true) ∧
    (a.hasStream = true → parsePushback a.pushback ≠ .abort) ∧
    ∃ rp, pol = some rp ∧ rp.codes.contains a.code = true ∧
      (throttleOpt cs.throttler).2 = false ∧ cs.numRetries + 1 < rp.maxAttempts := by
  obtain ⟨pb, rp, hs, hp, hthr, hlt⟩ := sr_backoff_conditions dis pol cs a r dur fp h
  obtain ⟨rp', hp', hc, hne, hpb, hf, hcm, hd, hdis, hto⟩ := stage_charged_pol dis pol cs a pb hs
  rw [hp] at hp'; injection hp' with hp'; subst hp'
  refine ⟨hf, hcm, hd, hdis, hto, ?_, rp, hp, hc, hthr, hlt⟩
  intro hst; rw [hst] at hpb; simp only [if_true] at hpb; rw [← hpb]; exact hne

/-- A transparent retry is decided only for an attempt the server never processed: the stream was
    never created (and the transport said the request was not sent), or — on the first attempt
    only — the stream was refused / lies above a GOAWAY's last-stream-id (`Unprocessed`). -/
theorem transparent_only_if_unprocessed (dis : Bool) (pol : Option Policy) (cs : CS) (a : Attempt) (r : ℚ)
    (h : (shouldRetry dis pol cs a r).2 = .transparent) :
    cs.finished = false ∧ cs.committed = false ∧ a.drop = false ∧
    ((a.hasStream = false ∧ a.allowTransparent = true) ∨
     (cs.firstAttempt = true ∧ a.hasStream = true ∧ a.unprocessed = true)) :=
  sr_transparent_conditions dis pol cs a r h

/-- The effective attempt limit is the policy value capped by the channel limit. -/
theorem effective_max_is_min (chanMax ma ib mb : Int) (mu : ℚ) (codes : List Nat) (p : Policy)
    (h : convertPolicy chanMax ma ib mb mu codes = some p) : p.maxAttempts = min ma chanMax :=
  (GrpcProofs.C19.policy_max_capped chanMax ma ib mb mu codes p h).1

/-! ### the retry loop, for every server script and every application op sequence -/

/-- the state after `newClientStream`: `ns` scripts the outcome of every stream creation of the RPC
    (`some c` = transport.NewStream fails with status c after a successful pick), `f0` is the fuel of
    the creation loop -/
def fresh (cstr sstr dis : Bool) (pol : Option Policy) (maxBuf : Int) (thr : Option Throttler) (script : List Beh)
    (ns : List (Option Nat)) (f0 : Nat) : St :=
  ((St.init cstr sstr dis pol maxBuf thr script ns).opNew f0).1

/-- `newClientStream` returned a stream -/
def newOk (cstr sstr dis : Bool) (pol : Option Policy) (maxBuf : Int) (thr : Option Throttler) (script : List Beh)
    (ns : List (Option Nat)) (f0 : Nat) : Prop :=
  ((St.init cstr sstr dis pol maxBuf thr script ns).opNew f0).2.1 = .ok

theorem fresh_inv (cstr sstr dis : Bool) (pol : Option Policy) (maxBuf : Int) (thr : Option Throttler) (script : List Beh)
    (ns : List (Option Nat)) (f0 : Nat)
    (hm : 0 ≤ maxBuf) (hnew : newOk cstr sstr dis pol maxBuf thr script ns f0) : OpInv (fresh cstr sstr dis pol maxBuf thr script ns f0) :=
  opNew_inv f0 _ rfl rfl rfl rfl rfl ⟨le_refl _, Or.inl rfl⟩ hm hnew

/-- With `fuelFor` fuel the model's bound on retries inside one operation is never hit: the loop
    terminates by itself (one transparent retry plus at most maxAttempts timed ones). -/
theorem fuel_suffices (cstr sstr dis : Bool) (pol : Option Policy) (maxBuf : Int) (thr : Option Throttler) (script : List Beh)
    (ns : List (Option Nat)) (f0 : Nat) (hm : 0 ≤ maxBuf) (hnew : newOk cstr sstr dis pol maxBuf thr script ns f0) (ops : List AppOp) (hops : ∀ o ∈ ops, o ≠ .new) (fuel : Nat)
    (hf : fuelFor (fresh cstr sstr dis pol maxBuf thr script ns f0) ≤ fuel) :
    ∀ r ∈ (St.run fuel (fresh cstr sstr dis pol maxBuf thr script ns f0) ops).2.1, r ≠ .outOfFuel :=
  (run_inv fuel ops _ hops (fresh_inv cstr sstr dis pol maxBuf thr script ns f0 hm hnew) hf).2

theorem opNewOk_pol (st : St) : st.opNewOk.1.pol = st.pol := by
  unfold St.opNewOk
  exact ((settle_frame _).pol).trans ((buffer_frame _ _ _).pol)

theorem opNew_pol (fuel : Nat) (st : St) : (st.opNew fuel).1.pol = st.pol := by
  induction fuel generalizing st with
  | zero =>
    rw [St.opNew]
    cases hns : st.nsScript with
    | nil => exact opNewOk_pol st
    | cons o rest =>
      cases o with
      | none => exact opNewOk_pol _
      | some c => simp only; split <;> rfl
  | succ n ih =>
    rw [St.opNew]
    cases hns : st.nsScript with
    | nil => exact opNewOk_pol st
    | cons o rest =>
      cases o with
      | none => exact opNewOk_pol _
      | some c =>
        simp only
        split
        · rfl
        · rfl
        · exact (ih _).trans rfl

theorem run_pol (fuel : Nat) (ops : List AppOp) (st : St) : (St.run fuel st ops).1.pol = st.pol := by
  induction ops generalizing st with
  | nil => rfl
  | cons o os ih =>
    simp only [St.run]
    rw [ih]
    cases o with
    | new => exact opNew_pol fuel st
    | send n =>
      simp only [St.step]; rw [(opSendW_fst fuel st n).1]; unfold St.opSend
      split_ifs
      · exact ((finish_frame _ _).trans (settle_frame _)).pol
      · exact (endSend_pol _ _).trans (withRetry_frame _ _ _).pol
    | close =>
      simp only [St.step]; unfold St.opClose
      split_ifs
      · rfl
      · exact ((settle_frame _).pol).trans (withRetry_frame _ st.beginClose _).pol
    | recv =>
      have h1 : ∀ s : St, (s.opRecv fuel).1.pol = s.pol := fun s => by
        unfold St.opRecv; exact (endRecv_pol _ _).trans (withRetry_frame _ _ _).pol
      simp only [St.step, St.opRecvW]
      split_ifs
      · exact h1 st
      · split
        · exact (h1 _).trans (h1 st)
        · exact h1 st
    | header =>
      simp only [St.step]; unfold St.opHeader
      exact (endHeader_pol _ _).trans (withRetry_frame _ _ _).pol
    | cancel =>
      simp only [St.step, St.opCancel]
      exact ((finish_frame _ _).trans (settle_frame _)).pol

/-- Bounded: every attempt ever created carries `grpc-previous-rpc-attempts` = number of earlier
    non-transparent attempts (`prev`), and the attempt's number `prev + 1` never exceeds the
    policy's (already capped, see `effective_max_is_min`) maxAttempts; without a policy — or before
    any timed retry — it is the first. -/
theorem attempts_bounded (cstr sstr dis : Bool) (pol : Option Policy) (maxBuf : Int) (thr : Option Throttler) (script : List Beh)
    (ns : List (Option Nat)) (f0 : Nat) (hm : 0 ≤ maxBuf) (hnew : newOk cstr sstr dis pol maxBuf thr script ns f0) (ops : List AppOp) (hops : ∀ o ∈ ops, o ≠ .new) (fuel : Nat)
    (hf : fuelFor (fresh cstr sstr dis pol maxBuf thr script ns f0) ≤ fuel) :
    ∀ a ∈ (St.run fuel (fresh cstr sstr dis pol maxBuf thr script ns f0) ops).1.atts,
      a.prev + 1 ≤ 1 ∨ ∃ rp, pol = some rp ∧ a.prev + 1 ≤ rp.maxAttempts := by
  intro a ha
  have hinv := (run_inv fuel ops _ hops (fresh_inv cstr sstr dis pol maxBuf thr script ns f0 hm hnew) hf).1
  have hb := hinv.bound
  have hle := hb.1 a ha
  rcases hb.2.2 with h0 | ⟨rp, hp, hlt⟩
  · left; omega
  · right
    refine ⟨rp, ?_, by omega⟩
    rw [run_pol] at hp
    unfold fresh at hp
    rw [opNew_pol] at hp
    exact hp

/-- Replay exactness.  At every point between two application operations: while the RPC is
    uncommitted the replay buffer spells exactly what the application has produced so far; what any
    attempt ever carried to the server is a prefix of that history; and a live current attempt has
    carried all of it. -/
theorem replay_exact (cstr sstr dis : Bool) (pol : Option Policy) (maxBuf : Int) (thr : Option Throttler) (script : List Beh)
    (ns : List (Option Nat)) (f0 : Nat) (hm : 0 ≤ maxBuf) (hnew : newOk cstr sstr dis pol maxBuf thr script ns f0) (ops : List AppOp) (hops : ∀ o ∈ ops, o ≠ .new) (fuel : Nat)
    (hf : fuelFor (fresh cstr sstr dis pol maxBuf thr script ns f0) ≤ fuel) :
    let st := (St.run fuel (fresh cstr sstr dis pol maxBuf thr script ns f0) ops).1
    (st.cs.committed = false → wireOf st.clientStreams st.replay = st.hist) ∧
    (∀ a ∈ st.atts, a.log <+: st.hist) ∧
    (∀ a, st.cur = some a → a.dead = false → a.log = st.hist) := by
  intro st
  have hinv := (run_inv fuel ops _ hops (fresh_inv cstr sstr dis pol maxBuf thr script ns f0 hm hnew) hf).1
  have hr := hinv.good.1
  refine ⟨fun hc => by simpa using hr.buf hc, hr.pre, fun a hc hd => by simpa using hr.cur a hc hd⟩

/-- … and a retry sends the new attempt exactly that buffer: the attempt `retryLocked` creates has
    received, when `replayBufferLocked` returns, precisely the wire image of the buffer, which by
    `replay_exact` is the application's history before the operation in progress. -/
theorem retry_replays_buffer (st : St) (d : Decision) (pb pc : List Wire) (h : RInv st pb pc)
    (hu : st.cs.committed = false) (hst : st.started = true) :
    ∃ a, (st.startRetry d).1.atts = st.atts ++ [a] ∧ a.log = wireOf st.clientStreams st.replay ∧
      a.log ++ pb = st.hist ∧ a.prev = (afterDecision st.cs d).numRetries := by
  obtain ⟨_, _, ⟨a, ha, hl, hp⟩, _⟩ := startRetry_rinv st d pb pc h hu hst
  exact ⟨a, ha, hl, by rw [hl]; exact h.buf hu, hp⟩

/-- No attempt is created once the RPC is committed (by any operation other than `new`), and a
    committed RPC stays committed. -/
theorem no_new_attempt_when_committed (fuel : Nat) (st : St) (op : AppOp) (hop : op ≠ .new)
    (hc : st.cs.committed = true) :
    (st.step fuel op).1.atts.length = st.atts.length ∧ (st.step fuel op).1.cs.committed = true :=
  step_committed fuel st op hop hc

/-- Delivering a response header or a response message to the application commits the RPC … -/
theorem commit_on_delivery (fuel : Nat) (st : St) (op : AppOp) (hop : op ≠ .new)
    (h : (st.step fuel op).2.1.delivers = true) : (st.step fuel op).1.cs.committed = true :=
  step_delivery_commits fuel st op hop h

/-- … and so does exceeding the buffer limit: an uncommitted RPC never holds more than
    MaxRetryRPCBufferSize bytes, and the op that would exceed it commits instead of buffering. -/
theorem commit_on_buffer_limit (cstr sstr dis : Bool) (pol : Option Policy) (maxBuf : Int) (thr : Option Throttler) (script : List Beh)
    (ns : List (Option Nat)) (f0 : Nat) (hm : 0 ≤ maxBuf) (hnew : newOk cstr sstr dis pol maxBuf thr script ns f0) (ops : List AppOp) (hops : ∀ o ∈ ops, o ≠ .new) (fuel : Nat)
    (hf : fuelFor (fresh cstr sstr dis pol maxBuf thr script ns f0) ≤ fuel) :
    let st := (St.run fuel (fresh cstr sstr dis pol maxBuf thr script ns f0) ops).1
    (st.cs.committed = false → st.replaySize ≤ st.maxBuf) ∧
    (∀ (sz : Int) (op : ROp), st.replaySize + sz > st.maxBuf → (st.buffer sz op).cs.committed = true) := by
  intro st
  have hinv := (run_inv fuel ops _ hops (fresh_inv cstr sstr dis pol maxBuf thr script ns f0 hm hnew) hf).1
  refine ⟨hinv.size, ?_⟩
  intro sz op hgt
  simp only [St.buffer]
  split_ifs with hc
  · exact hc
  · rfl

/-- Negative limits: the very first `bufferForRetryLocked(0, op, nil)` exceeds the limit and commits
    (the nil cleanup is skipped since /repo f1630c1; before that NewStream panicked there: F33). -/
theorem negative_limit_commits_at_once (cstr sstr dis : Bool) (pol : Option Policy) (maxBuf : Int) (thr : Option Throttler)
    (script : List Beh) (f0 : Nat) (hm : maxBuf < 0) : (fresh cstr sstr dis pol maxBuf thr script [] f0).cs.committed = true := by
  unfold fresh
  cases f0 <;> (rw [St.opNew]; simp [St.init, St.opNewOk, St.settle, St.newAttempt, St.buffer, St.commit, hm])

/-- **Concurrent use** (one goroutine in SendMsg, one in RecvMsg).  In the schedule `cs.mu` leaves open —
    the receiver fails, retries and replays the buffer while the sender sits between its transport write
    and re-locking — replay exactness is kept: afterwards the buffer still spells the application's
    history, every attempt's wire log is a prefix of it and the live current attempt carries all of it,
    so the message written to the replaced attempt has been sent again on the current one
    (`withRetry`'s `a != cs.attempt` re-run, whatever the result of the op on the old attempt was). -/
theorem concurrent_send_replay_exact (fuel : Nat) (st : St) (size : Nat) (h : Good st) :
    (st.opSendRecv fuel size).2.1 = .outOfFuel ∨ (st.opSendRecv fuel size).2.2.1 = .outOfFuel ∨
    (let s := (st.opSendRecv fuel size).1
     (s.cs.committed = false → wireOf s.clientStreams s.replay = s.hist) ∧
     (∀ a ∈ s.atts, a.log <+: s.hist) ∧
     (∀ a, s.cur = some a → a.dead = false → a.log = s.hist)) := by
  rcases opSendRecv_good fuel st size h with hf | hf | hg
  · exact Or.inl hf
  · exact Or.inr (Or.inl hf)
  · right; right
    have hr := hg.1
    exact ⟨fun hc => by simpa using hr.buf hc, hr.pre, fun a hc hd => by simpa using hr.cur a hc hd⟩

end GrpcProofs.C18
