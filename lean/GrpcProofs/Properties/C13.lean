import GrpcProofs.Lemmas.StreamQuota
/-!
C13 — Client never exceeds the server's MAX_CONCURRENT_STREAMS.

All statements are about `GrpcModel.StreamQuota` (one rule per `controlBuf` critical section or
channel operation of `internal/transport/http2_client.go`), for EVERY schedule `rs : List Rule`
(any number of callers, any interleaving of NewStream attempts, wake-ups, retries, ctx expiry,
stream closes, SETTINGS raising/lowering the limit incl. 0, header-list limit changes, GOAWAY,
GracefulClose) started from the state in which NewHTTP2Client returns, for every server preface
(`mcs` = MAX_CONCURRENT_STREAMS or absent, `hl` = MAX_HEADER_LIST_SIZE or absent).
-/
namespace GrpcProofs.C13
open GrpcModel.StreamQuota GrpcModel.Generated GrpcProofs.StreamQuota

/-- a state reachable by some schedule after some server preface -/
def Reachable (s : State) : Prop := ∃ mcs hl rs, s = run (initAfterPreface mcs hl) rs

theorem reachable_inv {s : State} (h : Reachable s) : Inv s := by
  obtain ⟨mcs, hl, rs, rfl⟩ := h
  exact run_inv _ _ (inv_initAfterPreface mcs hl)

/-- **Quota ledger.** `streamQuota = maxConcurrentStreams − |open| − leaked` in every reachable
state; `leaked` counts the quota units taken by the closure's `draining` early return. -/
theorem quota_ledger {s : State} (h : Reachable s) :
    s.quota = (s.maxC : Int) - (s.openS.length : Int) - (s.leaked : Int) :=
  (reachable_inv h).ledger

/-- While the transport is not draining nothing has leaked: `streamQuota = max − open` exactly
("can go negative if server decreases it"). -/
theorem quota_ledger_live {s : State} (h : Reachable s) (hd : s.draining = false) :
    s.quota = (s.maxC : Int) - (s.openS.length : Int) := by
  have hi := reachable_inv h
  have hl : s.leaked = 0 := by
    rcases Nat.eq_zero_or_pos s.leaked with h0 | hp
    · exact h0
    · have := hi.leak hp; rw [hd] at this; cases this
  have := hi.ledger
  rw [hl] at this; simpa using this

/-- `maxC` is the most recent advertised MAX_CONCURRENT_STREAMS: SETTINGS sets it, nothing else touches it. -/
theorem settings_sets_latest_max (s : State) :
    (∀ n, (step s (.settings n)).1.maxC = n) ∧ (∀ r, isSettings r = false → (step s r).1.maxC = s.maxC) := by
  refine ⟨?_, fun r hr => (step_maxC_open s r hr).1⟩
  intro n; simp only [step]; split <;> rfl

/-- **open ≤ latest max at every HEADERS emission.** Whenever a rule puts HEADERS for stream `id` on
the wire, the open streams *including the new one* number at most the latest advertised limit, the
new stream is the last element of the open list, and the limit was not changed by that rule. -/
theorem open_le_latest_max {s : State} (h : Reachable s) (r : Rule) (id : Nat)
    (he : id ∈ hdrIds (step s r).2) :
    (step s r).1.openS.length ≤ (step s r).1.maxC ∧
    (step s r).1.openS = s.openS ++ [⟨id, false⟩] ∧ (step s r).1.maxC = s.maxC := by
  have hi := reachable_inv h
  rcases step_emits s r with ⟨he0, _⟩ | ⟨he1, _, hq, _, ho, hm, _⟩
  · rw [he0] at he; cases he
  · rw [he1] at he
    have hid : id = s.nextID := by simpa using he
    subst hid
    refine ⟨?_, ho, hm⟩
    rw [ho, hm]
    have := hi.ledger
    simp only [List.length_append, List.length_cons, List.length_nil]
    omega

/-- **ids are odd and strictly increasing**, over the whole life of the connection. -/
theorem ids_odd_increasing (mcs hl : Option Nat) (rs : List Rule) :
    (hdrIds (trace (initAfterPreface mcs hl) rs)).Pairwise (· < ·) ∧
    ∀ id ∈ hdrIds (trace (initAfterPreface mcs hl) rs), id % 2 = 1 := by
  have h := trace_ids (initAfterPreface mcs hl) rs (inv_initAfterPreface mcs hl).odd
  exact ⟨h.1, fun id hid => (h.2.1 id hid).2.1⟩

/-- **A lowered limit blocks.** With the latest limit at or below the open count no rule emits HEADERS. -/
theorem lowered_limit_blocks {s : State} (h : Reachable s) (hlow : s.maxC ≤ s.openS.length) (r : Rule) :
    hdrIds (step s r).2 = [] := by
  have hi := reachable_inv h
  rcases step_emits s r with ⟨he0, _⟩ | ⟨_, _, hq, _⟩
  · exact he0
  · exfalso; have := hi.ledger; omega

/-- **… until enough close.** After the limit is lowered to `maxC ≤ |open|`, no schedule without a
further SETTINGS emits HEADERS unless it contains MORE than `|open| − maxC` closeStream rules. -/
theorem lowered_limit_blocks_until_enough_close {s : State} (h : Reachable s) (rs : List Rule)
    (hns : ∀ r ∈ rs, isSettings r = false)
    (hk : s.maxC + rs.countP isClose ≤ s.openS.length) :
    hdrIds (trace s rs) = [] :=
  no_hdr_until_enough_close s rs (reachable_inv h) hns hk

/-- `waitingStreams` is at least the number of parked + woken callers, so the `waitingStreams--`
of an admitted waiter never underflows (the model's truncated subtraction is never truncating). -/
theorem waiting_ge_waiters {s : State} (h : Reachable s) : nWaiters s ≤ s.waiting :=
  (reachable_inv h).waiters

/-- **No admission while draining** (after GOAWAY or GracefulClose). -/
theorem no_admission_while_draining (s : State) (hd : s.draining = true) (r : Rule) :
    hdrIds (step s r).2 = [] := by
  rcases step_emits s r with ⟨he0, _⟩ | ⟨_, _, _, hnd, _⟩
  · exact he0
  · rw [hd] at hnd; cases hnd

/-! ### wake-ups

Full statement (FALSE for the unchanged code, see the counterexample):
  `∀ mcs hl rs, let s := run (initAfterPreface mcs hl) rs;
     quiescent s → s.draining = false → starved s = false`
i.e. when no caller can take a step on its own, nobody is parked while stream quota is free.
Proved for schedules in which the header-list limit is not changed (`hls`) after the preface. -/

theorem hasP_of_countP_pos {l : List Caller} {f : Phase → Bool} (h : 0 < l.countP (fun c => f c.phase)) :
    HasP l (fun p => f p = true) := by
  obtain ⟨x, hx, hfx⟩ := List.countP_pos_iff.mp h
  obtain ⟨j, hj⟩ := List.getElem?_of_mem hx
  exact ⟨j, x, hj, hfx⟩

theorem countP_pos_of_hasP {l : List Caller} {f : Phase → Bool} (h : HasP l (fun p => f p = true)) :
    0 < l.countP (fun c => f c.phase) := by
  obtain ⟨j, x, hj, hfx⟩ := h
  exact List.countP_pos_iff.mpr ⟨x, List.mem_of_getElem? hj, hfx⟩

/-- **Progress (partial: no `hls` in the schedule).** Quota free, transport live and somebody parked ⇒
a wake-up is in flight: the token is in the channel, or a woken caller is about to retry, or a
caller is parked on an already-closed channel. -/
theorem progress_when_quota_free_partial (mcs hl : Option Nat) (rs : List Rule)
    (hr : ∀ r ∈ rs, isHls r = false) :
    let s := run (initAfterPreface mcs hl) rs
    s.draining = false → s.quota > 0 → nParked s > 0 →
      s.token = true ∨ nWoken s > 0 ∨ nParkedOld s > 0 := by
  intro s hd hq hp
  have hI : Inv s := run_inv _ _ (inv_initAfterPreface mcs hl)
  have hL : LW s := run_lw _ _ hr (inv_initAfterPreface mcs hl) (lw_initAfterPreface mcs hl)
  obtain ⟨j, cj, hj, hpj⟩ := hasP_of_countP_pos (f := isParked) hp
  cases hph : cj.phase with
  | blocked g =>
    have hg := hI.gens j cj g hj hph
    rcases Nat.lt_or_ge g s.gen with hlt | hge
    · right; right
      apply List.countP_pos_iff.mpr
      exact ⟨cj, List.mem_of_getElem? hj, by simp [hph, hlt]⟩
    · have hgeq : g = s.gen := by omega
      subst hgeq
      rcases hL.lw hd hq ⟨j, cj, hj, hph⟩ with ht | hw
      · left; exact ht
      · right; left
        obtain ⟨k, ck, hk, hwk⟩ := hw
        apply List.countP_pos_iff.mpr
        exact ⟨ck, List.mem_of_getElem? hk, by simp [hwk, isWoken]⟩
  | fresh => rw [hph] at hpj; cases hpj
  | woken => rw [hph] at hpj; cases hpj
  | stuck => rw [hph] at hpj; cases hpj
  | admitted a b => rw [hph] at hpj; cases hpj
  | failed w => rw [hph] at hpj; cases hpj

/-- **No waiter while quota is free (partial: no `hls` in the schedule).** In a quiescent state of a
live transport nobody is parked with `streamQuota > 0`. -/
theorem no_waiter_while_quota_free_partial (mcs hl : Option Nat) (rs : List Rule)
    (hr : ∀ r ∈ rs, isHls r = false) :
    let s := run (initAfterPreface mcs hl) rs
    quiescent s = true → s.draining = false → starved s = false := by
  intro s hqz hd
  cases hst : starved s with
  | false => rfl
  | true =>
    exfalso
    simp only [starved, Bool.and_eq_true, decide_eq_true_eq] at hst
    obtain ⟨hq, hp⟩ := hst
    simp only [quiescent, Bool.and_eq_true, beq_iff_eq, Bool.or_eq_true, Bool.not_eq_true'] at hqz
    obtain ⟨⟨⟨_, hw0⟩, ho0⟩, htok⟩ := hqz
    have hprog : s.token = true ∨ nWoken s > 0 ∨ nParkedOld s > 0 :=
      progress_when_quota_free_partial mcs hl rs hr hd hq hp
    rcases hprog with ht | hw | ho
    · rcases htok with htf | hp0
      · rw [ht] at htf; cases htf
      · omega
    · omega
    · omega

/-- **Counterexample to the unrestricted statement** (known finding F19, reproduced on the real
transport by the correspondence run): limit 1; caller 0 admitted; caller 1 (large header list) and
caller 2 park; SETTINGS lowers MAX_HEADER_LIST_SIZE; stream 1 closes (quota 1, token); caller 1
takes the token, fails `checkForHeaderListSize` and returns — caller 2 stays parked, quota free,
nothing in flight. -/
theorem no_waiter_while_quota_free_counterexample :
    ¬ (∀ (mcs hl : Option Nat) (rs : List Rule),
        let s := run (initAfterPreface mcs hl) rs
        quiescent s = true → s.draining = false → starved s = false) := by
  intro h
  have := h (some 1) none
    [.call 300, .tryNew 0, .call 5000, .tryNew 1, .call 300, .tryNew 2, .hls 1000,
     .closeStream 1 (some 0), .wake 1, .retry 1]
  revert this
  decide

/-! ### id range -/

/-- `nextID` never exceeds `MaxStreamID` (1610612735) by more than two per admission that found it
exceeded (each such caller goes on to GracefulClose, after which nothing is admitted). -/
theorem nextID_bound (mcs hl : Option Nat) (rs : List Rule) :
    let s := run (initAfterPreface mcs hl) rs
    s.nextID ≤ 1610612735 + 2 * s.flagged := by
  intro s
  have hI : Inv s := run_inv _ _ (inv_initAfterPreface mcs hl)
  have hm : s.maxSID = 1610612735 := by
    show (run _ _).maxSID = _
    rw [run_maxSID, initAfterPreface_maxSID]; rfl
  have := hI.idb
  rw [hm] at this
  omega

/-- Every id put on the wire is a valid client stream id (< 2^31) — partial: under the assumption
that fewer than 2^28 admissions race the first GracefulClose. -/
theorem ids_valid_partial (mcs hl : Option Nat) (rs : List Rule)
    (hf : (run (initAfterPreface mcs hl) rs).flagged < 268435456) :
    ∀ id ∈ hdrIds (trace (initAfterPreface mcs hl) rs), id < 2147483648 := by
  intro id hid
  have h := trace_ids (initAfterPreface mcs hl) rs (inv_initAfterPreface mcs hl).odd
  have h2 := (h.2.1 id hid).2.2
  have := nextID_bound mcs hl rs
  simp only at this
  omega

/-! ### non-vacuity -/

/-- the limit is reached and respected: limit 2, three callers → two HEADERS (ids 1, 3), one parked -/
example :
    let rs : List Rule := [.call 300, .call 300, .call 300, .tryNew 0, .tryNew 1, .tryNew 2]
    hdrIds (trace (initAfterPreface (some 2) none) rs) = [1, 3] ∧
    nParked (run (initAfterPreface (some 2) none) rs) = 1 := by decide

/-- lowering to 0 with two open, then one close: still nothing; raising to 2 wakes the waiter -/
example :
    let rs : List Rule := [.call 300, .call 300, .tryNew 0, .tryNew 1, .settings 0, .call 300, .tryNew 2,
      .closeStream 1 none, .settings 2, .wake 2, .retry 2]
    hdrIds (trace (initAfterPreface none none) rs) = [1, 3, 5] ∧
    (run (initAfterPreface none none) rs).quota = 0 := by decide

end GrpcProofs.C13
