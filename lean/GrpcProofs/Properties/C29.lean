/-
C29  A channel never goes idle under an active RPC.
Model: GrpcModel/Model/Idle.lean (every atomic access / lock acquisition of idle.Manager is one
rule; any number of goroutines).  Invariant and its preservation: GrpcProofs/Lemmas/Idle.lean.
All statements are about EVERY reachable state of EVERY interleaving.
-/
import GrpcProofs.Lemmas.Idle
namespace GrpcProofs.C29
open GrpcModel.Idle GrpcProofs.Lemmas.Idle

theorem reach_inv {s : St} (h : Reach s) : Inv s := by
  induction h with
  | init => exact inv_init
  | step r _ st ih => exact step_inv r ih st

/-- While the manager is not closed, the channel is never in idle mode while some RPC is between
    the return of OnCallBegin and the call of OnCallEnd. -/
theorem never_idle_under_active_rpc {s : St} (h : Reach s) (hc : s.closed = false) :
    s.idle = true → s.inCall = 0 :=
  fun hi => ((reach_inv h).safe hc hi).2.2.1

/-- cc.EnterIdleMode() is only ever called (rule tryEnter), and runs (holder = t3cb), in a state with no RPC in
    flight and none completing its OnCallBegin. -/
theorem enter_idle_only_without_active_rpc {s t : St} (h : Reach s) (hc : s.closed = false)
    (st : apply s .tryEnter = some t) : s.inCall = 0 ∧ t.inCall = 0 := by
  have hl := (reach_inv h).late hc
  simp only [apply] at st
  split at st
  · rename_i hg; simp at st; subst st; exact ⟨(hl (Or.inl hg.1)).2.2, (hl (Or.inl hg.1)).2.2⟩
  · simp at st

theorem no_rpc_during_enter_callback {s : St} (h : Reach s) (hc : s.closed = false) (hh : s.holder = .t3cb) :
    s.b2f = 0 ∧ s.b2s = 0 ∧ s.inCall = 0 :=
  (reach_inv h).late hc (Or.inr hh)

/-- While some goroutine is inside the cc.ExitIdleMode() callback — the channel is still LEAVING idle mode — no
    RPC has returned from OnCallBegin and none is about to (nobody is at the final store): every RPC start that
    found the channel idle returns only after the channel has left idle mode. -/
theorem no_rpc_returns_during_exit_callback {s : St} (h : Reach s) (hc : s.closed = false)
    (hh : s.holder = .xrcb ∨ s.holder = .xccb) : s.b2f = 0 ∧ s.b2s = 0 ∧ s.inCall = 0 := by
  have i := reach_inv h
  have hi : s.idle = true := i.exitIdle (by rcases hh with hh | hh <;> simp [exiting, hh])
  have := i.safe hc hi
  exact ⟨this.1, this.2.1, this.2.2.1⟩

/-- OnCallBegin returns (its final store is enabled: some goroutine at b2f or b2s) only when the
    channel is not idle: an RPC start that found the channel idle or entering idle returns only
    after the channel has left idle mode. -/
theorem begin_returns_only_when_not_idle {s : St} (h : Reach s) (hc : s.closed = false) :
    (s.b2f > 0 ∨ s.b2s > 0) → s.idle = false := by
  intro hab
  have := (reach_inv h).safe hc
  cases hi : s.idle with
  | false => rfl
  | true => have := this hi; omega

/-- Enter-idle and exit-idle callbacks strictly alternate (the manager starts idle, so the
    sequence is exit, enter, exit, …): an exit callback happens only when exits = enters, an
    enter callback only when exits = enters + 1. Holds with or without Close. -/
theorem exit_only_when_balanced {s t : St} (h : Reach s) (r : Rule) (st : apply s r = some t)
    (hx : t.exits = s.exits + 1) : s.exits = s.enters := by
  have a := (reach_inv h).alt
  have e := (reach_inv h).exitIdle
  cases r <;> simp only [apply] at st <;> (try split at st) <;> simp at st <;> subst st <;>
    simp_all [exiting, entering] <;> omega

theorem enter_only_after_exit {s t : St} (h : Reach s) (r : Rule) (st : apply s r = some t)
    (hx : t.enters = s.enters + 1) : s.exits = s.enters + 1 := by
  have a := (reach_inv h).alt
  have o := (reach_inv h).tryOff
  cases r <;> simp only [apply] at st <;> (try split at st) <;> simp at st <;> subst st <;>
    simp_all [exiting, entering, tryCount] <;> omega

/-- The counter never leaves the int32 range assumed by the code (fewer than 2^31-1 RPCs). -/
theorem counter_in_range {s : St} (h : Reach s) : -M ≤ s.cnt ∧ s.cnt < M := by
  have i := reach_inv h
  have l := i.ledger
  have b := i.bound
  have hM := M_pos
  have : 0 ≤ s.counted := by unfold St.counted; split <;> omega
  split at l <;> omega

-- non-vacuity: an RPC starting while idle drives exit; the timer then re-enters idle
example : (run init [.beginCheck, .beginAddSlow, .exitLockR, .exitCheckIdleR, .exitCbDoneR, .exitAddR, .exitResetR,
    .beginStoreSlow]).inCall = 1 := by decide
example : (run init [.beginCheck, .beginAddSlow, .exitLockR, .exitCheckIdleR, .exitCbDoneR, .exitAddR, .exitResetR,
    .beginStoreSlow, .endCheckOpen, .endStoreTime, .endAdd, .timerCheck, .timerLoadFree, .timerActYes,
    .timerStoreAct, .timerLoadTime, .resetLock, .resetDone, .timerCheck, .timerLoadFree, .timerActNo,
    .casOk, .tryLock, .tryLoadOk, .tryEnter, .tryEnterDone]).idle = true := by decide
-- the race the re-check under the lock is there for: RPC starts between the CAS and the lock
example : (run init [.connectLock, .exitCheckIdleC, .exitCbDoneC, .exitAddC, .exitResetC, .timerCheck, .timerLoadFree,
    .timerActNo, .casOk, .beginCheck, .beginAddSlow, .tryLock, .tryLoadLost, .tryUndo2]).cnt = 1 := by decide

end GrpcProofs.C29
