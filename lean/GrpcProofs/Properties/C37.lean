/-
C37  Ring hash builds bounded deterministic rings and walks them per A61.   (PARTIAL)
Property theorems only; helper lemmas are in GrpcProofs/Lemmas/Ring.lean and Lemmas/SortSearch.lean.

PARTIAL because balancer/ringhash/ring.go computes in float64 and most theorems below are about the
SAME definition (`GrpcModel.Ring.newRing`, generic over `RingArith`) instantiated with exact
rationals; the float instance is diffed bit-for-bit against the Go code and the predicates are
monitored on the real ring with no tolerance. What IS proved for every arithmetic, float64
included, is the upper size bound (`ring_size_le_max_any_arithmetic`): since /repo commit 9cc3b57
the fill loop also stops at max_ring_size. Before that commit the float code produced
max_ring_size + 1 entries (F14: weights [353 525 364 915 538 257 795 474], min 4, max 8 → 9), which
the monitor reproduced on the real newRing. Still monitored only (known finding F14b): the ±1 shift
of one entry between neighbouring endpoints when a float target lands just above an exact integer.

Vocabulary (GrpcModel/Model/Ring.lean):
  Valid eps             weights ≥ 1, Σ weights < 2^32 (the uint32 weightSum does not wrap), eps ≠ []
  newRing hashOf eps min max   the ring items, sorted by hash (hashOf k j = xxhash of "<key_k>_<j>")
  ringCounts eps min max       entries per endpoint, endpoints in hashKey order
  scaleOf eps min max          `scale` of newRing;  nw sum e = weight / Σ weights
  ringPick items h             index returned by ring.pick;  walkHash / walkRandom: picker.Pick
-/
import GrpcProofs.Lemmas.Ring
namespace GrpcProofs.C37
open GrpcModel.Ring GrpcModel.SortSearch
open GrpcProofs.Lemmas.Ring GrpcProofs.Lemmas.SortSearch

/-! ## 1. the ring -/

/-- The ring depends only on the SET of endpoints (hash keys distinct), not on the order in which
    the map hands them to newRing. -/
theorem ring_order_independent (hashOf : Nat → Nat → Nat) (eps eps' : List Endpoint) (hp : eps.Perm eps')
    (hinj : ∀ a ∈ eps, ∀ b ∈ eps, a.hashKey = b.hashKey → a = b) (minSize maxSize : ℕ) :
    newRing (α := ℚ) hashOf eps minSize maxSize = newRing (α := ℚ) hashOf eps' minSize maxSize := by
  unfold newRing ringCounts scaleOf
  rw [sortByKey_perm_eq eps eps' hp hinj, weightSum_perm eps eps' hp, minWeight_perm eps eps' hp]

/-- min_ring_size ≤ |ring| ≤ max_ring_size (for any number of endpoints). -/
theorem ring_size_bounds (hashOf : Nat → Nat → Nat) (eps : List Endpoint) (h : Valid eps)
    (minSize maxSize : ℕ) (hmm : minSize ≤ maxSize) :
    minSize ≤ (newRing (α := ℚ) hashOf eps minSize maxSize).length ∧
    (newRing (α := ℚ) hashOf eps minSize maxSize).length ≤ maxSize := by
  obtain ⟨hlo, hhi⟩ := scale_bounds eps minSize maxSize hmm (nw_pos eps h)
  rw [newRing_length hashOf eps h minSize maxSize hmm]
  constructor
  · have := Nat.le_ceil (scaleOf eps minSize maxSize : ℚ)
    have : (minSize : ℚ) ≤ (⌈(scaleOf eps minSize maxSize : ℚ)⌉₊ : ℚ) := le_trans hlo this
    exact_mod_cast this
  · exact Nat.ceil_le.mpr hhi

/-- The upper bound holds for EVERY arithmetic the generic port is instantiated with — exact
    rationals and IEEE float64 alike — and every input (no validity hypothesis): the fill loop
    `for currentHashes < targetHashes && uint64(len(items)) < maxRingSize` cannot exceed it.
    (Full-strength replacement of the F14 situation, repaired in /repo commit 9cc3b57.) -/
theorem ring_size_le_max_any_arithmetic {α : Type} [RingArith α] (hashOf : Nat → Nat → Nat)
    (eps : List Endpoint) (minSize maxSize : ℕ) :
    (newRing (α := α) hashOf eps minSize maxSize).length ≤ maxSize :=
  newRing_length_le hashOf eps minSize maxSize

/-- With min_ring_size ≥ 1 (the config parser's default and lower bound) the ring is never empty,
    so `ring.pick` / `items[0]` cannot panic. -/
theorem ring_nonempty (hashOf : Nat → Nat → Nat) (eps : List Endpoint) (h : Valid eps)
    (minSize maxSize : ℕ) (hmm : minSize ≤ maxSize) (hmin : 1 ≤ minSize) :
    newRing (α := ℚ) hashOf eps minSize maxSize ≠ [] := by
  intro hc
  have := (ring_size_bounds hashOf eps h minSize maxSize hmm).1
  rw [hc] at this
  simp at this; omega

/-- Endpoint i (in hashKey order) gets a number of entries within 1 of scale · normalized weight. -/
theorem entries_proportional (eps : List Endpoint) (h : Valid eps) (minSize maxSize : ℕ)
    (hmm : minSize ≤ maxSize) (i : ℕ) (hi : i < eps.length) :
    let c : ℕ := (ringCounts (α := ℚ) eps minSize maxSize).getD i 0
    let x : ℚ := scaleOf eps minSize maxSize * nw (weightSum eps) ((sortByKey eps).getD i ⟨"", 0⟩)
    (ringCounts (α := ℚ) eps minSize maxSize).length = eps.length ∧ x - 1 < (c : ℚ) ∧ (c : ℚ) < x + 1 := by
  obtain ⟨hlo, _⟩ := scale_bounds eps minSize maxSize hmm (nw_pos eps h)
  have hs : (0 : ℚ) ≤ scaleOf eps minSize maxSize := le_trans (by positivity) hlo
  have hlen : (sortByKey eps).length = eps.length := (sortByKey_perm eps).length_eq
  rw [ringCounts_q eps h minSize maxSize hmm]
  refine ⟨by rw [countsSpec_length, hlen], ?_⟩
  exact countsSpec_prop _ hs _ (sortByKey eps) 0 (le_refl _) i (by omega)

/-- The ring is sorted by hash (what the binary search of ring.pick needs). -/
theorem ring_sorted {α : Type} [RingArith α] (hashOf : Nat → Nat → Nat) (eps : List Endpoint) (minSize maxSize : ℕ) :
    (newRing (α := α) hashOf eps minSize maxSize).Pairwise (fun a b => a.hash ≤ b.hash) :=
  sortByHash_sorted _

/-- The balancer's ring follows the CURRENT endpoints and bounds: after any sequence of
    resolver / LB-config updates (each with at least one endpoint) the ring it holds is the one
    newRing (`F`, any function of the endpoint set and the bounds) builds for the last update —
    whether that update changed the endpoints, only min_ring_size, only max_ring_size, or nothing. -/
theorem balancer_ring_follows_current_config (F : List Endpoint → ℕ → ℕ → List RingEntry)
    (hF : ∀ e1 e2 a b, sortByKey e1 = sortByKey e2 → F e1 a b = F e2 a b)
    (us : List (List Endpoint × ℕ × ℕ)) (hne : ∀ u ∈ us, u.1 ≠ [])
    (eps : List Endpoint) (he : eps ≠ []) (a b : ℕ) :
    let step := fun (s : BalState) (u : List Endpoint × ℕ × ℕ) => balUpdate s u.1 u.2.1 u.2.2 (F u.1 u.2.1 u.2.2)
    (step (us.foldl step {}) (eps, a, b)).ring = F eps a b := by
  intro step
  have hinv : ∀ (us : List (List Endpoint × ℕ × ℕ)) (s : BalState), BalInv F s → (∀ u ∈ us, u.1 ≠ []) →
      BalInv F (us.foldl step s) := by
    intro us
    induction us with
    | nil => intro s h _; exact h
    | cons u us ih =>
      intro s h hn
      apply ih _ _ (fun u' hu' => hn u' (List.mem_cons_of_mem _ hu'))
      obtain ⟨h1, h2, h3⟩ := balUpdate_inv F hF s h u.1 (hn u List.mem_cons_self) u.2.1 u.2.2
      intro a' b' hc _
      show (balUpdate s u.1 u.2.1 u.2.2 (F u.1 u.2.1 u.2.2)).ring = F (balUpdate s u.1 u.2.1 u.2.2 (F u.1 u.2.1 u.2.2)).eps a' b'
      rw [h1] at hc
      obtain ⟨rfl, rfl⟩ := Prod.mk.inj (Option.some.inj hc)
      rw [h3, h2]
  have h0 : BalInv F {} := by intro a b hc; cases hc
  exact (balUpdate_inv F hF _ (hinv us {} h0 hne) eps he a b).2.2

/-! ## 2. ring.pick / ring.next -/

/-- `sort.Search` (literal port) on a monotone predicate: first index where it holds, n if none. -/
theorem search_spec (n : Nat) (f : Nat → Bool) (hm : Mono f) :
    search n f ≤ n ∧ (∀ k, k < search n f → f k = false) ∧ (∀ k, search n f ≤ k → k < n → f k = true) :=
  Lemmas.SortSearch.search_spec n f hm

/-- If some entry has hash ≥ h, ring.pick returns the first such entry (all earlier ones are < h). -/
theorem pick_first_at_least (items : List RingEntry) (hs : items.Pairwise (fun a b => a.hash ≤ b.hash))
    (h : Nat) (hex : ∃ i, i < items.length ∧ (items.getD i ⟨0, 0, 0⟩).hash ≥ h) :
    ringPick items h < items.length ∧ (items.getD (ringPick items h) ⟨0, 0, 0⟩).hash ≥ h ∧
      ∀ i, i < ringPick items h → (items.getD i ⟨0, 0, 0⟩).hash < h := by
  rcases ringPick_spec items hs h with ⟨hall, _⟩ | hr
  · obtain ⟨i, hi, hge⟩ := hex
    have := hall i hi; omega
  · exact hr

/-- If every entry's hash is below h, ring.pick wraps around to entry 0. -/
theorem pick_wraps_to_first (items : List RingEntry) (hs : items.Pairwise (fun a b => a.hash ≤ b.hash))
    (h : Nat) (hall : ∀ i, i < items.length → (items.getD i ⟨0, 0, 0⟩).hash < h) : ringPick items h = 0 := by
  rcases ringPick_spec items hs h with ⟨_, h0⟩ | ⟨hlt, hge, _⟩
  · exact h0
  · have := hall _ hlt; omega

/-- ring.next is the next index clockwise. -/
theorem next_is_clockwise (n idx : Nat) (hidx : idx < n) :
    ringNext n idx < n ∧ (idx + 1 < n → ringNext n idx = idx + 1) ∧ (idx + 1 = n → ringNext n idx = 0) := by
  unfold ringNext
  refine ⟨Nat.mod_lt _ (by omega), fun h => Nat.mod_eq_of_lt h, fun h => by rw [h, Nat.mod_self]⟩

/-! ## 3. picker.Pick -/

/-- Request hash: the pick is delegated to the first ring entry clockwise from ring.pick(h) whose
    endpoint is not in TRANSIENT_FAILURE (entries in TRANSIENT_FAILURE are skipped). -/
theorem walk_skips_transient_failure (st : Nat → CState) (n start : Nat) (hns : ∀ k, st k ≠ .shutdown)
    (j : Nat) (hj : j < n) (hst : st ((start + j) % n) ≠ .transientFailure)
    (hbefore : ∀ j', j' < j → st ((start + j') % n) = .transientFailure) :
    walkHash st n start n 0 = .delegate ((start + j) % n) := by
  rcases walkHash_spec st n start hns n 0 (by omega) (by intro j hj; omega) with
    ⟨j2, _, hj2, hst2, hb2, hres⟩ | ⟨hall, _⟩
  · have : j2 = j := by
      rcases Nat.lt_trichotomy j2 j with h | h | h
      · exact absurd (hbefore j2 h) hst2
      · exact h
      · exact absurd (hb2 j h) hst
    subst this; exact hres
  · exact absurd (hall j hj) hst

/-- Request hash, every endpoint in TRANSIENT_FAILURE: the first entry's picker (its failure). -/
theorem walk_all_failed_returns_first_entry (st : Nat → CState) (n start : Nat)
    (hall : ∀ j, j < n → st ((start + j) % n) = .transientFailure) :
    walkHash st n start n 0 = .delegate start := by
  have : ∀ fuel i, i + fuel = n → walkHash st n start fuel i = .delegate start := by
    intro fuel
    induction fuel with
    | zero => intro i _; rfl
    | succ fuel ih =>
      intro i hi
      simp only [walkHash, hall i (by omega)]
      exact ih (i + 1) (by omega)
  exact this n 0 (by omega)

/-- Random hash: if some endpoint on the ring is READY the pick goes to the first READY entry
    clockwise; an exitIdle, if any, hit an entry before it. -/
theorem random_walk_first_ready (st : Nat → CState) (n start : Nat) (hasConnecting : Bool)
    (j : Nat) (hj : j < n) (hst : st ((start + j) % n) = .ready)
    (hbefore : ∀ j', j' < j → st ((start + j') % n) ≠ .ready) :
    (walkRandom st n start n 0 hasConnecting []).1 = .delegate ((start + j) % n) := by
  obtain ⟨_, h2⟩ := walkRandom_spec st n start n 0 hasConnecting [] (by omega) (by intro j hj; omega)
  rcases h2 with ⟨j2, _, hj2, hst2, hb2, hres, _⟩ | ⟨hall, _⟩
  · have : j2 = j := by
      rcases Nat.lt_trichotomy j2 j with h | h | h
      · exact absurd hst2 (hbefore j2 h)
      · exact h
      · exact absurd hst (hb2 j h)
    subst this; exact hres
  · exact absurd hst (hall j hj)

/-- Random hash: at most one connection attempt (exitIdle) per pick, on an IDLE entry, and none at
    all when some endpoint is already CONNECTING. -/
theorem random_walk_at_most_one_connect (st : Nat → CState) (n start : Nat) (hasConnecting : Bool) :
    let ex := (walkRandom st n start n 0 hasConnecting []).2
    ex.length ≤ 1 ∧ (hasConnecting = true → ex = []) ∧
    (∀ k ∈ ex, st k = .idle) := by
  obtain ⟨h1, _⟩ := walkRandom_spec st n start n 0 hasConnecting [] (by omega) (by intro j hj; omega)
  rcases h1 with h | ⟨hreq, j, _, _, hid, _, hex⟩
  · intro ex
    have : ex = [] := h
    rw [this]; simp
  · intro ex
    have : ex = [(start + j) % n] := by simpa using hex
    rw [this]
    refine ⟨by simp, ?_, ?_⟩
    · intro hc; rw [hreq] at hc; cases hc
    · intro k hk
      simp at hk; rw [hk]; exact hid

/-- Random hash, no READY endpoint: the pick is queued (ErrNoSubConnAvailable) when a connection
    is in progress or was just requested; only when nothing is CONNECTING and no entry is IDLE
    (all in TRANSIENT_FAILURE) does it return the first entry's failure. -/
theorem random_walk_no_ready (st : Nat → CState) (n start : Nat) (hasConnecting : Bool)
    (hall : ∀ j, j < n → st ((start + j) % n) ≠ .ready) :
    let r := walkRandom st n start n 0 hasConnecting []
    (r.1 = .queue ∧ (hasConnecting = true ∨ r.2 ≠ [])) ∨
    (r.1 = .delegate start ∧ hasConnecting = false ∧ r.2 = [] ∧
      ∀ j, j < n → st ((start + j) % n) ≠ .idle) := by
  obtain ⟨_, h2⟩ := walkRandom_spec st n start n 0 hasConnecting [] (by omega) (by intro j hj; omega)
  rcases h2 with ⟨j, _, hj, hst, _⟩ | ⟨_, hres⟩
  · exact absurd hst (hall j hj)
  · intro r
    rcases hres with hq | ⟨hd, hf, he, hni⟩
    · exact Or.inl hq
    · exact Or.inr ⟨hd, hf, he, fun j hj => hni j (Nat.zero_le _) hj⟩

/-! ## non-vacuity -/

example : ringPick [⟨10, 0, 0⟩, ⟨20, 1, 0⟩, ⟨30, 0, 1⟩] 15 = 1 := by decide
example : ringPick [⟨10, 0, 0⟩, ⟨20, 1, 0⟩, ⟨30, 0, 1⟩] 31 = 0 := by decide
example : walkHash (fun k => if k = 2 then .idle else .transientFailure) 3 1 3 0 = .delegate 2 := by decide
example : walkRandom (fun k => if k = 0 then .ready else .idle) 3 1 3 0 false [] = (.delegate 0, [1]) := by decide
example : walkRandom (fun _ => .idle) 3 1 3 0 true [] = (.queue, []) := by decide
example : Valid [⟨"a", 3⟩, ⟨"b", 3⟩, ⟨"c", 4⟩] := ⟨by simp, by simp, by simp⟩

end GrpcProofs.C37
