/-
C38  Weighted random choice, drops and circuit breaking are exact.
Property theorems only; helper lemmas: GrpcProofs/Lemmas/{SortSearch,WRRRandom,EDF}.lean.

Vocabulary (GrpcModel/Model/WRRRandom.lean ports internal/wrr/random.go, clusterimpl/picker.go,
clusterimpl.go:dropRequestsPerMillion and xdsclient/requests_counter.go; GrpcModel/Model/EDF.lean
ports internal/wrr/edf.go):
  RW.ofWeights ws      NewRandom() + Add(i, ws[i]) for every i
  rw.range             the bound `Next` hands to rand.Int64N (the size of the random source)
  rw.pick r            the index `Next` returns when the random source answers r
  newDropper rpm / dropOf d r    clusterimpl dropper and dropper.drop()
  pick ready drops rs counter childOK count   picker.Pick (drop + circuit-breaking part)
"Probability" is the count over the whole (uniform) random source.
-/
import GrpcProofs.Lemmas.WRRRandom
import GrpcProofs.Lemmas.EDF
namespace GrpcProofs.C38
open GrpcModel.WRRRandom GrpcModel.SortSearch GrpcModel.EDF
open GrpcProofs.Lemmas.WRRRandom GrpcProofs.Lemmas.SortSearch GrpcProofs.Lemmas.EDF

/-! ## 1. weighted random selector -/

/-- `sort.Search` (literal port of the Go loop) on a monotone predicate returns the first index at
    which it holds (n if none). -/
theorem search_spec (n : Nat) (f : Nat → Bool) (hm : Mono f) :
    search n f ≤ n ∧ (∀ k, k < search n f → f k = false) ∧ (∀ k, search n f ≤ k → k < n → f k = true) :=
  Lemmas.SortSearch.search_spec n f hm

/-- The random source is `[0, Σw)` when the weights are not all equal and `[0, n)` when they are. -/
theorem random_range (ws : List Nat) (hne : ws ≠ []) :
    (¬ AllEqual ws → (RW.ofWeights ws).range = some ws.sum) ∧
    (AllEqual ws → (RW.ofWeights ws).range = some ws.length) :=
  ⟨range_noneq ws hne, range_eq ws hne⟩

/-- `rand.Int64N` is never called with a bound ≤ 0 (it would panic). -/
theorem random_range_positive (ws : List Nat) (hne : ws ≠ []) :
    ∃ n, (RW.ofWeights ws).range = some n ∧ 0 < n := by
  have hlen : 0 < ws.length := List.length_pos_of_ne_nil hne
  by_cases h : AllEqual ws
  · exact ⟨ws.length, range_eq ws hne h, hlen⟩
  · refine ⟨ws.sum, range_noneq ws hne h, ?_⟩
    -- not all equal ⇒ some weight is non-zero
    by_contra hc
    have hz : ws.sum = 0 := by omega
    apply h
    intro a ha b hb
    have h1 : a = 0 := List.sum_eq_zero_iff.mp hz a ha
    have h2 : b = 0 := List.sum_eq_zero_iff.mp hz b hb
    rw [h1, h2]

/-- Weights not all equal: over the Σw values of the random source item i is returned for exactly
    w_i of them — probability exactly w_i / Σw. -/
theorem next_counts (ws : List Nat) (hne : ws ≠ []) (h : ¬ AllEqual ws) (i : Nat) (hi : i < ws.length) :
    (List.range ws.sum).countP (fun r => (RW.ofWeights ws).pick r == some i) = ws.getD i 0 :=
  Lemmas.WRRRandom.next_counts ws hne h i hi

/-- All weights equal (zero included): every item is returned for exactly 1 of the n values. -/
theorem next_counts_equal (ws : List Nat) (hne : ws ≠ []) (h : AllEqual ws) (i : Nat) (hi : i < ws.length) :
    (List.range ws.length).countP (fun r => (RW.ofWeights ws).pick r == some i) = 1 :=
  Lemmas.WRRRandom.next_counts_equal ws hne h i hi

/-- A zero-weight item is never returned unless all weights are equal. -/
theorem zero_weight_never (ws : List Nat) (hne : ws ≠ []) (h : ¬ AllEqual ws) (i : Nat) (hi : i < ws.length)
    (hz : ws.getD i 0 = 0) (r : Nat) (hr : r < ws.sum) : (RW.ofWeights ws).pick r ≠ some i := by
  intro hp
  have := (pick_iff_slice ws hne h r i hr hi).mp hp
  rw [pre_succ ws i hi, hz] at this
  omega

/-- For every value of the random source `Next` returns a valid item (the slice index is in
    range: `rw.items[i]` cannot panic). -/
theorem next_in_bounds (ws : List Nat) (hne : ws ≠ []) (n r : Nat)
    (hn : (RW.ofWeights ws).range = some n) (hr : r < n) :
    ∃ i, i < ws.length ∧ (RW.ofWeights ws).pick r = some i := by
  by_cases h : AllEqual ws
  · rw [range_eq ws hne h] at hn
    have : n = ws.length := (Option.some.inj hn).symm
    exact ⟨r, by omega, pick_eq ws hne h r⟩
  · rw [range_noneq ws hne h] at hn
    have hn' : n = ws.sum := (Option.some.inj hn).symm
    obtain ⟨i, hi, hlo, hhi⟩ := slice_exists ws r (by omega)
    exact ⟨i, hi, (pick_iff_slice ws hne h r i (by omega) hi).mpr ⟨hlo, hhi⟩⟩

/-! ## 2. xDS drop categories -/

/-- the loop `for b != 0 { t := b; b = a % b; a = t }` computes the gcd -/
theorem gcd_is_gcd (a b : Nat) : gcd32 a b = Nat.gcd a b := gcd32_eq a b

/-- A dropper for `rpm ≤ 10^6` requests per million fires for exactly rpm / 10^6 of its random
    source (gcd reduction included; rpm = 0 never, rpm = 10^6 always, rpm = 500000 is the
    equal-weights case). -/
theorem drop_fraction_exact (rpm : Nat) (h : rpm ≤ 1000000) :
    ∃ N, (newDropper rpm).range = some N ∧ 0 < N ∧
      (List.range N).countP (fun r => dropOf (newDropper rpm) r) * 1000000 = rpm * N :=
  dropper_fraction rpm h

/-- `dropRequestsPerMillion` is exactly min(numerator/denominator, 1)·10^6 for the denominators an
    EDS drop overload can carry (100, 10 000, 1 000 000): numerator > denominator is capped at 100 %. -/
theorem requests_per_million_exact (num den : Nat) (hden : den = 100 ∨ den = 10000 ∨ den = 1000000) :
    dropRequestsPerMillion num den * den = min num den * 1000000 ∧ dropRequestsPerMillion num den ≤ 1000000 :=
  dropRPM_exact num den hden

/-- Together: the category numerator/denominator drops exactly the fraction
    min(numerator, denominator) / denominator of the RPCs that reach it. -/
theorem drop_category_fraction (num den : Nat) (hden : den = 100 ∨ den = 10000 ∨ den = 1000000) :
    ∃ N, (newDropper (dropRequestsPerMillion num den)).range = some N ∧ 0 < N ∧
      (List.range N).countP (fun r => dropOf (newDropper (dropRequestsPerMillion num den)) r) * den
        = min num den * N := by
  obtain ⟨h1, h2⟩ := dropRPM_exact num den hden
  obtain ⟨N, hN, hpos, hc⟩ := dropper_fraction _ h2
  refine ⟨N, hN, hpos, ?_⟩
  have hd : 0 < den := by rcases hden with h | h | h <;> omega
  -- k * 10^6 = rpm * N and rpm * den = m * 10^6  ⇒  k * den = m * N
  have : (List.range N).countP (fun r => dropOf (newDropper (dropRequestsPerMillion num den)) r) * den * 1000000
      = min num den * N * 1000000 := by
    calc _ = ((List.range N).countP (fun r => dropOf (newDropper (dropRequestsPerMillion num den)) r) * 1000000) * den := by ring
      _ = dropRequestsPerMillion num den * N * den := by rw [hc]
      _ = (dropRequestsPerMillion num den * den) * N := by ring
      _ = min num den * 1000000 * N := by rw [h1]
      _ = min num den * N * 1000000 := by ring
  exact Nat.eq_of_mul_eq_mul_right (by norm_num) this

/-- After ANY sequence of EDS updates the droppers in use are exactly those of the LATEST drop
    configuration (category by category, in order): an update that changes the rate of an existing
    category replaces its dropper. -/
theorem droppers_follow_latest_config (us : List (List (String × Nat × Nat))) (ovs : List (String × Nat × Nat)) :
    ((us ++ [ovs]).foldl handleDrops {}).drops = droppersOf ovs := by
  have hinv : ∀ (us : List (List (String × Nat × Nat))) (s : DropState),
      s.drops = s.cats.map (fun c => newDropper c.rpm) →
      (us.foldl handleDrops s).drops = (us.foldl handleDrops s).cats.map (fun c => newDropper c.rpm) := by
    intro us
    induction us with
    | nil => intro s h; exact h
    | cons u us ih =>
      intro s h
      obtain ⟨h1, h2⟩ := handleDrops_inv s h u
      apply ih
      rw [h2, h1]
      simp [droppersOf, List.map_map, Function.comp_def]
  rw [List.foldl_append]
  exact (handleDrops_inv _ (hinv us {} rfl) ovs).2

/-- Category drops happen only while the child policy is READY. -/
theorem drops_only_when_ready (drops : List RW) (rs : List Nat) (counter : Option Nat) (childOK : Bool)
    (count k : Nat) : (pick false drops rs counter childOK count).1 ≠ .dropped k := by
  unfold pick
  simp only [Bool.false_eq_true, if_false]
  cases counter with
  | none => cases childOK <;> simp
  | some max =>
    simp only
    cases startRequest count max with
    | none => simp
    | some c => cases childOK <;> simp

/-- When READY the RPC is dropped by category k iff k is the first category (in configuration
    order) whose dropper fires on its random value; the request counter is not touched. -/
theorem drop_iff_first_firing_category (drops : List RW) (rs : List Nat) (counter : Option Nat)
    (childOK : Bool) (count k : Nat) (hlen : drops.length ≤ rs.length) :
    (pick true drops rs counter childOK count).1 = .dropped k ↔
      (k < drops.length ∧ dropOf (drops.getD k {}) (rs.getD k 0) = true ∧
        ∀ j, j < k → dropOf (drops.getD j {}) (rs.getD j 0) = false) := by
  have hspec := firstDrop_spec drops rs 0 k hlen
  unfold pick
  simp only [if_true]
  cases hfd : firstDrop drops rs 0 with
  | some k' =>
    simp only [PickResult.dropped.injEq]
    constructor
    · intro hk; subst hk
      obtain ⟨j, hj, h1, h2, h3⟩ := hspec.mp hfd
      have : k' = j := by omega
      subst this; exact ⟨h1, h2, h3⟩
    · rintro ⟨h1, h2, h3⟩
      have := hspec.mpr ⟨k, by omega, h1, h2, h3⟩
      rw [hfd] at this; exact Option.some.inj this
  | none =>
    have hno : ¬ (k < drops.length ∧ dropOf (drops.getD k {}) (rs.getD k 0) = true ∧
        ∀ j, j < k → dropOf (drops.getD j {}) (rs.getD j 0) = false) := by
      rintro ⟨h1, h2, h3⟩
      have := hspec.mpr ⟨k, by omega, h1, h2, h3⟩
      rw [hfd] at this; cases this
    constructor
    · intro h
      exfalso
      cases counter with
      | none => cases childOK <;> simp at h
      | some max =>
        simp only at h
        cases hs : startRequest count max with
        | none => rw [hs] at h; simp at h
        | some c => rw [hs] at h; cases childOK <;> simp at h
    · intro h; exact absurd h hno

/-! ## 3. circuit breaking -/

/-- An RPC is admitted only while fewer than max_requests are in flight, and then the count goes
    up by one; every other outcome leaves the count unchanged (a failed child pick releases it). -/
theorem admitted_only_below_max (ready : Bool) (drops : List RW) (rs : List Nat) (max : Nat)
    (childOK : Bool) (count : Nat) (hb : count + 1 < 4294967296) :
    ((pick ready drops rs (some max) childOK count).1 = .ok ∧
        (pick ready drops rs (some max) childOK count).2 = count + 1 ∧ count < max) ∨
    ((pick ready drops rs (some max) childOK count).1 ≠ .ok ∧
        (pick ready drops rs (some max) childOK count).2 = count) :=
  pick_counter ready drops rs max childOK count hb

/-- Along any sequence of picks and completions (any picker configurations, any max per pick) the
    request counter equals the number of admitted, unfinished RPCs. -/
theorem inflight_is_admitted_minus_finished (ops : List CBOp) (hlen : ops.length < 4294967295) :
    (cbRun {} ops).count = (cbRun {} ops).unfinished := by
  have : ∀ (ops : List CBOp) (s : CB), s.count = s.unfinished → s.count + ops.length < 4294967295 →
      (cbRun s ops).count = (cbRun s ops).unfinished := by
    intro ops
    induction ops with
    | nil => intro s h _; exact h
    | cons op ops ih =>
      intro s h hb
      simp only [List.length_cons] at hb
      have hstep := cbStep_inv s op h (by omega)
      have hgrow : (cbStep s op).count ≤ s.count + 1 := by
        cases op with
        | pick ready drops rs max childOK =>
          simp only [cbStep]
          rcases pick_counter ready drops rs max childOK s.count (by omega) with ⟨_, h2, _⟩ | ⟨_, h2⟩ <;> omega
        | done =>
          have := cbStep_done_le s h (by omega); omega
      exact ih (cbStep s op) hstep (by omega)
  exact this ops {} rfl (by simpa using hlen)

/-- With one max_requests value, sequential picks never have more than max_requests in flight. -/
theorem sequential_inflight_le_max (max : Nat) (ops : List CBOp) (hlen : ops.length < 4294967295)
    (hmax : ∀ op ∈ ops, ∀ ready drops rs m childOK, op = CBOp.pick ready drops rs m childOK → m = max) :
    (cbRun {} ops).count ≤ max := by
  have : ∀ (ops : List CBOp) (s : CB), s.count = s.unfinished → s.count ≤ max →
      s.count + ops.length < 4294967295 →
      (∀ op ∈ ops, ∀ ready drops rs m childOK, op = CBOp.pick ready drops rs m childOK → m = max) →
      (cbRun s ops).count ≤ max := by
    intro ops
    induction ops with
    | nil => intro s _ h _ _; exact h
    | cons op ops ih =>
      intro s h hle hb hm
      simp only [List.length_cons] at hb
      have hstep := cbStep_inv s op h (by omega)
      have hbound : (cbStep s op).count ≤ max ∧ (cbStep s op).count ≤ s.count + 1 := by
        cases op with
        | pick ready drops rs m childOK =>
          have hmm : m = max := hm _ List.mem_cons_self ready drops rs m childOK rfl
          subst hmm
          simp only [cbStep]
          rcases pick_counter ready drops rs m childOK s.count (by omega) with ⟨_, h2, h3⟩ | ⟨_, h2⟩ <;> omega
        | done =>
          have := cbStep_done_le s h (by omega); omega
      exact ih (cbStep s op) hstep hbound.1 (by omega)
        (fun op' hop' => hm op' (List.mem_cons_of_mem _ hop'))
  exact this ops {} rfl (Nat.zero_le _) (by simpa using hlen) hmax

/-- When every admitted RPC has finished the in-flight count is back to zero. -/
theorem inflight_returns_to_zero (ops : List CBOp) (hlen : ops.length < 4294967295)
    (hfin : (cbRun {} ops).unfinished = 0) : (cbRun {} ops).count = 0 := by
  rw [inflight_is_admitted_minus_finished ops hlen]; exact hfin

/-! ## 4. EDF selector (exact rational deadlines) -/

/-- After any number k of `Next` calls every entry's deadline is (times returned + 1) / weight,
    and exactly k items have been returned. -/
theorem edf_deadline_closed_form (ws : List Nat) (hpos : ∀ w ∈ ws, 0 < w) (hne : ws ≠ []) (k : Nat) :
    let r := (EDFState.ofWeights ws : EDFState ℚ).run k
    r.2.length = k ∧ ∀ i, i < ws.length →
      (r.1.items.getD i ⟨0, 0⟩).deadline = ((r.2.count i : ℕ) + 1 : ℚ) / (ws.getD i 0 : ℚ) := by
  obtain ⟨hinv, hlen⟩ := inv_run ws hpos hne k
  exact ⟨hlen, fun i hi => (hinv.entry i hi).2⟩

/-- Items are returned in proportion to their weights: in every prefix,
    c_i / w_i ≤ (c_j + 1) / w_j for all items i, j (cross-multiplied). -/
theorem edf_proportional (ws : List Nat) (hpos : ∀ w ∈ ws, 0 < w) (hne : ws ≠ []) (k i j : Nat)
    (hi : i < ws.length) (hj : j < ws.length) :
    let is := ((EDFState.ofWeights ws : EDFState ℚ).run k).2
    is.count i * ws.getD j 0 ≤ (is.count j + 1) * ws.getD i 0 :=
  (inv_run ws hpos hne k).1.prop i j hi hj

/-- After m whole cycles (m·Σw picks) item i has been returned exactly m·w_i times. -/
theorem edf_exact_cycle (ws : List Nat) (hpos : ∀ w ∈ ws, 0 < w) (hne : ws ≠ []) (m i : Nat)
    (hi : i < ws.length) :
    (((EDFState.ofWeights ws : EDFState ℚ).run (m * ws.sum)).2).count i = m * ws.getD i 0 := by
  obtain ⟨hinv, hlen⟩ := inv_run ws hpos hne (m * ws.sum)
  have hpos' : ∀ j, j < ws.length → 0 < ws.getD j 0 := by
    intro j hj
    have : ws.getD j 0 ∈ ws := by simp [List.getD_eq_getElem?_getD, List.getElem?_eq_getElem hj]
    exact hpos _ this
  apply cycle_exact ws (fun j => List.count j _) m hpos' hinv.prop _ i hi
  rw [sum_count ws.length _ hinv.range, hlen, sum_getD]

/-! ## non-vacuity -/

example : (RW.ofWeights [1, 0, 3]).pick 1 = some 2 := by decide
example : (RW.ofWeights [1, 0, 3]).range = some 4 := by decide
example : (RW.ofWeights [2, 2, 2]).range = some 3 := by decide
example : ¬ AllEqual [1, 0, 3] := fun h => absurd (h 1 (by simp) 0 (by simp)) (by decide)
example : dropRequestsPerMillion 3 100 = 30000 := by decide
example : dropRequestsPerMillion 200 100 = 1000000 := by decide
example : (pick true [RW.ofWeights [1, 1]] [0] (some 2) true 0).1 = .dropped 0 := by decide
example : pick true [RW.ofWeights [1, 1]] [1] (some 2) true 1 = (.ok, 2) := by decide
example : pick true [RW.ofWeights [1, 1]] [1] (some 2) true 2 = (.cbDropped, 2) := by decide

end GrpcProofs.C38
