/-
C39  Priority failover uses the best available priority.
Model: GrpcModel/Model/Priority.lean (priority policy + the balancer group's sub-balancer cache).
Helper lemmas and the invariant: GrpcProofs/Lemmas/Priority.lean.
`Reach s`: s is the state after some history of config updates (distinct priority names, one child
per name — what parseConfig accepts from the xDS tree), child state reports (any child, any of
IDLE/CONNECTING/READY/TRANSIENT_FAILURE/other, also from stopped or removed children), init-timer
expirations, cache expirations and passages of time, in any order.
"usable" = READY, IDLE, or CONNECTING with its init timer still armed (`usable`).
-/
import GrpcProofs.Lemmas.PriorityD
namespace GrpcProofs.C39
open GrpcModel.Priority GrpcProofs.Lemmas.Priority

theorem run_reach (ops : List Op) (hv : ∀ op ∈ ops, validOp op) : Reach (run ops) := by
  unfold run
  suffices h : ∀ s, Reach s → Reach (ops.foldl step s) from h _ Reach.init
  induction ops with
  | nil => intro s h; exact h
  | cons o os ih =>
    intro s h
    exact ih (fun op hop => hv op (List.mem_cons_of_mem _ hop)) _ (Reach.step o (hv o (List.mem_cons_self)) h)

/-- two decompositions of a duplicate-free list around the same element coincide -/
theorem split_unique {l a b a' b' : List Nat} {x : Nat} (hn : l.Nodup) (h1 : l = a ++ x :: b) (h2 : l = a' ++ x :: b') :
    a = a' ∧ b = b' := by
  subst h1
  induction a generalizing a' with
  | nil =>
    cases a' with
    | nil => simp at h2; exact ⟨rfl, h2⟩
    | cons y ys =>
      simp only [List.nil_append, List.cons_append, List.cons.injEq] at h2
      obtain ⟨rfl, h3⟩ := h2
      have := (List.nodup_cons.mp hn).1
      rw [h3] at this; simp at this
  | cons z zs ih =>
    cases a' with
    | nil =>
      simp only [List.nil_append, List.cons_append, List.cons.injEq] at h2
      obtain ⟨rfl, h3⟩ := h2
      have := (List.nodup_cons.mp hn).1
      simp at this
    | cons y ys =>
      simp only [List.cons_append, List.cons.injEq] at h2
      obtain ⟨rfl, h3⟩ := h2
      obtain ⟨i1, i2⟩ := ih (List.nodup_cons.mp hn).2 h3
      exact ⟨by rw [i1], i2⟩

/-- The child in use is the highest priority that is usable, else the lowest priority: every
    priority above it is started and not usable (failed or timed out), it is itself started and
    usable unless it is the last one, every priority below it is stopped. -/
theorem in_use_is_first_usable {s : St} (hr : Reach s) (hne : s.prios ≠ []) :
    ∃ above u below c, s.prios = above ++ u :: below ∧ s.inUse = some u ∧ findChild s u = some c ∧
      c.started = true ∧ (usable c = true ∨ below = []) ∧
      (∀ a ∈ above, ∃ ca, findChild s a = some ca ∧ ca.started = true ∧ usable ca = false) ∧
      (∀ b ∈ below, ∃ cb, findChild s b = some cb ∧ cb.started = false) := by
  obtain ⟨above, u, below, c, h1, h2, h3, h4, h5, h6, h7, _⟩ := ((reach_good hr).sel hne).ex
  exact ⟨above, u, below, c, h1, h2, h3, h4, h5, h6, h7⟩

/-- "not usable" for the four states a child policy reports: TRANSIENT_FAILURE, or CONNECTING
    with the init timer gone (it expired, or the child failed before and is re-connecting) -/
theorem not_usable_means_failed_or_timed_out (c : Child) (h4 : c.st.conn ≤ 3) (h : usable c = false) :
    c.st.conn = 3 ∨ (c.st.conn = 1 ∧ c.timer = none) := by
  unfold usable at h
  simp only [Bool.or_eq_false_iff, Bool.and_eq_false_imp, decide_eq_false_iff_not, decide_eq_true_eq] at h
  obtain ⟨⟨h2, h0⟩, h1⟩ := h
  have : c.st.conn = 1 ∨ c.st.conn = 3 := by omega
  rcases this with h | h
  · right; refine ⟨h, ?_⟩
    have := h1 h
    cases ht : c.timer with
    | none => rfl
    | some _ => simp [ht] at this
  · exact Or.inl h

/-- A priority is started only while every higher priority is started and has failed or timed
    out (in every reachable state, hence in particular at the moment it is started). -/
theorem lower_started_only_after_higher_failed_or_timed_out {s : St} (hr : Reach s) {pre post : List Nat} {n : Nat}
    (hsplit : s.prios = pre ++ n :: post) {c : Child} (hc : findChild s n = some c) (hs : c.started = true) :
    ∀ a ∈ pre, ∃ ca, findChild s a = some ca ∧ ca.started = true ∧ usable ca = false := by
  have hne : s.prios ≠ [] := by rw [hsplit]; simp
  have hg := reach_good hr
  obtain ⟨above, u, below, cu, h1, _, _, _, _, h6, h7, _⟩ := (hg.sel hne).ex
  have hmem : n ∈ above ++ u :: below := by rw [← h1, hsplit]; simp
  rcases List.mem_append.mp hmem with hin | hin
  · -- n is above the child in use
    obtain ⟨p1, p2, rfl⟩ := List.append_of_mem hin
    have h1' : s.prios = p1 ++ n :: (p2 ++ u :: below) := by rw [h1]; simp
    obtain ⟨e1, _⟩ := split_unique hg.st.pn hsplit h1'
    intro a ha
    exact h6 a (by rw [e1] at ha; simp [ha])
  · rcases List.mem_cons.mp hin with rfl | hin
    · obtain ⟨e1, _⟩ := split_unique hg.st.pn hsplit h1
      intro a ha; exact h6 a (e1 ▸ ha)
    · obtain ⟨cb, hfb, hsb⟩ := h7 n hin
      rw [hc] at hfb; injection hfb with hfb; subst hfb
      rw [hs] at hsb; cases hsb

/-- Once a priority is READY (more generally: usable) every lower priority is stopped: removed from
    the balancer group (kept in its cache for SubBalancerCloseTimeout, then closed), its state
    reset, its updates ignored. -/
theorem lower_closed_when_higher_ready {s : St} (hr : Reach s) {pre post : List Nat} {n : Nat}
    (hsplit : s.prios = pre ++ n :: post) {c : Child} (hc : findChild s n = some c) (hs : c.started = true)
    (hready : c.st.conn = 2) :
    ∀ b ∈ post, ∃ cb, findChild s b = some cb ∧ cb.started = false ∧ cb.st = initState ∧ cb.timer = none := by
  have hne : s.prios ≠ [] := by rw [hsplit]; simp
  have hg := reach_good hr
  obtain ⟨above, u, below, cu, h1, _, _, _, _, h6, h7, _⟩ := (hg.sel hne).ex
  have husable : usable c = true := by simp [usable, hready]
  have hmem : n ∈ above ++ u :: below := by rw [← h1, hsplit]; simp
  have hpost : post = below := by
    rcases List.mem_append.mp hmem with hin | hin
    · obtain ⟨ca, hfa, _, hua⟩ := h6 n hin
      rw [hc] at hfa; injection hfa with hfa; subst hfa
      rw [husable] at hua; cases hua
    · rcases List.mem_cons.mp hin with rfl | hin
      · exact (split_unique hg.st.pn hsplit h1).2
      · obtain ⟨cb, hfb, hsb⟩ := h7 n hin
        rw [hc] at hfb; injection hfb with hfb; subst hfb
        rw [hs] at hsb; cases hsb
  intro b hb
  obtain ⟨cb, hfb, hsb⟩ := h7 b (hpost ▸ hb)
  have := hg.st.idle cb (findChild_some hfb).1 hsb
  exact ⟨cb, hfb, hsb, this.1, this.2⟩

/-- The state (connectivity + picker) last sent to the parent ClientConn is that of the child in
    use; with no priorities it is TRANSIENT_FAILURE with the all-priorities-removed error picker
    (or nothing was ever sent). -/
theorem parent_picker_is_in_use_childs {s : St} (hr : Reach s) :
    (s.prios ≠ [] → ∃ u c, s.inUse = some u ∧ findChild s u = some c ∧ s.lastUp = some c.st) ∧
    (s.prios = [] → s.inUse = none ∧ (s.lastUp = none ∨ s.lastUp = some ⟨3, .allrm⟩)) := by
  have hg := reach_good hr
  constructor
  · intro hne
    obtain ⟨_, u, _, c, _, h2, h3, _, _, _, _, h8⟩ := (hg.sel hne).ex
    exact ⟨u, c, h2, h3, h8⟩
  · exact hg.none

/-- "Within its initial connection timeout" really is initial: a child's init timer is armed only
    while it has not reported TRANSIENT_FAILURE since it was last READY/IDLE (or since it was
    started), so a child that failed and re-connects is not given a second timeout. -/
theorem init_timer_only_before_failure {s : St} (hr : Reach s) {c : Child} (hc : c ∈ s.children) :
    (c.reportedTF = true → c.timer = none) ∧ (c.started = false → c.reportedTF = false ∧ c.timer = none ∧ c.st = initState) := by
  have h := reach_good2 hr
  have h1 := h.ti c hc
  refine ⟨h1.1, fun hs => ⟨h1.2 hs, (h.good.st.idle c hc hs).2, (h.good.st.idle c hc hs).1⟩⟩

/-- What "started" / "closed" mean towards the balancer group: a child is started exactly when the
    group holds an active sub-balancer for it; the sub-balancer of a stopped child is gone or sits
    in the deletion cache with a deadline (it is closed when the deadline passes, op `expire`). -/
theorem started_iff_active_in_balancer_group {s : St} (hr : Reach s) (n : Nat) :
    (∃ b ∈ s.sbs, b.name = n ∧ b.cachedUntil = none) ↔ (∃ c ∈ s.children, c.name = n ∧ c.started = true) :=
  (reach_good3 hr).sb.iff n

theorem stopped_child_is_cached_or_closed {s : St} (hr : Reach s) {c : Child} (hc : c ∈ s.children) (hs : c.started = false)
    {b : Sb} (hb : b ∈ s.sbs) (hn : b.name = c.name) : b.cachedUntil ≠ none := by
  intro hnone
  obtain ⟨c', hc', hcn, hcs⟩ := (started_iff_active_in_balancer_group hr c.name).mp ⟨b, hb, hn, hnone⟩
  have : c' = c := eq_of_nodup_names (reach_good hr).st.cn hc' hc hcn
  subst this
  rw [hs] at hcs; cases hcs

/-! ### the window between an init timer firing and its callback running

`dispatch n`: the timer of child n has reached its deadline, the callback goroutine exists and
waits for the balancer's mutex; `runcb`: the oldest waiting callback runs.  In between the child may
report READY/IDLE/TF (the timer is stopped) and CONNECTING again (a NEW timer is armed). -/

/-- A callback waits only for a timer whose deadline has passed. -/
theorem callbacks_wait_only_after_deadline {s : St} (hr : Reach s) : ∀ p ∈ s.pending, p.2 ≤ s.now :=
  reach_pendOK hr

/-- The callback of a timer that has been stopped (the child's current timer is not the one it
    belongs to, or the child is gone) does nothing: it does not clear the child's new timer and
    does not re-sync, so the child keeps its whole (new) initial connection timeout. -/
theorem stale_callback_is_noop (s : St) {n : Nat} {d : Int} {rest : List (Nat × Int)}
    (hp : s.pending = (n, d) :: rest) (hstale : ∀ c, findChild s n = some c → c.timer ≠ some d) :
    step s .runcb = { clearOut s with pending := rest } := by
  show runCallback (clearOut s) = _
  rw [runCallback_eq]
  have hp' : (clearOut s).pending = (n, d) :: rest := hp
  rw [hp']
  simp only
  have hfc : findChild (clearOut s) n = findChild s n := rfl
  rw [hfc]
  cases hf : findChild s n with
  | none => rfl
  | some c =>
    simp only
    rw [if_neg (hstale c hf)]

/-- Hence: whenever a waiting callback changes anything, it is the callback of the child's CURRENT
    timer and that timer's deadline has passed. -/
theorem callback_acts_only_on_its_own_expired_timer {s : St} (hr : Reach s) {n : Nat} {d : Int} {rest : List (Nat × Int)}
    (hp : s.pending = (n, d) :: rest) (hne : step s .runcb ≠ { clearOut s with pending := rest }) :
    (∃ c, findChild s n = some c ∧ c.timer = some d) ∧ d ≤ s.now := by
  refine ⟨?_, callbacks_wait_only_after_deadline hr (n, d) (by rw [hp]; exact List.mem_cons_self)⟩
  cases hf : findChild s n with
  | none => exact absurd (stale_callback_is_noop s hp (fun c hc => by rw [hf] at hc; cases hc)) hne
  | some c =>
    by_cases ht : c.timer = some d
    · exact ⟨c, rfl, ht⟩
    · exact absurd (stale_callback_is_noop s hp (fun c' hc => by rw [hf] at hc; injection hc with hc; subst hc; exact ht)) hne

-- the interleaving: timer of 1 fires at 10000 and waits; 1 reports READY, IDLE, CONNECTING (new timer); the
-- stale callback runs: 1 stays in use with its new timer, 2 is not started
def race : List Op := [.update [1, 2] [(1, 0), (2, 0)], .child 1 1, .advance 10000, .dispatch 1, .child 1 2, .child 1 0, .child 1 1, .runcb]
example : (run race).inUse = some 1 ∧ (run race).children.map (fun c => (c.started, c.timer)) = [(true, some 20000), (false, none)] := by decide

-- non-vacuity: fail-over, fall-back and recovery on a concrete history
def demo : List Op := [.update [1, 2, 3] [(1, 0), (2, 0), (3, 1)], .child 1 1, .child 1 3, .child 2 1, .advance 10000, .timer 2]
example : (run demo).inUse = some 3 := by decide
example : (run (demo ++ [.child 1 2])).inUse = some 1 ∧ ((run (demo ++ [.child 1 2])).children.map (·.started)) = [true, false, false] := by decide
example : (run (demo ++ [.child 1 2])).lastUp = some ⟨2, .stub 4⟩ := by decide
example : ∀ op ∈ demo, validOp op := by
  intro op hop
  simp only [demo, List.mem_cons, List.mem_nil_iff, or_false] at hop
  rcases hop with rfl | rfl | rfl | rfl | rfl | rfl <;> simp [validOp, ValidCfg]

end GrpcProofs.C39
