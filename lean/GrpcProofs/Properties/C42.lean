/-
C42  ADS requests carry correct versions, nonces and subscriptions.
Model: GrpcModel/Model/Ads.lean (adsStreamImpl as an event → quiescence machine).
Every statement is about every state of the model (no reachability hypothesis is needed: each
function is correct on all states), hence about every history of subscribes, unsubscribes,
responses, watcher completions, stream failures and time.
-/
import GrpcModel.Model.Ads
namespace GrpcProofs.C42
open GrpcModel.Ads

/-! ### what goes into a request -/

/-- sendMessageLocked: the node identity is attached iff this is the first request on the stream,
    and no later request on the stream carries it (firstRequest is cleared). -/
theorem emit_node (s : St) (t : String) (ns : List String) (v n : String) (e : Bool) :
    (emit s t ns v n e).2.node = s.first ∧ (emit s t ns v n e).1.first = false := ⟨rfl, rfl⟩

theorem emit_types (s : St) (t : String) (ns : List String) (v n : String) (e : Bool) :
    (emit s t ns v n e).1.types = s.types ∧ (emit s t ns v n e).1.fcPending = s.fcPending := ⟨rfl, rfl⟩

/-- Requests caused by subscribe/unsubscribe (sendNewLocked): version = the type's last ACKed version,
    nonce = the type's latest nonce on this stream, names = the snapshot taken when the request was
    queued, never an error detail; and the type table is not touched. -/
theorem senderGo_spec (ps : List (String × List String)) (s : St) (acc : List Req) :
    (senderNotify.go s ps acc).1.types = s.types ∧
    ∀ r ∈ (senderNotify.go s ps acc).2, r ∈ acc ∨
      (∃ ts, getT s.types r.typ = some ts ∧ r.version = ts.version ∧ r.nonce = ts.nonce ∧ r.err = false ∧
        (r.typ, r.names) ∈ ps) := by
  induction ps generalizing s acc with
  | nil => simp [senderNotify.go]
  | cons p ps ih =>
    obtain ⟨t, names⟩ := p
    simp only [senderNotify.go]
    cases hg : getT s.types t with
    | none =>
      simp only []
      have := ih s acc
      refine ⟨this.1, fun r hr => ?_⟩
      rcases this.2 r hr with h | ⟨ts, h1, h2, h3, h4, h5⟩
      · exact Or.inl h
      · exact Or.inr ⟨ts, h1, h2, h3, h4, by simp [h5]⟩
    | some ts =>
      simp only []
      have := ih (emit s t names ts.version ts.nonce false).1 (acc ++ [(emit s t names ts.version ts.nonce false).2])
      rw [(emit_types s t names ts.version ts.nonce false).1] at this
      refine ⟨this.1, fun r hr => ?_⟩
      rcases this.2 r hr with h | ⟨ts', h1, h2, h3, h4, h5⟩
      · rw [List.mem_append] at h
        rcases h with h | h
        · exact Or.inl h
        · simp at h; subst h
          exact Or.inr ⟨ts, hg, rfl, rfl, rfl, by simp [emit]⟩
      · exact Or.inr ⟨ts', h1, h2, h3, h4, by simp [h5]⟩

theorem subscribe_requests (s : St) :
    (senderNotify s).1.types = s.types ∧
    ∀ r ∈ (senderNotify s).2, ∃ ts, getT s.types r.typ = some ts ∧ r.version = ts.version ∧
      r.nonce = ts.nonce ∧ r.err = false ∧ (r.typ, r.names) ∈ s.pending := by
  unfold senderNotify
  split
  · simp
  · split
    · simp
    · have := senderGo_spec s.pending s []
      refine ⟨this.1, fun r hr => ?_⟩
      rcases this.2 r hr with h | h
      · simp at h
      · exact h

/-- A new stream (sendExisting): every nonce is reset, versions are kept, and each type with
    subscriptions gets one request carrying the kept version, the EMPTY nonce and exactly the
    currently subscribed names. -/
theorem existingGo_spec (ts : List (String × TypeSt)) (s : St) (acc : List Req) :
    (sendExisting.go s ts acc).1.types = s.types ∧
    ∀ r ∈ (sendExisting.go s ts acc).2, r ∈ acc ∨
      (∃ st, (r.typ, st) ∈ ts ∧ r.version = st.version ∧ r.nonce = "" ∧ r.names = st.subs ∧ st.subs ≠ [] ∧ r.err = false) := by
  induction ts generalizing s acc with
  | nil => simp [sendExisting.go]
  | cons p ts ih =>
    obtain ⟨t, st⟩ := p
    simp only [sendExisting.go]
    split
    · have := ih s acc
      refine ⟨this.1, fun r hr => ?_⟩
      rcases this.2 r hr with h | ⟨st', h1, h2⟩
      · exact Or.inl h
      · exact Or.inr ⟨st', by simp [h1], h2⟩
    · rename_i hne
      have := ih (emit s t st.subs st.version "" false).1 (acc ++ [(emit s t st.subs st.version "" false).2])
      rw [(emit_types s t st.subs st.version "" false).1] at this
      refine ⟨this.1, fun r hr => ?_⟩
      rcases this.2 r hr with h | ⟨st', h1, h2⟩
      · rw [List.mem_append] at h
        rcases h with h | h
        · exact Or.inl h
        · simp at h; subst h
          exact Or.inr ⟨st, by simp [emit], rfl, rfl, rfl, hne, rfl⟩
      · exact Or.inr ⟨st', by simp [h1], h2⟩

theorem new_stream_requests (s : St) :
    (∀ p ∈ (sendExisting s).1.types, p.2.nonce = "") ∧
    (sendExisting s).1.types.map (fun p => (p.1, p.2.version, p.2.subs)) = s.types.map (fun p => (p.1, p.2.version, p.2.subs)) ∧
    ∀ r ∈ (sendExisting s).2, r.nonce = "" ∧ r.err = false ∧
      ∃ st, (r.typ, st) ∈ s.types ∧ r.version = st.version ∧ r.names = st.subs := by
  unfold sendExisting
  simp only []
  have h := existingGo_spec (s.types.map fun p => (p.1, { p.2 with nonce := "" }))
    { s with pending := [], senderStream := true, senderLive := true,
             types := s.types.map fun p => (p.1, { p.2 with nonce := "" }) } []
  refine ⟨?_, ?_, ?_⟩
  · rw [h.1]; intro p hp; simp at hp; obtain ⟨a, b, _, rfl⟩ := hp; rfl
  · rw [h.1]; simp [List.map_map, Function.comp_def]
  · intro r hr
    rcases h.2 r hr with h' | ⟨st, h1, h2, h3, h4, _, h6⟩
    · simp at h'
    · simp at h1
      obtain ⟨a, b, hab, he1, he2⟩ := h1
      refine ⟨h3, h6, b, ?_, ?_, ?_⟩
      · subst he1; exact hab
      · rw [h2, ← he2]
      · rw [h4, ← he2]

/-- ACK: exactly one request, carrying the accepted response's version and nonce and the current
    subscriptions; the type's version becomes that version. -/
theorem ack_spec (s : St) (m : Msg) (ts : TypeSt) (hv : m.verdict = "ack") (ht : getT s.types m.typ = some ts) :
    ∃ r, (handleMsg s m).2 = [r] ∧ r.typ = m.typ ∧ r.version = m.version ∧ r.nonce = m.nonce ∧
      r.names = ts.subs ∧ r.err = false := by
  have hu : m.verdict ≠ "unsup" := by rw [hv]; decide
  simp [handleMsg, hu, ht, hv, emit]

/-- NACK: exactly one request, carrying the PREVIOUSLY accepted version, the rejected response's
    nonce and an error detail. -/
theorem nack_spec (s : St) (m : Msg) (ts : TypeSt) (hv : m.verdict = "nack") (ht : getT s.types m.typ = some ts) :
    ∃ r, (handleMsg s m).2 = [r] ∧ r.typ = m.typ ∧ r.version = ts.version ∧ r.nonce = m.nonce ∧
      r.names = ts.subs ∧ r.err = true := by
  have hu : m.verdict ≠ "unsup" := by rw [hv]; decide
  have ha : m.verdict ≠ "ack" := by rw [hv]; decide
  simp [handleMsg, hu, ht, ha, emit]

/-- A response of a type the client has no state for, or of an unsupported type, is neither ACKed
    nor NACKed. -/
theorem unknown_type_no_request (s : St) (m : Msg) (h : m.verdict = "unsup" ∨ getT s.types m.typ = none) :
    (handleMsg s m).2 = [] := by
  unfold handleMsg
  rcases h with h | h
  · simp [h]
  · by_cases hu : m.verdict = "unsup" <;> simp [hu, h]

/-! ### flow control: no response is read until the watchers are done with the previous one -/

/-- Reading a response marks the flow control pending. -/
theorem read_sets_pending (s : St) (m : Msg) : (handleMsg s m).1.fcPending = true := by
  unfold handleMsg
  simp only []
  split
  · rfl
  · split
    · rfl
    · split <;> simp [emit]

/-- While an update is pending, the reader goroutine does nothing at all: no response is read, no
    request is sent, not even a broken stream is noticed. -/
theorem blocked_while_pending (fuel : Nat) (s : St) (rs : List Req) (evs : List Ev)
    (h1 : s.hasStream = true) (h2 : s.fcPending = true) : settle fuel s rs evs = (s, rs, evs) := by
  cases fuel with
  | zero => rfl
  | succ f => simp [settle, h1, h2]

/-- Only `done` (all watchers finished) clears the pending flag: every other event leaves the
    unread responses unread (newly arriving ones queue up behind them). -/
theorem only_done_unblocks (s : St) (m : Msg) (h1 : s.hasStream = true) (h2 : s.fcPending = true) (hl : s.live = true) :
    (step s (.recv m)).1.unread = s.unread ++ [m] ∧ (step s (.recv m)).1.fcPending = true ∧ (step s (.recv m)).2.1 = [] := by
  simp only [step, hl, if_true]
  rw [blocked_while_pending 64 _ [] [] (by simpa using h1) (by simpa using h2)]
  simp [h2]

-- non-vacuity: a small history (two types, ACK, NACK, a stream restart)
example :
    let s0 := (settle 8 (init 1000) [] []).1
    let (s1, _, _) := step s0 .up
    let (s2, _, _) := step s1 (.sleep 1000)
    let (s3, r3, _) := step s2 (.sub "A" "x")
    let (s4, r4, _) := step s3 (.recv ⟨"A", "v1", "n1", "ack", ["x"]⟩)
    let (s5, _, _) := step s4 .done
    let (s6, r6, _) := step s5 (.recv ⟨"A", "v2", "n2", "nack", []⟩)
    let (s7, _, _) := step s6 .done
    let (_, r8, _) := step s7 .brk
    (r3, r4, r6, r8) =
      ([⟨"A", "", "", ["x"], false, true⟩], [⟨"A", "v1", "n1", ["x"], false, false⟩],
       [⟨"A", "v1", "n2", ["x"], true, false⟩], [⟨"A", "v1", "", ["x"], false, true⟩]) := by decide

end GrpcProofs.C42
