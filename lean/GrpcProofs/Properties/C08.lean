/-
C08  grpc-message percent-encoding is a lossless printable-ASCII round trip.
Property theorems only; helper lemmas are in GrpcProofs/Lemmas/{Utf8,Utf8Valid,GrpcMessage}.lean.

Model: lean/GrpcModel/Model/GrpcMessage.lean (encodeGrpcMessage[Unchecked], decodeGrpcMessage[Unchecked])
over lean/GrpcModel/Prim/Utf8.lean (Go's utf8.DecodeRuneInString, string(rune), ValidString,
string([]rune(s))).  `WellFormed` is the Unicode Standard's Table 3-7, independent of the decoder.
-/
import GrpcProofs.Lemmas.GrpcMessage
import GrpcProofs.Lemmas.Utf8Valid
namespace GrpcProofs.C08
open GrpcModel.GrpcMessage GrpcModel.Utf8 GrpcModel.Generated

/-- Every byte of the encoded grpc-message value — fast path or slow path, for EVERY message
    byte string — is printable ASCII (0x20 … 0x7E). -/
theorem encode_printable (m : List UInt8) :
    (∀ b ∈ encode m, 0x20 ≤ b.toNat ∧ b.toNat ≤ 0x7E) ∧ (∀ b ∈ encodeUnchecked m, 0x20 ≤ b.toNat ∧ b.toNat ≤ 0x7E) := by
  have h := Lemmas.GrpcMessage.encLoop_printable m.length m
  have h2 : ∀ b ∈ encodeUnchecked m, 0x20 ≤ b.toNat ∧ b.toNat ≤ 0x7E := by
    intro b hb
    have := List.all_eq_true.mp h b hb
    simpa [printable] using this
  exact ⟨by rw [Lemmas.GrpcMessage.encode_eq_unchecked]; exact h2, h2⟩

/-- For every message, decoding the encoded value yields Go's `string([]rune(m))`: the message with
    each invalid byte replaced by U+FFFD (see `sanitize_spec`). -/
theorem roundtrip_any (m : List UInt8) : decode (encode m) = sanitize m := by
  rw [Lemmas.GrpcMessage.decode_eq_decLoop, Lemmas.GrpcMessage.encode_eq_unchecked]
  exact Lemmas.GrpcMessage.decLoop_encLoop m.length m

/-- Every well-formed (Unicode Table 3-7) UTF-8 message decodes back to itself. -/
theorem roundtrip_valid (m : List UInt8) (h : WellFormed m) : decode (encode m) = m := by
  rw [roundtrip_any]
  exact Lemmas.Utf8.valid_sanitize m ((Lemmas.Utf8.valid_iff_wellFormed m).mpr h)

/-- "invalid sequences become U+FFFD and nothing else changes", precisely: at each position, a byte
    the decoder reports as (RuneError, 1) is replaced by EF BF BD and one byte is skipped; otherwise the
    `size` bytes of the scalar are copied unchanged. -/
theorem sanitize_spec (m : List UInt8) :
    sanitize [] = [] ∧
    (m ≠ [] → sanitize m =
      if isInvalid (decodeRune m) then replacement ++ sanitize (m.drop 1)
      else m.take (decodeRune m).2 ++ sanitize (m.drop (decodeRune m).2)) :=
  ⟨rfl, Lemmas.Utf8.sanitize_unfold m⟩

/-- The round trip is the identity exactly on well-formed UTF-8, and its result always is well-formed. -/
theorem sanitize_valid_iff (m : List UInt8) :
    (decode (encode m) = m ↔ WellFormed m) ∧ WellFormed (decode (encode m)) := by
  rw [roundtrip_any]
  refine ⟨⟨fun h => (Lemmas.Utf8.valid_iff_wellFormed m).mp (Lemmas.Utf8.sanitize_fixed_valid m h),
    fun h => Lemmas.Utf8.valid_sanitize m ((Lemmas.Utf8.valid_iff_wellFormed m).mpr h)⟩,
    Lemmas.Utf8.wellFormed_sanitize m⟩

/-- Go's `utf8.ValidString` (as modelled and diffed) accepts exactly Table 3-7. -/
theorem valid_iff_wellFormed (m : List UInt8) : valid m = true ↔ WellFormed m :=
  Lemmas.Utf8.valid_iff_wellFormed m

/-- Decoding an arbitrary header value never panics: the index-for-index model, in which `msg[i]` and
    `msg[i+1:i+3]` out of range are represented as `none`, always returns a value — the one computed
    by the total `decode`. -/
theorem decode_never_panics (h : List UInt8) :
    decodeP h = some (decode h) ∧ decodeUncheckedP h = some (decLoop h) := by
  refine ⟨?_, Lemmas.GrpcMessage.decodeUncheckedP_eq h⟩
  unfold decodeP decode
  split
  · rfl
  · split
    · exact Lemmas.GrpcMessage.decodeUncheckedP_eq h
    · rfl

/-- The fast path of `encodeGrpcMessage` agrees with the slow path. -/
theorem encode_eq_unchecked (m : List UInt8) : encode m = encodeUnchecked m :=
  Lemmas.GrpcMessage.encode_eq_unchecked m

/-- The fast path of `decodeGrpcMessage` agrees with the slow path. -/
theorem decode_eq_unchecked (h : List UInt8) : decodeP h = decodeUncheckedP h := by
  rw [(decode_never_panics h).1, (decode_never_panics h).2, Lemmas.GrpcMessage.decode_eq_decLoop]

/-- A header value without a complete `%XY` position is returned unchanged. -/
theorem decode_plain_id (h : List UInt8) (hn : hasEscape h = false) : decode h = h := by
  rw [Lemmas.GrpcMessage.decode_eq_decLoop]; exact Lemmas.GrpcMessage.decLoop_noEscape h hn

-- non-vacuity / concrete instances
-- "é%" = C3 A9 25  →  "%C3%A9%25"
example : encode [0xC3, 0xA9, 0x25] = [37, 67, 51, 37, 65, 57, 37, 50, 53] := by decide
example : decode [37, 67, 51, 37, 65, 57, 37, 50, 53] = [0xC3, 0xA9, 0x25] := by decide
-- a lone continuation byte and a truncated 3-byte rune both become U+FFFD
example : sanitize [0x61, 0x80, 0xE2, 0x82] = [0x61, 0xEF, 0xBF, 0xBD, 0xEF, 0xBF, 0xBD, 0xEF, 0xBF, 0xBD] := by decide
example : valid [0xE2, 0x82, 0xAC] = true ∧ valid [0xED, 0xA0, 0x80] = false ∧ valid [0xC0, 0x80] = false := by decide
-- '%' handling at the end of the string: "a%4" and "%" stay, "%41" decodes, "%4G" stays
example : decode [0x61, 37, 0x34] = [0x61, 37, 0x34] ∧ decode [37] = [37] ∧ decode [37, 0x34, 0x31] = [0x41]
    ∧ decode [37, 0x34, 0x47] = [37, 0x34, 0x47] := by decide
example : WellFormed [0xE2, 0x82, 0xAC] :=
  WellFormed.cons _ [] (Scalar.rE1_EC _ _ _ (by decide) (by decide) (by decide)) WellFormed.nil

end GrpcProofs.C08
