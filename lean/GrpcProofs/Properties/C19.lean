/-
C19  Retry backoff and retry throttling follow gRFC A6 arithmetic.
Property theorems only; helper lemmas are in GrpcProofs/Lemmas/Retry.lean.
Model: GrpcModel/Model/Retry.lean (exact rationals; the two int64 conversions are ported with
their overflow behaviour).
-/
import GrpcProofs.Lemmas.Retry
namespace GrpcProofs.C19
open GrpcModel.Retry GrpcProofs.Lemmas.Retry

/-! ### token bucket -/

/-- For every configuration the parser's range check admits and every history of failures and
    successes on the channel's throttler, the bucket stays within [0, maxTokens]. -/
theorem tokens_in_range (maxTokens ratio : ℚ) (hv : validThrottling maxTokens ratio = true) (ops : List ThrOp) :
    0 ≤ ((Throttler.new maxTokens ratio).run ops).tokens ∧
    ((Throttler.new maxTokens ratio).run ops).tokens ≤ maxTokens := by
  have hv' : 0 < maxTokens ∧ 0 < ratio := by
    simp only [validThrottling, Bool.and_eq_true, Bool.not_eq_true', Bool.or_eq_false_iff,
      decide_eq_false_iff_not, not_le, not_lt] at hv
    exact ⟨hv.1.1, hv.2⟩
  have h := run_inRange ops (Throttler.new maxTokens ratio)
    ⟨le_of_lt hv'.1, le_refl _⟩ (le_of_lt hv'.2)
  have h2 := h.1.2
  rw [h.2.1] at h2
  exact ⟨h.1.1, by simpa [Throttler.new] using h2⟩

/-- `shouldRetry` itself never takes the bucket out of range (it only ever calls `throttle`). -/
theorem shouldRetry_keeps_range (dis : Bool) (pol : Option Policy) (cs : CS) (a : Attempt) (r : ℚ) (t : Throttler)
    (ht : cs.throttler = some t) (hin : 0 ≤ t.tokens ∧ t.tokens ≤ t.max) :
    ∃ t', (shouldRetry dis pol cs a r).1.throttler = some t' ∧ 0 ≤ t'.tokens ∧ t'.tokens ≤ t'.max ∧ t'.max = t.max := by
  rw [sr_throttler, ht]
  split_ifs
  · exact ⟨t.throttle.1, rfl, (throttle_inRange t hin).1, (throttle_inRange t hin).2, (throttle_fields t).1⟩
  · exact ⟨t, rfl, hin.1, hin.2, rfl⟩

/-- An attempt that fails with a retryable code (not finished/committed/dropped, not retried
    transparently, retries enabled, no response headers, pushback not malformed) removes exactly
    one token (floored at 0) — whether or not the retry is then allowed. -/
theorem failure_costs_one (dis : Bool) (pol : Option Policy) (cs : CS) (a : Attempt) (r : ℚ) (pb : Pushback) (t : Throttler)
    (hs : stage dis pol cs a = .charged pb) (ht : cs.throttler = some t) :
    ∃ t', (shouldRetry dis pol cs a r).1.throttler = some t' ∧ t'.tokens = max (t.tokens - 1) 0 ∧
      t'.max = t.max ∧ t'.thresh = t.thresh ∧ t'.ratio = t.ratio := by
  rw [sr_throttler, hs, ht]
  exact ⟨t.throttle.1, rfl, throttle_tokens t, throttle_fields t⟩

/-- Malformed pushback (one unparsable or negative value, or several values) costs one token
    and the RPC is not retried. -/
theorem malformed_pushback_costs_one (dis : Bool) (pol : Option Policy) (cs : CS) (a : Attempt) (r : ℚ) (t : Throttler)
    (hs : stage dis pol cs a = .abortPushback) (ht : cs.throttler = some t) :
    (shouldRetry dis pol cs a r).2 = .noRetry ∧
    ∃ t', (shouldRetry dis pol cs a r).1.throttler = some t' ∧ t'.tokens = max (t.tokens - 1) 0 ∧ t'.max = t.max := by
  rw [sr_abort dis pol cs a r hs, ht]
  exact ⟨rfl, t.throttle.1, rfl, throttle_tokens t, (throttle_fields t).1⟩

/-- Exactly those two kinds of failure touch the bucket: in every other case `shouldRetry`
    leaves the throttler as it was. -/
theorem token_touched_iff (dis : Bool) (pol : Option Policy) (cs : CS) (a : Attempt) (r : ℚ) :
    (shouldRetry dis pol cs a r).1.throttler =
      if (stage dis pol cs a).charges then (throttleOpt cs.throttler).1 else cs.throttler :=
  sr_throttler dis pol cs a r

/-- A successful RPC adds tokenRatio, capped at maxTokens. -/
theorem success_adds_ratio (t : Throttler) :
    t.success.tokens = min (t.tokens + t.ratio) t.max ∧ t.success.max = t.max ∧
    t.success.thresh = t.thresh ∧ t.success.ratio = t.ratio :=
  ⟨success_tokens t, success_fields t⟩

/-- After the removal, the retry is refused exactly when the bucket is at or below half of
    maxTokens (for a throttler as the channel builds it: thresh = max/2); otherwise the attempt
    limit and the backoff decide. -/
theorem refused_iff_at_or_below_half (dis : Bool) (pol : Option Policy) (cs : CS) (a : Attempt) (r : ℚ) (pb : Pushback)
    (t : Throttler) (hs : stage dis pol cs a = .charged pb) (ht : cs.throttler = some t) (hth : t.thresh = t.max / 2) :
    ((shouldRetry dis pol cs a r).2 = .noRetry ↔ max (t.tokens - 1) 0 ≤ t.max / 2) := by
  obtain ⟨rp, hp, heq⟩ := sr_charged_decision dis pol cs a r pb hs
  rw [heq]
  unfold chargedResult
  have h2 : (throttleOpt cs.throttler).2 = decide (max (t.tokens - 1) 0 ≤ t.max / 2) := by
    rw [ht]; simp only [throttleOpt]; rw [throttle_result, throttle_tokens, hth]
  rw [h2]
  by_cases hle : max (t.tokens - 1) 0 ≤ t.max / 2
  · simp [hle]
  · simp only [hle, decide_false, Bool.false_eq_true, if_false, iff_false]
    split_ifs
    · simp
    · cases pb <;> simp

/-- Without a throttler (no retryThrottling in the service config) a retry is never refused
    at the throttling step. -/
theorem no_throttler_never_refuses (dis : Bool) (pol : Option Policy) (cs : CS) (a : Attempt) (r : ℚ) (pb : Pushback)
    (hs : stage dis pol cs a = .charged pb) (ht : cs.throttler = none) :
    (shouldRetry dis pol cs a r).2 ≠ .noRetry := by
  obtain ⟨rp, hp, heq⟩ := sr_charged_decision dis pol cs a r pb hs
  rw [heq]
  unfold chargedResult
  rw [ht]
  simp only [throttleOpt, Bool.false_eq_true, if_false]
  split_ifs
  · simp
  · cases pb <;> simp

/-- The parser's range check: 0 < maxTokens ≤ 1000 and tokenRatio > 0. -/
theorem throttling_valid_iff (maxTokens ratio : ℚ) :
    validThrottling maxTokens ratio = true ↔ (0 < maxTokens ∧ maxTokens ≤ 1000 ∧ 0 < ratio) := by
  simp only [validThrottling, Bool.and_eq_true, Bool.not_eq_true', Bool.or_eq_false_iff,
    decide_eq_false_iff_not, not_le, not_lt]
  tauto

/-- Every retryThrottling the parser accepts satisfies the range check, with or without a
    `methodConfig` member.  (Before /repo e52eadc the check was skipped for configs without a
    `methodConfig`: finding F32, then proved here as `throttling_validation_counterexample`.) -/
theorem throttling_validation (hasMC : Bool) (maxTokens ratio : ℚ) :
    acceptsThrottling hasMC maxTokens ratio = validThrottling maxTokens ratio := rfl

/-! ### delay before a retry -/

/-- The pushback header is read as: absent → none; exactly one value that `Atoi` accepts and that
    is ≥ 0 → that many ms; anything else → abort. -/
theorem parse_pushback_spec (sps : List (List UInt8)) :
    (parsePushback sps = .absent ↔ sps = []) ∧
    (∀ n, parsePushback sps = .ms n ↔ ∃ v, sps = [v] ∧ atoi v = some n ∧ 0 ≤ n) := by
  constructor
  · cases sps with
    | nil => simp [parsePushback]
    | cons v rest =>
      cases rest with
      | nil =>
        simp only [parsePushback, reduceCtorEq, iff_false]
        cases atoi v with
        | none => simp
        | some n => simp only; split_ifs <;> simp
      | cons w rest => simp [parsePushback]
  · intro n
    cases sps with
    | nil => simp [parsePushback]
    | cons v rest =>
      cases rest with
      | nil =>
        simp only [parsePushback]
        cases hv : atoi v with
        | none => simp [hv]
        | some m =>
          simp only
          split_ifs with hneg
          · simp only [List.cons.injEq, and_true, false_iff, not_exists, not_and, not_le]
            intro x hx hm; subst hx; rw [hv] at hm; injection hm with hm; omega
          · simp only [Pushback.ms.injEq, List.cons.injEq, and_true]
            constructor
            · intro h; subst h; exact ⟨v, rfl, hv, by omega⟩
            · rintro ⟨x, hx, hm, _⟩; subst hx; rw [hv] at hm; injection hm
      | cons w rest => simp [parsePushback]

/-- Whenever a pushback was given the delay is that many milliseconds — saturated at MaxInt64 ns,
    the largest time.Duration, for pushbacks above ~292 years.  (Before /repo dab5ad1 the int64
    product wrapped: finding F15p, then proved here as `pushback_overflow_counterexample`.) -/
theorem pushback_is_delay (dis : Bool) (pol : Option Policy) (cs : CS) (a : Attempt) (r : ℚ) (dur : Int)
    (h : (shouldRetry dis pol cs a r).2 = .backoff dur true) :
    ∃ v n, a.hasStream = true ∧ a.pushback = [v] ∧ atoi v = some n ∧ 0 ≤ n ∧
      dur = min (1000000 * n) maxInt64 ∧ 0 ≤ dur := by
  cases hs : stage dis pol cs a with
  | early =>
    rw [shouldRetry_staged] at h; unfold stagedResult at h; rw [hs] at h
    simp only at h; split_ifs at h
  | abortPushback => rw [sr_abort dis pol cs a r hs] at h; cases h
  | notRetryable => rw [shouldRetry_staged] at h; unfold stagedResult at h; rw [hs] at h; cases h
  | charged pb =>
    obtain ⟨rp, hp, hc, hne, hpb, -⟩ := stage_charged_pol dis pol cs a pb hs
    obtain ⟨rp', hp', heq⟩ := sr_charged_decision dis pol cs a r pb hs
    rw [heq] at h
    unfold chargedResult at h
    split_ifs at h
    cases pb with
    | absent => simp at h
    | abort => simp at h
    | ms n =>
      · simp only [Decision.backoff.injEq, and_true] at h
        cases hst : a.hasStream with
        | false => rw [hst] at hpb; simp at hpb
        | true =>
          rw [hst] at hpb; simp only [if_true] at hpb
          obtain ⟨v, hv, hat, hn⟩ := ((parse_pushback_spec a.pushback).2 n).mp hpb.symm
          have hspec := pushbackDur_spec n hn
          refine ⟨v, n, rfl, hv, hat, hn, by rw [← h, hspec], ?_⟩
          rw [← h, hspec]
          exact le_min (by omega) (by unfold maxInt64; omega)

/-- A retry that honours a pushback resets the backoff exponent. -/
theorem pushback_resets_k (dis : Bool) (pol : Option Policy) (cs : CS) (a : Attempt) (r : ℚ) (dur : Int)
    (h : (shouldRetry dis pol cs a r).2 = .backoff dur true) :
    (shouldRetry dis pol cs a r).1.sincePushback = 0 := by
  rw [sr_sincePushback, h]; rfl

/-- Without pushback the delay lies in [0.8, 1.2] × min(initialBackoff × multiplier^k, maxBackoff), for
    every policy (base ≥ 0) and every jitter draw: durations are integer ns, so the delay is
    ⌊base × (0.8 + 0.4 r)⌋ capped at MaxInt64 — at least ⌊0.8·base⌋ (or MaxInt64 if that is smaller),
    at most 1.2·base, never negative.  (Before /repo 0ecebdc `int64(cur)` wrapped to MinInt64 when
    1.2·base ≥ 2^63: finding F15, then proved here as `backoff_overflow_counterexample`.) -/
theorem backoff_in_band (dis : Bool) (pol : Option Policy) (cs : CS) (a : Attempt) (r : ℚ) (dur : Int)
    (h : (shouldRetry dis pol cs a r).2 = .backoff dur false) (hr0 : 0 ≤ r) (hr1 : r < 1) :
    ∃ rp, pol = some rp ∧ dur = backoffDur rp cs.sincePushback r ∧
      (shouldRetry dis pol cs a r).1.sincePushback = cs.sincePushback + 1 ∧
      (0 ≤ backoffBase rp cs.sincePushback →
        (min ⌊4 / 5 * backoffBase rp cs.sincePushback⌋ maxInt64 ≤ dur ∧
         (dur : ℚ) ≤ 6 / 5 * backoffBase rp cs.sincePushback ∧ 0 ≤ dur ∧ dur ≤ maxInt64)) := by
  have hk := sr_sincePushback dis pol cs a r
  rw [h] at hk
  cases hs : stage dis pol cs a with
  | early =>
    rw [shouldRetry_staged] at h; unfold stagedResult at h; rw [hs] at h
    simp only at h; split_ifs at h
  | abortPushback => rw [sr_abort dis pol cs a r hs] at h; cases h
  | notRetryable => rw [shouldRetry_staged] at h; unfold stagedResult at h; rw [hs] at h; cases h
  | charged pb =>
    obtain ⟨rp, hp, heq⟩ := sr_charged_decision dis pol cs a r pb hs
    rw [heq] at h
    unfold chargedResult at h
    have hd : dur = backoffDur rp cs.sincePushback r := by
      split_ifs at h
      cases pb <;> simp at h <;> exact h.symm
    refine ⟨rp, hp, hd, hk, ?_⟩
    intro hb
    rw [hd]
    exact backoffDur_band rp cs.sincePushback r hb hr0 hr1

/-- Inside the parser's limits (0 < initialBackoff, maxBackoff ≤ MaxInt64 ns, multiplier > 0) the cap
    never cuts the lower edge: ⌊0.8·base⌋ ≤ delay ≤ 1.2·base. -/
theorem backoff_in_band_parser_limits (rp : Policy) (k : Nat) (r : ℚ)
    (hi : 0 < rp.initialBackoff) (hm : 0 < rp.maxBackoff) (hmu : 0 < rp.multiplier) (hmax : rp.maxBackoff ≤ maxInt64)
    (hr0 : 0 ≤ r) (hr1 : r < 1) :
    ⌊4 / 5 * backoffBase rp k⌋ ≤ backoffDur rp k r ∧ (backoffDur rp k r : ℚ) ≤ 6 / 5 * backoffBase rp k := by
  have hb : 0 ≤ backoffBase rp k := by
    unfold backoffBase
    apply le_min
    · have : (0 : ℚ) < rp.initialBackoff := by exact_mod_cast hi
      positivity
    · exact_mod_cast le_of_lt hm
  have hle : backoffBase rp k ≤ (maxInt64 : ℤ) := by
    unfold backoffBase
    exact le_trans (min_le_right _ _) (by exact_mod_cast hmax)
  obtain ⟨h1, h2, _, _⟩ := backoffDur_band rp k r hb hr0 hr1
  refine ⟨?_, h2⟩
  have hfl : ⌊4 / 5 * backoffBase rp k⌋ ≤ maxInt64 := by
    have : 4 / 5 * backoffBase rp k ≤ ((maxInt64 : ℤ) : ℚ) := by
      have h5 : 4 / 5 * backoffBase rp k ≤ backoffBase rp k := by linarith
      exact le_trans h5 hle
    exact_mod_cast le_trans (Int.floor_le (4 / 5 * backoffBase rp k)) this
  rw [min_eq_left hfl] at h1
  exact h1

/-- Over every history of failed attempts of one RPC (any attempts, any jitter draws) the exponent
    the code keeps (`numRetriesSincePushback`) is the number of timed retries since the last
    retry that honoured a pushback; transparent retries do not count. -/
theorem k_counts_retries_since_pushback (dis : Bool) (pol : Option Policy) (cs : CS) (as : List (Attempt × ℚ)) :
    (runAttempts dis pol cs as).1.sincePushback =
      retriesSincePushback cs.sincePushback (runAttempts dis pol cs as).2 :=
  run_k dis pol as cs

/-! ### parser limits -/

/-- Whatever `Duration.UnmarshalJSON` accepts is clamped into int64 nanoseconds. -/
theorem duration_clamped (s : List UInt8) (d : Int) (h : parseDuration s = some d) :
    minInt64 ≤ d ∧ d ≤ maxInt64 :=
  parseDuration_range s d h

/-- `convertRetryPolicy` accepts exactly maxAttempts > 1, both backoffs > 0, multiplier > 0 and a
    non-empty code list, and caps maxAttempts by the channel limit. -/
theorem policy_valid_iff (chanMax ma ib mb : Int) (mu : ℚ) (codes : List Nat) :
    (∃ p, convertPolicy chanMax ma ib mb mu codes = some p) ↔ (1 < ma ∧ 0 < ib ∧ 0 < mb ∧ 0 < mu ∧ codes ≠ []) := by
  unfold convertPolicy
  have hv : validPolicy ma ib mb mu codes = true ↔ (1 < ma ∧ 0 < ib ∧ 0 < mb ∧ 0 < mu ∧ codes ≠ []) := by
    simp only [validPolicy, Bool.and_eq_true, decide_eq_true_eq, gt_iff_lt, List.length_pos_iff]
    tauto
  by_cases h : validPolicy ma ib mb mu codes = true
  · simp only [h, Bool.not_true, Bool.false_eq_true, if_false]
    exact ⟨fun _ => hv.mp h, fun _ => ⟨_, rfl⟩⟩
  · have h' : validPolicy ma ib mb mu codes = false := by simpa using h
    simp only [h', Bool.not_false, if_true]
    constructor
    · rintro ⟨p, hp⟩; cases hp
    · intro hc; exact absurd (hv.mpr hc) h

/-- The converted policy's attempt limit is the minimum of the configured value and the channel's. -/
theorem policy_max_capped (chanMax ma ib mb : Int) (mu : ℚ) (codes : List Nat) (p : Policy)
    (h : convertPolicy chanMax ma ib mb mu codes = some p) :
    p.maxAttempts = min ma chanMax ∧ p.initialBackoff = ib ∧ p.maxBackoff = mb ∧ p.multiplier = mu ∧ p.codes = codes := by
  unfold convertPolicy at h
  split_ifs at h with hv hlt
  · injection h with h; subst h; exact ⟨by simp [min_eq_left (le_of_lt hlt)], rfl, rfl, rfl, rfl⟩
  · injection h with h; subst h; exact ⟨by simp [min_eq_right (not_lt.mp hlt)], rfl, rfl, rfl, rfl⟩

-- non-vacuity ("10000000000s", "9000000000s", "1.5s", "1.s", "s"; pushback "123", "-1", ["1","2"])
example : parseDuration [49, 48, 48, 48, 48, 48, 48, 48, 48, 48, 48, 115] = some maxInt64 := by decide
example : parseDuration [57, 48, 48, 48, 48, 48, 48, 48, 48, 48, 115] = some 9000000000000000000 := by decide
example : parseDuration [49, 46, 53, 115] = some 1500000000 := by decide
example : parseDuration [49, 46, 115] = some 1000000000 := by decide
example : parseDuration [115] = none := by decide
example : parsePushback [[49, 50, 51]] = .ms 123 := by decide
example : parsePushback [[45, 49]] = .abort := by decide
example : parsePushback [[49], [50]] = .abort := by decide
example : pushbackDur 9223372036855 = maxInt64 := by decide
example : pushbackDur 9223372036854 = 9223372036854000000 := by decide

end GrpcProofs.C19
