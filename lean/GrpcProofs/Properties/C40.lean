/-
C40  Outlier detection ejects by the A50 rules and counts ejections correctly.
Model: GrpcModel/Model/Outlier.lean (the balancer as it is; map order and random draws are
arguments).  Helper lemmas: GrpcProofs/Lemmas/Outlier.lean, OutlierB.lean, OutlierReal.lean.
`Reach s` = s is the state after some history of config/resolver updates, call results, timer
runs (any iteration order, any draws), sub-connection and child events and passages of time.
-/
import GrpcProofs.Lemmas.OutlierC
import GrpcProofs.Lemmas.OutlierReal
namespace GrpcProofs.C40
open GrpcModel.Outlier GrpcProofs.Lemmas.Outlier

/-- Every history's final state is reachable (the theorems below are about all histories). -/
theorem run_reach (ops : List Op) : Reach (run ops) := reach_run ops

/-! ### ejected only at the interval timer, only with volume and criterion -/

/-- An endpoint that is not ejected and is ejected after a run of the interval timer was ejected
    in that run (timestamp = now) and, on the calls counted since the previous run, had at least
    the configured request volume, at least minimum_hosts endpoints had that volume, and it failed
    the success-rate criterion (exact: rate < mean − stdev·factor/1000, see
    `sr_criterion_is_mean_minus_stdev`) or the failure-percentage criterion (the binary64
    comparison failures/calls·100 > threshold of the code, `pctGT`) — for every iteration order
    and all random draws. -/
theorem eject_only_if_volume_and_criterion {s : St} (hr : Reach s) (c : Cfg) (hc : s.cfg = some c)
    (oS oF d : List Nat) {x y : Ep} (hx : x ∈ s.eps) (hxe : x.ej = none)
    (hy : y ∈ (step s (.fire oS oF d)).eps) (hid : y.id = x.id) (hye : y.ej ≠ none) :
    y.ej = some s.now ∧
    ((∃ a, c.sr = some a ∧ a.vol ≤ x.actS + x.actF ∧ a.minHosts ≤ (considered (s.eps.map Ep.swap) a.vol).length ∧
        belowMean (considered (s.eps.map Ep.swap) a.vol) a.param x.swap = true) ∨
     (∃ a, c.fp = some a ∧ a.vol ≤ x.actS + x.actF ∧ a.minHosts ≤ (considered (s.eps.map Ep.swap) a.vol).length ∧
        0 < x.actS + x.actF ∧ pctGT x.actF (x.actS + x.actF) a.param = true)) := by
  obtain ⟨h1, h2⟩ := fire_newly_ejected s (reach_inv hr) c hc oS oF d hx hxe hy hid hye
  refine ⟨h1, ?_⟩
  rcases h2 with ⟨a, ha, ho⟩ | ⟨a, ha, ho⟩
  · left
    refine ⟨a, ha, ?_⟩
    simp only [isOut, srOut, Bool.and_eq_true, decide_eq_true_eq] at ho
    exact ⟨ho.1.1.1, ho.1.1.2, ho.2⟩
  · right
    refine ⟨a, ha, ?_⟩
    simp only [isOut, fpOut, Bool.and_eq_true, decide_eq_true_eq] at ho
    exact ⟨ho.1.1.1, ho.1.1.2, ho.1.2, ho.2⟩

/-- Where the binary64 comparison agrees with the exact one, the failure-percentage criterion is
    exactly failures·100 > threshold·calls.  (It does not always: 11 failures of 20 calls at
    threshold 55 is `>` in binary64.) -/
theorem fp_criterion_exact_where_float_agrees (f rv thr : Nat)
    (hagree : pctGT f rv thr = decide (thr * rv < f * 100)) (h : pctGT f rv thr = true) : thr * rv < f * 100 := by
  rw [hagree] at h; simpa using h

example : pctGT 11 20 55 = true ∧ 55 * 20 = 11 * 100 := by decide
example : pctGT 10 20 50 = false := by decide
example : pctGT 11 20 50 = true := by decide

/-- The model's exact decision procedure is the A50 criterion over the reals. -/
theorem sr_criterion_is_mean_minus_stdev (l : List Ep) (factor : Nat) (e : Ep) :
    belowMean l factor e = true ↔
      ((rate e : ℚ) : ℝ) < ((mean l : ℚ) : ℝ) - Real.sqrt ((variance l : ℚ) : ℝ) * ((factor : ℝ) / 1000) :=
  GrpcProofs.Lemmas.OutlierReal.belowMean_iff_real l factor e

/-- No other event ejects: after anything but a run of the interval timer every ejected endpoint
    was ejected before, with the same timestamp and multiplier. -/
theorem only_the_interval_timer_ejects (s : St) (op : Op) (hop : ∀ a b c, op ≠ .fire a b c) {y : Ep}
    (hy : y ∈ (step s op).eps) (hej : y.ej ≠ none) : ∃ x ∈ s.eps, x.id = y.id ∧ x.ej = y.ej ∧ x.mult = y.mult :=
  not_fire_ej s op hop hy hej

/-! ### max_ejection_percent -/

/-- In every loop state `l` of a run of the timer in a reachable state: if the ejected share of the
    current endpoints is at or above max_ejection_percent (`maxPct·n ≤ ejected·100`) the iteration
    ejects nothing — for every order and all draws.  (Before the repairs da1d093 — integer instead
    of binary64 comparison — and 7e59030 / 239aef5 — exact counter — this held only under a
    float-agreement hypothesis; the witness was 29 of 50 endpoints at 58 %.) -/
theorem no_eject_at_or_above_max_percent {l : Loop} (hl : InFire l) (k : AlgK) (a : Alg) (maxPct : Nat)
    (ts : Int) (out : Nat → Bool) (id : Nat) (hout : ∀ j, out j = true → j ∈ idsOf l.eps)
    (hshare : maxPct * l.eps.length ≤ trueCount l.eps * 100) :
    (algStep k a maxPct ts out l id).eps = l.eps ∧ (algStep k a maxPct ts out l id).nEj = l.nEj :=
  algStep_blocked l (inFire_inv hl) k a maxPct ts out id hout hshare

/-- `InFire` covers every iteration of both loops of every run of the timer in a reachable state. -/
theorem timer_loops_are_InFire {s : St} (hr : Reach s) (c : Cfg) (oS oF d : List Nat) :
    (∀ a, c.sr = some a → ∀ pre, pre <+: oS →
      InFire (pre.foldl (algStep .sr a c.maxPct s.now (outSet .sr (swapped s) a)) { eps := swapped s, nEj := s.nEj, draws := d })) ∧
    (∀ a, c.fp = some a → ∀ pre, pre <+: oF →
      InFire (pre.foldl (algStep .fp a c.maxPct s.now (outSet .fp (srLoop c s oS d).eps a)) (srLoop c s oS d))) :=
  fire_loops_inFire hr c oS oF d

/-- An endpoint that is ejected already is skipped by both loops (repair 239aef5). -/
theorem already_ejected_is_skipped (k : AlgK) (a : Alg) (maxPct : Nat) (ts : Int) (out : Nat → Bool) (l : Loop) (id : Nat)
    (hout : ∀ j, out j = true → j ∈ idsOf l.eps) {e : Ep} (hf : findEp l.eps id = some e) (hej : e.ejected = true) :
    (algStep k a maxPct ts out l id).eps = l.eps ∧ (algStep k a maxPct ts out l id).nEj = l.nEj := by
  obtain ⟨js, hr, hor⟩ := algStep_spec k a maxPct ts out l id hout
  rcases hor with rfl | ⟨_, ⟨e', hf', hej'⟩, _⟩
  · exact ⟨by rw [hr.eps, map_applyEj_nil], by rw [hr.nEj]; simp⟩
  · rw [hf] at hf'; injection hf' with hf'; subst hf'
    rw [hej] at hej'; cases hej'

/-! ### the counter -/

/-- numEndpointsEjected counts ejections correctly: in every reachable state it equals the number
    of ejected endpoints of the current set (and endpoint ids are distinct).  (False before the
    repairs 7e59030 — an ejected endpoint removed by a resolver update — and 239aef5 — an endpoint
    ejected twice; the model then proved only `≤` plus two counterexample histories.) -/
theorem counter_equals_true_count {s : St} (hr : Reach s) : s.nEj = (trueCount s.eps : Int) ∧ (idsOf s.eps).Nodup :=
  ⟨(reach_inv hr).cnt.symm, (reach_inv hr).nodup⟩

def cfgFp : Cfg := { interval := 10, base := 30, maxEj := 300, maxPct := 50, sr := none, fp := some ⟨50, 100, 1, 2⟩ }

/-- the history that used to leave the counter at 1 with nothing ejected -/
def opsRemoved : List Op :=
  [.update cfgFp [1, 2, 3], .calls 1 0 4, .calls 2 4 0, .calls 3 4 0, .advance 10, .fire [] [1, 2, 3] [0], .update cfgFp [2, 3]]

/-- the history that used to count endpoint 1 twice -/
def opsTwice : List Op :=
  [.update cfgFp [1, 2, 3], .calls 1 0 4, .advance 10, .fire [] [1, 2, 3] [0], .calls 1 0 4, .advance 10, .fire [] [1, 2, 3] [0]]

example : (run opsRemoved).nEj = 0 ∧ trueCount (run opsRemoved).eps = 0 := by decide
example : (run opsTwice).nEj = 1 ∧ trueCount (run opsTwice).eps = 1 := by decide

/-! ### un-ejection -/

/-- The last loop of the interval timer, for any endpoint: it is un-ejected iff it was ejected at
    `ts` and now > ts + min(base·multiplier, max(base, max_ejection_time)). -/
theorem uneject_rule_step (c : Cfg) (now : Int) (z : Ep) :
    ((unejStep c now z).1.ej = none ↔
      (z.ej = none ∨ ∃ ts, z.ej = some ts ∧ now > ts + min (c.base * z.mult) (max c.base c.maxEj))) :=
  unejStep_rule c now z

/-- An endpoint ejected at `ts` that is not decided upon in this run of the timer is un-ejected by
    it iff now > ts + min(base·multiplier, max(base, max_ejection_time)); otherwise it keeps its
    timestamp and multiplier. -/
theorem uneject_after_rule {s : St} (hr : Reach s) (c : Cfg) (hc : s.cfg = some c) (oS oF d : List Nat)
    {x y : Ep} (hx : x ∈ s.eps) (ts : Int) (hxe : x.ej = some ts)
    (hnot : x.id ∉ ejIds (fire s oS oF d).2.1.evs)
    (hy : y ∈ (step s (.fire oS oF d)).eps) (hid : y.id = x.id) :
    (y.ej = none ↔ s.now > ts + min (c.base * x.mult) (max c.base c.maxEj)) ∧
    (y.ej ≠ none → y.ej = some ts ∧ y.mult = x.mult) :=
  fire_uneject s (reach_inv hr) c hc oS oF d hx ts hxe hnot hy hid

/-- Nothing else un-ejects: call results, sub-connection and child events, passage of time keep
    every endpoint's ejection state, and so does a config/resolver update with an ejection
    algorithm configured for the endpoints it keeps. -/
theorem uneject_only_in_timer_or_noop (s : St) :
    (∀ op, plainOp op = true → ∀ x ∈ s.eps, ∃ y ∈ (step s op).eps, y.id = x.id ∧ y.ej = x.ej ∧ y.mult = x.mult) ∧
    (∀ c ids, c.noop = false → ∀ x ∈ s.eps, ids.contains x.id = true →
      ∃ y ∈ (step s (.update c ids)).eps, y.id = x.id ∧ y.ej = x.ej ∧ y.mult = x.mult) := by
  constructor
  · intro op hp x hx
    obtain ⟨y, hy, k⟩ := (plain_kept s op hp).eps.mem' hx
    exact ⟨y, hy, k.id, k.ej, k.mult⟩
  · intro c ids hn x hx hc
    exact update_keep s c ids hn hx hc

/-! ### what the child sees -/

/-- FULL STATEMENT (false for the unchanged code): whenever a wrapper is ejected and the child has a
    health listener registered on it, the last state delivered to that listener is
    TRANSIENT_FAILURE.
    PROVED: the last state delivered to it is TRANSIENT_FAILURE or nothing has been delivered to it
    at all — an ejected sub-connection never shows a non-failing health state to the child. -/
theorem ejected_looks_TF_to_child_partial {s : St} (hr : Reach s) :
    ∀ w ∈ s.scws, w.ejected = true → w.hl = true → (w.last = none ∨ w.last = some 3) :=
  fun w hw => reach_ok hr w hw

/-- A live wrapper whose `endpointInfo` pointer is a current endpoint is ejected exactly when
    that endpoint is (at quiescence): ejection and un-ejection reach all sub-connections of the
    endpoint and no others, new sub-connections of an ejected endpoint start ejected. -/
theorem scw_ejected_iff_endpoint_ejected {s : St} (hr : Reach s) {w : Scw} (hw : w ∈ s.scws) {e : Ep} (he : e ∈ s.eps)
    (hlive : w.dead = false) (haddr : w.addr = e.id) (hptr : w.ep = some e.gen) : w.ejected = e.ejected :=
  (reach_J hr).E w hw e he ⟨hlive, haddr, hptr⟩

/-- The two together: while an endpoint is ejected, none of its live sub-connections with a
    registered health listener has shown the child anything but TRANSIENT_FAILURE. -/
theorem ejected_endpoint_never_looks_healthy {s : St} (hr : Reach s) {w : Scw} (hw : w ∈ s.scws) {e : Ep} (he : e ∈ s.eps)
    (hlive : w.dead = false) (haddr : w.addr = e.id) (hptr : w.ep = some e.gen) (hej : e.ej ≠ none) (hl : w.hl = true) :
    w.last = none ∨ w.last = some 3 := by
  have h1 := scw_ejected_iff_endpoint_ejected hr hw he hlive haddr hptr
  have h2 : e.ejected = true := by
    cases h : e.ej with
    | none => exact absurd h hej
    | some _ => simp [Ep.ejected, h]
  exact ejected_looks_TF_to_child_partial hr w hw (h1.trans h2) hl

/-- F5d: endpoint 1 is ejected (its listener gets TRANSIENT_FAILURE); the sub-connection goes IDLE
    and READY again, the child registers a new health listener, the sub-connection reports
    healthy: the new listener has been told nothing. -/
def opsTF : List Op :=
  [.update cfgFp [1, 2, 3], .sc 1 2, .calls 1 0 4, .calls 2 4 0, .calls 3 4 0, .advance 10, .fire [] [1, 2, 3] [0],
   .sc 1 0, .sc 1 2, .health 1 2]

theorem ejected_looks_TF_to_child_counterexample :
    ¬ (∀ s, Reach s → ∀ w ∈ s.scws, w.ejected = true → w.hl = true → w.last = some 3) := by
  intro h
  have := h _ (reach_run opsTF)
  revert this
  decide

/-! ### no-op config -/

/-- After a config with neither algorithm every current endpoint is un-ejected with multiplier 0
    (and only the endpoints of the update exist). -/
theorem noop_config_unejects_all (s : St) (c : Cfg) (ids : List Nat) (hn : c.noop = true) :
    ∀ y ∈ (step s (.update c ids)).eps, y.ej = none ∧ y.mult = 0 ∧ ids.contains y.id = true := by
  intro y hy
  obtain ⟨h1, h2, _⟩ := update_mem s c ids hy
  exact ⟨(h2 hn).1, (h2 hn).2, h1⟩

/-- … and every live sub-connection wrapper of a current endpoint is un-ejected. -/
theorem noop_config_unejects_all_subconns {s : St} (hr : Reach s) (c : Cfg) (ids : List Nat) (hn : c.noop = true)
    {w : Scw} (hw : w ∈ (step s (.update c ids)).scws) {e : Ep} (he : e ∈ (step s (.update c ids)).eps)
    (hlive : w.dead = false) (haddr : w.addr = e.id) (hptr : w.ep = some e.gen) : w.ejected = false := by
  have h1 := scw_ejected_iff_endpoint_ejected (Reach.step (.update c ids) hr) hw he hlive haddr hptr
  have h2 := (noop_config_unejects_all s c ids hn e he).1
  rw [h1]; simp [Ep.ejected, h2]

/-- … and the counter is back to 0. -/
theorem noop_config_resets_counter {s : St} (hr : Reach s) (c : Cfg) (ids : List Nat) (hn : c.noop = true) :
    (step s (.update c ids)).nEj = 0 := by
  have h := counter_equals_true_count (Reach.step (.update c ids) hr)
  rw [h.1]
  have : trueCount (step s (.update c ids)).eps = 0 := by
    rw [trueCount_eq_countP, List.countP_eq_zero]
    intro y hy
    simp [Ep.ejected, (noop_config_unejects_all s c ids hn y hy).1]
  simp [this]

-- non-vacuity: the hypotheses of the theorems above are satisfiable / the model does eject
example : (run [.update cfgFp [1, 2, 3], .calls 1 0 4, .advance 10, .fire [] [1, 2, 3] [0]]).eps.map (·.ej) = [some 10, none, none] := by decide
example : (run (opsRemoved ++ [.update { cfgFp with fp := none } [2, 3]])).eps.map (·.ej) = [none, none] := by decide

end GrpcProofs.C40
