/-
C25  Server stop semantics and per-connection handler limit hold.
Property theorems only; lemmas: GrpcProofs/Lemmas/Semaphore.lean, GrpcProofs/Lemmas/ServerStop.lean.

Two models:
  * GrpcModel.Semaphore — `atomicSemaphore` of server.go at the grain of its atomic operations
    (one sequential acquirer = the transport's reader, any number of releasing handler goroutines;
    `Reach cap s` = s is reachable from newHandlerQuota(cap) under ANY interleaving of the rules);
  * GrpcModel.ServerStop — server + connections + handlers + Stop/GracefulStop, one external event at
    a time (`apply s op`, `runOps`), in which a stream is dispatched to a handler only while fewer than
    cap handlers of its connection run.
-/
import GrpcProofs.Lemmas.Semaphore
import GrpcProofs.Lemmas.ServerStop
namespace GrpcProofs.C25
open GrpcModel

/-! ### the handler quota (atomicSemaphore), all interleavings -/

/-- At most `cap` slots are ever held: handlers running ≤ MaxConcurrentStreams. -/
theorem semaphore_running_le_n (cap : Nat) (s : Semaphore.St) (h : Semaphore.Reach cap s) : s.h ≤ cap := by
  obtain ⟨hi, hc⟩ := Lemmas.Semaphore.reach_inv cap s h
  rw [← hc]; exact hi.le

/-- The counter is exactly cap − held − (1 if the acquirer is parked); in particular n ≥ −1
    (the comment in server.go: "n will never be less than -1"). -/
theorem semaphore_counter (cap : Nat) (s : Semaphore.St) (h : Semaphore.Reach cap s) :
    s.n = (cap : Int) - s.h - (if s.apc = .parked then 1 else 0) ∧ -1 ≤ s.n := by
  obtain ⟨hi, hc⟩ := Lemmas.Semaphore.reach_inv cap s h
  have h1 := hi.cnt
  have h2 := hi.le
  simp only [Lemmas.Semaphore.parkedN] at h1
  rw [hc] at h1 h2
  refine ⟨h1, ?_⟩
  split at h1 <;> omega

/-- No lost release: whenever the acquirer is parked although a slot is free, exactly one wake-up
    is in flight (a releaser about to send, or the token in the channel) — and the step that
    delivers it is enabled: a sender never blocks, a buffered token can be received. -/
theorem semaphore_no_lost_release (cap : Nat) (s : Semaphore.St) (h : Semaphore.Reach cap s)
    (hp : s.apc = .parked) (hfree : s.h < cap) :
    s.s + s.c = 1 ∧
    (0 < s.s → (Semaphore.apply s .rSend).isSome = true) ∧
    (0 < s.c → (Semaphore.apply s .aRecv).isSome = true) := by
  obtain ⟨hi, hc⟩ := Lemmas.Semaphore.reach_inv cap s h
  have ht := hi.tokP hp
  rw [hc] at ht
  simp only [hfree, if_true] at ht
  refine ⟨ht, ?_, ?_⟩
  · intro hs
    have : s.c < 1 := by omega
    simp [Semaphore.apply, hs, this]
  · intro hcc
    simp [Semaphore.apply, hp, hcc]

/-- Conversely the acquirer is parked only while all slots are taken or a wake-up is in flight,
    and no wake-up token exists while nobody waits (so a later acquire cannot slip through). -/
theorem semaphore_no_stale_token (cap : Nat) (s : Semaphore.St) (h : Semaphore.Reach cap s)
    (hp : s.apc ≠ .parked) : s.s + s.c = 0 :=
  (Lemmas.Semaphore.reach_inv cap s h).1.tokN hp

/-- release never blocks on the channel (it has capacity 1 and at most one token is ever in flight). -/
theorem semaphore_release_never_blocks (cap : Nat) (s : Semaphore.St) (h : Semaphore.Reach cap s)
    (hs : 0 < s.s) : s.c = 0 := by
  obtain ⟨hi, hc⟩ := Lemmas.Semaphore.reach_inv cap s h
  by_cases hp : s.apc = .parked
  · have := hi.tokP hp; split at this <;> omega
  · have := hi.tokN hp; omega

/-- acquire takes a slot immediately iff one is free (seen from a reachable state before its Add). -/
theorem semaphore_acquire_iff_free (cap : Nat) (s t : Semaphore.St) (h : Semaphore.Reach cap s)
    (hs : Semaphore.apply s .aAdd = some t) : (t.apc = .idle ↔ s.h < cap) ∧ (t.apc = .parked ↔ cap ≤ s.h) := by
  obtain ⟨hi, hc⟩ := Lemmas.Semaphore.reach_inv cap s h
  simp only [Semaphore.apply] at hs
  split at hs
  · rename_i ha
    have h1 := hi.cnt
    simp [ha, Lemmas.Semaphore.parkedN] at h1
    rw [hc] at h1
    have h2 := hi.le
    rw [hc] at h2
    split at hs
    · cases hs; simp; omega
    · cases hs; simp; omega
  · cases hs

/-! ### server, connections, handlers, Stop / GracefulStop: all event sequences -/

/-- On any connection no more than MaxConcurrentStreams handlers run at once — after every sequence
    of dials, RPC starts, client cancellations, handler returns, GracefulStop and Stop. -/
theorem handlers_le_quota (cap : Nat) (w : Bool) (ops : List ServerStop.Op) (c : Nat) :
    (ServerStop.runningOn (ServerStop.runOps (ServerStop.init cap w) ops) c).length ≤ cap := by
  have := Lemmas.ServerStop.runOps_bounded (ServerStop.init cap w) ops (Lemmas.ServerStop.init_bounded cap w)
  have h := this.1 c
  rw [this.2] at h
  exact h

/-- GracefulStop returns only after every in-flight handler has returned: the operation that makes a
    pending GracefulStop return leaves no handler running and no stream waiting for a handler slot. -/
theorem gracefulStop_returns_after_all_handlers (s : ServerStop.St) (o : ServerStop.Op)
    (hp : (ServerStop.apply s o).phase = .graceful) (h0 : s.returned = false)
    (h1 : (ServerStop.apply s o).returned = true) :
    (ServerStop.apply s o).run = [] ∧ ∀ x ∈ (ServerStop.apply s o).conns, x.blocked = none :=
  Lemmas.ServerStop.graceful_return_no_handlers s o hp h0 h1

/-- Every accepted RPC completes with the handler's status: a running handler whose stream was neither
    cancelled by its client nor torn down by Stop delivers exactly the code it returns — before,
    during and after a GracefulStop call. -/
theorem accepted_before_completes (s : ServerStop.St) (r code : Nat) (x : ServerStop.Rpc)
    (hx : ServerStop.getRpc s r = some x) (hrun : x.running = true) (hctx : x.ctxCancelled = false)
    (hcli : x.cli = none) :
    Lemmas.ServerStop.cliOf (ServerStop.apply s (.finish r code)) r = some code :=
  Lemmas.ServerStop.finish_delivers s r code x hx hrun hctx hcli

/-- No RPC is accepted afterwards: once Stop or GracefulStop has been called (and for ever after: `Closed`
    is an invariant and the phase never returns to serving) an RPC that is started is not sent —
    it fails UNAVAILABLE at the client, no connection's input changes, no handler is added. -/
theorem none_accepted_after (cap : Nat) (w : Bool) (ops : List ServerStop.Op) (c r : Nat)
    (hp : (ServerStop.runOps (ServerStop.init cap w) ops).phase ≠ .serving) :
    let s := ServerStop.runOps (ServerStop.init cap w) ops
    (ServerStop.apply s (.start c r)).run = s.run ∧ (ServerStop.apply s (.start c r)).conns = s.conns ∧
    (∀ x ∈ (ServerStop.apply s (.start c r)).rpcs,
      x ∈ s.rpcs ∨ (x.id = r ∧ x.sent = false ∧ x.cli = some ServerStop.codeUnavailable)) := by
  have hc : Lemmas.ServerStop.Closed (ServerStop.runOps (ServerStop.init cap w) ops) := by
    unfold ServerStop.runOps
    have : ∀ (l : List ServerStop.Op) (s : ServerStop.St), Lemmas.ServerStop.Closed s →
        Lemmas.ServerStop.Closed (l.foldl ServerStop.apply s) := by
      intro l
      induction l with
      | nil => intro s h; exact h
      | cons o t ih => intro s h; exact ih _ (Lemmas.ServerStop.apply_closed s o h)
    exact this ops _ (Lemmas.ServerStop.init_closed cap w)
  exact Lemmas.ServerStop.start_after_stop _ c r hc hp

/-- GracefulStop puts every connection into the draining state (its final GOAWAY is written). -/
theorem gracefulStop_drains_every_connection (s : ServerStop.St) (hp : s.phase = .serving) :
    ∀ x ∈ (ServerStop.apply s .gstop).conns, x.draining = true :=
  Lemmas.ServerStop.gstop_drains s hp

/-- No RPC is accepted after the final GOAWAY even from a peer that ignores it (or whose HEADERS cross
    it on the wire): a stream opened on a draining connection never gets a handler — whatever runs
    afterwards ran before, or is the one stream that was already parked in the handler quota. -/
theorem final_goaway_never_dispatches (s : ServerStop.St) (c r : Nat) (conn : ServerStop.Conn)
    (hg : ServerStop.getConn s c = some conn) (hd : conn.draining = true) :
    ∀ x ∈ (ServerStop.apply s (.rawstart c r)).run, x ∈ s.run ∨ conn.blocked = some x.1 :=
  Lemmas.ServerStop.rawstart_draining s c r conn hg hd

/-- Stop cancels every handler's context and every unfinished RPC ends non-OK at its client:
    after Stop every RPC that was ever sent has a cancelled context and a result, and a result
    is OK only if the client already had it before Stop. -/
theorem stop_cancels_all (s : ServerStop.St) (hp : s.phase ≠ .hard) :
    (∀ x ∈ (ServerStop.apply s .stop).rpcs, x.sent = true → x.ctxCancelled = true ∧ x.cli.isSome = true) ∧
    (∀ x ∈ (ServerStop.apply s .stop).rpcs, x.cli = some 0 → ∃ y ∈ s.rpcs, y.id = x.id ∧ y.cli = some 0) :=
  ⟨Lemmas.ServerStop.stop_all s hp, Lemmas.ServerStop.stop_ok_only_if_done s hp⟩

-- non-vacuity: the interesting states are reachable
open Semaphore in
example : applyAll (init 1) [.aCall, .aAdd, .aCall, .aAdd, .rCall, .rAdd] =
    some ⟨1, 0, 0, .parked, 0, 0, 1⟩ := by decide      -- parked, slot free, wake-up about to be sent
open Semaphore in
example : applyAll (init 1) [.aCall, .aAdd, .aCall, .aAdd, .rCall, .rAdd, .rSend, .aRecv] =
    some ⟨1, 0, 0, .idle, 1, 0, 0⟩ := by decide
open ServerStop in
example : (runOps (init 1 false) [.dial 1, .start 1 1, .cancel 1, .start 1 2]).run = [(1, 1)] ∧
    ((runOps (init 1 false) [.dial 1, .start 1 1, .cancel 1, .start 1 2]).conns.map (·.blocked)) = [some 2] := by decide
open ServerStop in
example : (runOps (init 2 false) [.dial 1, .start 1 1, .gstop, .start 1 2, .finish 1 5]).returned = true ∧
    ((runOps (init 2 false) [.dial 1, .start 1 1, .gstop, .start 1 2, .finish 1 5]).rpcs.map (·.cli)) = [some 5, some 14] := by decide

open ServerStop in
example : (runOps (init 1 false) [.rawdial 1, .rawstart 1 1, .gstop, .rawstart 1 2]).run = [(1, 1)] ∧
    (runOps (init 1 false) [.rawdial 1, .rawstart 1 1, .gstop, .rawstart 1 2, .finish 1 0]).returned = true ∧
    (runOps (init 1 false) [.rawdial 1, .rawstart 1 1, .gstop, .rawstart 1 2, .finish 1 0]).run = [] := by decide

end GrpcProofs.C25
