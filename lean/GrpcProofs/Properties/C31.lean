/-
C31  Serialized callbacks run in FIFO order exactly once; the unbounded queue beneath delivers every
value exactly once in order and signals end-of-stream only after all values were consumed; PubSub
delivers each subscriber the published values in publish order starting with the latest value at
subscription, and nothing after unsubscription.

Property theorems only. Models: GrpcModel/Model/{Unbounded,Serializer,PubSub}.lean.
Helper lemmas: GrpcProofs/Lemmas/{Unbounded,Serializer,PubSub}.lean.

"All interleavings" = all lists of atomic actions of the models (`List Op`, `List Act`): every
theorem below is for an arbitrary list, i.e. unbounded and for every schedule.
-/
import GrpcProofs.Lemmas.PubSub
namespace GrpcProofs.C31
open GrpcModel

/-! ## 1. `buffer.Unbounded` -/
section unbounded
open GrpcModel.Unbounded
variable {α : Type}

/-- FIFO refinement, every history: the values received so far followed by what is still buffered
    (channel slot ++ backlog) are exactly the accepted Puts in order — each value is delivered
    at most once, in order, none is lost or invented. -/
theorem unbounded_fifo (ops : List (Op α)) :
    received (run init ops).2 ++ abs (run init ops).1 = accepted (run init ops).2 := by
  simpa [abs, init] using Lemmas.Unbounded.fifo ops (init : St α)

/-- End-of-stream is signalled only after every accepted value has been received. -/
theorem unbounded_eos_only_after_all_consumed (ops : List (Op α))
    (h : (step (run init ops).1 .recv).2 = .eos) :
    received (run init ops).2 = accepted (run init ops).2 ∧ (run init ops).1.closing = true := by
  have hinv := Lemmas.Unbounded.run_inv ops (init : St α) Lemmas.Unbounded.inv_init
  have hf := unbounded_fifo ops
  generalize (run init ops).1 = s at *
  obtain ⟨h1, h2⟩ := hinv
  simp only [step] at h
  split at h
  · simp at h
  · rename_i hc
    split at h
    · rename_i hcl
      have hcd : s.closed = true := by rw [h1]; exact hcl
      have := h2 hcd
      simp [abs, hc, this.2] at hf
      exact ⟨hf, this.1⟩
    · simp at h

/-- After `Close`, every `Put` — whatever happens in between — is rejected and changes nothing. -/
theorem unbounded_put_after_close_rejected (ops1 ops2 : List (Op α)) (v : α) :
    step (run init (ops1 ++ .close :: ops2)).1 (.put v) =
      ((run init (ops1 ++ .close :: ops2)).1, .rejected) := by
  have closing_step : ∀ (s : St α) (o : Op α), s.closing = true → (step s o).1.closing = true := by
    intro s o hc
    cases o <;> simp only [step] <;> repeat' split
    all_goals simp_all
  have closing_run : ∀ (ops : List (Op α)) (s : St α), s.closing = true → (run s ops).1.closing = true := by
    intro ops
    induction ops with
    | nil => intro s h; simpa [run]
    | cons o os ih => intro s h; simpa [run] using ih _ (closing_step s o h)
  have run_append : ∀ (a b : List (Op α)) (s : St α), (run s (a ++ b)).1 = (run (run s a).1 b).1 := by
    intro a
    induction a with
    | nil => intro b s; simp [run]
    | cons o os ih => intro b s; simp [run, ih]
  have hcl : (run init (ops1 ++ .close :: ops2)).1.closing = true := by
    rw [run_append]
    simp only [run]
    apply closing_run
    have hinv := Lemmas.Unbounded.run_inv ops1 (init : St α) Lemmas.Unbounded.inv_init
    generalize (run init ops1).1 = s at hinv
    obtain ⟨h1, h2⟩ := hinv
    simp only [step]; repeat' split
    all_goals simp_all
  generalize (run init (ops1 ++ .close :: ops2)).1 = s at *
  simp [step, hcl]

/-- The code never sends on or closes a closed channel (no runtime panic), in any history. -/
theorem unbounded_no_panic (ops : List (Op α)) (s : St α) (h : Lemmas.Unbounded.Inv s) :
    ∀ p ∈ (run s ops).2, p.2 ≠ .panic := by
  induction ops generalizing s with
  | nil => simp [run]
  | cons o os ih =>
    intro p hp
    simp only [run, List.mem_cons] at hp
    rcases hp with rfl | hp
    · exact Lemmas.Unbounded.step_no_panic s o h
    · exact ih _ (Lemmas.Unbounded.step_inv s o h) p hp

/-- The executable monitor used on the implementation (`Unbounded.Mon.step`: put-after-close
    rejected, put-before-close accepted, FIFO exactly once, end-of-stream only after everything was
    consumed and Close was called, and — for a consumer that calls `Load` after every successful
    read — no accepted value is ever stuck behind an empty channel and end-of-stream is not
    withheld; this covers the close-while-draining window in `Load`) never reports a violation on
    the model, for every op sequence. -/
theorem unbounded_monitor_ok [DecidableEq α] (ops : List (Op α)) :
    ∀ v ∈ verdicts (init : St α) Mon.init ops, ∀ c, v ≠ .viol c :=
  Lemmas.Unbounded.verdicts_ok ops init Mon.init Lemmas.Unbounded.coupled_init

end unbounded

/-! ## 2. `grpcsync.CallbackSerializer` -/
section serializer
open GrpcModel.Serializer
variable {α : Type}

/-- Exactly once, in submission order, in every interleaving: the callbacks started so far followed
    by those accepted and not yet started (in queue order) are exactly the accepted submissions in
    order. -/
theorem serializer_runs_each_once_in_order (as : List (Act α)) :
    startedOf (run init as).2 ++ pending (run init as).1 = acceptedOf (run init as).2 := by
  simpa [pending, inflight, init, Unbounded.abs, Unbounded.init] using Lemmas.Serializer.fifo as (init : St α)

/-- When shutdown is reported complete (`done` closed), the context was cancelled, every accepted
    callback has been started — in order — and every started callback has returned. -/
theorem serializer_all_before_shutdown_run_before_done (as : List (Act α))
    (h : (run init as).1.done = true) :
    startedOf (run init as).2 = acceptedOf (run init as).2 ∧
    endedOf (run init as).2 = startedOf (run init as).2 ∧
    (run init as).1.cancelled = true := by
  have hinv := Lemmas.Serializer.run_sinv as (init : St α) Lemmas.Serializer.sinv_init
  have hf := serializer_runs_each_once_in_order as
  have he := Lemmas.Serializer.ended_fifo as (init : St α)
  generalize (run init as).1 = s at *
  generalize (run init as).2 = tr at *
  obtain ⟨⟨h1, h2⟩, h3, h4, h5, h6, h7, h8⟩ := hinv
  have hpc := h6.mp h
  obtain ⟨hcc, hch⟩ := h7 hpc
  have hcd : s.buf.closed = true := by rw [h1]; exact hcc
  obtain ⟨hcl, hbl⟩ := h2 hcd
  have hfired : s.fired = true := by rw [← h3]; exact hcl
  refine ⟨?_, ?_, (h4 hfired).1⟩
  · simpa [pending, hpc, inflight, Unbounded.abs, hch, hbl] using hf
  · simpa [hpc, Lemmas.Serializer.curOf, init] using he

/-- Work submitted after shutdown never runs and its submitter is told so: once `callbacks.Close`
    has run (in particular once `done` is reported), every submission is rejected (the `onFailure`
    / `ErrSerializerClosed` path) and leaves the serializer's state untouched; and a submission is
    only ever rejected after the context was cancelled. -/
theorem serializer_after_shutdown_never_runs_and_caller_told (as : List (Act α)) (cb : α) :
    let s := (run init as).1
    ((s.fired = true ∨ s.done = true) → step s (.sched cb) = (s, .rejected cb)) ∧
    ((step s (.sched cb)).2 = .rejected cb → s.cancelled = true) ∧
    ((step s (.sched cb)).2 = .accepted cb ∨ (step s (.sched cb)).2 = .rejected cb) := by
  have hinv := Lemmas.Serializer.run_sinv as (init : St α) Lemmas.Serializer.sinv_init
  generalize (run init as).1 = s at *
  obtain ⟨⟨chan, chanClosed, backlog, closing, closed⟩, cancelled, registered, fired, pc, done⟩ := s
  obtain ⟨⟨h1, h2⟩, h3, h4, h5, h6, h7, h8⟩ := hinv
  simp only at h1 h2 h3 h4 h5 h6 h7 h8
  subst h1 h3
  rcases chan with _ | cv <;> rcases backlog with _ | ⟨bx, brest⟩ <;> cases closed <;> cases closing <;>
    simp [step, Unbounded.step] at * <;> simp_all

/-- No lost callback and no withheld shutdown, in every reachable state of every interleaving: a
    step of the run goroutine makes progress (strictly decreases `work`) unless the goroutine is
    legitimately parked — nothing is pending and `Close` has not run — or has exited. In
    particular it is never parked on an empty channel while a callback sits in the backlog, nor
    while a requested close is still to be carried out (the `Load` close-while-draining window). -/
theorem serializer_never_stuck (as : List (Act α)) :
    let s := (run init as).1
    work (tick s) < work s ∨ (s.pc = .recv ∧ pending s = [] ∧ s.fired = false) ∨ s.done = true :=
  Lemmas.Serializer.tick_progress _ (Lemmas.Serializer.run_sinv as init Lemmas.Serializer.sinv_init)

/-- Once `Close` has run, the run goroutine alone reaches `done` within `work s` steps (callbacks
    returning), whatever state the interleaving left it in. -/
theorem serializer_shutdown_completes (as : List (Act α)) (h : (run init as).1.fired = true) :
    (ticks (work (run init as).1) (run init as).1).done = true :=
  Lemmas.Serializer.terminates _ _ (Lemmas.Serializer.run_sinv as init Lemmas.Serializer.sinv_init) h (Nat.le_refl _)

/-- The executable trace monitor used on the implementation (`Serializer.Mon.step`: one callback
    at a time, started in submission order exactly once, rejected only after cancel, nothing
    accepted after a rejection or after done, done only after cancel when everything accepted has
    run and returned, no panic) never reports a violation on the model, in any interleaving. -/
theorem serializer_monitor_ok [DecidableEq α] (as : List (Act α)) :
    ∀ v ∈ (Mon.run Mon.init (run (init : St α) as).2).2, ∀ c, v ≠ .viol c :=
  Lemmas.Serializer.monitor_ok as init Mon.init Lemmas.Serializer.sinv_init Lemmas.Serializer.mc_init

/-- The two quiescence checks of the op-level driver are theorems too: whenever the model's run
    goroutine is parked or has exited, the monitor state coupled to it passes `Mon.quiescent`. -/
theorem serializer_quiescent_ok [DecidableEq α] (as : List (Act α))
    (hq : tick (run (init : St α) as).1 = (run (init : St α) as).1) :
    ∀ c, (Mon.run Mon.init (run (init : St α) as).2).1.quiescent (run (init : St α) as).1.fired ≠ .viol c := by
  have hinv := Lemmas.Serializer.run_sinv as (init : St α) Lemmas.Serializer.sinv_init
  have hmc := Lemmas.Serializer.run_mc as (init : St α) Mon.init Lemmas.Serializer.sinv_init Lemmas.Serializer.mc_init
  have hp := Lemmas.Serializer.tick_progress _ hinv
  generalize (run init as).1 = s at *
  generalize (Mon.run Mon.init (run init as).2).1 = m at *
  obtain ⟨m1, m2, m3, m4, m5⟩ := hmc
  rw [hq] at hp
  rcases hp with hp | ⟨h1, h2, h3⟩ | hp
  · omega
  · simp [Mon.quiescent, m1, h2, h3]
  · obtain ⟨⟨i1, i2⟩, i3, i4, i5, i6, i7, i8⟩ := hinv
    have hpc := i6.mp hp
    obtain ⟨hcc, hch⟩ := i7 hpc
    have hcd : s.buf.closed = true := by rw [i1]; exact hcc
    obtain ⟨hcl, hbl⟩ := i2 hcd
    simp [Mon.quiescent, m1, m4, hp, pending, hpc, inflight, Unbounded.abs, hch, hbl]

end serializer

/-! ## 3. `grpcsync.PubSub` -/
section pubsub
open GrpcModel.PubSub

/-- Nothing after unsubscription: a message is only ever handed to a subscriber that is subscribed
    at that very moment (the check and `OnMessage` are one atomic step under `ps.mu`), and
    unsubscribing removes the subscriber. No reachability hypothesis is needed. -/
theorem pubsub_nothing_after_unsubscribe (st : St) (a : Act) (s v : Nat)
    (h : (step st a).2 = .delivered s v) : s ∈ st.subs ∧ a = .run := by
  cases a <;> simp only [step] at h
  case subscribe => simp at h
  case unsubscribe => simp at h
  case publish => simp at h
  case cancel => simp at h
  case fire => split at h <;> simp at h
  case ret => simp at h
  case run =>
    split at h
    · split at h
      · rename_i hc
        simp only [Ev.delivered.injEq] at h
        obtain ⟨rfl, _⟩ := h
        exact ⟨by simpa using hc, rfl⟩
      · simp at h
    · simp at h

theorem pubsub_unsubscribe_removes (st : St) (s : Nat) : s ∉ (step st (.unsubscribe s)).1.subs := by
  simp [step]

/-- Per subscriber: latest value at subscription first, then every later publish, in publish order,
    each at most once, nothing else — in every interleaving in which each Subscriber value
    subscribes at most once (`Fresh`). Stated through the executable trace monitor
    `PubSub.Mon.step` that is also run on the implementation: it keeps, per subscriber, the list of
    deliveries owed (the message current at Subscribe, then each message published while
    subscribed and before the PubSub was stopped) and accepts a delivery only if the subscriber is
    subscribed now and the delivered value is the first one owed to it. -/
theorem pubsub_subscriber_sees_latest_then_publish_order (as : List Act) (hf : Fresh [] as) :
    ∀ v ∈ (Mon.run Mon.init (run init as).2).2, ∀ c, v ≠ .viol c :=
  (Lemmas.PubSub.monitor_ok as init Mon.init Lemmas.PubSub.pinv_init Lemmas.PubSub.pc_init hf).1

/-- … and nothing owed is dropped: whenever the serializer has nothing pending, every delivery the
    monitor considers owed has been made (so with `serializer_never_stuck`, every value published
    before the stop reaches every subscriber that stays subscribed). -/
theorem pubsub_all_owed_delivered_when_idle (as : List Act) (hf : Fresh [] as)
    (hidle : Serializer.pending (run init as).1.ser = []) :
    (Mon.run Mon.init (run init as).2).1.pend = [] := by
  have h := (Lemmas.PubSub.monitor_ok as init Mon.init Lemmas.PubSub.pinv_init Lemmas.PubSub.pc_init hf).2.1
  obtain ⟨_, _, _, h4⟩ := h
  rw [h4]; simp [Lemmas.PubSub.owed, hidle]

/-- Outside that domain the statement is FALSE of the code as it is: a Subscriber that
    unsubscribes and subscribes again while a callback of its first subscription is still queued
    receives that stale message (published before, and superseded at, its new subscription) before
    the latest one. Witness: subscribe 1; publish 7 (callback queued); unsubscribe 1; publish 8;
    subscribe 1 again; run the queue → subscriber 1 gets 7, then 8. -/
theorem pubsub_resubscribe_counterexample :
    ¬ ∀ as : List Act, ∀ v ∈ (Mon.run Mon.init (run init as).2).2, ∀ c, v ≠ .viol c := by
  intro h
  have := h [.subscribe 1, .publish 7, .unsubscribe 1, .publish 8, .subscribe 1,
             .run, .run, .run, .run] (.viol 2) (by decide) 2
  exact this rfl

end pubsub

/-! ## non-vacuity -/
section examples
open GrpcModel.Unbounded in
example : ((run (init : St Nat) [.put 1, .put 2, .recv, .load, .close, .recv, .load, .recv]).2.map (·.2))
    = [.ok, .ok, .got 1, .none, .none, .got 2, .none, .eos] := by decide
-- the close-while-draining window: Close with a non-empty backlog, end-of-stream only after the drain
open GrpcModel.Unbounded in
example : ((run (init : St Nat) [.put 1, .put 2, .close, .put 3, .recv, .recv, .load, .recv, .recv, .load, .recv]).2.map (·.2))
    = [.ok, .ok, .none, .rejected, .got 1, .none, .none, .got 2, .none, .none, .eos] := by decide
-- the monitor does reject wrong outputs (it is not vacuous)
open GrpcModel.Unbounded in
example : (Mon.step (Mon.step (Mon.init : Mon Nat) (.put 1) .ok).1 .recv .eos).2 = .viol 4 := by decide
open GrpcModel.Unbounded in
example : (Mon.step (Mon.step (Mon.init : Mon Nat) (.put 1) .ok).1 .recv .none).2 = .viol 5 := by decide
open GrpcModel.Serializer in
example : (run (init : St Nat) [.sched 1, .run, .sched 2, .cancel, .run, .fire, .sched 3, .run, .run, .ret,
      .run, .run, .run, .ret, .run]).2
    = [.accepted 1, .none, .accepted 2, .cancelled, .none, .closed, .rejected 3, .none, .started 1, .ended 1,
       .none, .none, .started 2, .ended 2, .done] := by decide
open GrpcModel.Serializer in
example : (Mon.step (Mon.step (Mon.init : Mon Nat) (.accepted 1)).1 (.started 2)).2 = .viol 5 := by decide
open GrpcModel.PubSub in
example : (run init [.publish 5, .subscribe 1, .subscribe 2, .publish 6, .run, .run, .run, .run, .ret,
      .run, .run, .run, .ret, .run, .run, .run]).2.filter (fun e => match e with | .delivered .. => true | _ => false)
    = [.delivered 1 5, .delivered 2 5, .delivered 1 6] := by decide
open GrpcModel.PubSub in
example : Fresh [] [.subscribe 1, .publish 7, .unsubscribe 1, .subscribe 2] := by simp [Fresh]
end examples

end GrpcProofs.C31
