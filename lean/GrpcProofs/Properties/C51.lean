import GrpcProofs.Lemmas.ClusterRefs2
import GrpcProofs.Lemmas.PluginRefs
/-!
# C51  A cluster stays usable until every RPC routed to it is committed

Model: `GrpcModel/Model/ClusterRefs.lean` (resolver reference counts + dependency-manager cluster
subscriptions).  `run ops` is the state after ANY sequence of
`rds S` (route update processed by the dependency manager), `deliver` (the resolver processes the
oldest queued update), `select r c` (SelectConfig routes RPC r to cluster c), `commit r` (OnCommitted).

Statement, clause by clause:
 1. "the cluster stays in the channel's configuration until the RPC is committed":
    `selected_cluster_in_config_until_commit` (service config: PROVED for all interleavings);
    "…and its load balancer stays alive" needs the cluster in the XDSConfig given to the channel as
    well: FALSE for the unchanged code — `selected_cluster_in_xdsconfig_until_commit_counterexample`.
 2. "the commit hook runs at most once per RPC": `commit_at_most_once`.
 3. "once all such RPCs are done the removed cluster is dropped": FALSE for the unchanged code —
    `dropped_after_last_reference_counterexample`; proved when no clusterInfo with a used
    unsubscribe is re-referenced — `dropped_after_last_reference_partial`.
-/
namespace GrpcProofs.C51
open GrpcModel.ClusterRefs GrpcProofs.Lemmas.ClusterRefs

/-- The reference count of every active cluster is exactly (1 if the current config selector names
    it) + (number of uncommitted RPCs routed to it); clusters not in the table have no references. -/
theorem refcount_is_selector_plus_inflight (ops : List Op) (c : Name) :
    rc (run ops).active c = ind ((curList (run ops)).contains c) + inflightCount (run ops) c :=
  (run_inv1 ops).eq c

/-- Clause 1 (service config): in every reachable state, every RPC that was routed to a cluster and
    is not committed finds that cluster among the children of the last service config pushed to
    the channel — whatever route updates, deliveries and other RPCs happened in between. -/
theorem selected_cluster_in_config_until_commit (ops : List Op) : usableSC (run ops) = true := by
  have hi := run_inv1 ops
  unfold usableSC inflight
  rw [List.all_eq_true]
  intro c hc
  obtain ⟨r, hr, rfl⟩ := List.mem_map.mp hc
  have hr' := List.mem_filter.mp hr
  have hpos : inflightCount (run ops) r.cluster ≥ 1 := by
    unfold inflightCount
    apply List.length_pos_of_mem (a := r)
    rw [List.mem_filter]
    exact ⟨hr'.1, by simpa using hr'.2⟩
  have := hi.sc r.cluster (by rw [hi.eq]; omega)
  simpa using this

/-- Clause 2: the reference an RPC holds is released at most once, however often OnCommitted is
    invoked (`commits` logs every release). -/
theorem commit_at_most_once (ops : List Op) : (run ops).commits.Nodup :=
  (run_inv1 ops).commitsNd

/-! ### what the unchanged code does NOT guarantee (finding F36), on a concrete interleaving -/

/-- route {1}; RPC 1 → cluster 1; route {2}; route {1} reaches the dependency manager; RPC 1 commits
    BEFORE the resolver processes that update (its clusterInfo for 1 drops to 0: unsubscribe is
    spent); the resolver re-references the same clusterInfo; RPC 2 → cluster 1; route {2}. -/
def witness : List Op :=
  [.rds [1], .deliver, .select 1 1, .rds [2], .deliver, .rds [1], .commit 1, .deliver, .deliver,
   .select 2 1, .rds [2], .deliver, .deliver]

/-- Clause 1, XDSConfig part, is violated: RPC 2 is uncommitted and routed to cluster 1, no update is
    pending, the service config still has cluster 1, but the XDSConfig handed to the channel does not. -/
theorem selected_cluster_in_xdsconfig_until_commit_counterexample :
    ¬ (∀ ops : List Op, usableXC (run ops) = true) := by
  intro h
  have := h witness
  revert this
  decide

theorem witness_facts :
    inflight (run witness) = [1] ∧ (run witness).queue = [] ∧ (run witness).pushedSC = [1, 2] ∧
    (run witness).pushedXC = [2] ∧ (run witness).reusedSpent = true := by decide

/-- A second, transient way to lose the cluster from the XDSConfig (finding F37), without any reuse of
    a spent clusterInfo: an update built by the dependency manager before the resolver subscribed to
    cluster 1 is applied after an RPC was routed to it. -/
theorem stale_snapshot_counterexample :
    let s := run [.rds [1], .rds [3], .deliver, .select 8 1, .deliver]
    inflight s = [1] ∧ s.pushedSC = [1, 3] ∧ s.pushedXC = [3] ∧ s.reusedSpent = false := by decide

/-- Clause 3 is violated: after RPC 2 commits nothing refers to cluster 1 any more and nothing is
    pending, yet it stays in the service config (unsubscribe is a no-op, no update is triggered). -/
theorem dropped_after_last_reference_counterexample :
    ¬ (∀ ops : List Op, quiescent (run ops) = true → dropped (run ops) = true) := by
  intro h
  have := h (witness ++ [.commit 2, .deliver])
  revert this
  decide

/-- Clause 3, PARTIAL (full statement: `∀ ops, quiescent (run ops) → dropped (run ops)`, refuted above):
    in every run in which no clusterInfo whose unsubscribe was already used is re-referenced
    (`reusedSpent = false`, a ghost flag set by `acquireCS`), whenever nothing is pending — no queued
    update, no uncommitted RPC — the service config lists only clusters of the current routes.
    So the re-reference of a spent clusterInfo is the only way clause 3 can fail in the model. -/
theorem dropped_after_last_reference_partial (ops : List Op) (hr : (run ops).reusedSpent = false)
    (hq : quiescent (run ops) = true) : dropped (run ops) = true :=
  dropped_of_not_reused ops hr hq

/-- non-vacuity of the partial statement: a run with removals, overlapping RPCs and a re-added
    cluster that ends quiescent without any spent re-reference -/
example :
    let s := run [.rds [1, 2], .deliver, .select 1 1, .select 2 2, .rds [3], .deliver, .commit 1, .deliver,
                  .rds [1, 3], .deliver, .commit 2, .deliver, .deliver]
    s.reusedSpent = false ∧ quiescent s = true ∧ s.pushedSC = [3, 1] := by decide

/-- a cluster named by several route entries is referenced ONCE by the config selector (the theorems
    above are about `rds` lists with repetitions as well): it is dropped after the routes leave it … -/
example : (run [.rds [1, 1], .deliver, .rds [2], .deliver, .deliver]).pushedSC = [2] := by decide
/-- … and kept while an RPC routed to it is uncommitted -/
example :
    let s := run [.rds [1, 1], .deliver, .select 1 1, .rds [2], .deliver]
    s.pushedSC = [1, 2] ∧ s.active.map (fun i => (i.name, i.refCount)) = [(1, 1), (2, 1)] := by decide

/-! ### cluster specifier plugins (model: GrpcModel/Model/PluginRefs.lean) -/

/-- The config selector handed to the channel is always the resolver's CURRENT one — in particular
    after the callback that regenerates the service config when the last reference to a plugin is
    released (late OnCommitted on a removed plugin): a selector that was replaced (and stopped) is
    never installed again. For every sequence of updates, regenerations, selections and commits. -/
theorem installed_selector_is_current (ops : List GrpcModel.PluginRefs.Op) :
    (GrpcModel.PluginRefs.run ops).pushedSel = (GrpcModel.PluginRefs.run ops).curSel :=
  GrpcProofs.Lemmas.PluginRefs.run_sel ops

/-- non-vacuity: a late commit on a removed plugin regenerates the config {p2} with selector #2 -/
example :
    let s := GrpcModel.PluginRefs.run [.update [1], .select 1 1, .update [2], .commit 1, .regen]
    s.pushedSP = [2] ∧ s.pushedSel = 2 ∧ s.pending = 0 := by decide

end GrpcProofs.C51
