/-
C34  pick_first connects in order, picks only READY, keeps sticky TF.
Model: GrpcModel/Model/PickFirst.lean (full port of balancer/pickfirst/pickfirst.go).
Helper lemmas: GrpcProofs/Lemmas/PickFirstAddr.lean (pre-processing), GrpcProofs/Lemmas/PickFirst.lean.
A history is `run {} ops`; `RunOk {} ops` says the (fake) channel keeps the rules the real channel
guarantees: states only for existing SubConns, SHUTDOWN only after Shutdown(), health updates only to
a listener registered since the SubConn last became READY (`opOk`).
-/
import GrpcProofs.Lemmas.PickFirstAddr
import GrpcProofs.Lemmas.PickFirst
import GrpcProofs.Lemmas.PickFirstReady
import GrpcProofs.Lemmas.PickFirstSticky
import GrpcModel.Generated.PickFirst
namespace GrpcProofs.C34
open GrpcModel.PickFirst GrpcProofs.Lemmas.PickFirst GrpcProofs.Lemmas.PickFirstAddr GrpcProofs.Lemmas.PickFirstReady
open GrpcModel.LbConnState (ConnState)

/-- T4: the three address families and the happy-eyeballs delay the harness waits for (250 ms). -/
theorem constants_pinned :
    GrpcModel.Generated.pfIpAddrFamilyNames = ["ipAddrFamilyUnknown", "ipAddrFamilyV4", "ipAddrFamilyV6"] ∧
    GrpcModel.Generated.pfConnectionDelayInterval = 250000000 := by decide

/-- deDupAddresses: no duplicates, exactly the members of the input, in first-occurrence order. -/
theorem dedup_spec (l : List Addr) :
    (deDup l).Nodup ∧ (∀ a, a ∈ deDup l ↔ a ∈ l) ∧ (deDup l).Sublist l := by
  obtain ⟨h1, h2, h3⟩ := deDupAux_spec [] l
  exact ⟨h1, fun a => by have := h2 a; simpa [deDup] using this, h3⟩

/-- interleaveAddresses is a permutation of its input. -/
theorem interleave_perm (l : List Addr) : (interleave l).Perm l := (interleave_spec l).1

/-- … that preserves the relative order inside each address family. -/
theorem interleave_preserves_family_order (l : List Addr) (f : Fam) :
    (interleave l).filter (·.fam = f) = l.filter (·.fam = f) := (interleave_spec l).2 f

/-- … and starts with the resolver's first address (RFC 8305: the first family stays first). -/
theorem interleave_starts_with_first_address (l : List Addr) : (interleave l).head? = l.head? :=
  interleave_head l

/-- Address pre-processing is a permutation of the de-duplicated input that preserves the relative
    order within each family (the monitor's `prepOk`, for every input list). -/
theorem preprocess_ok (inp : List Addr) : prepOk inp (preprocess inp) = true := by
  obtain ⟨h1, h2⟩ := interleave_spec (deDup inp)
  simp only [prepOk, preprocess, Bool.and_eq_true, List.isPerm_iff, List.all_eq_true, decide_eq_true_eq]
  exact ⟨h1, fun f _ => decide_eq_true (h2 f)⟩

/-- pick_first never reports READY unless it is with a SubConn whose raw state is READY — every op,
    every reachable state: READY is reported exactly with a SubConn picker, and that SubConn is in the
    balancer's map with rawConnectivityState = READY. -/
theorem ready_reported_only_for_raw_ready (ops : List Op) (op : Op) (hok : RunOk {} (ops ++ [op]))
    (st : ConnState) (p : Picker) (h : Ev.push st p ∈ (step (run {} ops) op).2.evs) :
    (st = .ready ↔ ∃ X, p = .ready X) ∧
    ∀ X, p = .ready X → ∃ sc ∈ (step (run {} ops) op).1.subConns, sc.id = X ∧ sc.raw = .ready := by
  have split_ok : ∀ (s : St) (l : List Op), RunOk s (l ++ [op]) → RunOk s l ∧ opOk (run s l) op = true := by
    intro s l
    induction l generalizing s with
    | nil => intro h; exact ⟨trivial, h.1⟩
    | cons o t ih => intro h; obtain ⟨a, b⟩ := ih _ h.2; exact ⟨⟨h.1, a⟩, b⟩
  obtain ⟨h1, h2⟩ := split_ok {} ops hok
  exact (step_post _ op (good_run {} ops good_init h1) h2).2 st p h

/-- pick_first never returns a SubConn unless that SubConn's latest (raw) state is READY — every
    reachable state of a balancer that was not closed: a Pick on the channel's picker returns SubConn X
    only if X is the one SubConn of the map and its rawConnectivityState is READY; and whenever the
    reported state is READY the picker is that SubConn's. -/
theorem pick_returns_only_ready_subconn (ops : List Op) (hok : RunOk {} ops) (hns : (run {} ops).state ≠ .shutdown) :
    (∀ X, (pick (run {} ops)).2.2 = .sc X → ∃ sc, (run {} ops).subConns = [sc] ∧ sc.id = X ∧ sc.raw = .ready) ∧
    ((run {} ops).state = .ready →
      ∃ sc, (run {} ops).subConns = [sc] ∧ sc.raw = .ready ∧ (run {} ops).picker = .ready sc.id) := by
  have hr := reg_ready _ (reg_run {} ops good_init reg_init hok) hns
  exact ⟨fun X hX => hr.1 X (pick_sc _ X hX), hr.2⟩

/-- A happy-eyeballs timer that was cancelled (a SubConn became READY / failed, a resolver update, Close)
    may already have fired: its callback is then waiting for b.mu and Stop() cannot stop it.  When it
    finally runs it does nothing — no SubConn is created or connected, nothing is reported, and the
    balancer's map, state, picker, address index and armed timer are what they were (the `cancelled`
    flag set under the mutex; a check of "is the address still current" would not do: READY re-seeks
    the index to the very address the timer was armed for). -/
theorem stale_timer_callback_is_inert (s : St) :
    (step s .late).2.evs = [] ∧ (step s .late).1.subConns = s.subConns ∧ (step s .late).1.state = s.state ∧
    (step s .late).1.picker = s.picker ∧ (step s .late).1.idx = s.idx ∧ (step s .late).1.addrs = s.addrs ∧
    (step s .late).1.timer = s.timer ∧ (step s .late).1.firstPass = s.firstPass := by
  simp only [step, lateFire_eq]
  split <;> simp

/-- Once one SubConn becomes READY all other SubConns are shut down: afterwards the map holds that
    SubConn only, and Shutdown() was called on every other SubConn of the map. -/
theorem others_shut_down_on_ready (ops : List Op) (hok : RunOk {} ops) (id err : Nat) (sd : SC)
    (ha : activeSC (run {} ops) id = some sd) :
    (step (run {} ops) (.sc id .ready err)).1.subConns.map (·.id) = [id] ∧
    ∀ x ∈ (run {} ops).subConns, x.id ≠ id → Ev.sd x.id ∈ (step (run {} ops) (.sc id .ready err)).2.evs :=
  scState_ready_others _ id err sd (good_run {} ops good_init hok).wf ha

/-- Within a pass connections are requested in list order, at most once per address: the positions
    of the address list on which Connect() was requested since the index was last reset are strictly
    increasing and never ahead of the index; and every Connect() issued by a connection request while
    the first pass is still running is the logged one, on the SubConn of the address at the index. -/
theorem connect_order_is_list_order (ops : List Op) (hok : RunOk {} ops) :
    (run {} ops).passLog.Pairwise (· < ·) ∧ (∀ i ∈ (run {} ops).passLog, i ≤ (run {} ops).idx) ∧
    ∀ id, Ev.connect id ∈ (requestConnection (run {} ops)).2 →
      (requestConnection (run {} ops)).1.firstPass = false ∨
      ((requestConnection (run {} ops)).1.passLog = (run {} ops).passLog ++ [(requestConnection (run {} ops)).1.idx] ∧
        ∃ sc ∈ (requestConnection (run {} ops)).1.subConns, sc.id = id ∧
          (requestConnection (run {} ops)).1.addrs[(requestConnection (run {} ops)).1.idx]? = some sc.addr) := by
  have hg := good_run {} ops good_init hok
  exact ⟨hg.pl.1, hg.pl.2, fun id h => requestConnection_connects _ id h⟩

/-- After every address failed TRANSIENT_FAILURE is reported: when a SubConn reports TRANSIENT_FAILURE
    during the first pass and afterwards the index is past the end of the list and every SubConn of the
    map has failed in this pass, the balancer is in TRANSIENT_FAILURE and the first pass is over. -/
theorem tf_after_all_failed (s : St) (id err : Nat) (sd : SC) (ha : activeSC s id = some sd)
    (hfp : s.firstPass = true) (hnr : sd.raw ≠ .ready)
    (hv : isValid (scState s id .tf err).1 = false) (hf : ∀ sc ∈ (scState s id .tf err).1.subConns, sc.failed = true) :
    (scState s id .tf err).1.state = .tf ∧ (scState s id .tf err).1.firstPass = false := by
  have e : (scState s id .tf err).1 = (scFirstPass (setSC s (sd.withRaw .tf)) (sd.withRaw .tf) .tf err).1 := by
    have hfp' : (setSC s (sd.withRaw .tf)).firstPass = true := by rw [(setSC_frame _ _).2.2.2.2.2.2.2.1]; exact hfp
    simp [scState, ha, hnr, hfp']
  rw [e] at hv hf ⊢
  exact scFirstPass_tf_endOK _ _ _ hv hf

/-- Sticky TRANSIENT_FAILURE (full statement; code as of /repo 97a72f7).  Take any balancer state
    `s` in which TRANSIENT_FAILURE is the reported state, the address list is not empty and no SubConn is
    READY — the situation pick_first is in after every address failed (`tf_after_all_failed`).  Let
    `ops` be ANY continuation, of any length, made of
      * resolver updates with ANY non-empty address list (addresses added, removed, re-ordered,
        duplicated, shuffled; health listener switched on or off) — each starts a new first pass;
      * SubConn state reports other than the two that end the period: a SubConn of the map becoming
        READY, or going CONNECTING→IDLE (which the code treats as connected-and-dropped, issue 7862);
      * happy-eyeballs timer firings, Picks, ExitIdle, resolver errors, health updates.
    Then after `ops` the balancer is still in that situation, and whatever comes next — one more such
    op, an EMPTY resolver update or Close — reports nothing but TRANSIENT_FAILURE: never CONNECTING,
    never IDLE, never READY.  (After an empty resolver update everything is torn down and the next
    non-empty update starts from CONNECTING: that is the code's documented design and outside this
    statement.)  Before 97a72f7 this was false for resolver updates that added an address or met a
    SubConn that had failed only after the first pass (finding F13: [A]; A fails; [A,B]; B CONNECTING
    ⇒ UpdateState(CONNECTING)); the check still replays that input. -/
theorem sticky_tf (s : St) (hw : WF s) (hst : s.state = .tf) (hne : s.addrs ≠ [])
    (hnr : ∀ sc ∈ s.subConns, sc.raw ≠ .ready) (ops : List Op)
    (hq : GrpcProofs.Lemmas.PickFirstSticky.Quiet s ops) (op : Op) (hok : opOk (run s ops) op = true)
    (hends : GrpcProofs.Lemmas.PickFirstSticky.ends (run s ops) op = false) :
    ((run s ops).state = .tf ∧ (run s ops).addrs ≠ [] ∧ ∀ sc ∈ (run s ops).subConns, sc.raw ≠ .ready) ∧
    ∀ st p, Ev.push st p ∈ (step (run s ops) op).2.evs → st = .tf := by
  have h := GrpcProofs.Lemmas.PickFirstSticky.inTF_run s ops ⟨hw, hst, hne, hnr⟩ hq
  exact ⟨⟨h.state, h.addrs, h.noReady⟩, (GrpcProofs.Lemmas.PickFirstSticky.inTF_step _ op h hok hends).1⟩

-- non-vacuity
example : preprocess [⟨.v6, 1⟩, ⟨.v6, 2⟩, ⟨.v4, 1⟩, ⟨.v6, 1⟩, ⟨.unknown, 1⟩, ⟨.v4, 2⟩]
    = [⟨.v6, 1⟩, ⟨.v4, 1⟩, ⟨.unknown, 1⟩, ⟨.v6, 2⟩, ⟨.v4, 2⟩] := by decide
example : (run {} [.update false [⟨.v4, 1⟩, ⟨.v4, 2⟩], .sc 1 .connecting 0, .tick, .sc 2 .connecting 0, .sc 2 .ready 0]).subConns.map (·.id) = [2] := by decide
example : (step (run {} [.update false [⟨.v4, 1⟩, ⟨.v4, 2⟩], .sc 1 .connecting 0, .sc 1 .tf 1, .sc 2 .connecting 0]) (.sc 2 .tf 2)).2.evs
    = [.push .tf (.connErr 2)] := by decide
-- the former F13 witness: in TRANSIENT_FAILURE the resolver adds an address; its SubConn is connected to, and its
-- CONNECTING report is no longer forwarded
example : (step (run {} [.update false [⟨.v4, 1⟩], .sc 1 .connecting 0, .sc 1 .tf 1]) (.update false [⟨.v4, 1⟩, ⟨.v4, 2⟩])).2.evs
    = [.newSc 2 ⟨.v4, 2⟩, .connect 2] := by decide
example : (step (run {} [.update false [⟨.v4, 1⟩], .sc 1 .connecting 0, .sc 1 .tf 1, .update false [⟨.v4, 1⟩, ⟨.v4, 2⟩]]) (.sc 2 .connecting 0)).2.evs
    = [] := by decide
example : GrpcProofs.Lemmas.PickFirstSticky.Quiet (run {} [.update false [⟨.v4, 1⟩], .sc 1 .connecting 0, .sc 1 .tf 1])
    [.update false [⟨.v4, 1⟩, ⟨.v4, 2⟩], .sc 2 .connecting 0, .sc 2 .tf 3, .tick, .resErr] := by
  simp only [GrpcProofs.Lemmas.PickFirstSticky.Quiet]; decide

end GrpcProofs.C34
